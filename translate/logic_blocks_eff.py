"""GEN job for C18: the short methods of mpf/devices/logic_blocks.py -> lean/MpfVerif/Gen/LogicBlockOps.lean

Every method in METHODS becomes a `List SSt` literal for the stateful interpreter lean/MpfVerif/Model/PyStore.lean (the one
built for C20).  The store holds what the methods read back - the player-state record behind the properties and the two
Counter attributes:
  self.enabled / self.completed / self.value  (properties over self._state.*), self._state.<f>   -> `.env "<f>"` / `.store "<f>"`
  self.ignore_hits, self.hit_value                                                               -> `.env` / `.store`
  self.config['k'] / self.config.get('k')             -> `.cfg "k"`   (for a template: the template object, None when not set)
  self.config['k'].evaluate([])                       -> `.cfg "k()"` (what the template evaluates to now)
  self.delay.reset|add|remove(...)                    -> `.eff "delay" ...` (callback methods as the string "cb:<method>")
  self.machine.events.post(<name>, k=v, ...)          -> `.eff "events" "post" [("event", name), (k, v) ...]`;
      "<text>{}<text>".format(self.name)              -> the literal with `(name)` in place of `{}`
  for event in self.config['k']: self.machine.events.post(event[, **kwargs])
                                                      -> `.eff "events" "post_list" [("list", k), <the kwargs>]`
  args = {"count": e}; args['hits'] = e; self.m(**args)  -> locals `args.count`, `args.hits`; the callee sees `kwargs.<key>`
      for the keys in KWARG_KEYS (a key that was never set reads None - none of these values can be None in Python)
  self.<m>(...) for m in METHODS -> `.call` (callee embedded as data); a call inside an expression is hoisted into `_t<n>`
  return <comparison>                                  -> `.ret (.ite <cd> True False)`
  super().enable()                                     -> dropped after checking that ModeDevice.enable (the next `enable` in the
                                                          MRO of LogicBlock) has no statements
  logging, docstrings, `del kwargs`                    -> dropped
Anything else raises Untranslatable: the tie is broken for this run (never skipped).
"""
import ast
import os

from translate.py2lean import Translator, Untranslatable, lean_str, DROPPED_CALL_PREFIXES
from translate.py2eff import class_methods, params_of

REPO = os.environ.get("VERIF_REPO", "/repo")
STATE = ["enabled", "completed", "value"]
ATTRS = ["ignore_hits", "hit_value"]
# (class, method) in dependency order
METHODS = [("LogicBlock", "post_update_event"), ("LogicBlock", "_logic_block_timer_start"), ("LogicBlock", "enable"),
           ("LogicBlock", "disable"), ("Counter", "get_start_value"), ("LogicBlock", "reset"), ("LogicBlock", "restart"),
           ("LogicBlock", "_logic_block_timeout"), ("LogicBlock", "complete"), ("LogicBlock", "_post_hit_events"),
           ("Counter", "check_complete"), ("Counter", "stop_ignoring_hits"), ("Counter", "count")]
KWARG_KEYS = ["count", "hits", "remaining"]
BIN = {ast.Add: "+", ast.Sub: "-", ast.Mult: "*"}


def lean_name(m):
    return ("p" + m) if m.startswith("_") else m


class LBTranslator(Translator):
    def __init__(self, methods):
        env = {"self." + a: a for a in STATE + ATTRS}
        env.update({"self._state." + a: a for a in STATE})
        super().__init__(env)
        self.methods = methods          # name -> FunctionDef (Counter's view: its own methods over LogicBlock's)
        self.names = [m for _, m in METHODS]
        self.pre = []
        self.tmp = 0
        self.dict_locals = set()

    # ---- expressions --------------------------------------------------------------------------------------------------
    def ex(self, e):
        if isinstance(e, ast.Call):
            f = e.func
            if isinstance(f, ast.Attribute) and f.attr == "evaluate" and len(e.args) == 1 and ast.unparse(e.args[0]) == "[]" \
                    and not e.keywords and isinstance(f.value, ast.Subscript) and ast.unparse(f.value.value) == "self.config" \
                    and isinstance(f.value.slice, ast.Constant):
                return "(.cfg %s)" % lean_str(f.value.slice.value + "()")
            if ast.unparse(f) == "self.config.get" and len(e.args) == 1 and isinstance(e.args[0], ast.Constant) and not e.keywords:
                return "(.cfg %s)" % lean_str(e.args[0].value)
            if isinstance(f, ast.Attribute) and f.attr == "format" and isinstance(f.value, ast.Constant) \
                    and isinstance(f.value.value, str) and len(e.args) == 1 and ast.unparse(e.args[0]) == "self.name" \
                    and not e.keywords and f.value.value.count("{}") == 1:
                return "(.lit (.str %s))" % lean_str(f.value.value.replace("{}", "(name)"))
            if isinstance(f, ast.Attribute) and isinstance(f.value, ast.Name) and f.value.id == "self" and f.attr in self.names:
                self.tmp += 1
                t = "_t%d" % self.tmp
                self.pre.append(self.call_stmt(t, e))
                return "(.var %s)" % lean_str(t)
        if isinstance(e, ast.Attribute) and isinstance(e.value, ast.Name) and e.value.id == "self" and e.attr in self.methods \
                and ast.unparse(e) not in self.env_map:
            return "(.lit (.str %s))" % lean_str("cb:" + e.attr)
        if isinstance(e, ast.Compare):
            return "(.ite %s (.lit (.bool true)) (.lit (.bool false)))" % self.cd(e)
        return super().ex(e)

    def sex(self, e):
        if isinstance(e, ast.BinOp) and type(e.op) in BIN:
            return "(.bin %s %s %s)" % (lean_str(BIN[type(e.op)]), self.sex(e.left), self.sex(e.right))
        return "(.pure %s)" % self.ex(e)

    def args_text(self, pairs):
        return "[" + ", ".join("(%s, %s)" % (lean_str(k), v) for k, v in pairs) + "]"

    # ---- calls --------------------------------------------------------------------------------------------------------
    def call_stmt(self, target, call):
        f = call.func
        src = ast.unparse(f)
        t = "(some %s)" % lean_str(target) if target else "none"
        if isinstance(f, ast.Attribute) and isinstance(f.value, ast.Name) and f.value.id == "self" and f.attr in self.names:
            names, kwname = params_of(self.methods[f.attr])
            pairs = []
            if len(call.args) > len(names):
                raise Untranslatable("too many positional arguments: " + ast.unparse(call)[:80])
            for n, a in zip(names, call.args):
                pairs.append((n, self.sex(a)))
            for kw in call.keywords:
                if kw.arg is None:
                    if kwname is None or not isinstance(kw.value, ast.Name) or kw.value.id not in self.dict_locals:
                        raise Untranslatable("** argument: " + ast.unparse(call)[:80])
                    pairs += [("%s.%s" % (kwname, k), "(.pure (.var %s))" % lean_str("%s.%s" % (kw.value.id, k)))
                              for k in KWARG_KEYS]
                elif kw.arg in names:
                    pairs.append((kw.arg, self.sex(kw.value)))
                else:
                    raise Untranslatable("keyword argument: " + ast.unparse(call)[:80])
            return ".call %s %s %s" % (t, lean_name(f.attr), self.args_text(pairs))
        if target is not None:
            raise Untranslatable("result of a collaborator call is used: " + src)
        if src == "self.machine.events.post":
            if len(call.args) != 1:
                raise Untranslatable("event post: " + ast.unparse(call)[:80])
            pairs = [("event", self.sex(call.args[0]))]
            for kw in call.keywords:
                if kw.arg is None:
                    raise Untranslatable("event post with **: " + ast.unparse(call)[:80])
                pairs.append((kw.arg, self.sex(kw.value)))
            return '.eff "events" "post" %s' % self.args_text(pairs)
        if src in ("self.delay.reset", "self.delay.add", "self.delay.remove"):
            if call.args and src.endswith("remove") and len(call.args) == 1 and not call.keywords:
                pairs = [("name", self.sex(call.args[0]))]
            elif call.args:
                raise Untranslatable("positional delay arguments: " + ast.unparse(call)[:80])
            else:
                pairs = [(k.arg, self.sex(k.value)) for k in call.keywords]
            return '.eff "delay" %s %s' % (lean_str(f.attr), self.args_text(pairs))
        raise Untranslatable("call: " + ast.unparse(call)[:80])

    # ---- statements ---------------------------------------------------------------------------------------------------
    def flush(self, out, pad):
        for p in self.pre:
            out.append(pad + p)
        self.pre = []

    def join(self, lines):
        return ",\n".join(x.strip() if i == 0 else x for i, x in enumerate(lines))

    def sstmts(self, body, ind, kwname=None):
        out = []
        pad = " " * ind
        for s in body:
            if self.pre:
                raise Untranslatable("internal: unflushed temporaries")
            if isinstance(s, ast.Expr):
                if isinstance(s.value, ast.Constant) and isinstance(s.value.value, str):
                    continue
                if isinstance(s.value, ast.Call):
                    fsrc = ast.unparse(s.value.func)
                    if fsrc.startswith(DROPPED_CALL_PREFIXES):
                        continue
                    if fsrc == "super().enable" and not s.value.args and not s.value.keywords:
                        continue                      # checked in generate(): the next enable in the MRO is empty
                    st = self.call_stmt(None, s.value)
                    self.flush(out, pad)
                    out.append(pad + st)
                    continue
                raise Untranslatable("expression statement: " + ast.unparse(s)[:80])
            if isinstance(s, ast.Delete):
                if all(isinstance(t, ast.Name) for t in s.targets):
                    continue
                raise Untranslatable("del: " + ast.unparse(s)[:80])
            if isinstance(s, ast.Assign) and len(s.targets) == 1:
                for st in self.assign(s.targets[0], s.value):
                    self.flush(out, pad)
                    out.append(pad + st)
            elif isinstance(s, ast.AugAssign) and type(s.op) in BIN:
                for st in self.assign(s.target, ast.BinOp(left=s.target, op=s.op, right=s.value)):
                    self.flush(out, pad)
                    out.append(pad + st)
            elif isinstance(s, ast.If):
                c = self.cd(s.test)
                self.flush(out, pad)
                body_l = self.sstmts(s.body, ind + 2, kwname)
                else_l = self.sstmts(s.orelse, ind + 2, kwname)
                out.append("%s.ifThen %s\n%s  [%s]\n%s  [%s]" % (pad, c, pad, self.join(body_l), pad, self.join(else_l)))
            elif isinstance(s, ast.For):
                out.append(pad + self.post_loop(s, kwname))
            elif isinstance(s, ast.Return):
                st = ".ret %s" % (self.sex(s.value) if s.value is not None else "(.pure (.lit .none))")
                self.flush(out, pad)
                out.append(pad + st)
            else:
                raise Untranslatable("statement: " + ast.unparse(s)[:80])
        return out

    def post_loop(self, s, kwname):
        """for event in self.config['k']: self.machine.events.post(event[, **kwargs])"""
        it = s.iter
        ok = (not s.orelse and isinstance(s.target, ast.Name) and isinstance(it, ast.Subscript)
              and ast.unparse(it.value) == "self.config" and isinstance(it.slice, ast.Constant) and len(s.body) >= 1)
        body = [b for b in s.body if not (isinstance(b, ast.Expr) and isinstance(b.value, ast.Constant))] if ok else []
        if not ok or len(body) != 1 or not isinstance(body[0], ast.Expr) or not isinstance(body[0].value, ast.Call):
            raise Untranslatable("loop: " + ast.unparse(s)[:80])
        call = body[0].value
        if ast.unparse(call.func) != "self.machine.events.post" or len(call.args) != 1 \
                or ast.unparse(call.args[0]) != s.target.id:
            raise Untranslatable("loop body: " + ast.unparse(s)[:80])
        pairs = [("list", "(.pure (.lit (.str %s)))" % lean_str(it.slice.value))]
        for kw in call.keywords:
            if kw.arg is not None or kwname is None or ast.unparse(kw.value) != kwname:
                raise Untranslatable("loop post arguments: " + ast.unparse(s)[:80])
            pairs += [(k, "(.pure (.var %s))" % lean_str("%s.%s" % (kwname, k))) for k in KWARG_KEYS]
        return '.eff "events" "post_list" %s' % self.args_text(pairs)

    def assign(self, tgt, value):
        src = ast.unparse(tgt)
        if src in self.env_map:
            return [".store %s %s" % (lean_str(self.env_map[src]), self.sex(value))]
        if isinstance(tgt, ast.Subscript) and isinstance(tgt.value, ast.Name) and tgt.value.id in self.dict_locals \
                and isinstance(tgt.slice, ast.Constant) and tgt.slice.value in KWARG_KEYS:
            return [".assign %s %s" % (lean_str("%s.%s" % (tgt.value.id, tgt.slice.value)), self.sex(value))]
        if not isinstance(tgt, ast.Name):
            raise Untranslatable("assignment target: " + src[:80])
        if isinstance(value, ast.Dict):
            if not all(isinstance(k, ast.Constant) and k.value in KWARG_KEYS for k in value.keys):
                raise Untranslatable("dict literal: " + ast.unparse(value)[:80])
            self.dict_locals.add(tgt.id)
            return [".assign %s %s" % (lean_str("%s.%s" % (tgt.id, k.value)), self.sex(v)) for k, v in zip(value.keys, value.values)]
        return [".assign %s %s" % (lean_str(tgt.id), self.sex(value))]

    def method(self, name):
        fn = self.methods[name]
        if not isinstance(fn, ast.FunctionDef) or fn.args.vararg or fn.args.kwonlyargs or fn.args.posonlyargs:
            raise Untranslatable("signature of " + name)
        params, kwname = params_of(fn)
        for d in fn.args.defaults:
            if not (isinstance(d, ast.Constant) and d.value is None):
                raise Untranslatable("default of " + name)
        self.dict_locals = set()
        # a `del kwargs` method ignores its keyword arguments; otherwise they are only passed on to the event posts
        body = self.sstmts(fn.body, 4, kwname)
        return params, "def %s : List SSt :=\n  [\n%s\n  ]\n" % (lean_name(name), ",\n".join(body))


def generate():
    tree = ast.parse(open(os.path.join(REPO, "mpf/devices/logic_blocks.py")).read())
    lb, counter = class_methods(tree, "LogicBlock"), class_methods(tree, "Counter")
    methods = dict(lb)
    methods.update(counter)
    for cls, m in METHODS:
        if m not in (lb if cls == "LogicBlock" else counter):
            raise Untranslatable("%s.%s not found" % (cls, m))
        if cls == "LogicBlock" and m in counter:
            raise Untranslatable("Counter overrides %s" % m)
    # super().enable() in LogicBlock.enable: SystemWideDevice has no enable, ModeDevice.enable must be empty
    for path, cls, must_have in (("mpf/core/system_wide_device.py", "SystemWideDevice", False), ("mpf/core/mode_device.py", "ModeDevice", True)):
        ms = class_methods(ast.parse(open(os.path.join(REPO, path)).read()), cls)
        if ("enable" in ms) != must_have:
            raise Untranslatable("%s.enable: the MRO of LogicBlock.enable changed" % cls)
        if must_have and any(not (isinstance(b, ast.Expr) and isinstance(b.value, ast.Constant)) and not isinstance(b, ast.Pass)
                             for b in ms["enable"].body):
            raise Untranslatable("ModeDevice.enable is not empty any more")
    tr = LBTranslator(methods)
    out = ["import MpfVerif.Model.PyStore",
           "/-! GENERATED by translate/logic_blocks_eff.py from mpf/devices/logic_blocks.py — do not edit.",
           "Regenerated on every check; `Props/C18.lean` proves that the hand model `Model/LogicBlock.lean` does what these",
           "programs do (`counter_methods_refine_source`). -/",
           "namespace MpfVerif.Gen.LogicBlockOps", "open MpfVerif.Py", ""]
    for cls, m in METHODS:
        params, text = tr.method(m)
        out.append("/-- `%s.%s(%s)` -/" % (cls, m, ", ".join(params)))
        out.append(text)
    out.append("end MpfVerif.Gen.LogicBlockOps")
    return "MpfVerif/Gen/LogicBlockOps.lean", "\n".join(out) + "\n"


if __name__ == "__main__":
    print(generate()[1])
