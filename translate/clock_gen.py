"""GEN job for C13: mpf/core/clock.py PeriodicTask (__init__, _schedule, get_next_call_time, _run, cancel) and
ClockBase.schedule_once / schedule_interval / unschedule -> lean/MpfVerif/Gen/ClockOps.lean (data for Model/PyEffD.lean).

On top of translate/py2effd.DTranslator (expression / argument machinery reused).  The *attributes* of the object
(`__slots__` of PeriodicTask) are the interpreter's dict: key = attribute name, value = a 1-tuple.
  self.<attr>                 (read, attr in __slots__)  -> hoisted `.dictGet ["_tN.0"] "<attr>"`, then the local `_tN.0`
  self.<attr> = e                                         -> `.dictSet "<attr>" [e]`
  self._loop.<m>(...) / self.loop.<m>(...)                -> effect on the collaborator `loop` (call_at / call_later / time)
  self.<attr>()               (attr holds a callable)     -> effect callback.call(func=<value of attr>); only as a TOP-LEVEL
                                                            statement of the method: Model/ClockGen.lean `execCb` lets the callee
                                                            change the object's attributes there (a callback may cancel its own
                                                            task), so attribute reads after it see what the callback left
  callable(x)  in an `if` test                            -> effect builtins.callable(x) (the oracle answers)
  <param>.cancel()                                        -> effect event.cancel(self=<param>)
  X = PeriodicTask(a, b, c)                               -> `.call none p_init [...]` (runs on the new object's attributes, i.e. the
                                                            dict, which ClockBase itself never touches) ; X = "obj:PeriodicTask"
  try: ... except <Name>: raise E(...)                    -> `.tryExcept body "<Name>" [.raise "E"] []`
  if <attribute/name test>: <logging calls only>          -> dropped (as the source pins drop logging)
  constant parameter defaults                             -> not modelled (every modelled call site passes the argument); listed
                                                            in the generated docstring
Anything else raises Untranslatable.
"""
import ast
import copy
import os

from translate.py2lean import Untranslatable, lean_str, DROPPED_CALL_PREFIXES
from translate.py2eff import EffTranslator, class_methods, params_of
from translate.py2effd import DTranslator

REPO = os.environ.get("VERIF_REPO", "/repo")
TASK_OPS = ["_schedule", "get_next_call_time", "__init__", "_run", "cancel"]
CLOCK_OPS = ["schedule_once", "schedule_interval", "unschedule"]
LOOP_SIGS = {"call_at": (["when", "callback"], None), "call_later": (["delay", "callback"], None), "time": ([], None)}


def lean_name(f):
    if f.startswith("__"):
        return "p_" + f.strip("_")
    return "p" + f if f.startswith("_") else f


def slots_of(tree, cls):
    for node in ast.walk(tree):
        if isinstance(node, ast.ClassDef) and node.name == cls:
            for s in node.body:
                if isinstance(s, ast.Assign) and ast.unparse(s.targets[0]) == "__slots__":
                    return list(ast.literal_eval(s.value))
    raise Untranslatable("__slots__ of %s not found" % cls)


class ATranslator(DTranslator):
    def __init__(self, methods, attrs, effectful, collab, ctors, loop_attr):
        EffTranslator.__init__(self, methods, {}, {}, effectful, collab, {})
        self.d = "self.__no_dict_attribute__"
        self.callables = set()
        self.width = 1
        self.tmp = 0
        self.attrs = set(attrs)
        self.ctors = ctors              # {class name: (lean program name, [param names])}
        self.loop_attr = loop_attr      # "self._loop" / "self.loop": the collaborator, never read as a value except as an argument
        self.tuple_locals = set()
        self.kwname = None
        self.callback_called = False

    def touch(self, what):
        return                          # attribute access after a callback call is given its meaning by `execCb`

    # --- attribute reads ---------------------------------------------------------------------------------------
    def is_attr(self, e):
        return isinstance(e, ast.Attribute) and isinstance(e.value, ast.Name) and e.value.id == "self" and e.attr in self.attrs

    def key(self, attr):
        return "(.a (.pure (.lit (.str %s))))" % lean_str(attr)

    def hoist(self, e, pre):
        """copy of `e` in which every read of an attribute of the object is a fresh local, bound by a `.dictGet` in `pre`
        (left to right, so the evaluation order is kept; attribute reads have no side effects)"""
        tr = self

        class H(ast.NodeTransformer):
            def visit_Attribute(self, node):
                if ast.unparse(node) == tr.loop_attr:
                    return ast.Constant(value="loop")
                if tr.is_attr(node):
                    t = tr.fresh()
                    pre.append(".dictGet [%s] %s" % (lean_str(t + ".0"), tr.key(node.attr)))
                    return ast.copy_location(ast.Name(id=t + ".0", ctx=ast.Load()), node)
                return self.generic_visit(node)
        return H().visit(copy.deepcopy(e))

    def hex(self, e, pre):
        return self.dex(self.hoist(e, pre), pre)

    def dflat(self, name, a, pre):
        return [(name, self.hex(a, pre))]

    # --- calls ---------------------------------------------------------------------------------------------------
    def acall(self, target, call, pre, top):
        t = "(some %s)" % lean_str(target) if target else "none"
        f = call.func
        if self.is_attr(f):
            if call.args or call.keywords:
                raise Untranslatable("call of a stored callable with arguments: " + ast.unparse(call)[:80])
            if not top:
                raise Untranslatable("call of a stored callable below the top level of %s" % self.cur)
            v = self.hex(f, pre)
            return '.eff %s "callback" "call" [("func", %s)]' % (t, v)
        if isinstance(f, ast.Name) and f.id in self.ctors:
            prog, names = self.ctors[f.id]
            pairs = self.dbind(call, names, None, f.id, pre)
            if target is None:
                raise Untranslatable("constructor call whose result is dropped: " + ast.unparse(call)[:80])
            pre.append(".call none %s %s" % (prog, self.args_text(pairs)))
            return ".assign %s (.a (.pure (.lit (.str %s))))" % (lean_str(target), lean_str("obj:" + f.id))
        if isinstance(f, ast.Attribute) and isinstance(f.value, ast.Name) and f.value.id != "self" \
                and f.value.id in self.collab:
            obj, sigs = self.collab[f.value.id]
            if f.attr not in sigs:
                raise Untranslatable("unknown method %s of %s" % (f.attr, f.value.id))
            names, kwname = sigs[f.attr]
            pairs = [("self", '(.a (.pure (.var %s)))' % lean_str(f.value.id))] + self.dbind(call, names, kwname, ast.unparse(f), pre)
            return ".eff %s %s %s %s" % (t, lean_str(obj), lean_str(f.attr), self.args_text(pairs))
        st = self.dcall(target, call, pre)
        if st is None:
            raise Untranslatable("call: " + ast.unparse(call)[:80])
        return st

    def acond(self, test, pre):
        if isinstance(test, ast.UnaryOp) and isinstance(test.op, ast.Not):
            return "(.not %s)" % self.acond(test.operand, pre)
        if isinstance(test, ast.Call) and ast.unparse(test.func) == "callable" and len(test.args) == 1 and not test.keywords:
            t = self.fresh()
            pre.append('.eff (some %s) "builtins" "callable" [("0", %s)]' % (lean_str(t), self.hex(test.args[0], pre)))
            return "(.truthy (.var %s))" % lean_str(t)
        if any(isinstance(n, ast.Call) for n in ast.walk(test)):
            raise Untranslatable("call in a condition: " + ast.unparse(test)[:80])
        return self.cd(self.hoist(test, pre))

    @staticmethod
    def only_logging(body):
        return all(isinstance(s, ast.Expr) and isinstance(s.value, ast.Call)
                   and ast.unparse(s.value.func).startswith(DROPPED_CALL_PREFIXES) for s in body)

    # --- statements ----------------------------------------------------------------------------------------------
    def astmts(self, body, ind, top):
        out = []
        for s in body:
            pre = []
            if isinstance(s, ast.Pass):
                continue
            if isinstance(s, ast.Expr):
                if isinstance(s.value, ast.Constant) and isinstance(s.value.value, str):
                    continue
                if isinstance(s.value, ast.Call):
                    if ast.unparse(s.value.func).startswith(DROPPED_CALL_PREFIXES):
                        continue
                    st = self.acall(None, s.value, pre, top)
                    out += pre + [st]
                    continue
                raise Untranslatable("expression statement: " + ast.unparse(s)[:80])
            if isinstance(s, ast.Assign):
                if len(s.targets) != 1:
                    raise Untranslatable("assignment target: " + ast.unparse(s)[:80])
                tgt, val = s.targets[0], s.value
                if self.is_attr(tgt):
                    if isinstance(val, ast.Call):
                        t = self.fresh()
                        st = self.acall(t, val, pre, False)
                        out += pre + [st, ".dictSet %s [(.a (.pure (.var %s)))]" % (self.key(tgt.attr), lean_str(t))]
                    else:
                        e = self.hex(val, pre)
                        out += pre + [".dictSet %s [%s]" % (self.key(tgt.attr), e)]
                    continue
                if not isinstance(tgt, ast.Name):
                    raise Untranslatable("assignment target: " + ast.unparse(s)[:80])
                if isinstance(val, ast.Call):
                    st = self.acall(tgt.id, val, pre, False)
                    out += pre + [st]
                else:
                    out += pre + [".assign %s %s" % (lean_str(tgt.id), self.hex(val, pre))]
                continue
            if isinstance(s, ast.If):
                if self.only_logging(s.body) and not s.orelse and not any(isinstance(n, ast.Call) for n in ast.walk(s.test)):
                    continue            # `if self._debug…: self.debug_log(…)`: no modelled effect
                c = self.acond(s.test, pre)
                b = self.astmts(s.body, ind + 2, False)
                e = self.astmts(s.orelse, ind + 2, False)
                out += pre + [".ifThen %s\n%s  %s\n%s  %s" % (c, " " * ind, self.block(b, ind + 2), " " * ind, self.block(e, ind + 2))]
                continue
            if isinstance(s, ast.Try):
                if s.finalbody or s.orelse or len(s.handlers) != 1 or s.handlers[0].name is not None \
                        or not isinstance(s.handlers[0].type, ast.Name):
                    raise Untranslatable("try statement outside the subset: " + ast.unparse(s)[:60])
                hb = s.handlers[0].body
                if not all(isinstance(x, (ast.Pass, ast.Raise)) for x in hb):
                    raise Untranslatable("except handler outside the subset (pass / raise): " + ast.unparse(s)[:60])
                b = self.astmts(s.body, ind + 2, False)
                h = self.astmts(hb, ind + 2, False)
                out.append(".tryExcept\n%s  %s\n%s  %s %s\n%s  []" % (" " * ind, self.block(b, ind + 2), " " * ind,
                                                                     lean_str(s.handlers[0].type.id), self.block(h, ind + 2),
                                                                     " " * ind))
                continue
            if isinstance(s, ast.Raise):
                exc = s.exc.func if isinstance(s.exc, ast.Call) else s.exc
                out.append(".raise %s" % lean_str(ast.unparse(exc)))
                continue
            if isinstance(s, ast.Return):
                if s.value is None:
                    out.append(".ret (.a (.pure (.lit .none)))")
                elif isinstance(s.value, ast.Call):
                    st = self.acall("_ret", s.value, pre, False)
                    out += pre + [st, '.ret (.a (.pure (.var "_ret")))']
                else:
                    e = self.hex(s.value, pre)
                    out += pre + [".ret %s" % e]
                continue
            raise Untranslatable("statement: " + ast.unparse(s)[:80])
        return out

    def amethod(self, name, lname):
        fn = self.methods[name]
        if isinstance(fn, ast.AsyncFunctionDef):
            raise Untranslatable("async method " + name)
        params, kw = params_of(fn)
        if fn.args.vararg or fn.args.kwonlyargs or fn.args.posonlyargs or kw:
            raise Untranslatable("parameter kinds of " + name)
        defaults = []
        for p, d in zip(reversed(params), reversed(fn.args.defaults)):
            if not isinstance(d, ast.Constant):
                raise Untranslatable("non-constant parameter default in %s" % name)
            defaults.append("%s=%r" % (p, d.value))
        self.cur, self.tmp = name, 0
        body = self.astmts(fn.body, 4, True)
        return params, defaults, "def %s : List DSt :=\n  [\n    %s\n  ]\n" % (lname, ",\n    ".join(body))


def generate():
    tree = ast.parse(open(os.path.join(REPO, "mpf/core/clock.py")).read())
    out = ["import MpfVerif.Model.PyEffD",
           "/-! GENERATED by translate/clock_gen.py from mpf/core/clock.py (classes PeriodicTask, ClockBase) — do not edit.",
           "Regenerated on every check; `Props/C13.lean` (`periodic_refines_source`) proves that the periodic part of the hand",
           "model `Model/Delay.lean` does exactly what these programs do.  The attributes of a PeriodicTask are the",
           "interpreter's dict (key = attribute name, 1-tuples). -/",
           "namespace MpfVerif.Gen.ClockOps", "open MpfVerif.Py", ""]
    # PeriodicTask
    methods = class_methods(tree, "PeriodicTask")
    slots = slots_of(tree, "PeriodicTask")
    tr = ATranslator(methods, slots, {f: lean_name(f) for f in TASK_OPS}, {"self._loop": ("loop", LOOP_SIGS)}, {}, "self._loop")
    out.append("/-- `PeriodicTask.__slots__` -/")
    out.append("def slots : List String := [%s]\n" % ", ".join(lean_str(x) for x in slots))
    init_params = None
    for f in TASK_OPS:
        params, defaults, text = tr.amethod(f, lean_name(f))
        if f == "__init__":
            init_params = params
        out.append("/-- `PeriodicTask.%s(%s)`%s -/" % (f, ", ".join(params), (" — defaults not modelled: " + ", ".join(defaults)) if defaults else ""))
        out.append(text)
    # ClockBase
    methods = class_methods(tree, "ClockBase")
    tr = ATranslator(methods, [], {}, {"self.loop": ("loop", LOOP_SIGS), "event": ("event", {"cancel": ([], None)})},
                     {"PeriodicTask": (lean_name("__init__"), init_params)}, "self.loop")
    for f in CLOCK_OPS:
        params, defaults, text = tr.amethod(f, lean_name(f))
        out.append("/-- `ClockBase.%s(%s)`%s -/" % (f, ", ".join(params), (" — defaults not modelled: " + ", ".join(defaults)) if defaults else ""))
        out.append(text)
    out.append("end MpfVerif.Gen.ClockOps")
    return "MpfVerif/Gen/ClockOps.lean", "\n".join(out) + "\n"


if __name__ == "__main__":
    print(generate()[1])
