"""Python `ast` -> Lean data for the fixed interpreter lean/MpfVerif/Model/PyExec.lean (DESIGN.md section 2).

A Python function becomes a `List St` literal (statements St, conditions Cd, expressions Ex).  The subset:
  statements  if/elif/else, assignment to a local name, return <expr>, raise <Exc>(...), docstrings, logging calls and
              `assert <platform object> is not None` (dropped: no effect on the modelled state)
  conditions  BoolOp and/or, not, chained Compare (< <= > >= == != is is-not None), isinstance(x, int), truthiness
  expressions constants (None/bool/int/float/str), local names, self.config['k'] -> cfg k, names listed in `env`
              (self._attr, self.platform.features['k']) -> env k, conditional expression a if c else b
Anything else raises Untranslatable: the function is *translator-inapplicable* for this run (never silently skipped).
"""
import ast
import json


class Untranslatable(Exception):
    pass


CMP = {ast.Gt: ">", ast.Lt: "<", ast.GtE: ">=", ast.LtE: "<=", ast.Eq: "==", ast.NotEq: "!="}
DROPPED_CALL_PREFIXES = ("self.info_log", "self.debug_log", "self.warning_log", "self.log.", "self.machine.bcp.")


def lean_str(s):
    return json.dumps(s, ensure_ascii=True)


class Translator:
    def __init__(self, env_map=None):
        # env_map: source text of an expression -> env key, e.g. {"self._pulse_ms": "_pulse_ms"}
        self.env_map = env_map or {}

    # --- expressions -------------------------------------------------------------------------------------------
    def ex(self, e):
        src = ast.unparse(e)
        if src in self.env_map:
            return '(.env %s)' % lean_str(self.env_map[src])
        if isinstance(e, ast.Constant):
            v = e.value
            if v is None:
                return "(.lit .none)"
            if isinstance(v, bool):
                return "(.lit (.bool %s))" % ("true" if v else "false")
            if isinstance(v, int):
                return "(.lit (.int (%d)))" % v
            if isinstance(v, float):
                m = round(v * 10 ** 6)
                if abs(m / 10 ** 6 - v) > 1e-12:
                    raise Untranslatable("float constant %r is not a multiple of 1e-6" % v)
                return "(.lit (.flt (%d)))" % m
            if isinstance(v, str):
                return "(.lit (.str %s))" % lean_str(v)
        if isinstance(e, ast.Name):
            return "(.var %s)" % lean_str(e.id)
        if isinstance(e, ast.Subscript) and ast.unparse(e.value) == "self.config" and isinstance(e.slice, ast.Constant) \
                and isinstance(e.slice.value, str):
            return "(.cfg %s)" % lean_str(e.slice.value)
        if isinstance(e, ast.IfExp):
            return "(.ite %s %s %s)" % (self.cd(e.test), self.ex(e.body), self.ex(e.orelse))
        raise Untranslatable("expression: " + src[:80])

    # --- conditions --------------------------------------------------------------------------------------------
    def cd(self, e):
        if isinstance(e, ast.Compare):
            parts = []
            left = e.left
            for op, right in zip(e.ops, e.comparators):
                if isinstance(op, (ast.Is, ast.IsNot)):
                    if not (isinstance(right, ast.Constant) and right.value is None):
                        raise Untranslatable("is / is not with a non-None operand: " + ast.unparse(e)[:80])
                    parts.append("(.%s %s)" % ("isNone" if isinstance(op, ast.Is) else "notNone", self.ex(left)))
                elif type(op) in CMP:
                    parts.append("(.cmp %s %s %s)" % (lean_str(CMP[type(op)]), self.ex(left), self.ex(right)))
                else:
                    raise Untranslatable("comparison operator: " + ast.unparse(e)[:80])
                left = right
            out = parts[-1]
            for p in reversed(parts[:-1]):
                out = "(.and %s %s)" % (p, out)
            return out
        if isinstance(e, ast.BoolOp):
            fn = "and" if isinstance(e.op, ast.And) else "or"
            parts = [self.cd(v) for v in e.values]
            out = parts[-1]
            for p in reversed(parts[:-1]):
                out = "(.%s %s %s)" % (fn, p, out)
            return out
        if isinstance(e, ast.UnaryOp) and isinstance(e.op, ast.Not):
            return "(.not %s)" % self.cd(e.operand)
        if isinstance(e, ast.Call) and ast.unparse(e.func) == "isinstance" and len(e.args) == 2 \
                and ast.unparse(e.args[1]) == "int":
            return "(.isInt %s)" % self.ex(e.args[0])
        return "(.truthy %s)" % self.ex(e)

    # --- statements --------------------------------------------------------------------------------------------
    def stmts(self, body, ind):
        out = []
        pad = " " * ind
        for s in body:
            if isinstance(s, ast.Expr):
                if isinstance(s.value, ast.Constant) and isinstance(s.value.value, str):
                    continue                                   # docstring
                if isinstance(s.value, ast.Call) and ast.unparse(s.value.func).startswith(DROPPED_CALL_PREFIXES):
                    continue                                   # logging / BCP notification: no modelled effect
                raise Untranslatable("expression statement: " + ast.unparse(s)[:80])
            if isinstance(s, ast.Assert):
                t = ast.unparse(s.test)
                if t in ("self.platform is not None", "self.hw_driver is not None"):
                    continue
                raise Untranslatable("assert: " + t[:80])
            if isinstance(s, ast.Assign):
                if len(s.targets) != 1 or not isinstance(s.targets[0], ast.Name):
                    raise Untranslatable("assignment target: " + ast.unparse(s)[:80])
                out.append("%s.assign %s %s" % (pad, lean_str(s.targets[0].id), self.ex(s.value)))
            elif isinstance(s, ast.AnnAssign) and isinstance(s.target, ast.Name) and s.value is not None:
                out.append("%s.assign %s %s" % (pad, lean_str(s.target.id), self.ex(s.value)))
            elif isinstance(s, ast.If):
                body_l = self.stmts(s.body, ind + 2)
                else_l = self.stmts(s.orelse, ind + 2)
                out.append("%s.ifThen %s\n%s  [%s]\n%s  [%s]" % (
                    pad, self.cd(s.test), pad, (",\n").join(x.strip() if i == 0 else x for i, x in enumerate(body_l)),
                    pad, (",\n").join(x.strip() if i == 0 else x for i, x in enumerate(else_l))))
            elif isinstance(s, ast.Raise):
                exc = s.exc.func if isinstance(s.exc, ast.Call) else s.exc
                out.append("%s.raise %s" % (pad, lean_str(ast.unparse(exc))))
            elif isinstance(s, ast.Return):
                out.append("%s.ret %s" % (pad, self.ex(s.value) if s.value is not None else "(.lit .none)"))
            else:
                raise Untranslatable("statement: " + ast.unparse(s)[:80])
        return out

    def function(self, fn, lean_name):
        params = [a.arg for a in fn.args.args if a.arg != "self"]
        body = self.stmts(fn.body, 4)
        src = ",\n".join(body)
        return params, "def %s : List St :=\n  [\n%s\n  ]\n" % (lean_name, src)


def find_function(tree, cls, name):
    for node in ast.walk(tree):
        if isinstance(node, ast.ClassDef) and node.name == cls:
            for f in node.body:
                if isinstance(f, ast.FunctionDef) and f.name == name:
                    return f
    raise Untranslatable("function %s.%s not found" % (cls, name))
