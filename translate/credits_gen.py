"""GEN job for C20: the integer decision kernels of mpf/modes/credits/code/credits.py -> lean/MpfVerif/Gen/Credits.lean

Translated (shallow embedding, straight-line integer code in SSA form, pure and total, so computations are hoisted out
of `if` branches and every `if` becomes a conditional value):
  * `_clear_fractional_credits`                      -> clearFractional cu upg
  * the credit-play branch of `_player_added`         -> playerAdded cu upg
  * `_add_credit_units` from `max_credit_units = ...` -> addTail cu previous_credit_units total_credit_units maxCredits upg
    (the part after the pricing-tier loop: the cap and the store)
Each function returns the final value of the machine variable `credit_units`.

Subset: assignment / augmented assignment (+ - * %) to a local name, `if/else` over comparisons, and/or/not and int
truthiness, `self.machine.variables.set_machine_var('credit_units', e)` as an assignment to the pseudo variable `cu`,
`self._get_credit_units()` as a read of it, `self.credit_units_per_game` -> upg,
`self.credits_config['max_credits'].evaluate([])` -> maxCredits.  Calls without effect on the balance (logging, events,
strings, coin inhibit, audits) are dropped by name; anything else raises Untranslatable.
Python `%` and Lean `Int.emod` agree for a positive divisor (upg > 0, part of WF).
"""
import ast
import os

from translate.py2lean import Untranslatable, find_function

REPO = os.environ.get("VERIF_REPO", "/repo")
READS = {"self._get_credit_units()": None,      # current cu
         "self.credit_units_per_game": "upg",
         "self.credits_config['max_credits'].evaluate([])": "maxCredits"}
DROPPED = ("self.info_log", "self.debug_log", "self.warning_log", "self._update_credit_strings",
           "self.machine.events.post", "self._control_coin_inhibit", "self._audit_increment_non_coin")
BIN = {ast.Add: "+", ast.Sub: "-", ast.Mult: "*", ast.Mod: "%"}
CMP = {ast.Gt: ">", ast.Lt: "<", ast.GtE: "≥", ast.LtE: "≤", ast.Eq: "=", ast.NotEq: "≠"}


class Fn:
    def __init__(self, params):
        self.lines = []
        self.counter = {}
        self.params = list(params)

    def fresh(self, x):
        self.counter[x] = self.counter.get(x, 0) + 1
        return "%s_%d" % (x, self.counter[x])

    def read(self, name, env):
        if name not in env:
            if name not in self.params:
                self.params.append(name)
            env[name] = name
        return env[name]

    def ex(self, e, env):
        src = ast.unparse(e)
        if src in READS:
            return self.read(READS[src] or "cu", env)
        if isinstance(e, ast.Constant) and isinstance(e.value, int) and not isinstance(e.value, bool):
            return "(%d : Int)" % e.value
        if isinstance(e, ast.Name):
            return self.read(e.id, env)
        if isinstance(e, ast.BinOp) and type(e.op) in BIN:
            return "(%s %s %s)" % (self.ex(e.left, env), BIN[type(e.op)], self.ex(e.right, env))
        raise Untranslatable("expression: " + src[:80])

    def cd(self, e, env):
        if isinstance(e, ast.Compare):
            parts, left = [], e.left
            for op, right in zip(e.ops, e.comparators):
                if type(op) not in CMP:
                    raise Untranslatable("comparison: " + ast.unparse(e)[:80])
                parts.append("%s %s %s" % (self.ex(left, env), CMP[type(op)], self.ex(right, env)))
                left = right
            return "(" + " ∧ ".join(parts) + ")"
        if isinstance(e, ast.BoolOp):
            j = " ∧ " if isinstance(e.op, ast.And) else " ∨ "
            return "(" + j.join(self.cd(v, env) for v in e.values) + ")"
        if isinstance(e, ast.UnaryOp) and isinstance(e.op, ast.Not):
            return "(¬ %s)" % self.cd(e.operand, env)
        return "(%s ≠ 0)" % self.ex(e, env)          # int truthiness

    def assign(self, x, val, env):
        n = self.fresh(x)
        self.lines.append("  let %s : Int := %s" % (n, val))
        env[x] = n

    def stmts(self, body, env):
        for s in body:
            if isinstance(s, ast.Expr):
                if isinstance(s.value, ast.Constant) and isinstance(s.value.value, str):
                    continue
                if isinstance(s.value, ast.Call):
                    f = ast.unparse(s.value.func)
                    if f.startswith(DROPPED):
                        continue
                    if f == "self.machine.variables.set_machine_var":
                        a = s.value.args
                        kw = {k.arg: k.value for k in s.value.keywords}
                        name = a[0] if a else kw.get("name")
                        value = a[1] if len(a) > 1 else kw.get("value")
                        if isinstance(name, ast.Constant) and name.value == "credit_units" and value is not None:
                            self.assign("cu", self.ex(value, env), env)
                            continue
                raise Untranslatable("statement: " + ast.unparse(s)[:80])
            if isinstance(s, ast.Assign) and len(s.targets) == 1 and isinstance(s.targets[0], ast.Name):
                self.assign(s.targets[0].id, self.ex(s.value, env), env)
            elif isinstance(s, ast.AugAssign) and isinstance(s.target, ast.Name) and type(s.op) in BIN:
                cur = self.read(s.target.id, env)
                self.assign(s.target.id, "(%s %s %s)" % (cur, BIN[type(s.op)], self.ex(s.value, env)), env)
            elif isinstance(s, ast.If):
                c = self.cd(s.test, env)
                e1, e2 = dict(env), dict(env)
                self.stmts(s.body, e1)
                self.stmts(s.orelse, e2)
                for x in sorted(set(e1) | set(e2)):
                    a, b = e1.get(x, env.get(x)), e2.get(x, env.get(x))
                    if a is None or b is None:
                        continue          # a local that exists in one branch only and is dead afterwards
                    if a != b:
                        self.assign(x, "if %s then %s else %s" % (c, a, b), env)
                    else:
                        env[x] = a
            else:
                raise Untranslatable("statement: " + ast.unparse(s)[:80])


def emit(name, doc, params, body):
    fn = Fn(params)
    env = {}
    for p in params:
        env[p] = p
    fn.stmts(body, env)
    if "cu" not in env:
        raise Untranslatable(name + ": credit_units is never stored")
    ps = " ".join(fn.params)
    return "/-- %s -/\ndef %s (%s : Int) : Int :=\n%s\n  %s\n" % (doc, name, ps, "\n".join(fn.lines), env["cu"])


def generate():
    src = open(os.path.join(REPO, "mpf/modes/credits/code/credits.py")).read()
    tree = ast.parse(src)
    out = ["/-! GENERATED by translate/credits_gen.py from mpf/modes/credits/code/credits.py — do not edit.",
           "Regenerated on every check; Props/C20.lean proves that the hand model computes exactly these functions. -/",
           "namespace MpfVerif.Gen.Credits", ""]
    f = find_function(tree, "Credits", "_clear_fractional_credits")
    out.append(emit("clearFractional", "`Credits._clear_fractional_credits`: the balance it stores", ["cu", "upg"], f.body))
    f = find_function(tree, "Credits", "_player_added")
    first_if = [s for s in f.body if isinstance(s, ast.If)]
    if not first_if or "free_play" not in ast.unparse(first_if[0].test):
        raise Untranslatable("_player_added: free-play branch not found")
    out.append(emit("playerAdded", "`Credits._player_added`, credit-play branch: the balance it stores", ["cu", "upg"],
                    first_if[0].orelse))
    f = find_function(tree, "Credits", "_add_credit_units")
    idx = [i for i, s in enumerate(f.body) if isinstance(s, ast.Assign) and ast.unparse(s.targets[0]) == "max_credit_units"]
    if len(idx) != 1:
        raise Untranslatable("_add_credit_units: `max_credit_units = ...` not found exactly once")
    out.append(emit("addTail", "`Credits._add_credit_units` after the pricing-tier loop (cap and store): the balance it leaves",
                    ["cu", "previous_credit_units", "total_credit_units", "maxCredits", "upg"], f.body[idx[0]:]))
    out.append("end MpfVerif.Gen.Credits")
    return "MpfVerif/Gen/Credits.lean", "\n".join(out) + "\n"


if __name__ == "__main__":
    print(generate()[1])
