"""Source pins: fingerprints of the functions a hand-written model transcribes.

A hand model is validated against a particular text of the functions it follows (differential runs, review).  The pin
records that text: the sha256 of the function's normalised AST (docstrings, logging calls and annotations removed; no line
numbers, so moving or reformatting code does not matter).  When a pinned function changes, the model's transcription of it is
stale: the check treats that like a broken translator obligation (failing-input search with the larger budget; if nothing is
found: VIOLATION ... no-failing-input-found naming the function), until someone has looked at the change and re-pinned
(`tools/repin.py Cxx`).  The correspondence run on every check remains the primary tie; the pin only says *when* it has to be
re-established with more effort.
"""
import ast
import hashlib
import json
import os

REPO = os.environ.get("VERIF_REPO", "/repo")
LOG_PREFIXES = ("self.debug_log", "self.info_log", "self.warning_log", "self.error_log", "self.log.", "self._debug",
                "self.machine.log.", "logging.")


class Strip(ast.NodeTransformer):
    def _body(self, body):
        out = []
        for i, s in enumerate(body):
            if isinstance(s, ast.Expr) and isinstance(s.value, ast.Constant) and isinstance(s.value.value, str):
                continue                                   # docstring / string statement
            if isinstance(s, ast.Expr) and isinstance(s.value, ast.Call) and \
                    ast.unparse(s.value.func).startswith(LOG_PREFIXES):
                continue                                   # logging
            out.append(s)
        return out or [ast.Pass()]

    def generic_visit(self, node):
        super().generic_visit(node)
        for f in ("body", "orelse", "finalbody"):
            if isinstance(getattr(node, f, None), list) and node.__class__.__name__ != "IfExp":
                setattr(node, f, self._body(getattr(node, f)))
        return node

    def visit_arg(self, node):
        node.annotation = None
        return node

    def visit_FunctionDef(self, node):
        node.returns = None
        node.decorator_list = [d for d in node.decorator_list]
        return self.generic_visit(node)

    visit_AsyncFunctionDef = visit_FunctionDef

    def visit_AnnAssign(self, node):
        self.generic_visit(node)
        if node.value is None:
            return None
        return ast.Assign(targets=[node.target], value=node.value, lineno=0, col_offset=0)


def find(tree, qualname):
    if qualname == "<module>":
        body = [s for s in tree.body if not isinstance(s, (ast.FunctionDef, ast.AsyncFunctionDef, ast.ClassDef, ast.Import,
                                                           ast.ImportFrom))]
        return ast.Module(body=body, type_ignores=[])
    node = tree
    for part in qualname.split("."):
        nxt = None
        for n in ast.iter_child_nodes(node):
            if isinstance(n, (ast.FunctionDef, ast.AsyncFunctionDef, ast.ClassDef)) and n.name == part:
                nxt = n
                break
        if nxt is None:
            return None
        node = nxt
    return node


_cache = {}


def fingerprint(path, qualname, repo=None):
    """hex fingerprint, or None when the function no longer exists"""
    repo = repo or REPO
    full = os.path.join(repo, path)
    if full not in _cache:
        try:
            _cache[full] = open(full).read()
        except OSError:
            _cache[full] = None
    src = _cache[full]
    if src is None:
        return None
    if not path.endswith(".py"):
        return hashlib.sha256(src.encode()).hexdigest()[:16]
    node = find(ast.parse(src), qualname)
    if node is None:
        return None
    node = Strip().visit(node)
    ast.fix_missing_locations(node)
    return hashlib.sha256(ast.dump(node, annotate_fields=False, include_attributes=False).encode()).hexdigest()[:16]


def pins_path(verif, prop_id):
    return os.path.join(verif, "harness", "pins", prop_id + ".json")


def check(verif, prop_id, repo=None):
    """(number checked, [messages about changed / missing pinned functions])"""
    p = pins_path(verif, prop_id)
    if not os.path.exists(p):
        return 0, []
    data = json.load(open(p))
    bad = []
    for key, want in sorted(data["pins"].items()):
        path, q = key.split("::")
        got = fingerprint(path, q, repo)
        if got is None:
            bad.append("source pin: %s %s no longer exists (the model transcribes it)" % (path, q))
        elif got != want:
            bad.append("source pin: %s %s changed since the model was validated against it" % (path, q))
    return len(data["pins"]), bad
