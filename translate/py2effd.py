"""Python `ast` -> Lean data for lean/MpfVerif/Model/PyEffD.lean (methods of a class whose state is ONE dict attribute).

On top of py2eff.EffTranslator (whose expression / argument machinery is reused):
  self.<d>.pop(k) / self.<d>[k] / del self.<d>[k] / self.<d>[k] = (a, b, c) / self.<d> = {} / k in self.<d>
        -> .dictPop / .dictGet / .dictDel / .dictSet / .dictClear / (.inDict k); the tuple stored under a key has a fixed
           width (taken from the item assignment in the class); `t = self.<d>.pop(k)` binds `t.0 .. t.<w-1>`, `t[i]` is
           the local `t.<i>`, `a, b, c = self.<d>[k]` binds a, b, c; `self.<d>[k][i]` inside an argument is hoisted into a
           `.dictGet` on temporaries just before the call (evaluation order is preserved: nothing else is evaluated between)
  try: ... except <Exc>: pass  [else: ...]          -> .tryExcept (one handler whose body is `pass`, no finally)
  a / b                                             -> .div
  for k in list(self.<d>.keys()): body              -> DTop.forKeys (top level of a method only)
  functools.partial(self.m, a, b, **kw) as argument -> flattened into `<param>.func = "cb:m"`, `<param>.0`, `<param>.1`,
                                                       `<param>.kwargs`
  str(uuid.uuid4())                                 -> effect uuid.uuid4 (the oracle answers the string)
  <local>(**kwargs) for a local listed in `callables` -> effect callback.call(func=<local>, kwargs=kwargs); the translator
        checks that no statement that can touch the dict (dict statement, call of a translated method) can run after it in
        the same method, so that running the callee *after* the method (the flattened agenda of the model) is the same as
        running it inside
  f(..., **kwargs) for a translated method with a `**kwargs` parameter -> the callee's `kwargs` is the caller's `kwargs`
  `x in self.<d>` / `self.m(...)` inside an `if` test -> hoisted into a temporary assigned just before the `if`
Anything else raises Untranslatable.
"""
import ast

from translate.py2lean import Untranslatable, lean_str, DROPPED_CALL_PREFIXES
from translate.py2eff import EffTranslator, params_of


class DTranslator(EffTranslator):
    def __init__(self, methods, dict_attr, effectful, collab, callables):
        super().__init__(methods, {}, {}, effectful, collab, {})
        self.d = "self." + dict_attr
        self.callables = set(callables)
        self.width = self.tuple_width()
        self.tmp = 0

    def tuple_width(self):
        w = set()
        for fn in self.methods.values():
            for node in ast.walk(fn):
                if isinstance(node, ast.Assign) and len(node.targets) == 1 and isinstance(node.targets[0], ast.Subscript) \
                        and ast.unparse(node.targets[0].value) == self.d:
                    if not isinstance(node.value, ast.Tuple):
                        raise Untranslatable("item assignment of a non-tuple: " + ast.unparse(node)[:80])
                    w.add(len(node.value.elts))
        if len(w) != 1:
            raise Untranslatable("the tuples stored in %s do not have one fixed width: %s" % (self.d, sorted(w)))
        return w.pop()

    def fresh(self):
        self.tmp += 1
        return "_t%d" % self.tmp

    # --- expressions -------------------------------------------------------------------------------------------
    def is_dict(self, e):
        return ast.unparse(e) == self.d

    def dex(self, e, pre):
        """DEx text; statements that must run first are appended to `pre`"""
        if isinstance(e, ast.BinOp) and isinstance(e.op, ast.Div):
            return "(.div %s %s)" % (self.dex(e.left, pre), self.dex(e.right, pre))
        if isinstance(e, ast.Compare) and len(e.ops) == 1 and isinstance(e.ops[0], ast.In) and self.is_dict(e.comparators[0]):
            return "(.inDict %s)" % self.dex(e.left, pre)
        # t[i] for a popped tuple t
        if isinstance(e, ast.Subscript) and isinstance(e.value, ast.Name) and isinstance(e.slice, ast.Constant) \
                and isinstance(e.slice.value, int) and e.value.id in self.tuple_locals:
            if not 0 <= e.slice.value < self.width:
                raise Untranslatable("tuple index out of range: " + ast.unparse(e))
            return '(.a (.pure (.var %s)))' % lean_str("%s.%d" % (e.value.id, e.slice.value))
        # self.d[k][i]
        if isinstance(e, ast.Subscript) and isinstance(e.value, ast.Subscript) and self.is_dict(e.value.value) \
                and isinstance(e.slice, ast.Constant) and isinstance(e.slice.value, int):
            if not 0 <= e.slice.value < self.width:
                raise Untranslatable("tuple index out of range: " + ast.unparse(e))
            t = self.fresh()
            pre.append(".dictGet [%s] %s" % (", ".join(lean_str("%s.%d" % (t, i)) for i in range(self.width)),
                                             self.dex(e.value.slice, pre)))
            return '(.a (.pure (.var %s)))' % lean_str("%s.%d" % (t, e.slice.value))
        if any(isinstance(n, (ast.Call, ast.Subscript)) and not (isinstance(n, ast.Subscript) and ast.unparse(n.value) == "self.config")
               for n in ast.walk(e)):
            raise Untranslatable("expression: " + ast.unparse(e)[:80])
        if self.d in ast.unparse(e):
            raise Untranslatable("use of %s outside the subset: %s" % (self.d, ast.unparse(e)[:80]))
        return "(.a %s)" % self.aex(e)

    def dflat(self, name, a, pre):
        if isinstance(a, ast.Call) and ast.unparse(a.func) in ("partial", "functools.partial"):
            if not a.args or not (isinstance(a.args[0], ast.Attribute) and ast.unparse(a.args[0].value) == "self"
                                  and a.args[0].attr in self.methods):
                raise Untranslatable("partial of something that is not a method of the class: " + ast.unparse(a)[:80])
            out = [("%s.func" % name, '(.a (.pure (.lit (.str %s))))' % lean_str("cb:" + a.args[0].attr))]
            for i, x in enumerate(a.args[1:]):
                out.append(("%s.%d" % (name, i), self.dex(x, pre)))
            for kw in a.keywords:
                if kw.arg is None:
                    if not (isinstance(kw.value, ast.Name) and kw.value.id == self.kwname):
                        raise Untranslatable("** of something else than the method's own **kwargs: " + ast.unparse(a)[:80])
                    out.append(("%s.kwargs" % name, '(.a (.pure (.var %s)))' % lean_str(self.kwname)))
                else:
                    out.append(("%s.%s" % (name, kw.arg), self.dex(kw.value, pre)))
            return out
        return [(name, self.dex(a, pre))]

    def dbind(self, call, names, kwname, what, pre):
        out = []
        if len(call.args) > len(names):
            raise Untranslatable("too many positional arguments for %s: %s" % (what, ast.unparse(call)[:80]))
        for n, a in zip(names, call.args):
            if isinstance(a, ast.Starred):
                raise Untranslatable("starred argument: " + ast.unparse(call)[:80])
            out += self.dflat(n, a, pre)
        for kw in call.keywords:
            if kw.arg is None:
                if not (isinstance(kw.value, ast.Name) and kw.value.id == self.kwname and kwname is not None):
                    raise Untranslatable("**kwargs argument: " + ast.unparse(call)[:80])
                out.append((kwname, '(.a (.pure (.var %s)))' % lean_str(self.kwname)))
                continue
            if kw.arg not in names and kwname is None:
                raise Untranslatable("unknown keyword %s for %s" % (kw.arg, what))
            out += self.dflat(kw.arg, kw.value, pre)
        seen = [k for k, _ in out]
        if len(seen) != len(set(seen)):
            raise Untranslatable("argument given twice: " + ast.unparse(call)[:80])
        return out

    # --- calls ---------------------------------------------------------------------------------------------------
    def dcall(self, target, call, pre):
        """statement text for `target = <call>`; None when the call is not one we translate"""
        t = "(some %s)" % lean_str(target) if target else "none"
        f = call.func
        src = ast.unparse(f)
        if src == "str" and len(call.args) == 1 and ast.unparse(call.args[0]) == "uuid.uuid4()" and not call.keywords:
            return '.eff %s "uuid" "uuid4" []' % t
        if isinstance(f, ast.Name) and f.id in self.callables:
            if call.args or len(call.keywords) != 1 or call.keywords[0].arg is not None \
                    or not isinstance(call.keywords[0].value, ast.Name):
                raise Untranslatable("callback call with other arguments than **<name>: " + ast.unparse(call)[:80])
            self.callback_called = True
            return '.eff %s "callback" "call" [("func", (.a (.pure (.var %s)))), ("kwargs", (.a (.pure (.var %s))))]' % (
                t, lean_str(f.id), lean_str(call.keywords[0].value.id))
        if isinstance(f, ast.Attribute) and isinstance(f.value, ast.Name) and f.value.id == "self" and f.attr in self.methods:
            name = f.attr
            if name not in self.effectful:
                raise Untranslatable("call of an untranslated method: " + src)
            names, kwname = params_of(self.methods[name])
            pairs = self.dbind(call, names, kwname, "self." + name, pre)
            self.touch("call of self.%s" % name)
            return ".call %s %s %s" % (t, self.effectful[name], self.args_text(pairs))
        if isinstance(f, ast.Attribute):
            owner = ast.unparse(f.value)
            if owner in self.collab:
                obj, sigs = self.collab[owner]
                if f.attr not in sigs:
                    raise Untranslatable("unknown method %s of collaborator %s" % (f.attr, owner))
                names, kwname = sigs[f.attr]
                pairs = self.dbind(call, names, kwname, src, pre)
                return ".eff %s %s %s %s" % (t, lean_str(obj), lean_str(f.attr), self.args_text(pairs))
        return None

    def touch(self, what):
        """a statement that reads or writes the dict: must not be reachable after a callback call in the same method"""
        if self.callback_called:
            raise Untranslatable("%s after a callback call in %s: the callback could have changed the dict" % (what, self.cur))

    def cond(self, test, pre):
        """Cd text for an `if` test; membership tests and method calls are hoisted into temporaries"""
        if isinstance(test, ast.UnaryOp) and isinstance(test.op, ast.Not):
            return "(.not %s)" % self.cond(test.operand, pre)
        if isinstance(test, ast.Compare) and len(test.ops) == 1 and isinstance(test.ops[0], ast.In) \
                and self.is_dict(test.comparators[0]):
            t = self.fresh()
            self.touch("membership test")
            pre.append(".assign %s %s" % (lean_str(t), self.dex(test, pre)))
            return "(.truthy (.var %s))" % lean_str(t)
        if isinstance(test, ast.Call):
            t = self.fresh()
            st = self.dcall(t, test, pre)
            if st is None:
                raise Untranslatable("call in a condition: " + ast.unparse(test)[:80])
            pre.append(st)
            return "(.truthy (.var %s))" % lean_str(t)
        if any(isinstance(n, (ast.Call, ast.Subscript)) for n in ast.walk(test)) or self.d in ast.unparse(test):
            raise Untranslatable("condition: " + ast.unparse(test)[:80])
        return self.cd(test)

    # --- statements ----------------------------------------------------------------------------------------------
    def block(self, items, ind):
        pad = " " * ind
        return "[" + (",\n" + pad + " ").join(items) + "]"

    def dstmts(self, body, ind):
        out = []
        for s in body:
            pre = []
            if isinstance(s, ast.Pass):
                continue
            if isinstance(s, ast.Expr):
                if isinstance(s.value, ast.Constant) and isinstance(s.value.value, str):
                    continue
                if isinstance(s.value, ast.Call):
                    if ast.unparse(s.value.func).startswith(DROPPED_CALL_PREFIXES):
                        continue
                    st = self.dcall(None, s.value, pre)
                    if st is not None:
                        out += pre + [st]
                        continue
                raise Untranslatable("expression statement: " + ast.unparse(s)[:80])
            if isinstance(s, ast.Delete):
                if len(s.targets) == 1 and isinstance(s.targets[0], ast.Subscript) and self.is_dict(s.targets[0].value):
                    self.touch("del")
                    k = self.dex(s.targets[0].slice, pre)
                    out += pre + [".dictDel %s" % k]
                    continue
                if all(isinstance(t, ast.Name) for t in s.targets):
                    continue
                raise Untranslatable("del: " + ast.unparse(s)[:80])
            if isinstance(s, ast.Assign):
                if len(s.targets) != 1:
                    raise Untranslatable("assignment target: " + ast.unparse(s)[:80])
                tgt, val = s.targets[0], s.value
                # self.d = {}
                if self.is_dict(tgt):
                    if not (isinstance(val, ast.Dict) and not val.keys):
                        raise Untranslatable("assignment to %s: %s" % (self.d, ast.unparse(s)[:80]))
                    self.touch("assignment")
                    out.append(".dictClear")
                    continue
                # self.d[k] = (a, b, c)
                if isinstance(tgt, ast.Subscript) and self.is_dict(tgt.value):
                    self.touch("item assignment")
                    vals = []
                    for el in val.elts:
                        if isinstance(el, ast.Call):
                            t = self.fresh()
                            st = self.dcall(t, el, pre)
                            if st is None:
                                raise Untranslatable("call: " + ast.unparse(el)[:80])
                            pre.append(st)
                            vals.append('(.a (.pure (.var %s)))' % lean_str(t))
                        else:
                            vals.append(self.dex(el, pre))
                    k = self.dex(tgt.slice, pre)
                    out += pre + [".dictSet %s [%s]" % (k, ", ".join(vals))]
                    continue
                # a, b, c = self.d[k]
                if isinstance(tgt, ast.Tuple) and isinstance(val, ast.Subscript) and self.is_dict(val.value):
                    if len(tgt.elts) != self.width or not all(isinstance(x, ast.Name) for x in tgt.elts):
                        raise Untranslatable("tuple unpacking: " + ast.unparse(s)[:80])
                    self.touch("item read")
                    k = self.dex(val.slice, pre)
                    out += pre + [".dictGet [%s] %s" % (", ".join(lean_str(x.id) for x in tgt.elts), k)]
                    continue
                if not isinstance(tgt, ast.Name):
                    raise Untranslatable("assignment target: " + ast.unparse(s)[:80])
                # t = self.d.pop(k)
                if isinstance(val, ast.Call) and isinstance(val.func, ast.Attribute) and val.func.attr == "pop" \
                        and self.is_dict(val.func.value):
                    if len(val.args) != 1 or val.keywords:
                        raise Untranslatable("pop with a default: " + ast.unparse(s)[:80])
                    self.touch("pop")
                    self.tuple_locals.add(tgt.id)
                    k = self.dex(val.args[0], pre)
                    out += pre + [".dictPop [%s] %s" % (", ".join(lean_str("%s.%d" % (tgt.id, i)) for i in range(self.width)), k)]
                    continue
                if isinstance(val, ast.Call):
                    st = self.dcall(tgt.id, val, pre)
                    if st is None:
                        raise Untranslatable("call: " + ast.unparse(val)[:80])
                    out += pre + [st]
                else:
                    e = self.dex(val, pre)
                    out += pre + [".assign %s %s" % (lean_str(tgt.id), e)]
                continue
            if isinstance(s, ast.If):
                c = self.cond(s.test, pre)
                before = self.callback_called
                b = self.dstmts(s.body, ind + 2)
                after_b = self.callback_called
                self.callback_called = before
                e = self.dstmts(s.orelse, ind + 2)
                self.callback_called = self.callback_called or after_b
                out += pre + [".ifThen %s\n%s  %s\n%s  %s" % (c, " " * ind, self.block(b, ind + 2), " " * ind, self.block(e, ind + 2))]
                continue
            if isinstance(s, ast.Try):
                if s.finalbody or len(s.handlers) != 1 or s.handlers[0].name is not None \
                        or not isinstance(s.handlers[0].type, ast.Name) \
                        or not all(isinstance(x, ast.Pass) for x in s.handlers[0].body):
                    raise Untranslatable("try statement outside the subset (one `except <Name>: pass`, no finally): "
                                         + ast.unparse(s)[:60])
                b = self.dstmts(s.body, ind + 2)
                e = self.dstmts(s.orelse, ind + 2)
                out.append(".tryExcept\n%s  %s\n%s  %s []\n%s  %s" % (" " * ind, self.block(b, ind + 2), " " * ind,
                                                                      lean_str(s.handlers[0].type.id), " " * ind,
                                                                      self.block(e, ind + 2)))
                continue
            if isinstance(s, ast.Raise):
                exc = s.exc.func if isinstance(s.exc, ast.Call) else s.exc
                out.append(".raise %s" % lean_str(ast.unparse(exc)))
                continue
            if isinstance(s, ast.Return):
                if s.value is None:
                    out.append(".ret (.a (.pure (.lit .none)))")
                elif isinstance(s.value, ast.Call):
                    st = self.dcall("_ret", s.value, pre)
                    if st is None:
                        raise Untranslatable("call: " + ast.unparse(s.value)[:80])
                    out += pre + [st, '.ret (.a (.pure (.var "_ret")))']
                else:
                    if self.d in ast.unparse(s.value):
                        self.touch("read")
                    e = self.dex(s.value, pre)
                    out += pre + [".ret %s" % e]
                continue
            raise Untranslatable("statement: " + ast.unparse(s)[:80])
        return out

    def is_keys_loop(self, s):
        return isinstance(s, ast.For) and not s.orelse and isinstance(s.target, ast.Name) \
            and ast.unparse(s.iter) in ("list(%s.keys())" % self.d, "list(%s)" % self.d)

    def dmethod(self, name, lean_name):
        """(params, kwargs name, Lean text, has loops)"""
        fn = self.methods[name]
        if isinstance(fn, ast.AsyncFunctionDef):
            raise Untranslatable("async method " + name)
        params, kw = params_of(fn)
        for dflt in list(fn.args.defaults) + [x for x in fn.args.kw_defaults if x is not None]:
            if not (isinstance(dflt, ast.Constant) and dflt.value is None):
                raise Untranslatable("parameter default other than None in %s: %s" % (name, ast.unparse(dflt)))
        if fn.args.vararg or fn.args.kwonlyargs or fn.args.posonlyargs:
            raise Untranslatable("parameter kinds of " + name)
        self.cur, self.kwname, self.tuple_locals, self.callback_called, self.tmp = name, kw, set(), False, 0
        if any(self.is_keys_loop(s) for s in fn.body):
            tops = []
            for s in fn.body:
                if self.is_keys_loop(s):
                    self.touch("loop")
                    body = self.dstmts(s.body, 8)
                    if self.callback_called:
                        raise Untranslatable("callback call inside a loop in " + name)
                    tops.append(".forKeys %s\n        %s" % (lean_str(s.target.id), self.block(body, 8)))
                else:
                    tops += [".s (%s)" % x for x in self.dstmts([s], 6)]
            return params, kw, "def %s : List DTop :=\n  [\n    %s\n  ]\n" % (lean_name, ",\n    ".join(tops)), True
        body = self.dstmts(fn.body, 4)
        return params, kw, "def %s : List DSt :=\n  [\n    %s\n  ]\n" % (lean_name, ",\n    ".join(body)), False
