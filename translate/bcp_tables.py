"""GEN job for C19: the branch tables of encode_command_string / decode_command_string -> lean/MpfVerif/Gen/BcpTables.lean

The two functions of mpf/core/bcp/bcp_socket_client.py are walked statement by statement against the shape the hand model
(lean/MpfVerif/Model/Bcp.lean) transcribes; every literal the model needs is read from the AST:
  encoder  the json test (`isinstance(v, (dict, list)) or k == 'json'`), `quote(str(v), <safe>)`, the isinstance chain in
           SOURCE ORDER with its format strings, the else branch, the pair format '{}={}&', the `[:-1]` cut, 'json={}'
  decoder  the json test (`query[lo:hi] == lit`, `query[n:]`), the split / partition / replace characters, the chain of
           prefix tests in source order with the slice offsets and conversions, the else branch
  module   BYTE_MARKER
Any statement that is not of the expected shape raises Untranslatable (the tie is broken for this run, never skipped).
"""
import ast
import os

from translate.py2lean import Untranslatable

REPO = os.environ.get("VERIF_REPO", "/repo")
SRC = "mpf/core/bcp/bcp_socket_client.py"


def _fn(tree, name):
    for n in tree.body:
        if isinstance(n, ast.FunctionDef) and n.name == name:
            return n
    raise Untranslatable("function %s not found" % name)


def _body(fn_or_list):
    body = fn_or_list.body if hasattr(fn_or_list, "body") else fn_or_list
    return [s for s in body if not (isinstance(s, ast.Expr) and isinstance(s.value, ast.Constant))]


def _need(cond, what, node=None):
    if not cond:
        raise Untranslatable(what + (": " + ast.unparse(node)[:90] if node is not None else ""))


def _const_str(e, what):
    _need(isinstance(e, ast.Constant) and isinstance(e.value, str), what + " is not a str literal", e)
    return e.value


def _is_call(e, func_src, nargs=None):
    return isinstance(e, ast.Call) and ast.unparse(e.func) == func_src and (nargs is None or len(e.args) == nargs) \
        and not e.keywords


def _format_parts(e, nargs):
    """'<a>{}<b>'.format(x, ..) -> ([literal pieces], [args])"""
    _need(isinstance(e, ast.Call) and isinstance(e.func, ast.Attribute) and e.func.attr == "format"
          and not e.keywords and len(e.args) == nargs, "format call", e)
    fmt = _const_str(e.func.value, "format string")
    pieces = fmt.split("{}")
    _need(len(pieces) == nargs + 1 and "{" not in "".join(pieces) and "}" not in "".join(pieces), "format string", e)
    return pieces, e.args


def _chain(stmt):
    """if/elif/else -> [(test, body)], else-body"""
    arms = []
    while True:
        _need(isinstance(stmt, ast.If), "if chain", stmt)
        arms.append((stmt.test, _body(stmt.body)))
        if len(stmt.orelse) == 1 and isinstance(stmt.orelse[0], ast.If):
            stmt = stmt.orelse[0]
            continue
        return arms, _body(stmt.orelse)


def extract_encoder(fn):
    t = {}
    a = fn.args
    _need([x.arg for x in a.args] == ["bcp_command"] and a.kwarg is not None and a.kwarg.arg == "kwargs"
          and not a.vararg and not a.kwonlyargs, "encoder signature")
    body = _body(fn)
    _need(len(body) == 6, "encoder: 6 statements expected, got %d" % len(body))
    s0, s1, loop, cut, jif, ret = body
    _need(ast.unparse(s0) == "kwarg_string = ''", "encoder init", s0)
    _need(ast.unparse(s1) == "json_needed = False", "encoder init", s1)
    _need(isinstance(loop, ast.For) and ast.unparse(loop.target) == "(k, v)" and ast.unparse(loop.iter) == "kwargs.items()"
          and not loop.orelse, "encoder loop head", loop)
    lb = _body(loop)
    _need(len(lb) == 4, "encoder loop: 4 statements expected, got %d" % len(lb))
    jtest, qassign, chain, acc = lb
    # if isinstance(v, (dict, list)) or k == 'json': json_needed = True; break
    _need(isinstance(jtest, ast.If) and not jtest.orelse and isinstance(jtest.test, ast.BoolOp)
          and isinstance(jtest.test.op, ast.Or) and len(jtest.test.values) == 2, "json test", jtest)
    inst, keq = jtest.test.values
    _need(_is_call(inst, "isinstance", 2) and ast.unparse(inst.args[0]) == "v" and isinstance(inst.args[1], ast.Tuple)
          and all(isinstance(x, ast.Name) for x in inst.args[1].elts), "json isinstance test", inst)
    t["jsonTypes"] = [x.id for x in inst.args[1].elts]
    _need(isinstance(keq, ast.Compare) and ast.unparse(keq.left) == "k" and len(keq.ops) == 1
          and isinstance(keq.ops[0], ast.Eq), "json key test", keq)
    t["jsonKey"] = _const_str(keq.comparators[0], "json key")
    _need([ast.unparse(x) for x in _body(jtest.body)] == ["json_needed = True", "break"], "json test body", jtest)
    # value = quote(str(v), '')
    _need(isinstance(qassign, ast.Assign) and ast.unparse(qassign.targets[0]) == "value"
          and _is_call(qassign.value, "quote", 2) and ast.unparse(qassign.value.args[0]) == "str(v)", "value = quote(str(v), safe)",
          qassign)
    t["quoteSafeValue"] = _const_str(qassign.value.args[1], "safe")
    # the isinstance chain
    arms, orelse = _chain(chain)
    enc = []
    for test, b in arms:
        if _is_call(test, "isinstance", 2) and ast.unparse(test.args[0]) == "v" and isinstance(test.args[1], ast.Name):
            ty = test.args[1].id
        elif ast.unparse(test) == "v is None":
            ty = "NoneType"
        else:
            raise Untranslatable("encoder chain test: " + ast.unparse(test)[:80])
        _need(len(b) == 1 and isinstance(b[0], ast.Assign) and ast.unparse(b[0].targets[0]) == "value", "encoder chain arm", b[0])
        rhs = b[0].value
        if isinstance(rhs, ast.Constant):
            enc.append((ty, _const_str(rhs, "arm literal"), False))
        else:
            pieces, args = _format_parts(rhs, 1)
            _need(ast.unparse(args[0]) == "value" and pieces[1] == "", "arm format", rhs)
            enc.append((ty, pieces[0], True))
    t["encChain"] = enc
    _need(len(orelse) == 1 and ast.unparse(orelse[0]) == "value = str(value)", "encoder else arm", orelse[0] if orelse else None)
    # kwarg_string += '{}={}&'.format(quote(k, ''), value)
    _need(isinstance(acc, ast.AugAssign) and isinstance(acc.op, ast.Add) and ast.unparse(acc.target) == "kwarg_string",
          "accumulation", acc)
    pieces, args = _format_parts(acc.value, 2)
    _need(_is_call(args[0], "quote", 2) and ast.unparse(args[0].args[0]) == "k" and ast.unparse(args[1]) == "value",
          "pair format arguments", acc)
    t["quoteSafeKey"] = _const_str(args[0].args[1], "safe")
    t["pairFormat"] = pieces
    # kwarg_string = kwarg_string[:-1]
    _need(ast.unparse(cut) == "kwarg_string = kwarg_string[:-1]", "trailing cut", cut)
    t["trailingCut"] = 1
    # if json_needed: kwarg_string = 'json={}'.format(json.dumps(kwargs, cls=MpfJSONEncoder))
    _need(isinstance(jif, ast.If) and ast.unparse(jif.test) == "json_needed" and not jif.orelse and len(_body(jif.body)) == 1,
          "json branch", jif)
    ja = _body(jif.body)[0]
    _need(isinstance(ja, ast.Assign) and ast.unparse(ja.targets[0]) == "kwarg_string" and isinstance(ja.value, ast.Call)
          and isinstance(ja.value.func, ast.Attribute) and ja.value.func.attr == "format" and len(ja.value.args) == 1,
          "json branch assignment", ja)
    fmt = _const_str(ja.value.func.value, "json format").split("{}")
    _need(len(fmt) == 2 and fmt[1] == "", "json format", ja)
    t["jsonFormat"] = fmt[0]
    dumps = ja.value.args[0]
    _need(isinstance(dumps, ast.Call) and ast.unparse(dumps.func) == "json.dumps" and len(dumps.args) == 1
          and ast.unparse(dumps.args[0]) == "kwargs" and [k.arg for k in dumps.keywords] == ["cls"], "json.dumps call", dumps)
    t["jsonCls"] = ast.unparse(dumps.keywords[0].value)
    _need(ast.unparse(ret) == "return str(urlunparse(('', '', bcp_command, '', kwarg_string, '')))", "encoder return", ret)
    return t


def _replace_unquote(e, var):
    """unquote(<var>.replace('+', ' ')) -> (from, to)"""
    _need(_is_call(e, "unquote", 1) and isinstance(e.args[0], ast.Call) and isinstance(e.args[0].func, ast.Attribute)
          and e.args[0].func.attr == "replace" and ast.unparse(e.args[0].func.value) == var and len(e.args[0].args) == 2,
          "unquote(%s.replace(..))" % var, e)
    a, b = (_const_str(x, "replace argument") for x in e.args[0].args)
    _need(len(a) == 1 and len(b) == 1, "replace of single characters", e)
    return a, b


def _slice_from(e, var):
    """<var>[n:] -> n"""
    _need(isinstance(e, ast.Subscript) and ast.unparse(e.value) == var and isinstance(e.slice, ast.Slice)
          and e.slice.upper is None and e.slice.step is None and isinstance(e.slice.lower, ast.Constant)
          and isinstance(e.slice.lower.value, int) and e.slice.lower.value >= 0, "slice %s[n:]" % var, e)
    return e.slice.lower.value


def extract_decoder(fn):
    t = {}
    _need([x.arg for x in fn.args.args] == ["bcp_string"], "decoder signature")
    body = _body(fn)
    _need(len(body) == 5, "decoder: 5 statements expected, got %d" % len(body))
    split, jif, init, loop, ret = body
    _need(ast.unparse(split) == "bcp_command = urlsplit(bcp_string, allow_fragments=False)", "urlsplit", split)
    # if bcp_command.query[0:5] == "json=": kwargs = json.loads(bcp_command.query[5:]); return bcp_command.path, kwargs
    _need(isinstance(jif, ast.If) and not jif.orelse and isinstance(jif.test, ast.Compare) and len(jif.test.ops) == 1
          and isinstance(jif.test.ops[0], ast.Eq), "json test", jif)
    left = jif.test.left
    _need(isinstance(left, ast.Subscript) and ast.unparse(left.value) == "bcp_command.query" and isinstance(left.slice, ast.Slice)
          and left.slice.step is None and isinstance(left.slice.lower, ast.Constant) and isinstance(left.slice.upper, ast.Constant),
          "json test slice", left)
    t["jsonTestLo"], t["jsonTestHi"] = left.slice.lower.value, left.slice.upper.value
    t["jsonTest"] = _const_str(jif.test.comparators[0], "json test literal")
    jb = _body(jif.body)
    _need(len(jb) == 2 and isinstance(jb[0], ast.Assign) and ast.unparse(jb[0].targets[0]) == "kwargs"
          and _is_call(jb[0].value, "json.loads", 1), "json branch", jif)
    t["jsonDrop"] = _slice_from(jb[0].value.args[0], "bcp_command.query")
    _need(ast.unparse(jb[1]) == "return (bcp_command.path, kwargs)", "json branch return", jb[1])
    _need(ast.unparse(init) == "kwargs = dict()", "kwargs init", init)
    _need(isinstance(loop, ast.For) and ast.unparse(loop.target) == "pair" and not loop.orelse
          and isinstance(loop.iter, ast.Call) and ast.unparse(loop.iter.func) == "bcp_command.query.split"
          and len(loop.iter.args) == 1, "decoder loop head", loop)
    t["splitSep"] = _const_str(loop.iter.args[0], "split separator")
    lb = _body(loop)
    _need(len(lb) == 6, "decoder loop: 6 statements expected, got %d" % len(lb))
    skip, part, nameq, dup, valq, chain = lb
    _need(ast.unparse(skip) == "if not pair:\n    continue", "blank pair skip", skip)
    _need(isinstance(part, ast.Assign) and ast.unparse(part.targets[0]) == "(name, _, raw_value)"
          and isinstance(part.value, ast.Call) and ast.unparse(part.value.func) == "pair.partition" and len(part.value.args) == 1,
          "partition", part)
    t["partSep"] = _const_str(part.value.args[0], "partition separator")
    _need(isinstance(nameq, ast.Assign) and ast.unparse(nameq.targets[0]) == "name", "name unquote", nameq)
    t["nameReplace"] = _replace_unquote(nameq.value, "name")
    _need(ast.unparse(dup) == "if name in kwargs:\n    continue", "duplicate name skip", dup)
    _need(isinstance(valq, ast.Assign) and ast.unparse(valq.targets[0]) == "value", "value unquote", valq)
    t["valueReplace"] = _replace_unquote(valq.value, "raw_value")
    arms, orelse = _chain(chain)
    dec = []
    for test, b in arms:
        _need(len(b) == 1 and isinstance(b[0], ast.Assign) and ast.unparse(b[0].targets[0]) == "kwargs[name]", "decoder arm", b[0])
        rhs = b[0].value
        if _is_call(test, "raw_value.startswith", 1):
            lit = _const_str(test.args[0], "prefix")
            _need(isinstance(rhs, ast.Call) and isinstance(rhs.func, ast.Name) and rhs.func.id in ("int", "float")
                  and len(rhs.args) == 1 and not rhs.keywords, "conversion", rhs)
            dec.append(("startswith", lit, _slice_from(rhs.args[0], "value"), rhs.func.id))
        elif isinstance(test, ast.Compare) and len(test.ops) == 1 and isinstance(test.ops[0], ast.Eq) \
                and ast.unparse(test.left) in ("raw_value.lower()", "raw_value"):
            lit = _const_str(test.comparators[0], "literal")
            _need(isinstance(rhs, ast.Constant) and (rhs.value is None or isinstance(rhs.value, bool)), "constant arm", rhs)
            dec.append(("lower==" if ast.unparse(test.left).endswith("lower()") else "==", lit, 0, repr(rhs.value)))
        else:
            raise Untranslatable("decoder chain test: " + ast.unparse(test)[:80])
    t["decChain"] = dec
    _need(len(orelse) == 1 and ast.unparse(orelse[0]) == "kwargs[name] = value", "decoder else arm", orelse[0] if orelse else None)
    _need(ast.unparse(ret) == "return (bcp_command.path, kwargs)", "decoder return", ret)
    return t


def extract(repo=None):
    src = open(os.path.join(repo or REPO, SRC)).read()
    tree = ast.parse(src)
    t = {"enc": extract_encoder(_fn(tree, "encode_command_string")), "dec": extract_decoder(_fn(tree, "decode_command_string"))}
    marker = None
    for n in tree.body:
        if isinstance(n, ast.Assign) and ast.unparse(n.targets[0]) == "BYTE_MARKER":
            _need(isinstance(n.value, ast.Constant) and isinstance(n.value.value, bytes), "BYTE_MARKER", n)
            marker = n.value.value
    _need(marker is not None, "BYTE_MARKER not found")
    t["marker"] = marker
    return t


def lb(s):
    """Lean literal for the UTF-8 bytes of a str (or a bytes object) as `List Nat`"""
    b = s if isinstance(s, bytes) else s.encode("utf-8")
    return "[" + ", ".join(str(x) for x in b) + "]"


def ls(s):
    import json
    return json.dumps(s, ensure_ascii=True)


def generate(repo=None):
    t = extract(repo)
    e, d = t["enc"], t["dec"]
    out = ["/-! GENERATED by translate/bcp_tables.py from %s (encode_command_string, decode_command_string, BYTE_MARKER)" % SRC,
           "— do not edit.  Strings are UTF-8 byte lists. -/",
           "namespace MpfVerif.Gen.BcpTables", "",
           "/-- encoder, `isinstance` chain in SOURCE ORDER: (type tested, text put in front, whether the quoted `str(v)` follows) -/",
           "def encChain : List (String × List Nat × Bool) := [" +
           ", ".join("(%s, %s, %s)" % (ls(ty), lb(p), "true" if w else "false") for ty, p, w in e["encChain"]) + "]",
           "/-- the `safe` argument of `quote(str(v), safe)` and of `quote(k, safe)` -/",
           "def quoteSafeValue : List Nat := " + lb(e["quoteSafeValue"]),
           "def quoteSafeKey : List Nat := " + lb(e["quoteSafeKey"]),
           "/-- the literal pieces of the pair format `'{}={}&'` -/",
           "def pairFormat : List (List Nat) := [" + ", ".join(lb(p) for p in e["pairFormat"]) + "]",
           "def trailingCut : Nat := %d" % e["trailingCut"],
           "/-- values of these types (or a parameter with this name) switch the encoder to JSON -/",
           "def jsonTypes : List String := [" + ", ".join(ls(x) for x in e["jsonTypes"]) + "]",
           "def jsonKey : List Nat := " + lb(e["jsonKey"]),
           "def jsonFormat : List Nat := " + lb(e["jsonFormat"]),
           "def jsonCls : String := " + ls(e["jsonCls"]),
           "",
           "/-- decoder: `query[lo:hi] == lit` selects JSON, `json.loads(query[drop:])` -/",
           "def jsonTestLo : Nat := %d" % d["jsonTestLo"],
           "def jsonTestHi : Nat := %d" % d["jsonTestHi"],
           "def jsonTest : List Nat := " + lb(d["jsonTest"]),
           "def jsonDrop : Nat := %d" % d["jsonDrop"],
           "def splitSep : List Nat := " + lb(d["splitSep"]),
           "def partSep : List Nat := " + lb(d["partSep"]),
           "/-- `.replace(a, b)` applied before `unquote` to the name / to the raw value -/",
           "def nameReplace : List Nat × List Nat := (%s, %s)" % (lb(d["nameReplace"][0]), lb(d["nameReplace"][1])),
           "def valueReplace : List Nat × List Nat := (%s, %s)" % (lb(d["valueReplace"][0]), lb(d["valueReplace"][1])),
           "/-- decoder chain in SOURCE ORDER: (test on the raw value, literal, slice offset into the unquoted value, conversion / constant) -/",
           "def decChain : List (String × List Nat × Nat × String) := [" +
           ", ".join("(%s, %s, %d, %s)" % (ls(k), lb(lit), off, ls(conv)) for k, lit, off, conv in d["decChain"]) + "]",
           "",
           "/-- `BYTE_MARKER` -/",
           "def byteMarker : List Nat := " + lb(t["marker"]),
           "", "end MpfVerif.Gen.BcpTables", ""]
    return "MpfVerif/Gen/BcpTables.lean", "\n".join(out)


if __name__ == "__main__":
    print(generate()[1])
