"""GEN job for C20: the handlers of mpf/modes/credits/code/credits.py -> lean/MpfVerif/Gen/CreditsOps.lean

Every method in METHODS becomes a `List SSt` literal for the stateful interpreter lean/MpfVerif/Model/PyStore.lean:
  self.<attr> (ATTRS)                                         -> read `.env "<attr>"` / write `.store "<attr>"`
  self.machine.variables.get_machine_var('x')                 -> `.env "mv:x"`;   set_machine_var('x', e) -> `.store "mv:x" e`
  self.machine.settings.get_setting_value('x')                -> `.env "set:x"`;  set_setting_value('x', e) -> `.store "set:x" e`
  self.credits_config['k'] / self.credits_config['k'].evaluate([])  -> `.cfg "k"`
  self.pricing_table[e]                                       -> `.index` into the table the context supplies
  self.machine.events.post('e') / self.delay.reset|remove(...) / <coin inhibit output>.enable|disable()  -> `.eff`
  self.<m>(...) for m in OPAQUE (audits, display strings, enable_*_play)   -> `.eff "self" "<m>"` (meaning given by hand in
                                                                     Model/CreditsGen.lean `applyEff`)
  self.<m>(...) for m in METHODS                               -> `.call` with the callee's program embedded
  for _ in range(e)                                            -> `.forRange`;   int(e) -> `.toInt`;   + - * % / -> `.bin`
  self._exact(e), <template>.evaluate(kwargs)                  -> e  (the model's numbers are exact / already evaluated)
Sub-expressions that are not pure (`Ex`) are hoisted into temporaries `_t<n>` in evaluation order; only calls of read-only
translated methods may be hoisted.  Logging, docstrings, `del kwargs` and the two percentage audits of `_player_added`
(string formatting of a float ratio; they touch no state the property speaks about) are dropped by name.
Anything else raises Untranslatable: the tie is broken for this run.
"""
import ast
import os

from translate.py2lean import Translator, Untranslatable, lean_str, DROPPED_CALL_PREFIXES
from translate.py2eff import class_methods, params_of

REPO = os.environ.get("VERIF_REPO", "/repo")
ATTRS = ["credit_units_per_game", "credit_unit", "pricing_tiers_wrap_around", "credit_units_for_pricing_tiers",
         "reset_pricing_tier_count_this_game"]
METHODS = ["_get_credit_units", "_control_coin_inhibit", "_reset_timeouts", "_add_credit_units", "add_credit",
           "_credit_switch_callback", "_credit_event_callback", "_service_credit_callback", "_player_add_request",
           "_request_to_start_game", "_player_added", "_game_started", "_game_ended", "_clear_fractional_credits",
           "clear_all_credits", "_reset_pricing_tier_credits", "_ball_starting", "toggle_credit_play"]
OPAQUE = ["_update_credit_strings", "_audit", "_audit_event", "_audit_increment_non_coin", "enable_credit_play",
          "enable_free_play"]
READONLY = {"_get_credit_units"}
DROPPED_ASSIGN = ("total_paid", "total_free", "total_all", "free_percentage", "paid_percentage")
DROPPED_CALLS = DROPPED_CALL_PREFIXES + ("self._audit_set_non_coin",)
BIN = {ast.Add: "+", ast.Sub: "-", ast.Mult: "*", ast.Mod: "%", ast.Div: "/"}
INHIBIT = "self.credits_config['coin_inhibit_disable_output']"


def lean_name(m):
    return ("p" + m) if m.startswith("_") else m


class CreditsTranslator(Translator):
    def __init__(self, methods):
        env = {"self." + a: a for a in ATTRS}
        super().__init__(env)
        self.methods = methods
        self.pre = []
        self.tmp = 0
        self.pad = ""

    # ---- pure expressions (Ex); what is not pure is hoisted --------------------------------------------------------
    def ex(self, e):
        src = ast.unparse(e)
        if isinstance(e, ast.Call):
            f = ast.unparse(e.func)
            if f == "self.machine.variables.get_machine_var" and len(e.args) == 1 and isinstance(e.args[0], ast.Constant):
                return '(.env %s)' % lean_str("mv:" + e.args[0].value)
            if f == "self.machine.settings.get_setting_value" and len(e.args) == 1 and isinstance(e.args[0], ast.Constant):
                return '(.env %s)' % lean_str("set:" + e.args[0].value)
            if f == "self._exact" and len(e.args) == 1 and not e.keywords:
                return self.ex(e.args[0])
            if isinstance(e.func, ast.Attribute) and e.func.attr == "evaluate" and len(e.args) == 1 and not e.keywords:
                inner = e.func.value
                if ast.unparse(e.args[0]) == "[]" and isinstance(inner, ast.Subscript) \
                        and ast.unparse(inner.value) == "self.credits_config" and isinstance(inner.slice, ast.Constant):
                    return '(.cfg %s)' % lean_str(inner.slice.value)
                if ast.unparse(e.args[0]) == "kwargs" and isinstance(inner, ast.Name):
                    return self.ex(inner)
        if isinstance(e, ast.Subscript) and ast.unparse(e.value) == "self.credits_config" and isinstance(e.slice, ast.Constant) \
                and isinstance(e.slice.value, str):
            return '(.cfg %s)' % lean_str(e.slice.value)
        if isinstance(e, ast.Attribute) and isinstance(e.value, ast.Name) and e.value.id == "self" and e.attr in self.methods:
            return "(.lit (.str %s))" % lean_str("cb:" + e.attr)
        try:
            return super().ex(e)
        except Untranslatable:
            pass
        # hoist
        self.tmp += 1
        t = "_t%d" % self.tmp
        if isinstance(e, ast.Call) and isinstance(e.func, ast.Attribute) and isinstance(e.func.value, ast.Name) \
                and e.func.value.id == "self" and e.func.attr in READONLY:
            self.pre.append(self.call_stmt(t, e))
        else:
            self.pre.append(".assign %s %s" % (lean_str(t), self.sex(e)))
        return "(.var %s)" % lean_str(t)

    def sex(self, e):
        if isinstance(e, ast.BinOp) and type(e.op) in BIN:
            return "(.bin %s %s %s)" % (lean_str(BIN[type(e.op)]), self.sex(e.left), self.sex(e.right))
        if isinstance(e, ast.Call) and ast.unparse(e.func) == "int" and len(e.args) == 1 and not e.keywords:
            return "(.toInt %s)" % self.sex(e.args[0])
        if isinstance(e, ast.Call) and ast.unparse(e.func) == "self._exact" and len(e.args) == 1:
            return self.sex(e.args[0])
        if isinstance(e, (ast.BinOp, ast.Call)) and not self.is_pure(e):
            if isinstance(e, ast.Call) and isinstance(e.func, ast.Attribute) and isinstance(e.func.value, ast.Name) \
                    and e.func.value.id == "self" and e.func.attr in READONLY:
                return "(.pure %s)" % self.ex(e)
            raise Untranslatable("expression: " + ast.unparse(e)[:80])
        return "(.pure %s)" % self.ex(e)

    def is_pure(self, e):
        n, saved_pre, saved_tmp = len(self.pre), list(self.pre), self.tmp
        try:
            self.ex(e)
            ok = len(self.pre) == n
        except Untranslatable:
            ok = False
        self.pre, self.tmp = saved_pre, saved_tmp
        return ok

    # ---- calls --------------------------------------------------------------------------------------------------------
    def args_text(self, pairs):
        return "[" + ", ".join("(%s, %s)" % (lean_str(k), v) for k, v in pairs) + "]"

    def bind(self, call, names, kwname, what):
        out = []
        if len(call.args) > len(names):
            raise Untranslatable("too many positional arguments for " + what)
        for n, a in zip(names, call.args):
            out.append((n, self.sex(a)))
        for kw in call.keywords:
            if kw.arg is None or (kw.arg not in names and kwname is None):
                raise Untranslatable("keyword argument of " + what)
            out.append((kw.arg, self.sex(kw.value)))
        if len({k for k, _ in out}) != len(out):
            raise Untranslatable("argument given twice: " + what)
        return out

    def call_stmt(self, target, call):
        f = call.func
        src = ast.unparse(f)
        t = "(some %s)" % lean_str(target) if target else "none"
        if isinstance(f, ast.Attribute) and isinstance(f.value, ast.Name) and f.value.id == "self" and f.attr in self.methods:
            names, kwname = params_of(self.methods[f.attr])
            pairs = self.bind(call, names, kwname, src)
            if f.attr in METHODS:
                return ".call %s %s %s" % (t, lean_name(f.attr), self.args_text(pairs))
            if f.attr in OPAQUE and target is None:
                return ".eff \"self\" %s %s" % (lean_str(f.attr), self.args_text(pairs))
            raise Untranslatable("call of an untranslated method: " + src)
        if target is not None:
            raise Untranslatable("result of a collaborator call is used: " + src)
        kw = {k.arg: k.value for k in call.keywords}
        if src in ("self.machine.variables.set_machine_var", "self.machine.settings.set_setting_value"):
            name = call.args[0] if call.args else kw.get("name", kw.get("setting_name"))
            value = call.args[1] if len(call.args) > 1 else kw.get("value")
            if not isinstance(name, ast.Constant) or value is None or (set(kw) - {"name", "value", "setting_name"}):
                raise Untranslatable("variable write: " + ast.unparse(call)[:80])
            return ".store %s %s" % (lean_str(("mv:" if "variables" in src else "set:") + name.value), self.sex(value))
        if src == "self.machine.events.post":
            if len(call.args) != 1 or call.keywords or not isinstance(call.args[0], ast.Constant):
                raise Untranslatable("event post with arguments: " + ast.unparse(call)[:80])
            return '.eff "events" "post" [("event", %s)]' % self.sex(call.args[0])
        if src in ("self.delay.reset", "self.delay.remove"):
            if call.args and src.endswith("remove") and len(call.args) == 1:
                pairs = [("name", self.sex(call.args[0]))]
            elif call.args:
                raise Untranslatable("positional delay arguments: " + ast.unparse(call)[:80])
            else:
                pairs = [(k, self.sex(v)) for k, v in kw.items()]
            return '.eff "delay" %s %s' % (lean_str(f.attr), self.args_text(pairs))
        if isinstance(f, ast.Attribute) and ast.unparse(f.value) == INHIBIT and f.attr in ("enable", "disable") \
                and not call.args and not call.keywords:
            return '.eff "inhibit" %s []' % lean_str(f.attr)
        raise Untranslatable("call: " + ast.unparse(call)[:80])

    # ---- statements ---------------------------------------------------------------------------------------------------
    def flush(self, out, pad):
        for p in self.pre:
            out.append(pad + p)
        self.pre = []

    def sstmts(self, body, ind):
        out = []
        pad = " " * ind
        for s in body:
            if self.pre:
                raise Untranslatable("internal: unflushed temporaries")
            if isinstance(s, ast.Expr):
                if isinstance(s.value, ast.Constant) and isinstance(s.value.value, str):
                    continue
                if isinstance(s.value, ast.Call):
                    if ast.unparse(s.value.func).startswith(DROPPED_CALLS):
                        continue
                    st = self.call_stmt(None, s.value)
                    self.flush(out, pad)
                    out.append(pad + st)
                    continue
                raise Untranslatable("expression statement: " + ast.unparse(s)[:80])
            if isinstance(s, ast.Delete):
                continue
            if isinstance(s, ast.Assign) and len(s.targets) == 1:
                tgt = s.targets[0]
                if isinstance(tgt, ast.Name) and tgt.id in DROPPED_ASSIGN:
                    continue
                st = self.assign(tgt, s.value)
                self.flush(out, pad)
                out.append(pad + st)
            elif isinstance(s, ast.AugAssign) and type(s.op) in BIN:
                st = self.assign(s.target, ast.BinOp(left=s.target, op=s.op, right=s.value))
                self.flush(out, pad)
                out.append(pad + st)
            elif isinstance(s, ast.If):
                c = self.cd(s.test)
                self.flush(out, pad)
                body_l = self.sstmts(s.body, ind + 2)
                else_l = self.sstmts(s.orelse, ind + 2)
                out.append("%s.ifThen %s\n%s  [%s]\n%s  [%s]" % (
                    pad, c, pad, ",\n".join(x.strip() if i == 0 else x for i, x in enumerate(body_l)),
                    pad, ",\n".join(x.strip() if i == 0 else x for i, x in enumerate(else_l))))
            elif isinstance(s, ast.For):
                it = s.iter
                if s.orelse or not (isinstance(it, ast.Call) and ast.unparse(it.func) == "range" and len(it.args) == 1) \
                        or not isinstance(s.target, ast.Name) or s.target.id != "_":
                    raise Untranslatable("loop: " + ast.unparse(s)[:80])
                n = self.sex(it.args[0])
                self.flush(out, pad)
                body_l = self.sstmts(s.body, ind + 2)
                out.append("%s.forRange %s\n%s  [%s]" % (pad, n, pad, ",\n".join(x.strip() if i == 0 else x for i, x in enumerate(body_l))))
            elif isinstance(s, ast.Raise):
                exc = s.exc.func if isinstance(s.exc, ast.Call) else s.exc
                out.append("%s.raise %s" % (pad, lean_str(ast.unparse(exc))))
            elif isinstance(s, ast.Return):
                st = ".ret %s" % (self.sex(s.value) if s.value is not None else "(.pure (.lit .none))")
                self.flush(out, pad)
                out.append(pad + st)
            else:
                raise Untranslatable("statement: " + ast.unparse(s)[:80])
        return out

    def assign(self, tgt, value):
        if isinstance(tgt, ast.Attribute) and isinstance(tgt.value, ast.Name) and tgt.value.id == "self" and tgt.attr in ATTRS:
            return ".store %s %s" % (lean_str(tgt.attr), self.sex(value))
        if not isinstance(tgt, ast.Name):
            raise Untranslatable("assignment target: " + ast.unparse(tgt)[:80])
        if isinstance(value, ast.Subscript) and ast.unparse(value.value) == "self.pricing_table":
            return ".index %s \"pricing_table\" %s" % (lean_str(tgt.id), self.sex(value.slice))
        if isinstance(value, ast.Call) and isinstance(value.func, ast.Attribute) and isinstance(value.func.value, ast.Name) \
                and value.func.value.id == "self" and value.func.attr in METHODS:
            return self.call_stmt(tgt.id, value)
        return ".assign %s %s" % (lean_str(tgt.id), self.sex(value))

    def method(self, name):
        fn = self.methods[name]
        if not isinstance(fn, ast.FunctionDef) or fn.args.vararg or fn.args.kwonlyargs or fn.args.posonlyargs:
            raise Untranslatable("signature of " + name)
        params, _ = params_of(fn)
        defaults = {}
        pos = [a.arg for a in fn.args.args if a.arg != "self"]
        for a, d in zip(pos[len(pos) - len(fn.args.defaults):], fn.args.defaults):
            if not isinstance(d, ast.Constant):
                raise Untranslatable("default of %s.%s" % (name, a))
            defaults[a] = d
        body = []
        for a, d in defaults.items():     # a parameter the caller left out is None in the interpreter: `x = default if x is None`
            if d.value is not None:
                body.append("    .ifThen (.isNone (.var %s)) [.assign %s (.pure %s)] []" % (lean_str(a), lean_str(a), super().ex(d)))
        body += self.sstmts(fn.body, 4)
        return params, "def %s : List SSt :=\n  [\n%s\n  ]\n" % (lean_name(name), ",\n".join(body))


def generate():
    tree = ast.parse(open(os.path.join(REPO, "mpf/modes/credits/code/credits.py")).read())
    methods = class_methods(tree, "Credits")
    tr = CreditsTranslator(methods)
    out = ["import MpfVerif.Model.PyStore",
           "/-! GENERATED by translate/credits_eff.py from mpf/modes/credits/code/credits.py — do not edit.",
           "Regenerated on every check; `Props/C20.lean` proves that the hand model `Model/Credits.lean` does what these programs",
           "do (`*_refines_source`). -/",
           "namespace MpfVerif.Gen.CreditsOps", "open MpfVerif.Py", ""]
    for m in METHODS:
        params, text = tr.method(m)
        out.append("/-- `Credits.%s(%s)` -/" % (m, ", ".join(params)))
        out.append(text)
    out.append("end MpfVerif.Gen.CreditsOps")
    return "MpfVerif/Gen/CreditsOps.lean", "\n".join(out) + "\n"


if __name__ == "__main__":
    print(generate()[1])
