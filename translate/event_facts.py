"""mpf/core/events.py -> lean/MpfVerif/Gen/EventFacts.lean: the facts of the source that the C01 proofs rest on.

Read from the AST (nothing is executed):
  add_handler          the entry is put into registered_handlers[event] with .append(...) and the list is then sorted with
                       .sort(key=lambda x: x.priority, reverse=True) (unconditionally, or guarded by len(...) > 1)
  _run_handlers        the handler loop iterates registered_handlers[event][:] - a copy taken before the first call
  _post                self.event_queue.append(posted_event)
  _process_event       self.callback_queue.append((callback, kwargs))
  process_event_queue  next_queue.popleft(), inner_queue.popleft(), inner_queue.appendleft(next_queue),
                       self.callback_queue.pop()
They become one Lean value `sourceFacts : EventBus.Facts`.  The model driver runs with it (registry order, deque ends,
callback order follow the source), and `Props/C01.lean` proves `sourceFacts = Facts.canon` - the value all C01
theorems are stated for - so a source that says something else no longer checks.
Anything that is not one of the shapes listed here raises Untranslatable (= the tie is broken for this run).
"""
import ast
import os

from translate.py2lean import Untranslatable

REPO = os.environ.get("VERIF_REPO", "/repo")
SRC = "mpf/core/events.py"


def _methods(tree, cls):
    for node in tree.body:
        if isinstance(node, ast.ClassDef) and node.name == cls:
            return {f.name: f for f in node.body if isinstance(f, (ast.FunctionDef, ast.AsyncFunctionDef))}
    raise Untranslatable("class %s not found" % cls)


def _src(node):
    return ast.unparse(node)


def _calls(fn, recv, names):
    """method calls `<recv>.<name>(...)` with name in names, in source order"""
    out = []
    for n in ast.walk(fn):
        if isinstance(n, ast.Call) and isinstance(n.func, ast.Attribute) and n.func.attr in names and _src(n.func.value) == recv:
            out.append(n)
    return sorted(out, key=lambda c: (c.lineno, c.col_offset))


def _one(fn, recv, table, what):
    """exactly one call of <recv>.<m> with m a key of table -> table[m]"""
    cs = _calls(fn, recv, set(table))
    if len(cs) != 1:
        raise Untranslatable("%s: expected exactly one %s.{%s}(...) in %s, found %d"
                             % (what, recv, "/".join(sorted(table)), fn.name, len(cs)))
    return table[cs[0].func.attr], cs[0]


END_PUSH = {"append": "right", "appendleft": "left"}
END_POP = {"pop": "right", "popleft": "left"}


def _guards(fn, target):
    """the `if` tests enclosing the statement that contains node `target`"""
    path = []

    def walk(node, tests):
        for child in ast.iter_child_nodes(node):
            if child is target:
                path.append(list(tests))
                return True
            t = tests
            if isinstance(node, ast.If) and child in node.body:
                t = tests + [_src(node.test)]
            elif isinstance(node, ast.If) and child in node.orelse:
                t = tests + ["not (%s)" % _src(node.test)]
            elif isinstance(node, (ast.For, ast.While, ast.Try, ast.With)) and child is not getattr(node, "iter", None):
                t = tests + ["<%s>" % type(node).__name__]
            if walk(child, t):
                return True
        return False
    walk(fn, [])
    if not path:
        raise Untranslatable("statement not found in %s" % fn.name)
    return path[0]


def extract(source):
    tree = ast.parse(source)
    m = _methods(tree, "EventManager")
    for name in ("add_handler", "_run_handlers", "_post", "_process_event", "process_event_queue"):
        if name not in m:
            raise Untranslatable("EventManager.%s not found" % name)
    facts = {}
    lst = "self.registered_handlers[event]"

    # add_handler: append, then sort(key=lambda x: x.priority, reverse=True)
    f = m["add_handler"]
    place, put = _one(f, lst, {"append": True, "insert": None}, "registration")
    if place is None:
        if not (len(put.args) == 2 and _src(put.args[0]) == "0"):
            raise Untranslatable("add_handler: insert(...) other than insert(0, entry)")
        place = False
    if _guards(f, put):
        raise Untranslatable("add_handler: the registration is conditional: %r" % _guards(f, put))
    facts["addAppends"] = place
    sorts = _calls(f, lst, {"sort"})
    sorted_calls = [n for n in ast.walk(f) if isinstance(n, ast.Call) and _src(n.func) == "sorted"]
    if sorted_calls:
        raise Untranslatable("add_handler: sorted(...) instead of list.sort")
    if len(sorts) == 0:
        facts["sortKeyPriority"], facts["sortReverse"] = False, False
    elif len(sorts) == 1:
        s = sorts[0]
        if s.lineno < put.lineno:
            raise Untranslatable("add_handler: the list is sorted before the new entry is put in")
        g = _guards(f, s)
        if g not in ([], ["len(%s) > 1" % lst]):
            raise Untranslatable("add_handler: the sort is guarded by %r" % g)
        if s.args:
            raise Untranslatable("add_handler: positional arguments to sort")
        kws = {k.arg: k.value for k in s.keywords}
        if set(kws) - {"key", "reverse"}:
            raise Untranslatable("add_handler: unknown sort keywords %r" % sorted(kws))
        key = kws.get("key")
        if not (isinstance(key, ast.Lambda) and len(key.args.args) == 1 and isinstance(key.body, ast.Attribute)
                and isinstance(key.body.value, ast.Name) and key.body.value.id == key.args.args[0].arg
                and key.body.attr == "priority"):
            raise Untranslatable("add_handler: sort key is not `lambda x: x.priority`: %s" % (_src(key) if key else None))
        facts["sortKeyPriority"] = True
        rev = kws.get("reverse")
        if rev is None:
            facts["sortReverse"] = False
        elif isinstance(rev, ast.Constant) and isinstance(rev.value, bool):
            facts["sortReverse"] = rev.value
        else:
            raise Untranslatable("add_handler: reverse= is not a literal")
    else:
        raise Untranslatable("add_handler: more than one sort")

    # _run_handlers: what the handler loop iterates
    f = m["_run_handlers"]
    loops = [n for n in ast.walk(f) if isinstance(n, ast.For)]
    if len(loops) != 1:
        raise Untranslatable("_run_handlers: expected one for loop, found %d" % len(loops))
    it = _src(loops[0].iter)
    if it in (lst + "[:]", "list(%s)" % lst, "tuple(%s)" % lst, lst + ".copy()"):
        facts["iterCopy"] = True
    elif it == lst:
        facts["iterCopy"] = False
    else:
        raise Untranslatable("_run_handlers: the loop iterates %s" % it)
    if _guards(f, loops[0]):
        raise Untranslatable("_run_handlers: the loop is conditional")

    facts["postPush"], c = _one(m["_post"], "self.event_queue", END_PUSH, "_post")
    if _guards(m["_post"], c):
        raise Untranslatable("_post: the append is conditional: %r" % _guards(m["_post"], c))
    facts["cbPush"], _ = _one(m["_process_event"], "self.callback_queue", END_PUSH, "_process_event")
    f = m["process_event_queue"]
    facts["nextPop"], _ = _one(f, "next_queue", END_POP, "process_event_queue")
    facts["innerPush"], c = _one(f, "inner_queue", END_PUSH, "process_event_queue")
    if [_src(a) for a in c.args] != ["next_queue"]:
        raise Untranslatable("process_event_queue: inner_queue gets %s" % [_src(a) for a in c.args])
    facts["innerPop"], _ = _one(f, "inner_queue", END_POP, "process_event_queue")
    facts["cbPop"], c = _one(f, "self.callback_queue", END_POP, "process_event_queue")
    if c.args:
        raise Untranslatable("process_event_queue: callback_queue.pop with arguments")
    return facts


ORDER = ["sortKeyPriority", "sortReverse", "addAppends", "iterCopy", "postPush", "nextPop", "innerPush", "innerPop",
         "cbPush", "cbPop"]


def lean_of(facts):
    def val(v):
        return {True: "true", False: "false"}.get(v, "." + str(v)) if isinstance(v, bool) else "." + v
    fields = ",\n    ".join("%s := %s" % (k, val(facts[k])) for k in ORDER)
    return "\n".join([
        "import MpfVerif.Model.EventBus",
        "/-! GENERATED by translate/event_facts.py from mpf/core/events.py — do not edit.  Regenerated on every check.",
        "What the source says about: the sort in `add_handler`, the iteration of `_run_handlers`, and which end of which deque",
        "`_post`, `_process_event` and `process_event_queue` push to and pop from.  The C01 model driver runs with these",
        "facts; `Props/C01.lean` proves they are the ones every C01 theorem is stated for (`source_facts_canonical`). -/",
        "namespace MpfVerif.Gen.EventFacts",
        "open MpfVerif.EventBus",
        "",
        "def sourceFacts : Facts :=",
        "  { " + fields + " }",
        "",
        "end MpfVerif.Gen.EventFacts",
        ""])


def generate():
    with open(os.path.join(REPO, SRC)) as fh:
        facts = extract(fh.read())
    return "MpfVerif/Gen/EventFacts.lean", lean_of(facts)


if __name__ == "__main__":
    print(generate()[1])
