"""GEN job for C19: decode_command_string / encode_command_string -> lean/MpfVerif/Gen/BcpCodec.lean

The two pure functions of mpf/core/bcp/bcp_socket_client.py become `List St` literals for the fixed interpreter
lean/MpfVerif/Model/PyStr.lean; lean/MpfVerif/Lemmas/BcpCodec.lean proves that the hand model (Model/Bcp.lean: decode,
encodeFlat, encodeJson) IS the interpreted program.  A change of the source changes the data and the proof no longer checks.

The walk is a generic statement / expression translator over this subset (anything else raises Untranslatable — the tie is
broken for this run, nothing is skipped; docstrings / bare constant expressions are dropped):
  statements  x = e;  a, b, c = e;  d[k] = e;  x += e (str);  if/elif/else;  for x in e;  for k, v in d.items();
              continue;  break;  return e;  return a, b
  expressions str/bool/None/int literals; local names; dict(); '..{}..'.format(..) (-> concatenation); quote(e, '');
              unquote(e); e.replace('+', ' '); e.lower(); e.startswith(<lit>); e[a:b], e[n:], e[:n], e[:-1]; a == b; a != b;
              not e; a or b; k in d; e.partition(<1 ASCII char>); e.split(<1 ASCII char>); str(e); int(e); float(e);
              isinstance(e, bool|int|float|str); isinstance(e, (dict, list)); e is None; e is not None;
              urlsplit(e, allow_fragments=False); e.path; e.query; urlunparse(('', '', p, '', q, ''));
              json.loads(e); json.dumps(e, cls=MpfJSONEncoder)
The names quote / unquote / urlsplit / urlunparse must be imported from urllib.parse and `json` must be the module (checked);
no local may shadow a builtin / imported name that is used as a function.
Variables become Nat ids (parameters first, in signature order, then locals by first assignment); the names are printed in
a comment of the generated file.
"""
import ast
import os

from translate.py2lean import Untranslatable

REPO = os.environ.get("VERIF_REPO", "/repo")
SRC = "mpf/core/bcp/bcp_socket_client.py"
URLLIB_NAMES = ("quote", "unquote", "urlsplit", "urlunparse")
BUILTIN_FUNCS = ("str", "int", "float", "dict", "isinstance")
TYPES = {"bool": ".bool", "int": ".int", "float": ".float", "str": ".str"}


def lb(s):
    """Lean literal for the UTF-8 bytes of a str as `List Nat`"""
    return "[" + ", ".join(str(x) for x in s.encode("utf-8")) + "]"


def _bad(what, node=None):
    raise Untranslatable(what + (": " + ast.unparse(node)[:100] if node is not None else ""))


def _need(cond, what, node=None):
    if not cond:
        _bad(what, node)


def _is_str(e, value=None):
    return isinstance(e, ast.Constant) and isinstance(e.value, str) and (value is None or e.value == value)


def _one_ascii(e, what):
    _need(_is_str(e) and len(e.value) == 1 and ord(e.value) < 128, what + " must be one ASCII character", e)
    return ord(e.value)


def check_imports(tree):
    """quote / unquote / urlsplit / urlunparse come from urllib.parse, json is the module, nothing rebinds them"""
    origin = {}
    for n in tree.body:
        if isinstance(n, ast.ImportFrom):
            for a in n.names:
                origin[a.asname or a.name] = "%s.%s" % (n.module, a.name)
        elif isinstance(n, ast.Import):
            for a in n.names:
                origin[a.asname or a.name] = a.name
        elif isinstance(n, (ast.FunctionDef, ast.AsyncFunctionDef, ast.ClassDef)):
            _need(n.name not in URLLIB_NAMES + BUILTIN_FUNCS + ("json",), "module rebinds %s" % n.name)
        elif isinstance(n, (ast.Assign, ast.AugAssign, ast.AnnAssign)):
            for t in ast.walk(n):
                if isinstance(t, ast.Name) and isinstance(t.ctx, ast.Store):
                    _need(t.id not in URLLIB_NAMES + BUILTIN_FUNCS + ("json",), "module rebinds %s" % t.id)
    for name in URLLIB_NAMES:
        _need(origin.get(name) == "urllib.parse." + name, "%s is not urllib.parse.%s" % (name, name))
    _need(origin.get("json") == "json", "json is not the json module")


class Fn:
    """translator of one function body"""

    def __init__(self, fn, params):
        self.fn = fn
        self.ids = {}
        for p in params:
            self.ids[p] = len(self.ids)
        # every name stored anywhere in the function is a local; none may shadow a function name we give a meaning to
        for n in ast.walk(fn):
            if isinstance(n, ast.Name) and isinstance(n.ctx, (ast.Store, ast.Del)):
                _need(n.id not in URLLIB_NAMES + BUILTIN_FUNCS + ("json", "MpfJSONEncoder"), "local shadows " + n.id, n)
            if isinstance(n, (ast.Global, ast.Nonlocal, ast.Lambda, ast.FunctionDef, ast.AsyncFunctionDef, ast.ClassDef)) \
                    and n is not fn:
                _bad("nested scope / global statement", n)

    # --- variables ----------------------------------------------------------------------------------------------
    def load(self, name, node):
        _need(name in self.ids, "name read before any assignment (or not a local)", node)
        return self.ids[name]

    def store(self, name):
        if name not in self.ids:
            self.ids[name] = len(self.ids)
        return self.ids[name]

    # --- expressions --------------------------------------------------------------------------------------------
    def cat(self, parts, node):
        parts = [p for p in parts if p != "(.lit (.str []))"]
        if not parts:
            return "(.lit (.str []))"
        out = parts[-1]
        for p in reversed(parts[:-1]):
            out = "(.cat %s %s)" % (p, out)
        return out

    def ex(self, e):
        if isinstance(e, ast.Constant):
            v = e.value
            if v is None:
                return "(.lit .none)"
            if isinstance(v, bool):
                return "(.lit (.bool %s))" % ("true" if v else "false")
            if isinstance(v, int):
                return "(.lit (.int (%d)))" % v
            if isinstance(v, str):
                return "(.lit (.str %s))" % lb(v)
            _bad("constant", e)
        if isinstance(e, ast.Name):
            _need(isinstance(e.ctx, ast.Load), "name context", e)
            return "(.var %d)" % self.load(e.id, e)
        if isinstance(e, ast.Attribute):
            _need(isinstance(e.ctx, ast.Load) and e.attr in ("path", "query"), "attribute", e)
            return "(.%s %s)" % (e.attr, self.ex(e.value))
        if isinstance(e, ast.Subscript):
            return self.subscript(e)
        if isinstance(e, ast.UnaryOp):
            _need(isinstance(e.op, ast.Not), "unary operator", e)
            return "(.not %s)" % self.ex(e.operand)
        if isinstance(e, ast.BoolOp):
            _need(isinstance(e.op, ast.Or), "boolean operator", e)
            vals = [self.ex(x) for x in e.values]
            out = vals[-1]
            for p in reversed(vals[:-1]):
                out = "(.or %s %s)" % (p, out)
            return out
        if isinstance(e, ast.Compare):
            return self.compare(e)
        if isinstance(e, ast.Tuple):
            _need(isinstance(e.ctx, ast.Load) and len(e.elts) == 2, "tuple (only pairs)", e)
            return "(.tup2 %s %s)" % (self.ex(e.elts[0]), self.ex(e.elts[1]))
        if isinstance(e, ast.Call):
            return self.call(e)
        _bad("expression", e)

    def subscript(self, e):
        _need(isinstance(e.ctx, ast.Load) and isinstance(e.slice, ast.Slice) and e.slice.step is None, "subscript", e)

        def bound(x):
            if x is None:
                return None
            if isinstance(x, ast.UnaryOp) and isinstance(x.op, ast.USub) and isinstance(x.operand, ast.Constant) \
                    and type(x.operand.value) is int:
                return -x.operand.value
            _need(isinstance(x, ast.Constant) and type(x.value) is int, "slice bound", e)
            return x.value
        lo, hi = bound(e.slice.lower), bound(e.slice.upper)
        v = self.ex(e.value)
        if lo is not None and lo >= 0 and hi is None:
            return "(.dropN %d %s)" % (lo, v)
        if (lo is None or lo >= 0) and hi is not None and hi >= 0:
            return "(.slice %d %d %s)" % (lo or 0, hi, v)
        if lo is None and hi == -1:
            return "(.dropLast %s)" % v
        _bad("slice bounds", e)

    def compare(self, e):
        _need(len(e.ops) == 1, "chained comparison", e)
        op, a, b = e.ops[0], e.left, e.comparators[0]
        if isinstance(op, ast.Eq):
            return "(.eq %s %s)" % (self.ex(a), self.ex(b))
        if isinstance(op, ast.NotEq):
            return "(.not (.eq %s %s))" % (self.ex(a), self.ex(b))
        if isinstance(op, (ast.Is, ast.IsNot)):
            _need(isinstance(b, ast.Constant) and b.value is None, "`is` with something other than None", e)
            r = "(.isNone %s)" % self.ex(a)
            return r if isinstance(op, ast.Is) else "(.not %s)" % r
        if isinstance(op, ast.In):
            return "(.isIn %s %s)" % (self.ex(a), self.ex(b))
        if isinstance(op, ast.NotIn):
            return "(.not (.isIn %s %s))" % (self.ex(a), self.ex(b))
        _bad("comparison operator", e)

    def call(self, e):
        f = e.func
        kw = {k.arg: k.value for k in e.keywords}
        _need(None not in kw and not any(isinstance(a, ast.Starred) for a in e.args), "star arguments", e)
        n = len(e.args)
        if isinstance(f, ast.Name):
            _need(f.id not in self.ids, "call of a local", e)
            if f.id == "quote":
                _need(n == 2 and not kw and _is_str(e.args[1], ""), "quote(x, '') expected", e)
                return "(.quote %s)" % self.ex(e.args[0])
            if f.id == "unquote":
                _need(n == 1 and not kw, "unquote(x) expected", e)
                return "(.unquote %s)" % self.ex(e.args[0])
            if f.id in ("str", "int", "float"):
                _need(n == 1 and not kw, "%s(x) expected" % f.id, e)
                return "(.%s %s)" % ({"str": "strOf", "int": "toInt", "float": "toFloat"}[f.id], self.ex(e.args[0]))
            if f.id == "dict":
                _need(n == 0 and not kw, "dict() expected", e)
                return ".newDict"
            if f.id == "isinstance":
                _need(n == 2 and not kw, "isinstance(x, T) expected", e)
                t = e.args[1]
                if isinstance(t, ast.Name) and t.id in TYPES:
                    ty = TYPES[t.id]
                elif isinstance(t, ast.Tuple) and all(isinstance(x, ast.Name) for x in t.elts) \
                        and sorted(x.id for x in t.elts) == ["dict", "list"]:
                    ty = ".nested"
                else:
                    _bad("isinstance type", e)
                return "(.isInst %s %s)" % (ty, self.ex(e.args[0]))
            if f.id == "urlsplit":
                _need(n == 1 and list(kw) == ["allow_fragments"] and isinstance(kw["allow_fragments"], ast.Constant)
                      and kw["allow_fragments"].value is False, "urlsplit(x, allow_fragments=False) expected", e)
                return "(.urlsplit %s)" % self.ex(e.args[0])
            if f.id == "urlunparse":
                _need(n == 1 and not kw and isinstance(e.args[0], ast.Tuple) and len(e.args[0].elts) == 6,
                      "urlunparse of a 6-tuple expected", e)
                t = e.args[0].elts
                _need(all(_is_str(t[i], "") for i in (0, 1, 3, 5)), "urlunparse(('', '', p, '', q, '')) expected", e)
                return "(.urlunparse %s %s)" % (self.ex(t[2]), self.ex(t[4]))
            _bad("call", e)
        if isinstance(f, ast.Attribute) and isinstance(f.value, ast.Name) and f.value.id == "json" and "json" not in self.ids:
            if f.attr == "loads":
                _need(n == 1 and not kw, "json.loads(x) expected", e)
                return "(.jsonLoads %s)" % self.ex(e.args[0])
            if f.attr == "dumps":
                _need(n == 1 and list(kw) == ["cls"] and isinstance(kw["cls"], ast.Name) and kw["cls"].id == "MpfJSONEncoder",
                      "json.dumps(x, cls=MpfJSONEncoder) expected", e)
                return "(.jsonDumps %s)" % self.ex(e.args[0])
            _bad("json call", e)
        if isinstance(f, ast.Attribute):
            _need(not kw, "keyword arguments of a method", e)
            if f.attr == "format":
                _need(_is_str(f.value), "format on something other than a literal", e)
                pieces = f.value.value.split("{}")
                _need(len(pieces) == n + 1 and "{" not in "".join(pieces) and "}" not in "".join(pieces), "format string", e)
                parts = []
                for i, p in enumerate(pieces):
                    parts.append("(.lit (.str %s))" % lb(p))
                    if i < n:
                        parts.append(self.ex(e.args[i]))
                return self.cat(parts, e)
            obj = self.ex(f.value)
            if f.attr == "replace":
                _need(n == 2 and _is_str(e.args[0], "+") and _is_str(e.args[1], " "), "x.replace('+', ' ') expected", e)
                return "(.plusToSpace %s)" % obj
            if f.attr == "lower":
                _need(n == 0, "x.lower() expected", e)
                return "(.lower %s)" % obj
            if f.attr == "startswith":
                _need(n == 1 and _is_str(e.args[0]), "x.startswith(<literal>) expected", e)
                return "(.startswith %s %s)" % (obj, lb(e.args[0].value))
            if f.attr == "partition":
                _need(n == 1, "x.partition(c) expected", e)
                return "(.partition %d %s)" % (_one_ascii(e.args[0], "partition separator"), obj)
            if f.attr == "split":
                _need(n == 1, "x.split(c) expected", e)
                return "(.split %d %s)" % (_one_ascii(e.args[0], "split separator"), obj)
            _bad("method", e)
        _bad("call", e)

    # --- statements ---------------------------------------------------------------------------------------------
    def block(self, stmts, ind):
        out = []
        for s in stmts:
            if isinstance(s, ast.Expr) and isinstance(s.value, ast.Constant):
                continue    # docstring / bare constant: no effect
            out.append(self.st(s, ind))
        pad = "  " * ind
        if not out:
            return "[]"
        return "[\n" + ",\n".join(out) + "\n" + pad + "]"

    def st(self, s, ind):
        pad = "  " * (ind + 1)
        head = pad + "-- " + ast.unparse(s).split("\n")[0][:110] + "\n" + pad
        if isinstance(s, ast.Assign):
            _need(len(s.targets) == 1, "multiple targets", s)
            t = s.targets[0]
            if isinstance(t, ast.Name):
                v = self.ex(s.value)
                return head + ".assign %d %s" % (self.store(t.id), v)
            if isinstance(t, ast.Tuple):
                _need(len(t.elts) == 3 and all(isinstance(x, ast.Name) for x in t.elts), "unpacking (only 3 names)", s)
                v = self.ex(s.value)
                a, b, c = (self.store(x.id) for x in t.elts)
                return head + ".unpack3 %d %d %d %s" % (a, b, c, v)
            if isinstance(t, ast.Subscript):
                _need(isinstance(t.value, ast.Name) and not isinstance(t.slice, ast.Slice), "item assignment target", s)
                v = self.ex(s.value)
                return head + ".setItem %d %s %s" % (self.load(t.value.id, t), self.ex(t.slice), v)
            _bad("assignment target", s)
        if isinstance(s, ast.AugAssign):
            _need(isinstance(s.op, ast.Add) and isinstance(s.target, ast.Name), "augmented assignment", s)
            i = self.load(s.target.id, s)
            return head + ".assign %d (.cat (.var %d) %s)" % (i, i, self.ex(s.value))
        if isinstance(s, ast.If):
            c = self.ex(s.test)
            body = self.block(s.body, ind + 1)
            orelse = self.block(s.orelse, ind + 1)
            return head + ".ite %s %s %s" % (c, body, orelse)
        if isinstance(s, ast.For):
            _need(not s.orelse, "for-else", s)
            if isinstance(s.target, ast.Name):
                it = self.ex(s.iter)
                x = self.store(s.target.id)
                return head + ".forStr %d %s %s" % (x, it, self.block(s.body, ind + 1))
            if isinstance(s.target, ast.Tuple) and len(s.target.elts) == 2 and all(isinstance(x, ast.Name) for x in s.target.elts):
                it = s.iter
                _need(isinstance(it, ast.Call) and isinstance(it.func, ast.Attribute) and it.func.attr == "items"
                      and not it.args and not it.keywords, "for k, v in <dict>.items() expected", s)
                d = self.ex(it.func.value)
                k, v = (self.store(x.id) for x in s.target.elts)
                return head + ".forItems %d %d %s %s" % (k, v, d, self.block(s.body, ind + 1))
            _bad("for target", s)
        if isinstance(s, ast.Continue):
            return head + ".cont"
        if isinstance(s, ast.Break):
            return head + ".brk"
        if isinstance(s, ast.Return):
            return head + ".ret %s" % (self.ex(s.value) if s.value is not None else "(.lit .none)")
        _bad("statement", s)


def _fn(tree, name):
    found = [n for n in tree.body if isinstance(n, ast.FunctionDef) and n.name == name]
    _need(len(found) == 1, "function %s not found exactly once" % name)
    _need(not found[0].decorator_list, "decorated function " + name)
    return found[0]


def translate(fn, want_params, want_kwarg):
    a = fn.args
    _need([x.arg for x in a.args] == want_params and not a.posonlyargs and not a.kwonlyargs and not a.vararg
          and not a.defaults and (a.kwarg.arg if a.kwarg else None) == want_kwarg, "signature of " + fn.name)
    t = Fn(fn, want_params + ([want_kwarg] if want_kwarg else []))
    body = t.block(fn.body, 0)
    names = ", ".join("%d = %s" % (i, n) for n, i in sorted(t.ids.items(), key=lambda x: x[1]))
    return body, names


def generate(repo=None):
    src = open(os.path.join(repo or os.environ.get("VERIF_REPO", REPO), SRC)).read()
    tree = ast.parse(src)
    check_imports(tree)
    dec, dec_names = translate(_fn(tree, "decode_command_string"), ["bcp_string"], None)
    enc, enc_names = translate(_fn(tree, "encode_command_string"), ["bcp_command"], "kwargs")
    out = ["import MpfVerif.Model.PyStr",
           "/-! GENERATED by translate/bcp_codec.py from %s (decode_command_string, encode_command_string)" % SRC,
           "— do not edit.  Programs for the interpreter `Model/PyStr.lean`; strings are UTF-8 byte lists, variables are ids. -/",
           "namespace MpfVerif.Gen.BcpCodec",
           "open MpfVerif.PyStr",
           "",
           "/-- `decode_command_string(bcp_string)`; variables: %s -/" % dec_names,
           "def decodeProg : List St := " + dec,
           "",
           "/-- `encode_command_string(bcp_command, **kwargs)`; variables: %s -/" % enc_names,
           "def encodeProg : List St := " + enc,
           "",
           "end MpfVerif.Gen.BcpCodec",
           ""]
    return "MpfVerif/Gen/BcpCodec.lean", "\n".join(out)


if __name__ == "__main__":
    print(generate()[1], end="")
