"""Python `ast` -> Lean data for the effectful interpreter lean/MpfVerif/Model/PyEff.lean.

A *method* becomes a `List ESt` literal.  On top of the pure subset of py2lean.Translator:
  x = self.f(a, k=b) / self.f(...) / return self.f(...)   f translated too -> `.callPure` / `.call` with the callee's Lean name,
                                                           arguments bound to the callee's parameter names (positional ones by
                                                           position, from the callee's own `def`)
  <collaborator>.m(...)                                   -> `.eff`: the collaborator is one of the source prefixes in `collab`
                                                           (`self.hw_driver`, `self.delay`, `self.config['psu']` ...); positional
                                                           arguments are named after the collaborator method's parameters (read from
                                                           its class), a namedtuple constructor argument (`PulseSettings(...)`) is
                                                           flattened into `<prefix>.<field>` arguments
  a + b, a * b                                            -> `.add` / `.mul`
  self.<method> as a value (a callback)                   -> the string "cb:<method>";  `self` as a value -> "self"
  bare `return`, `del x`                                  -> `.ret None` / dropped
Anything else raises Untranslatable (the tie is broken for this run; never silently skipped).
"""
import ast

from translate.py2lean import Translator, Untranslatable, lean_str, DROPPED_CALL_PREFIXES


def class_methods(tree, cls):
    for node in ast.walk(tree):
        if isinstance(node, ast.ClassDef) and node.name == cls:
            return {f.name: f for f in node.body if isinstance(f, (ast.FunctionDef, ast.AsyncFunctionDef))}
    raise Untranslatable("class %s not found" % cls)


def params_of(fn):
    """(positional parameter names without self, name of **kwargs or None)"""
    return [a.arg for a in fn.args.args if a.arg != "self"], (fn.args.kwarg.arg if fn.args.kwarg else None)


def namedtuples(tree):
    """X = namedtuple("X", ["a", "b"]) at module level -> {X: [a, b]}"""
    out = {}
    for node in tree.body:
        if isinstance(node, ast.Assign) and isinstance(node.value, ast.Call) \
                and ast.unparse(node.value.func) == "namedtuple" and len(node.value.args) == 2:
            try:
                out[node.targets[0].id] = list(ast.literal_eval(node.value.args[1]))
            except Exception:
                pass
    return out


class EffTranslator(Translator):
    def __init__(self, methods, env_map, pure, effectful, collab, tuples):
        """methods: {name: FunctionDef} of the class being translated
        pure / effectful: {method name: lean name} of callees translated with py2lean / with this class
        collab: {source prefix: (obj name, {method: [param names]})}
        tuples: {constructor name: (prefix, [fields])}"""
        super().__init__(env_map)
        self.methods, self.pure, self.effectful, self.collab, self.tuples = methods, pure, effectful, collab, tuples

    # --- expressions -------------------------------------------------------------------------------------------
    def aex(self, e):
        if isinstance(e, ast.BinOp) and isinstance(e.op, (ast.Add, ast.Mult)):
            return "(.%s %s %s)" % ("add" if isinstance(e.op, ast.Add) else "mul", self.aex(e.left), self.aex(e.right))
        if isinstance(e, ast.Attribute) and isinstance(e.value, ast.Name) and e.value.id == "self" and e.attr in self.methods \
                and ast.unparse(e) not in self.env_map:
            return "(.pure (.lit (.str %s)))" % lean_str("cb:" + e.attr)
        if isinstance(e, ast.Name) and e.id == "self":
            return '(.pure (.lit (.str "self")))'
        return "(.pure %s)" % self.ex(e)

    def bind_args(self, call, names, kwname, what):
        """[(parameter name, AEx text)] for a call, positional arguments named after `names`"""
        out = []
        if len(call.args) > len(names):
            raise Untranslatable("too many positional arguments for %s: %s" % (what, ast.unparse(call)[:80]))
        for n, a in zip(names, call.args):
            if isinstance(a, ast.Starred):
                raise Untranslatable("starred argument: " + ast.unparse(call)[:80])
            out += self.flat(n, a)
        for kw in call.keywords:
            if kw.arg is None:
                raise Untranslatable("**kwargs argument: " + ast.unparse(call)[:80])
            if kw.arg not in names and kwname is None:
                raise Untranslatable("unknown keyword %s for %s" % (kw.arg, what))
            out += self.flat(kw.arg, kw.value)
        seen = [k for k, _ in out]
        if len(seen) != len(set(seen)):
            raise Untranslatable("argument given twice: " + ast.unparse(call)[:80])
        return out

    def flat(self, name, a):
        if isinstance(a, ast.Call) and ast.unparse(a.func) in self.tuples:
            prefix, fields = self.tuples[ast.unparse(a.func)]
            inner = self.bind_args(a, fields, None, ast.unparse(a.func))
            return [("%s.%s" % (prefix, k), v) for k, v in inner]
        return [(name, self.aex(a))]

    @staticmethod
    def args_text(pairs):
        return "[" + ", ".join("(%s, %s)" % (lean_str(k), v) for k, v in pairs) + "]"

    # --- calls ---------------------------------------------------------------------------------------------------
    def call_stmt(self, target, call, pad):
        """a statement for `target = <call>` (target None: result dropped); None when the call is not one we translate"""
        t = "(some %s)" % lean_str(target) if target else "none"
        f = call.func
        src = ast.unparse(f)
        if isinstance(f, ast.Attribute) and isinstance(f.value, ast.Name) and f.value.id == "self" and f.attr in self.methods:
            name = f.attr
            names, kwname = params_of(self.methods[name])
            pairs = self.bind_args(call, names, kwname, "self." + name)
            if name in self.pure:
                return "%s.callPure %s %s %s" % (pad, t, self.pure[name], self.args_text(pairs))
            if name in self.effectful:
                return "%s.call %s %s %s" % (pad, t, self.effectful[name], self.args_text(pairs))
            raise Untranslatable("call of an untranslated method: " + src)
        if isinstance(f, ast.Attribute):
            owner = ast.unparse(f.value)
            if owner in self.collab:
                obj, sigs = self.collab[owner]
                if f.attr not in sigs:
                    raise Untranslatable("unknown method %s of collaborator %s" % (f.attr, owner))
                names, kwname = sigs[f.attr]
                pairs = self.bind_args(call, names, kwname, src)
                return "%s.eff %s %s %s %s" % (pad, t, lean_str(obj), lean_str(f.attr), self.args_text(pairs))
        return None

    # --- statements ----------------------------------------------------------------------------------------------
    def estmts(self, body, ind):
        out = []
        pad = " " * ind
        for s in body:
            if isinstance(s, ast.Expr):
                if isinstance(s.value, ast.Constant) and isinstance(s.value.value, str):
                    continue
                if isinstance(s.value, ast.Call):
                    if ast.unparse(s.value.func).startswith(DROPPED_CALL_PREFIXES):
                        continue
                    st = self.call_stmt(None, s.value, pad)
                    if st is not None:
                        out.append(st)
                        continue
                raise Untranslatable("expression statement: " + ast.unparse(s)[:80])
            if isinstance(s, ast.Delete):
                continue
            if isinstance(s, ast.Assert):
                t = ast.unparse(s.test)
                if t in ("self.platform is not None", "self.hw_driver is not None"):
                    continue
                raise Untranslatable("assert: " + t[:80])
            if isinstance(s, (ast.Assign, ast.AnnAssign)):
                tgt = s.targets[0] if isinstance(s, ast.Assign) else s.target
                if (isinstance(s, ast.Assign) and len(s.targets) != 1) or not isinstance(tgt, ast.Name) or s.value is None:
                    raise Untranslatable("assignment target: " + ast.unparse(s)[:80])
                if isinstance(s.value, ast.Call):
                    st = self.call_stmt(tgt.id, s.value, pad)
                    if st is None:
                        raise Untranslatable("call: " + ast.unparse(s.value)[:80])
                    out.append(st)
                else:
                    out.append("%s.assign %s %s" % (pad, lean_str(tgt.id), self.aex(s.value)))
            elif isinstance(s, ast.If):
                body_l = self.estmts(s.body, ind + 2)
                else_l = self.estmts(s.orelse, ind + 2)
                out.append("%s.ifThen %s\n%s  [%s]\n%s  [%s]" % (
                    pad, self.cd(s.test), pad, (",\n").join(x.strip() if i == 0 else x for i, x in enumerate(body_l)),
                    pad, (",\n").join(x.strip() if i == 0 else x for i, x in enumerate(else_l))))
            elif isinstance(s, ast.Raise):
                exc = s.exc.func if isinstance(s.exc, ast.Call) else s.exc
                out.append("%s.raise %s" % (pad, lean_str(ast.unparse(exc))))
            elif isinstance(s, ast.Return):
                if s.value is None:
                    out.append("%s.ret (.pure (.lit .none))" % pad)
                elif isinstance(s.value, ast.Call):
                    st = self.call_stmt("_ret", s.value, pad)
                    if st is None:
                        raise Untranslatable("call: " + ast.unparse(s.value)[:80])
                    out.append(st)
                    out.append('%s.ret (.pure (.var "_ret"))' % pad)
                else:
                    out.append("%s.ret %s" % (pad, self.aex(s.value)))
            else:
                raise Untranslatable("statement: " + ast.unparse(s)[:80])
        return out

    def method(self, name, lean_name):
        fn = self.methods[name]
        if isinstance(fn, ast.AsyncFunctionDef):
            raise Untranslatable("async method " + name)
        params, kw = params_of(fn)
        for d in list(fn.args.defaults) + [d for d in fn.args.kw_defaults if d is not None]:
            if not (isinstance(d, ast.Constant) and d.value is None):
                raise Untranslatable("parameter default other than None in %s: %s" % (name, ast.unparse(d)))
        if fn.args.vararg or fn.args.kwonlyargs or fn.args.posonlyargs:
            raise Untranslatable("parameter kinds of " + name)
        body = self.estmts(fn.body, 4)
        return params, "def %s : List ESt :=\n  [\n%s\n  ]\n" % (lean_name, ",\n".join(body))
