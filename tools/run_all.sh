#!/bin/bash
# Run every claimed check (quick, or $1=thorough) on /repo and summarise; evidence/*.json is rewritten by each.
cd "$(dirname "$0")/.." || exit 2
tier=${1:-quick}
ids=$(python3 -c "import json; print(' '.join(c['property_id'] for c in json.load(open('MANIFEST.json'))['checks']))")
rc=0
for id in $ids; do
  out=$(VERIF_SEED=${VERIF_SEED:-0} ./check $id --tier $tier 2>&1 | grep -v "pkg_resources\|iter_entry_points" | tail -4)
  code=${PIPESTATUS[0]}
  echo "$id: $(echo "$out" | grep -E '^(OK|VIOLATION|INFRA)' | tail -1)"
  echo "$out" | grep -E '^KNOWN-FINDING' | cut -c1-140 | sed 's/^/    /'
  echo "$out" | grep -qE '^OK ' || rc=1
done
exit $rc
