#!/bin/bash
# usage: tools/try_patch.sh <PROP[,PROP...]> <patch.diff> [seeds="0 1"]  - apply the patch in a scratch worktree of /repo (never
# /repo itself), run the quick checks there with VERIF_REPO, remove the worktree.  Evidence of such runs goes to replays/scratch-evidence.
set -u
props=$1; patch=$(realpath "$2"); seeds=${3:-"0 1"}
cd "$(dirname "$0")/.." || exit 2
wt=$(mktemp -d /tmp/wt-try-XXXXXX); rmdir "$wt"
git -C /repo worktree add -q --detach "$wt" HEAD || exit 2
trap 'git -C /repo worktree remove --force "$wt" >/dev/null 2>&1; ./tools/regen_all.py >/dev/null 2>&1' EXIT
git -C "$wt" apply "$patch" || { echo "patch does not apply"; exit 2; }
for p in ${props//,/ }; do
  for s in $seeds; do
    echo "== $p seed $s"; VERIF_REPO=$wt VERIF_SEED=$s ./check $p --tier ${TIER:-quick} 2>&1 | grep -v "KNOWN\|pkg_res\|iter_entry" | tail -2 | cut -c1-500
  done
done
