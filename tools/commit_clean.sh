#!/bin/bash
# Run every claimed check on the clean /repo (seed 0), and commit /verif only if all are green: committed evidence
# files must come from runs on the unchanged tree.   usage: tools/commit_clean.sh "message"
cd "$(dirname "$0")/.." || exit 2
[ -n "$(git -C /repo status --short)" ] && { echo "/repo has uncommitted changes"; exit 2; }
./tools/regen_all.py >/dev/null 2>&1
(cd lean && lake build >/dev/null 2>&1) || { echo "lake build failed"; exit 1; }
python3-vt tools/gen_manifest.py || exit 1
out=$(./tools/run_all.sh 2>&1); echo "$out" | grep -v KNOWN | grep -v "OK property"
echo "$out" | grep -c "OK property"
if echo "$out" | grep -qE "VIOLATION|INFRA"; then echo "NOT committed"; exit 1; fi
git add -A && git commit -q -m "$1" && echo committed
