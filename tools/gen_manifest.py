#!/usr/bin/env python3
"""Regenerates MANIFEST.json from tools/manifest_data.py and validates it against the schema."""
import json, os, sys
here = os.path.dirname(os.path.abspath(__file__))
sys.path.insert(0, here)
import ast, glob
import manifest_data as D
# per-property texts live next to the check: harness/corr/Cxx.py  ->  MANIFEST = {"text":…, "note":…, "technique":…, "translated": bool}
for f in sorted(glob.glob(os.path.join(here, "..", "harness", "corr", "C*.py"))):
    tree = ast.parse(open(f).read())
    for node in tree.body:
        if isinstance(node, ast.Assign) and getattr(node.targets[0], "id", None) == "MANIFEST":
            d = ast.literal_eval(node.value)
            pid = os.path.basename(f)[:-3]
            if pid not in D.READY:
                continue
            D.CLAIMED[pid] = d
            if d.get("translated"):
                D.TRANSLATED.append(pid)
props = [json.loads(l) for l in open(os.path.join(here, "..", "properties.jsonl"))]
ids = [p["id"] for p in props]
checks, na = [], []
for i in ids:
    if i in D.CLAIMED:
        c = D.CLAIMED[i]
        checks.append({
            "property_id": i,
            "quick_cmd": "./check %s --tier quick" % i,
            "thorough_cmd": "./check %s --tier thorough" % i,
            "evidence_file": "evidence/%s.json" % i,
            "replay_cmd_template": "./check %s --replay {path}" % i,
            "engine": "lean-proofs+correspondence",
            "level_claimed": {"category": "proof", "text": c["text"], "design_ref": "DESIGN.md section 3, " + i},
            "level_note": c["note"],
            "technique": c["technique"],
        })
    else:
        na.append({"property_id": i, "reason": D.NOT_CLAIMED.get(i, "not built yet in this session; see DESIGN.md section 3 for the plan")})
m = {
    "version": 1,
    "setup_cmd": "./tools/regen_all.py; cd lean && lake build",
    "hooks": {"guard": "MPF_VERIF", "enable": "no source hooks: all instrumentation lives in the harness process (wrapping objects of the running mpf); the checks export MPF_VERIF=1 for symmetry only",
              "baseline_off_cmd": "cd /repo && /venv/bin/python -m pytest -ra -q -p no:cacheprovider --timeout=900 --continue-on-collection-errors",
              "source_commits": [], "add_only": True},
    "engines": [
        {"name": "lean-proofs", "path": "lean/", "serves_properties": sorted(D.CLAIMED), "kind_free_text": "Lean 4 models (Model/), helper lemmas (Lemmas/), property theorems (Props/), regenerated definitions (Gen/); built by lake, axioms audited per theorem"},
        {"name": "translator", "path": "translate/", "serves_properties": D.TRANSLATED, "kind_free_text": "Python ast -> Lean data (deep embedding) regenerated from /repo on every run"},
        {"name": "correspondence", "path": "harness/", "serves_properties": sorted(D.CLAIMED), "kind_free_text": "drives the real mpf classes in-process and the Lean model driver (lean/Driver.lean, compiled) over a line protocol with generated cases; property oracle evaluated on every implementation trace; failing-input search when a proof or the correspondence breaks"},
    ],
    "checks": checks,
    "not_applicable": na,
    "notes": D.NOTES,
}
out = os.path.join(here, "..", "MANIFEST.json")
json.dump(m, open(out, "w"), indent=1)
try:
    import jsonschema
    jsonschema.validate(m, json.load(open("/root/.vp/MANIFEST.schema.json")))
    print("MANIFEST.json valid: %d checks, %d not claimed" % (len(checks), len(na)))
except ImportError:
    print("written (jsonschema not importable here; run with python3-vt to validate)")
