#!/usr/bin/env python3
"""Prints the per-property as-built table (theorems, model files, driver, GEN jobs) for DESIGN.md section 8.5."""
import ast, glob, json, os, re
here = os.path.dirname(os.path.abspath(__file__)); root = os.path.dirname(here)
def strip(src):
    src = re.sub(r"/-.*?-/", "", src, flags=re.S); return re.sub(r"--.*", "", src)
rows = []
for f in sorted(glob.glob(os.path.join(root, "harness", "corr", "C*.py"))):
    pid = os.path.basename(f)[:-3]
    tree = ast.parse(open(f).read())
    vals = {}
    for node in tree.body:
        if isinstance(node, ast.Assign) and getattr(node.targets[0], "id", None) in ("PROPS_FILE", "LEAN_MODULES"):
            vals[node.targets[0].id] = ast.literal_eval(node.value)
    gen = [n.name for n in ast.walk(tree) if isinstance(n, ast.FunctionDef) and (n.name.startswith("_gen") or n.name.startswith("gen_"))]
    props = os.path.join(root, "lean", vals["PROPS_FILE"])
    thms = re.findall(r"^\s*theorem\s+(\S+)", strip(open(props).read()), re.M)
    # model files in the import closure
    todo = list(vals["LEAN_MODULES"]); seen = set(); models = []; gens = []
    while todo:
        m = todo.pop()
        if m in seen: continue
        seen.add(m)
        p = os.path.join(root, "lean", *m.split(".")) + ".lean"
        if not os.path.exists(p): continue
        if ".Model." in m: models.append(m.split(".")[-1])
        if ".Gen." in m: gens.append(m.split(".")[-1])
        todo += re.findall(r"^\s*import\s+(MpfVerif\.\S+)", open(p).read(), re.M)
    rows.append((pid, thms, sorted(models), sorted(gens)))
print("| Prop | theorems in `Props/` (all audited on every run) | models | regenerated from source |")
print("|---|---|---|---|")
for pid, thms, models, gens in rows:
    print("| %s | %d: %s | %s | %s |" % (pid, len(thms), ", ".join("`%s`" % t for t in thms), ", ".join(models), ", ".join(gens) or "—"))
print()
print("Total: %d property theorems." % sum(len(r[1]) for r in rows))
