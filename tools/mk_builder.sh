#!/bin/bash
# usage: tools/mk_builder.sh C09   - create /tmp/vf-C09 (worktree of /verif on branch b-C09 from HEAD) with a copy of lean/.lake
set -eu
id=$1
cd "$(dirname "$0")/.."
git worktree add -q -B b-$id /tmp/vf-$id HEAD
cp -r lean/.lake /tmp/vf-$id/lean/.lake
echo "/tmp/vf-$id ready on branch b-$id at $(git rev-parse --short HEAD)"
