#!/bin/bash
# usage: tools/try_seed.sh <PROP> <seed-worktree> <name>   - copy patch+demo into seeded/<name>, apply to /repo, run the check (seeds 0,1), undo
set -u
prop=$1; wt=$2; name=$3
cd "$(dirname "$0")/.." || exit 2
mkdir -p seeded/$name
(cd $wt && git diff -- mpf) > seeded/$name/patch.diff
cp $wt/demo_*.py seeded/$name/ 2>/dev/null
git -C /repo apply $(pwd)/seeded/$name/patch.diff || { echo "patch does not apply"; exit 2; }
for s in 0 1; do VERIF_SEED=$s ./check $prop 2>&1 | grep -v "KNOWN\|pkg_res\|iter_entry" | tail -2 | cut -c1-400; done
git -C /repo checkout -- .
git -C /repo status --short
