#!/bin/bash
# usage: tools/seeded_regress.sh [name-glob]   - run every seeded change against its property's quick check (seed 0) in a scratch worktree
# and print one line per change: DETECTED(input) / DETECTED(no-input) / MISSED / NOAPPLY.   Never touches /repo or evidence/.
cd "$(dirname "$0")/.." || exit 2
glob=${1:-*}
for d in seeded/$glob/; do
  name=$(basename $d); prop=$(python3 -c "import json;print(json.load(open('$d/meta.json'))['property'][:3])" 2>/dev/null) || continue
  wt=$(mktemp -d /tmp/wt-reg-XXXXXX); rmdir $wt
  git -C /repo worktree add -q --detach $wt HEAD || continue
  ok=0
  for p in $(ls $d/patch_on_fix*.diff $d/patch-rebased*.diff $d/patch.diff 2>/dev/null); do
    if git -C $wt apply $(realpath $p) 2>/dev/null; then ok=1; break; fi
  done
  if [ $ok = 0 ]; then echo "$name $prop NOAPPLY"; git -C /repo worktree remove --force $wt; continue; fi
  out=$(VERIF_REPO=$wt VERIF_SEED=${VERIF_SEED:-0} ./check $prop --tier quick 2>&1 | grep -E "^(OK|VIOLATION|INFRA)" | tail -1)
  sig=$(VERIF_REPO=$wt true; grep -o '"signature": "[^"]*"' replays/$prop-${VERIF_SEED:-0}.json 2>/dev/null | head -1)
  case "$out" in
    *no-failing-input-found*) echo "$name $prop DETECTED(no-input)";;
    VIOLATION*) echo "$name $prop DETECTED(input) $sig";;
    OK*) echo "$name $prop MISSED";;
    *) echo "$name $prop ?? $out";;
  esac
  git -C /repo worktree remove --force $wt
done
./tools/regen_all.py >/dev/null 2>&1
