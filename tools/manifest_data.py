"""Per-property MANIFEST texts (tools/gen_manifest.py turns this into MANIFEST.json)."""
NOTES = ("One check per property: ./check <id>. Every run regenerates Gen/ from /repo, rebuilds and audits the Lean theorems, "
         "runs the correspondence + property oracle on the real code, and searches for a failing input when a proof or the "
         "correspondence breaks. Exit 2 = infrastructure error/timeout (never a violation). known_findings.json lists recorded "
         "and fixed findings.")
TRANSLATED = []
NOT_CLAIMED = {}
CLAIMED = {
 "C19": {
  "text": "Proof on a byte-level Lean model of the BCP encoder, decoder and receiver: decode(encode cmd kw) = (cmd, kw) for every command and every list of distinct scalar parameters over arbitrary byte strings (incl. %XX, type-like prefixes, separators), ints, float texts, bools, None; the JSON branch hands the encoder's JSON text unchanged to the parser (abstract codec); the receiver's frames depend only on the byte sequence (any chunking) and every frame list is delivered completely and in order. The model is tied to bcp_socket_client.py by a correspondence run (encode, decode incl. a malformed stream, reader frames under random chunkings) on every check.",
  "note": "Trusted: Lean kernel + {propext, Classical.choice, Quot.sound}; the hand-written model Model/Bcp.lean (validated only by differential runs); urllib.parse.quote/unquote/urlsplit, json, float repr and asyncio.StreamReader are modelled, not verified. Known finding: a scalar parameter named 'bytes' collides with the payload marker.",
  "technique": "Lean 4 theorems (induction over byte lists / parameter lists) on a hand model + differential correspondence with the real encoder/decoder/reader",
 },
}
