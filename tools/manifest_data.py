"""Per-property MANIFEST texts (tools/gen_manifest.py turns this into MANIFEST.json)."""
NOTES = ("One check per property: ./check <id>. Every run regenerates Gen/ from /repo, rebuilds and audits the Lean theorems, "
         "runs the correspondence + property oracle on the real code, and searches for a failing input when a proof or the "
         "correspondence breaks. Exit 2 = infrastructure error/timeout (never a violation). known_findings.json lists recorded "
         "and fixed findings.")
TRANSLATED = []
NOT_CLAIMED = {}
CLAIMED = {}

# properties whose check is integrated and green on /repo (others stay under not_applicable until they are)
READY = ["C19", "C08", "C01", "C02", "C12", "C18", "C16", "C10", "C14", "C15", "C04", "C05", "C07", "C06", "C09", "C17", "C20", "C11", "C13", "C03"]
