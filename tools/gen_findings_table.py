#!/usr/bin/env python3
"""Markdown tables of known_findings.json (fixed / known) for DESIGN.md 8.3."""
import json, os
root = os.path.dirname(os.path.dirname(os.path.abspath(__file__)))
k = json.load(open(os.path.join(root, "known_findings.json")))
fx = [e for e in k if e["kind"] == "fixed"]; kn = [e for e in k if e["kind"] == "known"]
print("Fixed in `/repo` (%d `fix:` commits; the pinned suite still passes 858/858 stable tests after all of them):\n" % len({e["commit"] for e in fx}))
print("| Prop | signature | what failed | commit |\n|---|---|---|---|")
for e in sorted(fx, key=lambda e: (e["property"], e["commit"])):
    print("| %s | `%s` | %s | `%s` |" % (e["property"], e["signature"], e["what"].replace("|", "/")[:260], e["commit"]))
print("\nRecorded, not repaired (`kind: known`, %d; each has a deterministic witness replayed on every run):\n" % len(kn))
print("| Prop | signature | what fails / why not repaired |\n|---|---|---|")
for e in sorted(kn, key=lambda e: (e["property"], e["signature"])):
    print("| %s | `%s` | %s |" % (e["property"], e["signature"], e["what"].replace("|", "/")[:320]))
