#!/bin/bash
# usage: tools/run_some.sh <tier> <id> [<id> ...]   - like run_all.sh for the given checks
cd "$(dirname "$0")/.." || exit 2
tier=$1; shift
for id in "$@"; do
  out=$(VERIF_SEED=${VERIF_SEED:-0} ./check $id --tier $tier 2>&1 | grep -v "pkg_resources\|iter_entry_points" | tail -4)
  echo "$id: $(echo "$out" | grep -E '^(OK|VIOLATION|INFRA)' | tail -1)"
done
