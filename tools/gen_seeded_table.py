#!/usr/bin/env python3
"""Markdown table of the seeded changes from seeded/*/meta.json (for DESIGN.md 8.4)."""
import glob, json, os
root = os.path.dirname(os.path.dirname(os.path.abspath(__file__)))
rows = []
for d in sorted(glob.glob(os.path.join(root, "seeded", "*"))):
    mp = os.path.join(d, "meta.json")
    if not os.path.exists(mp):
        continue
    m = json.load(open(mp))
    det = m.get("detected_by", "")
    first = "missed first" if det.upper().startswith("MISSED") else "detected"
    rows.append((os.path.basename(d), m.get("property", ""), m.get("breaks", "").replace("|", "/"), m.get("needs", "").replace("|", "/"), first, det.replace("|", "/")))
print("| seeded change | what it breaks | what it needs to manifest | result |")
print("|---|---|---|---|")
for name, prop, br, needs, first, det in rows:
    print("| `%s` | %s | %s | %s |" % (name, br, needs, det))
n = len(rows); missed = sum(1 for r in rows if r[4] != "detected")
open_ = sum(1 for r in rows if r[4] != "detected" and ("follow-up running" in r[5].lower() or "not followed up" in r[5].lower()))
print()
print("%d seeded changes; %d detected by the check as it stood (with a concrete failing input unless stated), %d first missed; of those %d are closed by strengthening the check (details in each row) and %d are not closed for that property's own check (each row says which other check reports it)." % (n, n - missed, missed, missed - open_, open_))
