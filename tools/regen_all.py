#!/venv/bin/python
"""Regenerate every lean/MpfVerif/Gen/*.lean from /repo's working tree (all GEN jobs of all property modules).
Run by setup_cmd before `lake build`, so a fresh restore never builds against stale generated files."""
import glob
import importlib
import os
import sys

here = os.path.dirname(os.path.abspath(__file__))
root = os.path.dirname(here)
sys.path[:0] = [os.environ.get("VERIF_REPO", "/repo"), root]
rc = 0
for f in sorted(glob.glob(os.path.join(root, "harness", "corr", "C*.py"))):
    name = os.path.basename(f)[:-3]
    try:
        mod = importlib.import_module("harness.corr." + name)
    except Exception as e:
        print("skip %s: %s" % (name, e))
        continue
    for job in getattr(mod, "GEN", []):
        try:
            rel, content = job()
            path = os.path.join(root, "lean", rel)
            old = open(path).read() if os.path.exists(path) else None
            if old != content:
                os.makedirs(os.path.dirname(path), exist_ok=True)
                open(path, "w").write(content)
                print("regenerated", rel)
        except Exception as e:
            print("GEN job of %s failed: %s: %s" % (name, type(e).__name__, e))
            rc = 1
sys.exit(rc)
