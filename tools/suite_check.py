#!/venv/bin/python
"""Run the pinned suite on /repo (guard off) and compare the pass set with BASELINE.stable_pass.
usage: tools/suite_check.py [-n WORKERS] [pytest-args...]   exit 0 iff every stable_pass test passed."""
import json, os, subprocess, sys, tempfile, xml.etree.ElementTree as ET
base = json.load(open("/root/.vp/BASELINE.json"))
want = set(base["stable_pass"])
args = sys.argv[1:]
env = dict(os.environ); env.pop("MPF_VERIF", None)
with tempfile.TemporaryDirectory() as d:
    x = os.path.join(d, "r.xml")
    cmd = ["/venv/bin/python", "-m", "pytest", "-q", "-p", "no:cacheprovider", "--timeout=900",
           "--continue-on-collection-errors", "--junitxml=" + x] + (args or ["-n", "12"])
    p = subprocess.run(cmd, cwd="/repo", env=env, stdout=subprocess.PIPE, stderr=subprocess.STDOUT, text=True)
    print(p.stdout.strip().splitlines()[-1])
    passed = set()
    for tc in ET.parse(x).getroot().iter("testcase"):
        if not any(c.tag in ("failure", "error", "skipped") for c in tc):
            passed.add(tc.get("classname") + "::" + tc.get("name"))
missing = sorted(want - passed)
print("stable_pass=%d passed_now=%d missing=%d" % (len(want), len(passed), len(missing)))
for m in missing[:40]:
    print("  MISSING", m)
sys.exit(1 if missing else 0)
