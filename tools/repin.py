#!/venv/bin/python
"""tools/repin.py [--init] [Cxx ...]   re-compute the source pins of the given properties (all when none given) from /repo.
--init: (re)build the anchor lists: every function of the property's anchor files (properties.jsonl) whose name is mentioned in the
property's `state` / `mechanism` texts or in the check's MANIFEST text; an existing list is kept and only extended."""
import ast, json, os, re, sys
here = os.path.dirname(os.path.abspath(__file__)); root = os.path.dirname(here)
sys.path[:0] = [root]
from translate import source_pin as sp

props = {json.loads(l)["id"]: json.loads(l) for l in open(os.path.join(root, "properties.jsonl"))}
args = [a for a in sys.argv[1:] if not a.startswith("--")]
init = "--init" in sys.argv
ids = args or sorted(props)


def functions(path):
    out = []
    try:
        tree = ast.parse(open(os.path.join(sp.REPO, path)).read())
    except Exception:
        return out

    def walk(node, prefix):
        for n in ast.iter_child_nodes(node):
            if isinstance(n, (ast.FunctionDef, ast.AsyncFunctionDef)):
                out.append(prefix + n.name)
            elif isinstance(n, ast.ClassDef):
                walk(n, prefix + n.name + ".")
    walk(tree, "")
    return out


def manifest_text(pid):
    try:
        src = open(os.path.join(root, "harness", "corr", pid + ".py")).read()
        m = re.search(r'^MANIFEST = (\{.*?^\})', src, re.S | re.M)
        d = ast.literal_eval(m.group(1))
        return d.get("text", "") + " " + d.get("note", "")
    except Exception:
        return ""


for pid in ids:
    p = sp.pins_path(root, pid)
    data = json.load(open(p)) if os.path.exists(p) else {"anchors": [], "pins": {}}
    if init:
        a = props[pid]["anchors"]
        words = set()
        for k in ("state", "mechanism"):
            for e in a.get(k) or []:
                words |= set(re.findall(r"[A-Za-z_][A-Za-z0-9_]*", e.get("where", "")))
        words |= set(re.findall(r"[A-Za-z_][A-Za-z0-9_]{3,}", manifest_text(pid)))
        have = {tuple(x) for x in data["anchors"]}
        for f in a["files"]:
            if not f.endswith(".py"):
                continue
            for q in functions(f):
                name = q.split(".")[-1]
                if name in words and not (name.startswith("__") and name != "__setattr__") and (f, q) not in have:
                    data["anchors"].append([f, q]); have.add((f, q))
        data["anchors"].sort()
    pins = {}
    for f, q in data["anchors"]:
        h = sp.fingerprint(f, q)
        if h is None:
            print("%s: %s %s not found - dropped from the anchors" % (pid, f, q))
            continue
        pins["%s::%s" % (f, q)] = h
    data["anchors"] = [[k.split("::")[0], k.split("::")[1]] for k in sorted(pins)]
    data["pins"] = pins
    os.makedirs(os.path.dirname(p), exist_ok=True)
    json.dump(data, open(p, "w"), indent=1, sort_keys=True)
    print("%s: %d functions pinned" % (pid, len(pins)))
