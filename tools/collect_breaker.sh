#!/bin/bash
# usage: tools/collect_breaker.sh <PROP> <round-worktree> <name> [check ids]  - copy patch+demo of a breaker worktree into seeded/<name>,
# confirm the demo in both directions in the breaker's own worktree, run the checks on a scratch worktree with the patch
set -u
prop=$1; wt=$2; name=$3; checks=${4:-$prop}
cd "$(dirname "$0")/.." || exit 2
mkdir -p seeded/$name
git -C $wt diff -- mpf > seeded/$name/patch.diff
cp $wt/demo_*.py seeded/$name/ 2>/dev/null
demo=$(ls $wt/demo_*.py | head -1)
echo "-- demo with the change:"; (cd $wt && PYTHONPATH=$wt timeout 600 /venv/bin/python $demo 2>&1 | grep -v "pkg_res\|iter_entry" | tail -2; echo "exit=${PIPESTATUS[0]}")
(cd $wt && git checkout -q -- mpf)
echo "-- demo without:"; (cd $wt && PYTHONPATH=$wt timeout 600 /venv/bin/python $demo 2>&1 | grep -v "pkg_res\|iter_entry" | tail -2; echo "exit=${PIPESTATUS[0]}")
(cd $wt && git apply $(pwd -P)/../../verif/seeded/$name/patch.diff 2>/dev/null || git -C $wt apply /verif/seeded/$name/patch.diff)
./tools/try_patch.sh $checks seeded/$name/patch.diff "0 1"
