import MpfVerif.Model.Framing
/-!
# Serial framing (C14), second part — the protocol code behind the frame decoders

* (a) PKONE: `_parse_msg` with its in-flight counter and `send_ready`, `process_received_message`, `receive_switch`
  (`PSW`), `receive_all_switches` (`PSA`) as one byte-at-a-time automaton `pkStep` over the whole state.
* (b) OPP initialisation: `readuntil(sep, min_chars)` (`readUntil`), `inv_resp`, the loop of `get_gen2_cfg_resp` /
  `vers_resp` over several chained cards (`multiParse`), `process_received_message` dispatch (`initDispatch`).
* (c) FAST configuration phase: `_dispatch_incoming_msg` over the whole processor table of the Neuron communicator
  (`cfgDispatch`: `ID:` `CH:` `SL:` `DL:` `SA:` at boot, `!B:` `XX:` `-L:` `/L:`), as a delimiter automaton `dStep`.
* (d) several callers of `send_and_wait_for_response_processed` behind `no_response_waiting` (`gStep`).
Imports only the first model file (core only).
-/
namespace MpfVerif.Framing2
open MpfVerif.Framing

/-! ## delimiter automaton with a frame handler -/

def dStep {α : Type} (d : Nat) (h : Bytes → List α) (buf : Bytes) (b : Nat) : Bytes × List α :=
  if b = d then ([], h buf) else (buf ++ [b], [])

/-! ## (a) PKONE payloads -/

def digit? (b : Nat) : Option Nat := if 48 ≤ b ∧ b ≤ 57 then some (b - 48) else none

def bit? (b : Nat) : Option Bool := if b = 48 then some false else if b = 49 then some true else none

def bitsOf : Bytes → Option (List Bool)
  | [] => some []
  | b :: r =>
    match bit? b, bitsOf r with
    | some x, some t => some (x :: t)
    | _, _ => none

inductive PKObs
  | empty                                -- `if not msg: continue`
  | und                                  -- not UTF-8: skipped with a warning
  | ign                                  -- in `ignored_messages`
  | sw (b n : Nat) (st : Bool)           -- well-formed `PSW`: board, switch, state
  | all (b : Nat) (bits : List Bool)     -- well-formed `PSA`: board, one state per switch
  | skipped                              -- malformed payload: warning, nothing changes
  | nop                                  -- `PCN` `PCB` `PWD…` `PWF` `PXX`
  | unk                                  -- unknown command: warning
  deriving DecidableEq, Repr

def sPSW : Bytes := [80, 83, 87]
def sPSA : Bytes := [80, 83, 65]
def sPWD : Bytes := [80, 87, 68]
def sPCN : Bytes := [80, 67, 78]
def sPCB : Bytes := [80, 67, 66]
def sPWF : Bytes := [80, 87, 70]
def sPXX : Bytes := [80, 88, 88]

/-- `process_received_message` on one frame cut out by `_parse_msg` -/
def pkDispatch (f : Bytes) : PKObs :=
  if f.isEmpty then .empty
  else if f.any (fun b => 128 ≤ b) then .und
  else if f = sPWD then .ign
  else
    let h := f.take 3
    let p := f.drop 3
    if h = sPSW then
      match p with
      | [a, y, z, d] =>
        (match digit? a, digit? y, digit? z, bit? d with
         | some b, some t, some u, some st => .sw b (t * 10 + u) st
         | _, _, _, _ => .skipped)
      | _ => .skipped
    else if h = sPSA then
      match p with
      | a :: r =>
        (match digit? a, bitsOf r with
         | some b, some bits => .all b bits
         | _, _ => .skipped)
      | [] => .skipped
    else if h = sPCN ∨ h = sPCB ∨ h = sPWD ∨ h = sPWF ∨ h = sPXX then .nop
    else .unk

abbrev SwKey := Nat × Nat

structure PKSt where
  buf : Bytes := []                              -- received_msg
  table : List (SwKey × Bool) := []              -- reports to the switch controller, newest first
  hw : List (Nat × List Bool) := []              -- hw_switch_data per board (switch 1 first), boards ascending
  inflight : Nat := 0                            -- messages_in_flight
  readTask : Bool := true
  ready : Bool := true                           -- send_ready
  deriving DecidableEq, Repr

def lookupSw (k : SwKey) : List (SwKey × Bool) → Option Bool
  | [] => none
  | (k', v) :: r => if k' = k then some v else lookupSw k r

def setBoard (b : Nat) (bits : List Bool) : List (Nat × List Bool) → List (Nat × List Bool)
  | [] => [(b, bits)]
  | (c, old) :: r =>
    if b = c then (c, bits ++ old.drop bits.length) :: r
    else if b < c then (b, bits) :: (c, old) :: r
    else (c, old) :: setBoard b bits r

def pkApply (s : PKSt) : PKObs → PKSt
  | .sw b n st => { s with table := ((b, n), st) :: s.table }
  | .all b bits => { s with hw := setBoard b bits s.hw }
  | _ => s

/-- what the end of a frame does: the counter goes down (never below zero), `send_ready` is set when it is at most
`max_messages_in_flight` (10) or no reader runs, the frame is dispatched -/
def pkClose (s : PKSt) : PKSt :=
  pkApply { s with buf := [], inflight := s.inflight - 1,
                   ready := s.ready || decide (s.inflight - 1 ≤ 10) || !s.readTask } (pkDispatch s.buf)

def pkStep (s : PKSt) (x : Nat) : PKSt × List PKObs :=
  if x = 69 then (pkClose s, [pkDispatch s.buf]) else ({ s with buf := s.buf ++ [x] }, [])

/-! ## (b) OPP initialisation -/

/-- `readuntil(separator, min_chars)`: bytes are taken one at a time until the separator arrives with more than
`min_chars` bytes read; `none` = still waiting when the input ends -/
def readUntil (sep min : Nat) : Bytes → Bytes → Option (Bytes × Bytes)
  | _, [] => none
  | acc, b :: r =>
    if b = sep ∧ min < (acc ++ [b]).length then some (acc ++ [b], r) else readUntil sep min (acc ++ [b]) r

inductive MEnd
  | ok       -- EOM after the last response
  | crc      -- `_bad_crc` and stop
  | lost     -- too short / malformed: `lost_synch()`
  deriving DecidableEq, Repr

/-- the `while True` loop of `get_gen2_cfg_resp` (`cmd = 13`) and `vers_resp` (`cmd = 2`) over a reply that carries the
7-byte responses of several cards: the accepted responses (address, 4 payload bytes) in order, and how the loop ended -/
def multiParse (cmd : Nat) : Bytes → List (Nat × Bytes) × MEnd
  | a :: c :: w0 :: w1 :: w2 :: w3 :: k :: rest =>
    if crc8 [a, c, w0, w1, w2, w3] ≠ k then ([], .crc)
    else match rest with
      | [] => ([(a, [w0, w1, w2, w3])], .lost)
      | [x] => ([(a, [w0, w1, w2, w3])], if x = 255 then .ok else .lost)
      | x :: y :: _ =>
        if x = 255 then ([(a, [w0, w1, w2, w3])], .ok)
        else if y = cmd then ((a, [w0, w1, w2, w3]) :: (multiParse cmd rest).1, (multiParse cmd rest).2)
        else ([(a, [w0, w1, w2, w3])], .lost)
  | _ => ([], .lost)

def be32 : Bytes → Nat
  | [a, b, c, d] => ((a * 256 + b) * 256 + c) * 256 + d
  | _ => 0

/-- `inv_resp`: the addresses listed before the EOM that look like gen2 cards -/
def invScan : Bytes → List Nat
  | [] => []
  | b :: r => if b = 255 then [] else if b / 16 = 2 then b :: invScan r else invScan r

abbrev Inv := List (Nat × Option Nat)     -- gen2_addr_arr[chain]: address -> firmware version

def setVers (a v : Nat) : Inv → Inv
  | [] => []
  | (b, w) :: r => if b = a then (b, some v) :: r else (b, w) :: setVers a v r

def applyVers (inv : Inv) : List (Nat × Bytes) → Inv
  | [] => inv
  | (a, p) :: r => applyVers (setVers a (be32 p) inv) r

inductive IObs
  | inv (as : List Nat)
  | eom
  | cfg (boards : List (Nat × Bytes)) (e : MEnd)
  | vers (inv : Inv) (e : MEnd)
  | illegal
  | other                                  -- initial input reads: not modelled here (Model.Framing.processFrame)
  deriving DecidableEq, Repr

/-- `process_received_message` with the command table of the initialisation phase -/
def initDispatch (inv : Inv) (m : Bytes) : Inv × IObs :=
  match m with
  | [] => (inv, .illegal)
  | a :: r =>
    if isAddr a then
      match r with
      | [] => (inv, .illegal)
      | c :: _ =>
        if c = 13 then (inv, .cfg (multiParse 13 m).1 (multiParse 13 m).2)
        else if c = 2 then
          (applyVers inv (multiParse 2 m).1, .vers (applyVers inv (multiParse 2 m).1) (multiParse 2 m).2)
        else if c = 8 ∨ c = 25 then (inv, .other)
        else if c = 255 then (inv, .eom)
        else if c = 240 then ((invScan r).eraseDups.map (fun x => (x, none)), .inv (invScan r).eraseDups)
        else (inv, .illegal)
    else if a = 240 then ((invScan r).eraseDups.map (fun x => (x, none)), .inv (invScan r).eraseDups)
    else if a = 255 then (inv, .eom)
    else (inv, .illegal)

/-! ## (c) FAST configuration-phase responses -/

inductive CObs
  | ign | und | unk | bad | assert_
  | id                    -- `ID:` with three fields (firmware version syntax is not modelled)
  | done (h : Bytes)      -- processor ran and called `done_processing_msg_response()`
  | quiet (h : Bytes)     -- processor ran, nobody released
  | resend (h : Bytes)    -- hardware config differs: the config command is queued again
  deriving DecidableEq, Repr

def hID : Bytes := [73, 68, 58]
def hCH : Bytes := [67, 72, 58]
def hSL : Bytes := [83, 76, 58]
def hDL : Bytes := [68, 76, 58]
def hBoot : Bytes := [33, 66, 58]
def hXX : Bytes := [88, 88, 58]
def hNN : Bytes := [78, 78, 58]
def hReboot : Bytes := [17, 17, 33]
def s00 : Bytes := [48, 48]

/-- `str.split()` on blanks: fields between runs of spaces -/
def splitWs : Bytes → Bytes → List Bytes
  | cur, [] => if cur.isEmpty then [] else [cur]
  | cur, b :: r => if b = 32 then (if cur.isEmpty then splitWs [] r else cur :: splitWs [] r) else splitWs (cur ++ [b]) r

def hexU (n : Nat) : Nat := if n < 10 then 48 + n else 55 + n

def cfgDispatch (f : Bytes) : CObs :=
  if f.any (fun b => 128 ≤ b) then .und
  else if f = sWDP ∨ f = sTLP then .ign
  else
    let h := f.take 3
    let rest := f.drop 3
    if h = hID then (if (splitWs [] rest).length = 3 then .id else .bad)
    else if h = hCH then (if rest = [70] then .assert_ else .done h)
    else if h = hSL then
      if rest = [80] then .done h else
      match splitAll 44 rest with
      | [n, a, b, c] =>
        (match parseHex n with
         | some k => if 104 ≤ k then .quiet h else if a = s00 ∧ b = s00 ∧ c = s00 then .done h else .resend h
         | none => .bad)
      | _ => .bad
    else if h = hDL then
      if rest = [80] then .done h else
      match splitAll 44 rest with
      | [n, a, b, c, d, e, g, i, j] =>
        (match parseHex n with
         | some k =>
           if 48 ≤ k then .quiet h
           else if n = [hexU (k / 16), hexU (k % 16)] ∧ [a, b, c, d, e, g, i, j].all (· = s00) then .done h
           else .resend h
         | none => .bad)
      | _ => .bad
    else if h = hSA ∨ h = hBoot ∨ h = hXX ∨ h = hReboot then .quiet h
    else if h = hClosed ∨ h = hOpen then (match parseHex rest with | some _ => .quiet h | none => .bad)
    else .unk

/-- empty frames are dropped before dispatch -/
def cfgFrame (f : Bytes) : List CObs := if f.isEmpty then [] else [cfgDispatch f]

/-! ## (d) several callers behind `no_response_waiting` -/

structure GSt where
  gate : Bool := true                  -- no_response_waiting
  waiting : List Nat := []             -- callers blocked in `await no_response_waiting.wait()`, oldest first
  pend : List Nat := []                -- callers past the gate, blocked in `await done_waiting.wait()`
  written : List (Bool × Nat) := []    -- on the port, oldest first; `true` = came through the gate
  fin : List Nat := []                 -- callers that returned
  deriving DecidableEq, Repr

inductive GOp
  | call (k : Nat)      -- a task calls send_and_wait_for_response_processed
  | forget (k : Nat)    -- send_and_forget
  | resp                -- a response with a registered header that calls done_processing_msg_response()
  deriving DecidableEq, Repr

/-- as the code is: the writer never waits (D7), a response releases every caller past the gate and then every caller
before it (their `wait()` has returned; `done_waiting` is still set when they reach it) -/
def gStep (s : GSt) : GOp → GSt
  | .call k =>
    if s.gate then { s with gate := false, written := s.written ++ [(true, k)], pend := s.pend ++ [k] }
    else { s with waiting := s.waiting ++ [k] }
  | .forget k => { s with written := s.written ++ [(false, k)] }
  | .resp =>
    { gate := s.waiting.isEmpty, waiting := [], pend := [],
      written := s.written ++ s.waiting.map (fun k => (true, k)), fin := s.fin ++ s.pend ++ s.waiting }

def gRun : GSt → List GOp → GSt
  | s, [] => s
  | s, o :: r => gRun (gStep s o) r

def callIds : List GOp → List Nat
  | [] => []
  | .call k :: r => k :: callIds r
  | _ :: r => callIds r

/-! ## line-protocol driver (new ops; everything else goes to `Framing.driverStep`) -/

def showPK : PKObs → List String
  | .sw b n st => ["sw" ++ toString b ++ "." ++ toString n ++ "=" ++ (if st then "1" else "0")]
  | .all b _ => ["all" ++ toString b]
  | .skipped => ["bad"]
  | .und => ["und"]
  | .empty => ["e"]
  | .ign => ["ign"]
  | .nop => ["nop"]
  | .unk => ["unk"]

def showHw (hw : List (Nat × List Bool)) : String :=
  if (hw.filter (fun p => !p.2.isEmpty)).isEmpty then "hw -" else
  "hw " ++ " ".intercalate ((hw.filter (fun p => !p.2.isEmpty)).map (fun p => toString p.1 ++ ":" ++ String.ofList (p.2.map (fun b => if b then '1' else '0'))))

def showEnd : MEnd → String
  | .ok => "ok" | .crc => "crc" | .lost => "lost"

def showBoards (bs : List (Nat × Bytes)) : String :=
  ",".intercalate (bs.map (fun b => toString b.1 ++ ":" ++ toHex b.2))

def showI : IObs → String
  | .inv as => "inv " ++ ",".intercalate (as.map toString)
  | .eom => "eom"
  | .cfg bs e => "cfg " ++ showBoards bs ++ " end=" ++ showEnd e
  | .vers inv e =>
    "vers " ++ ",".intercalate (inv.filterMap (fun p => p.2.map (fun v => toString p.1 ++ "=" ++ toString v))) ++
      " end=" ++ showEnd e
  | .illegal => "illegal end=lost"
  | .other => "other"

def showHdr (h : Bytes) : String := String.ofList ((h.take 2).map (fun b => Char.ofNat b))

def showC : CObs → String
  | .ign => "ign" | .und => "und" | .unk => "unk" | .bad => "bad" | .assert_ => "assert" | .id => "id"
  | .done h => showHdr h ++ "d"
  | .quiet h => showHdr h ++ "n"
  | .resend h => showHdr h ++ "w"

def showG (s : GSt) : String :=
  let l := fun (x : List Nat) => if x.isEmpty then "-" else ",".intercalate (x.map toString)
  "written=" ++ l (s.written.map (·.2)) ++ " fin=" ++ l (s.fin.mergeSort) ++ " gate=" ++ (if s.gate then "1" else "0")

structure DSt2 where
  old : DSt := {}
  pk : PKSt := {}
  inv : Inv := []
  cbuf : Bytes := []
  g : GSt := {}

def driverStep (s : DSt2) (line : String) : DSt2 × String :=
  match line.splitOn " " with
  | ["pk2init", k, t, r] =>
    match k.toNat? with
    | some n => ({ s with pk := { inflight := n, readTask := t = "1", ready := r = "1" } }, "ok")
    | none => (s, "bad-op")
  | ["pk2", c] =>
    match ofHex c with
    | some b =>
      let (st, obs) := feed pkStep s.pk b
      ({ s with pk := st },
        words (obs.flatMap showPK ++ ["buf=" ++ toHex st.buf, "k=" ++ toString st.inflight,
                                      "r=" ++ (if st.ready then "1" else "0")]))
    | none => (s, "bad-op")
  | ["pk2hw"] => (s, showHw s.pk.hw)
  | ["pk2q", b, n] =>
    match b.toNat?, n.toNat? with
    | some x, some y =>
      (s, match lookupSw (x, y) s.pk.table with | some true => "1" | some false => "0" | none => "none")
    | _, _ => (s, "bad-op")
  | ["oppru", sep, mn, c] =>
    match sep.toNat?, mn.toNat?, ofHex c with
    | some x, some y, some b =>
      (s, match readUntil x y [] b with | some (m, r) => toHex m ++ "|" ++ toHex r | none => "none")
    | _, _, _ => (s, "bad-op")
  | ["oppinit", "reset"] => ({ s with inv := [] }, "ok")
  | ["oppinit", c] =>
    match ofHex c with
    | some b => let (i, o) := initDispatch s.inv b; ({ s with inv := i }, showI o)
    | none => (s, "bad-op")
  | ["fcfginit"] => ({ s with cbuf := [] }, "ok")
  | ["fcfg", c] =>
    match ofHex c with
    | some b =>
      let (buf, obs) := feed (dStep CR cfgFrame) s.cbuf b
      ({ s with cbuf := buf }, words (obs.map showC ++ ["buf=" ++ toHex buf]))
    | none => (s, "bad-op")
  | ["ginit"] => ({ s with g := {} }, "ok")
  | ["gcall", k] =>
    match k.toNat? with
    | some n => let g := gStep s.g (.call n); ({ s with g := g }, showG g)
    | none => (s, "bad-op")
  | ["gforget", k] =>
    match k.toNat? with
    | some n => let g := gStep s.g (.forget n); ({ s with g := g }, showG g)
    | none => (s, "bad-op")
  | ["gresp"] => let g := gStep s.g .resp; ({ s with g := g }, showG g)
  | _ => let (o, out) := Framing.driverStep s.old line; ({ s with old := o }, out)

end MpfVerif.Framing2
