/-!
# Promise ledger of the game-level ball requests (C05): ball start, ball save (with eject_delay), multiball

A ball save *announces* a save (`ball_save_<name>_saving_ball`, the ball stays in `balls_in_play`) and asks the playfield for
the ball either at once or `eject_delay` later through an (unnamed) delay of its DelayManager
(`BallSave._ball_drain_while_active` / `early_ball_save` -> `_schedule_balls` -> `_add_balls` -> `Playfield.add_ball`).
Ball start, multiball start / add-a-ball / shoot-again call `Playfield.add_ball` directly.

`promised`  balls announced to the player (ball starts, saves, multiball balls put into balls_in_play, shoot-again)
`requested` sum of the `balls` of every `Playfield.add_ball` call
`pending`   the `balls_to_save` of the delayed `_add_balls` calls that have not fired yet (one entry per delay)
`over`      balls requested from the playfield beyond what was announced (a multiball asks for its ball although
            `Game.balls_in_play` was clamped to the number of known balls) - kept apart so that the ledger stays an equation
`delivered` balls that arrived on the playfield (counted, no guard: the ball devices are the BallLedger's business)
-/
namespace MpfVerif.BallPromise

structure St where
  delay : Nat := 0
  promised : Nat := 0
  requested : Nat := 0
  delivered : Nat := 0
  over : Nat := 0
  pending : List Nat := []
  deriving Repr, DecidableEq

inductive Op where
  | promise (k : Nat)     -- ball start / multiball start, add-a-ball, shoot again: announced and requested in one go
  | save (k : Nat)        -- ball save saves k balls: announced; requested now (eject_delay 0) or a delay is added
  | fire (k : Nat)        -- a pending delay fires: _add_balls(k)
  | overask (k : Nat)     -- Playfield.add_ball(k) without an announcement (balls_in_play clamped)
  | deliver               -- a ball arrived on the playfield
  deriving Repr, DecidableEq

def total : List Nat → Nat
  | [] => 0
  | x :: r => x + total r

/-- remove the first entry equal to `k` (the delay that fired); `none` when there is no such delay -/
def removeFirst (k : Nat) : List Nat → Option (List Nat)
  | [] => none
  | x :: r => if x = k then some r else
      match removeFirst k r with
      | some r' => some (x :: r')
      | none => none

def step (s : St) : Op → Option St
  | .promise k => some { s with promised := s.promised + k, requested := s.requested + k }
  | .save k =>
    if s.delay = 0 then some { s with promised := s.promised + k, requested := s.requested + k }
    else some { s with promised := s.promised + k, pending := s.pending ++ [k] }
  | .fire k =>
    match removeFirst k s.pending with
    | some r => some { s with requested := s.requested + k, pending := r }
    | none => none
  | .overask k => some { s with requested := s.requested + k, over := s.over + k }
  | .deliver => some { s with delivered := s.delivered + 1 }

def run (s : St) : List Op → Option St
  | [] => some s
  | o :: r => match step s o with
    | some s' => run s' r
    | none => none

/-- the seeded variant (a NAMED delay: adding it again replaces the pending one) - only used by the witness theorem -/
def stepNamed (s : St) : Op → Option St
  | .save k =>
    if s.delay = 0 then some { s with promised := s.promised + k, requested := s.requested + k }
    else some { s with promised := s.promised + k, pending := [k] }
  | o => step s o

def runNamed (s : St) : List Op → Option St
  | [] => some s
  | o :: r => match stepNamed s o with
    | some s' => runNamed s' r
    | none => none

/-- every pending delay fires, oldest first (what C13 guarantees for delays that are not removed) -/
def fireAll (s : St) : St :=
  { s with requested := s.requested + total s.pending, pending := [] }

-- driver ---------------------------------------------------------------------------------------------------------------

def showSt (s : St) : String :=
  s!"ok promised={s.promised} requested={s.requested} pending={total s.pending} delivered={s.delivered} over={s.over}"

def parseOp : List String → Option Op
  | ["promise", k] => k.toNat?.map Op.promise
  | ["overask", k] => k.toNat?.map Op.overask
  | ["save", k] => k.toNat?.map Op.save
  | ["fire", k] => k.toNat?.map Op.fire
  | ["deliver"] => some Op.deliver
  | _ => none

def driverToks (s : St) (toks : List String) : St × String :=
  match toks with
  | ["cfg", d] =>
    match d.toNat? with
    | some n => let s' : St := { delay := n }; (s', showSt s')
    | none => (s, "bad-op")
  | ["show"] => (s, showSt s)
  | toks =>
    match parseOp toks with
    | some op =>
      match step s op with
      | some s' => (s', showSt s')
      | none => (s, "not-enabled")
    | none => (s, "bad-op")

def driverStep (s : St) (line : String) : St × String := driverToks s (line.splitOn " ")

end MpfVerif.BallPromise
