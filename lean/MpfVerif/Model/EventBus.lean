/-!
# Event bus (C01) — model of `mpf/core/events.py`: registry, `_post`, `_run_handlers`, `_process_event`,
`process_event_queue`

* kwargs are Python dicts: association lists in insertion order (`kwSet` = `d[k] = v`, `kwUpdate` = `d.update(u)` =
  `dict(list(d.items()) + list(u.items()))`).
* Handler programs are data (`Prog`): a list of actions (post / add handler / remove by key / remove all) and a return
  value; handlers are referenced by a program id, the table `progs : Nat → Prog` is a parameter of everything.
* `_min_priority` / `blocking_facility`: a handler may return `{"_min_priority": {...}}` (`Ret.block`); `_run_handlers`
  stores it in the event's kwargs and from then on skips handlers that have a blocking facility and a priority below
  the limit of `all` or of their facility (`blocked`).
* Exceptions: the action `Act.raise` (and resolving a future twice, `Act.resolve`) sets `Core.raised`; a program stops
  there, `_run_handlers` stops there (`runHandlersX`), `_process_event` does not queue the callback, and the invocation of
  `process_event_queue` ends: its local deques (`next_queue`, `inner_queue`) are lost, `event_queue` keeps what was
  posted during the interrupted dispatch, `callback_queue` is kept (`Bus.stepX`, `Bus.invoke`).
* `call_soon(process_event_queue)` bookkeeping of `_post`: `Core.pending` counts scheduled invocations, `Core.qempty`
  mirrors `not self.event_queue` (the loop only dispatches / calls back with an empty `event_queue`).
* `monitor_events`: the fast path of `_post` is off and every post is reported; reports and resolved futures go to the
  side log `Core.mlog`, stamped with the length of the main log, so the driver can print both in real order.
* Facts extracted from the source by the translator (`Gen/EventFacts.lean`): `Facts`; the functions the DRIVER runs are
  parameterised by them (`sortF`, `addHandlerF`, `Loop.stepF`, `cbRunF`, ...) and coincide with the functions the
  theorems are about when the facts are the canonical ones (`Facts.canon`, lemmas `*_canon`).
* `Loop.step` is ONE iteration of the loops of `process_event_queue`, generic in the state `S` and the event type
  (`proc` = dispatch one event, `cbrun` = pop the *last* callback and run it).  `Spec.step` is the reference: a single
  depth-first agenda.  The concrete bus instantiates both with `processEvent` / `cbRun`.
-/
namespace MpfVerif.EventBus

/-! ## kwargs -/

inductive Val
  | int (i : Int) | bool (b : Bool) | dict (d : List (Nat × Int))
  | block (mp : List (Nat × Int))          -- the dict `{"_min_priority": mp}` (a handler result stored as ev_result)
  deriving DecidableEq, Repr

abbrev Kw := List (Nat × Val)

/-- `d[k] = v` on an insertion-ordered dict -/
def kwSet : Kw → Nat → Val → Kw
  | [], k, v => [(k, v)]
  | (k', v') :: r, k, v => if k' = k then (k, v) :: r else (k', v') :: kwSet r k v

/-- `d.update(u)`; also `dict(list(d.items()) + list(u.items()))` -/
def kwUpdate (d : Kw) : Kw → Kw
  | [] => d
  | (k, v) :: r => kwUpdate (kwSet d k v) r

def kwGet : Kw → Nat → Option Val
  | [], _ => none
  | (k', v) :: r, k => if k' = k then some v else kwGet r k

def ofInts (d : List (Nat × Int)) : Kw := d.map (fun p => (p.1, Val.int p.2))

/-- key id of `ev_result` -/
def evResult : Nat := 0

/-- key id of `_min_priority`; inside that dict key 0 is `all`, any other key is a blocking facility -/
def minPrio : Nat := 100

def dGet : List (Nat × Int) → Nat → Option Int
  | [], _ => none
  | (k', v) :: r, k => if k' = k then some v else dGet r k

/-! ## handlers, programs -/

inductive Ret
  | none | bool (b : Bool) | dict (d : List (Nat × Int)) | int (i : Int)
  | block (mp : List (Nat × Int))          -- `return {"_min_priority": mp}`
  deriving DecidableEq, Repr

inductive Ty | plain | boolean | relay
  deriving DecidableEq, Repr

structure Handler where
  key : Nat
  prio : Int
  kw : Kw
  cond : Option (Nat × Int)
  pid : Nat
  fn : Nat := pid                 -- equality class of the callback object (`rh[0] == handler`): bound methods of one
                                  -- object compare equal (fn = pid), a `functools.partial` only equals itself
  fac : Option Nat := none        -- `blocking_facility`
  deriving DecidableEq, Repr

structure Posted where
  ev : Nat
  ty : Ty
  cb : Option Nat
  kw : Kw
  sn : Nat
  deriving DecidableEq, Repr

inductive Act
  | post (ev : Nat) (ty : Ty) (cb : Option Nat) (kw : Kw)
  | add (ev : Nat) (h : Handler)
  | removeKey (ev key : Nat)
  | removeAll (ev : Nat)
  | replace (ev : Nat) (h : Handler)   -- replace_handler(ev, callback h.pid, h.prio, **h.kw); h.key names the new entry
  | removeFn (pid : Nat)               -- remove_handler(method)
  | removeEvFn (ev pid : Nat)          -- remove_handler_by_event(ev, handler)
  | replaceRaw (ev : Nat) (h : Handler) -- replace_handler('ev{cond}' / 'ev.N', ...): the lookup uses the unsplit string,
                                        -- nothing is ever removed; then add_handler
  | raise                              -- the handler / callback raises here
  | resolve (wid : Nat)                -- `_future.set_result(kwargs)` of `_wait_handler` (nothing happens if the future is done)
  | monitor (on : Bool)                -- `monitor_events = on` (BCP event monitor)
  | reenter                            -- `process_event_queue()` called by a handler / callback, i.e. from inside the
                                       -- loop: with the re-entrancy guard nothing happens (the running invocation
                                       -- picks everything up); the unguarded code nests dispatches - a finding
  deriving DecidableEq, Repr

structure Prog where
  acts : List Act
  ret : Ret
  deriving DecidableEq, Repr

inductive Obs
  | call (key ev sn : Nat) (kw : Kw)
  | cb (pid sn : Nat) (kw : Kw)
  deriving DecidableEq, Repr

/-- side log: monitor reports (`monitor_posted_event`) and resolved futures -/
inductive SObs
  | mon (ev sn : Nat) (kw : Kw)
  | fut (wid : Nat)
  | exc                                -- an invocation of process_event_queue ended by an exception
  deriving DecidableEq, Repr

/-! ## registry -/

abbrev Reg := List (Nat × List Handler)

def regGet : Reg → Nat → List Handler
  | [], _ => []
  | (e, hs) :: r, ev => if e = ev then hs else regGet r ev

def regSet : Reg → Nat → List Handler → Reg
  | [], ev, hs => [(ev, hs)]
  | (e, old) :: r, ev, hs => if e = ev then (ev, hs) :: r else (e, old) :: regSet r ev hs

/-- stable insertion for a descending sort: `h` originally precedes everything in the list -/
def insDesc (h : Handler) : List Handler → List Handler
  | [] => [h]
  | y :: ys => if h.prio ≥ y.prio then h :: y :: ys else y :: insDesc h ys

/-- `list.sort(key=lambda x: x.priority, reverse=True)` (stable) -/
def sortDesc : List Handler → List Handler
  | [] => []
  | h :: r => insDesc h (sortDesc r)

/-- `add_handler`: append, then sort the whole list -/
def addHandler (reg : Reg) (ev : Nat) (h : Handler) : Reg := regSet reg ev (sortDesc (regGet reg ev ++ [h]))

/-- `remove_handler_by_key` (an emptied list is the same as an absent event: `_remove_event_if_empty`) -/
def removeKey (reg : Reg) (ev key : Nat) : Reg := regSet reg ev ((regGet reg ev).filter (fun h => h.key != key))

def removeAll (reg : Reg) (ev : Nat) : Reg := regSet reg ev []

/-- `rh.kwargs == kwargs` on dicts without duplicate keys: same size and the same value under every key
(the order of the items does not matter) -/
def kwSame (a b : Kw) : Bool := a.length == b.length && a.all (fun p => kwGet b p.1 == some p.2)

/-- entries `replace_handler(event, handler, priority, **kwargs)` removes: the callback is identified by its equality class
`fn` (`rh[0] == handler`); with kwargs the registered kwargs must be equal as well, without kwargs every entry of that
callback goes -/
def replaceMatches (h x : Handler) : Bool :=
  if h.kw.isEmpty then x.fn == h.fn else x.fn == h.fn && kwSame x.kw h.kw

/-- `replace_handler`: remove the matching entries of this event, then `add_handler` (append + stable sort: the new
entry lands behind every entry of the same or a higher priority) -/
def replaceHandler (reg : Reg) (ev : Nat) (h : Handler) : Reg :=
  regSet reg ev (sortDesc ((regGet reg ev).filter (fun x => !replaceMatches h x) ++ [h]))

/-- `remove_handler(method)`: every entry of that callback, under every event -/
def removeFn : Reg → Nat → Reg
  | [], _ => []
  | (e, hs) :: r, pid => (e, hs.filter (fun x => x.fn != pid)) :: removeFn r pid

/-- `remove_handler_by_event(event, handler)` (kwargs are not looked at) -/
def removeEvFn (reg : Reg) (ev pid : Nat) : Reg := regSet reg ev ((regGet reg ev).filter (fun x => x.fn != pid))

/-! ## facts about the source (regenerated into `Gen/EventFacts.lean` by `translate/event_facts.py`) -/

inductive End | left | right
  deriving DecidableEq, Repr

structure Facts where
  sortKeyPriority : Bool   -- add_handler: `.sort(key=lambda x: x.priority, ...)`
  sortReverse : Bool       -- ... `reverse=True`
  addAppends : Bool        -- add_handler: `registered_handlers[event].append(...)` before the sort
  iterCopy : Bool          -- _run_handlers: `for handler in self.registered_handlers[event][:]` (copy taken before the first call)
  postPush : End           -- _post: `self.event_queue.append(posted_event)`
  nextPop : End            -- process_event_queue: `next_queue.popleft()`
  innerPush : End          -- `inner_queue.appendleft(next_queue)`
  innerPop : End           -- `inner_queue.popleft()`
  cbPush : End             -- _process_event: `self.callback_queue.append(...)`
  cbPop : End              -- process_event_queue: `self.callback_queue.pop()`
  deriving DecidableEq, Repr

/-- what the theorems assume the source says -/
def Facts.canon : Facts := ⟨true, true, true, true, .right, .left, .left, .left, .right, .right⟩

/-- split off the last element (`deque.pop()`) -/
def popLast {α : Type} : List α → Option (List α × α)
  | [] => none
  | [x] => some ([], x)
  | x :: y :: r => match popLast (y :: r) with
    | some (l, z) => some (x :: l, z)
    | none => none

def popAt {α : Type} : End → List α → Option (α × List α)
  | .left, [] => none
  | .left, x :: r => some (x, r)
  | .right, l => match popLast l with
    | some (r, x) => some (x, r)
    | none => none

def pushAt {α : Type} : End → List α → α → List α
  | .left, l, x => x :: l
  | .right, l, x => l ++ [x]

/-- push every element of `posted` in turn -/
def enq {α : Type} : End → List α → List α → List α
  | .right, q, posted => q ++ posted
  | .left, q, posted => posted.reverse ++ q

def insAsc (h : Handler) : List Handler → List Handler
  | [] => [h]
  | y :: ys => if h.prio ≤ y.prio then h :: y :: ys else y :: insAsc h ys

def sortAsc : List Handler → List Handler
  | [] => []
  | h :: r => insAsc h (sortAsc r)

def sortF (F : Facts) (l : List Handler) : List Handler :=
  if F.sortKeyPriority then (if F.sortReverse then sortDesc l else sortAsc l) else l

def placeF (F : Facts) (l : List Handler) (h : Handler) : List Handler := if F.addAppends then l ++ [h] else h :: l

def addHandlerF (F : Facts) (reg : Reg) (ev : Nat) (h : Handler) : Reg :=
  regSet reg ev (sortF F (placeF F (regGet reg ev) h))

def replaceHandlerF (F : Facts) (reg : Reg) (ev : Nat) (h : Handler) : Reg :=
  regSet reg ev (sortF F (placeF F ((regGet reg ev).filter (fun x => !replaceMatches h x)) h))

theorem addHandlerF_canon (reg : Reg) (ev : Nat) (h : Handler) : addHandlerF Facts.canon reg ev h = addHandler reg ev h := rfl

theorem replaceHandlerF_canon (reg : Reg) (ev : Nat) (h : Handler) :
    replaceHandlerF Facts.canon reg ev h = replaceHandler reg ev h := rfl

/-! ## the bus without its queues -/

structure Core where
  reg : Reg := []
  cbq : List (Nat × Nat × Kw) := []     -- `callback_queue`: (callback program, serial of the post, kwargs)
  nextSn : Nat := 0
  log : List Obs := []
  facts : Facts := Facts.canon          -- configuration, never changed: what the source says (driver: `sourceFacts`)
  raised : Bool := false                -- an exception is propagating
  resolved : List Nat := []             -- futures that are done
  mon : Bool := false                   -- `monitor_events`
  mlog : List (Nat × SObs) := []        -- side log; every entry is stamped with `log.length` at the time it was made
  qempty : Bool := true                 -- `not self.event_queue`
  pending : Nat := 0                    -- invocations of process_event_queue scheduled by call_soon and not yet run
  deriving DecidableEq, Repr

/-- one action of a handler / callback / top-level caller; returns what `_post` appended to `event_queue` -/
def runAct (c : Core) : Act → Core × List Posted
  | .post ev ty cb kw =>
    let c' := { c with nextSn := c.nextSn + 1 }
    -- fast path of `_post`: no callback, no monitor and no handler registered *now*: dropped
    if cb.isNone && !c.mon && (regGet c.reg ev).isEmpty then (c', [])
    else
      -- `if not self.event_queue: loop.call_soon(self.process_event_queue)`; monitor; append
      ({ c' with pending := if c.qempty then c.pending + 1 else c.pending, qempty := false,
                 mlog := if c.mon then c.mlog ++ [(c.log.length, SObs.mon ev c.nextSn kw)] else c.mlog },
       [⟨ev, ty, cb, kw, c.nextSn⟩])
  | .add ev h => ({ c with reg := addHandlerF c.facts c.reg ev h }, [])
  | .removeKey ev key => ({ c with reg := removeKey c.reg ev key }, [])
  | .removeAll ev => ({ c with reg := removeAll c.reg ev }, [])
  | .replace ev h => ({ c with reg := replaceHandlerF c.facts c.reg ev h }, [])
  | .removeFn pid => ({ c with reg := removeFn c.reg pid }, [])
  | .removeEvFn ev pid => ({ c with reg := removeEvFn c.reg ev pid }, [])
  | .replaceRaw ev h => ({ c with reg := addHandlerF c.facts c.reg ev h }, [])
  | .raise => ({ c with raised := true }, [])
  | .resolve wid =>
    if c.resolved.contains wid then (c, [])     -- `if _future.done(): return` (fix 7ae9e07; it raised InvalidStateError before)
    else ({ c with resolved := wid :: c.resolved, mlog := c.mlog ++ [(c.log.length, SObs.fut wid)] }, [])
  | .monitor on => ({ c with mon := on }, [])
  | .reenter => (c, [])

/-- a program runs until an action raises -/
def runActs (c : Core) : List Act → Core × List Posted
  | [] => (c, [])
  | a :: r =>
    let (c1, p1) := runAct c a
    if c1.raised then (c1, p1) else
    let (c2, p2) := runActs c1 r
    (c2, p1 ++ p2)

def condHolds (cond : Option (Nat × Int)) (merged : Kw) : Bool :=
  match cond with
  | none => true
  | some (k, v) => kwGet merged k == some (Val.int v)

/-- the `_min_priority` test of `_run_handlers` on the event's (not the merged) kwargs: a handler with a blocking
facility is skipped when the limit of `all` or of its facility is above its priority -/
def blocked (kw : Kw) (h : Handler) : Bool :=
  match h.fac, kwGet kw minPrio with
  | some f, some (.dict mp) =>
    (match dGet mp 0 with | some a => decide (a > h.prio) | none => false) ||
    (match dGet mp f with | some v => decide (v > h.prio) | none => false)
  | _, _ => false

def truthy : Ret → Bool
  | .none => false
  | .bool b => b
  | .dict d => !d.isEmpty
  | .int i => i != 0
  | .block _ => true

def retVal : Ret → Val
  | .none => .bool false
  | .bool b => .bool b
  | .dict d => .dict d
  | .int i => .int i
  | .block mp => .block mp

/-- what a handler result does to the event's kwargs (other than the boolean stop) -/
def foldRet (ty : Ty) (r : Ret) (kw : Kw) : Kw :=
  match ty, r with
  | .relay, .dict d => kwUpdate kw (ofInts d)
  | _, .block mp => kwSet kw minPrio (.dict mp)      -- relay: `kwargs.update(result)`, else `kwargs['_min_priority'] = ...`
  | _, _ => kw

/-- The `for handler in self.registered_handlers[event][:]` loop of `_run_handlers` over the snapshot `hs` in the world
without blocking facilities, `_min_priority` results and exceptions (what C02's relay / boolean theorems are about;
`runHandlersX` below is the loop as the code runs it); `kw` is the mutable `kwargs` of `_process_event`, `res` the last
handler result -/
def runHandlers (progs : Nat → Prog) (ev sn : Nat) (ty : Ty) :
    List Handler → Core → Kw → Ret → Core × Kw × Ret × List Posted
  | [], c, kw, res => (c, kw, res, [])
  | h :: hs, c, kw, res =>
    let merged := kwUpdate kw h.kw
    if !condHolds h.cond merged then runHandlers progs ev sn ty hs c kw res
    else
      let c0 := { c with log := c.log ++ [Obs.call h.key ev sn merged] }
      let (c1, p1) := runActs c0 (progs h.pid).acts
      let r := (progs h.pid).ret
      if ty = .boolean ∧ r = .bool false then (c1, kwSet kw evResult (.bool false), r, p1)
      else
        let kw' := match ty, r with
          | .relay, .dict d => kwUpdate kw (ofInts d)
          | _, _ => kw
        let (c2, kw2, r2, p2) := runHandlers progs ev sn ty hs c1 kw' r
        (c2, kw2, r2, p1 ++ p2)

/-- the loop as the code runs it: the `_min_priority` test, `_min_priority` results, and an exception raised by a
handler ends it (`raise EventHandlerException`) -/
def runHandlersX (progs : Nat → Prog) (ev sn : Nat) (ty : Ty) :
    List Handler → Core → Kw → Ret → Core × Kw × Ret × List Posted
  | [], c, kw, res => (c, kw, res, [])
  | h :: hs, c, kw, res =>
    let merged := kwUpdate kw h.kw
    if blocked kw h || !condHolds h.cond merged then runHandlersX progs ev sn ty hs c kw res
    else
      let c0 := { c with log := c.log ++ [Obs.call h.key ev sn merged] }
      let (c1, p1) := runActs c0 (progs h.pid).acts
      if c1.raised then (c1, kw, res, p1) else
      let r := (progs h.pid).ret
      if ty = .boolean ∧ r = .bool false then (c1, kwSet kw evResult (.bool false), r, p1)
      else
        let (c2, kw2, r2, p2) := runHandlersX progs ev sn ty hs c1 (foldRet ty r kw) r
        (c2, kw2, r2, p1 ++ p2)

/-- `_process_event`; the loop dispatches only with an empty `event_queue` (`qempty`).  An exception propagates: the
callback is not queued. -/
def processEvent (progs : Nat → Prog) (c : Core) (e : Posted) : Core × List Posted :=
  let (c1, kw1, res, posted) := runHandlersX progs e.ev e.sn e.ty (regGet c.reg e.ev) { c with qempty := true } e.kw .none
  if c1.raised then (c1, posted) else
  match e.cb with
  | none => (c1, posted)
  | some cb =>
    let kw2 := if truthy res then kwSet kw1 evResult (retVal res) else kw1
    ({ c1 with cbq := pushAt c1.facts.cbPush c1.cbq (cb, e.sn, kw2) }, posted)

/-- `callback, kwargs = self.callback_queue.pop(); callback(**kwargs)`; the callback is itself a program -/
def cbRun (progs : Nat → Prog) (c : Core) : Option (Core × List Posted) :=
  match popAt c.facts.cbPop c.cbq with
  | none => none
  | some ((pid, sn, kw), rest) =>
    some (runActs { c with cbq := rest, log := c.log ++ [Obs.cb pid sn kw], qempty := true } (progs pid).acts)

/-! ## `process_event_queue`, one loop iteration at a time (generic) -/

structure Loop (S Ev : Type) where
  s : S
  queue : List Ev := []            -- `self.event_queue`
  cur : List Ev := []              -- `next_queue`
  inner : List (List Ev) := []     -- `inner_queue`

/-- One iteration.  `cur = e :: rest`: the body of `while next_queue:`.  `cur = []`: the inner loop is not running —
swap `event_queue` in if there is one, otherwise pop and run the last callback, otherwise the outer loop ends. -/
def Loop.step {S Ev : Type} (proc : S → Ev → S × List Ev) (cbrun : S → Option (S × List Ev)) (st : Loop S Ev) :
    Option (Loop S Ev) :=
  match st.cur with
  | e :: rest =>
    -- event = next_queue.popleft(); if not next_queue and inner_queue: next_queue = inner_queue.popleft()
    let (cur1, inner1) :=
      match rest, st.inner with
      | [], q :: qs => (q, qs)
      | _, _ => (rest, st.inner)
    let (s', posted) := proc st.s e
    let queue' := st.queue ++ posted
    -- if self.event_queue: inner_queue.appendleft(next_queue); next_queue = self.event_queue; self.event_queue = deque()
    if queue'.isEmpty then some ⟨s', [], cur1, inner1⟩ else some ⟨s', [], queue', cur1 :: inner1⟩
  | [] =>
    if st.queue.isEmpty then
      match cbrun st.s with
      | some (s', posted) => some ⟨s', st.queue ++ posted, [], st.inner⟩
      | none => none
    else some ⟨st.s, [], st.queue, st.inner⟩

/-- The same iteration with the deque ends as the source has them (`Facts`); equal to `Loop.step` for the canonical
facts (`Loop.stepF_canon` in `Lemmas/EventBus.lean`).  This is what the driver runs. -/
def Loop.stepF {S Ev : Type} (F : Facts) (proc : S → Ev → S × List Ev) (cbrun : S → Option (S × List Ev))
    (st : Loop S Ev) : Option (Loop S Ev) :=
  match popAt F.nextPop st.cur with
  | some (e, rest) =>
    let (cur1, inner1) :=
      match rest, popAt F.innerPop st.inner with
      | [], some (q, qs) => (q, qs)
      | _, _ => (rest, st.inner)
    let (s', posted) := proc st.s e
    let queue' := enq F.postPush st.queue posted
    if queue'.isEmpty then some ⟨s', [], cur1, inner1⟩ else some ⟨s', [], queue', pushAt F.innerPush inner1 cur1⟩
  | none =>
    if st.queue.isEmpty then
      match cbrun st.s with
      | some (s', posted) => some ⟨s', enq F.postPush st.queue posted, [], st.inner⟩
      | none => none
    else some ⟨st.s, [], st.queue, st.inner⟩

/-- `n` iterations (stops early when the loop has ended) -/
def Loop.iter {S Ev : Type} (proc : S → Ev → S × List Ev) (cbrun : S → Option (S × List Ev)) :
    Nat → Loop S Ev → Loop S Ev
  | 0, st => st
  | n + 1, st => match Loop.step proc cbrun st with
    | some st' => Loop.iter proc cbrun n st'
    | none => st

/-- the reference: one agenda, children of the dispatched event go in front of everything waiting -/
structure Spec (S Ev : Type) where
  s : S
  agenda : List Ev

def Spec.step {S Ev : Type} (proc : S → Ev → S × List Ev) (cbrun : S → Option (S × List Ev)) (sp : Spec S Ev) :
    Option (Spec S Ev) :=
  match sp.agenda with
  | e :: rest => let (s', posted) := proc sp.s e; some ⟨s', posted ++ rest⟩
  | [] => match cbrun sp.s with
    | some (s', posted) => some ⟨s', posted⟩
    | none => none

def Spec.iter {S Ev : Type} (proc : S → Ev → S × List Ev) (cbrun : S → Option (S × List Ev)) :
    Nat → Spec S Ev → Spec S Ev
  | 0, sp => sp
  | n + 1, sp => match Spec.step proc cbrun sp with
    | some sp' => Spec.iter proc cbrun n sp'
    | none => sp

/-- the agenda an implementation state stands for -/
def Loop.abs {S Ev : Type} (st : Loop S Ev) : Spec S Ev := ⟨st.s, st.cur ++ st.inner.flatten ++ st.queue⟩

/-! ## the concrete bus -/

abbrev Bus := Loop Core Posted

/-- one iteration of the loop when nothing raises (the function the refinement theorems are about) -/
def Bus.step (progs : Nat → Prog) : Bus → Option Bus := Loop.step (processEvent progs) (cbRun progs)

/-- One iteration as the code runs it, with the source's deque ends, and exceptions: when the dispatch (or the
callback) raised, the invocation of `process_event_queue` is over — `next_queue` and `inner_queue` are locals and are
lost, `self.event_queue` holds what was posted during the interrupted dispatch, `callback_queue` is untouched.
The flag says whether the invocation ended by an exception. -/
def Bus.stepX (progs : Nat → Prog) (b : Bus) : Option (Bus × Bool) :=
  let F := b.s.facts
  match popAt F.nextPop b.cur with
  | some (e, _) =>
    let r := processEvent progs b.s e
    if r.1.raised then
      some (⟨{ r.1 with raised := false, mlog := r.1.mlog ++ [(r.1.log.length, SObs.exc)] }, enq F.postPush b.queue r.2, [], []⟩, true)
    else (Loop.stepF F (processEvent progs) (cbRun progs) b).map (fun b' => (b', false))
  | none =>
    match Loop.stepF F (processEvent progs) (cbRun progs) b with
    | none => none
    | some b' =>
      if b'.s.raised then
        some (⟨{ b'.s with raised := false, mlog := b'.s.mlog ++ [(b'.s.log.length, SObs.exc)] }, b'.queue, [], []⟩, true)
      else some (b', false)

/-- code running outside the loop (boot, a delay callback, a switch handler): its posts land in `event_queue` -/
def Bus.top (b : Bus) (acts : List Act) : Bus :=
  let (c, posted) := runActs { b.s with qempty := b.queue.isEmpty } acts
  { b with s := c, queue := enq c.facts.postPush b.queue posted }

/-- one invocation of `process_event_queue()` with fuel; `none` = fuel exhausted; the flag: ended by an exception -/
def Bus.invoke (progs : Nat → Prog) : Nat → Bus → Option (Bus × Bool)
  | 0, _ => none
  | n + 1, b => match Bus.stepX progs b with
    | none => some (b, false)
    | some (b', true) => some (b', true)
    | some (b', false) => Bus.invoke progs n b'

def Bus.drain (progs : Nat → Prog) (n : Nat) (b : Bus) : Option Bus := (Bus.invoke progs n b).map (·.1)

/-- run the invocations that `_post` scheduled with `call_soon` (each may schedule more) -/
def Bus.soon (progs : Nat → Prog) : Nat → Bus → Option Bus
  | 0, _ => none
  | n + 1, b =>
    if b.s.pending = 0 then some b else
    match Bus.invoke progs 100000 { b with s := { b.s with pending := b.s.pending - 1 } } with
    | none => none
    | some (b', _) => Bus.soon progs n b'

/-! ## line-protocol driver -/

def parseVal (s : String) : Option Val :=
  if s = "T" then some (.bool true) else if s = "F" then some (.bool false) else s.toInt?.map Val.int

def parsePairs {α : Type} (f : String → Option α) (s : String) : Option (List (Nat × α)) :=
  if s = "-" then some [] else
  (s.splitOn ",").foldr (fun item acc => do
    let rest ← acc
    match item.splitOn ":" with
    | [k, v] => do let k' ← k.toNat?; let v' ← f v; pure ((k', v') :: rest)
    | _ => none) (some [])

def parseKw : String → Option Kw := parsePairs parseVal

def parseTy : String → Option Ty
  | "n" => some .plain | "b" => some .boolean | "r" => some .relay | _ => none

def parseCond (s : String) : Option (Option (Nat × Int)) :=
  if s = "-" then some none else
  match s.splitOn "=" with
  | [k, v] => do let k' ← k.toNat?; let v' ← v.toInt?; pure (some (k', v'))
  | _ => none

def parseOptNat (s : String) : Option (Option Nat) := if s = "-" then some none else s.toNat?.map some

/-- `key/prio/kw/cond/pid` or `key/prio/kw/cond/pid/fn/fac` -/
def parseHandler (s : String) : Option Handler :=
  match s.splitOn "/" with
  | [key, prio, kw, cond, pid] => do
    let p ← pid.toNat?
    pure ⟨← key.toNat?, ← prio.toInt?, ← parseKw kw, ← parseCond cond, p, p, none⟩
  | [key, prio, kw, cond, pid, fn, fac] => do
    pure ⟨← key.toNat?, ← prio.toInt?, ← parseKw kw, ← parseCond cond, ← pid.toNat?, ← fn.toNat?, ← parseOptNat fac⟩
  | _ => none

def parseAct (toks : List String) : Option Act :=
  match toks with
  | ["P", ev, ty, cb, kw] => do
    let cb' ← (if cb = "-" then some none else cb.toNat?.map some)
    pure (.post (← ev.toNat?) (← parseTy ty) cb' (← parseKw kw))
  | ["A", ev, h] => do pure (.add (← ev.toNat?) (← parseHandler h))
  | ["R", ev, key] => do pure (.removeKey (← ev.toNat?) (← key.toNat?))
  | ["X", ev] => do pure (.removeAll (← ev.toNat?))
  | ["H", ev, h] => do pure (.replace (← ev.toNat?) (← parseHandler h))
  | ["HR", ev, h] => do pure (.replaceRaw (← ev.toNat?) (← parseHandler h))
  | ["M", pid] => do pure (.removeFn (← pid.toNat?))
  | ["E", ev, pid] => do pure (.removeEvFn (← ev.toNat?) (← pid.toNat?))
  | ["Z"] => some .raise
  | ["F", wid] => do pure (.resolve (← wid.toNat?))
  | ["O", "1"] => some (.monitor true)
  | ["O", "0"] => some (.monitor false)
  | ["Q"] => some .reenter
  | _ => none

/-- acts separated by the token `|` -/
def splitBar : List String → List (List String)
  | [] => [[]]
  | t :: r => if t = "|" then [] :: splitBar r else
    match splitBar r with
    | [] => [[t]]
    | h :: tl => (t :: h) :: tl

def parseActs (toks : List String) : Option (List Act) :=
  if toks.isEmpty then some [] else
  (splitBar toks).foldr (fun a acc => do let rest ← acc; let x ← parseAct a; pure (x :: rest)) (some [])

def parseRet (s : String) : Option Ret :=
  if s = "N" then some .none else if s = "T" then some (.bool true) else if s = "F" then some (.bool false)
  else if s.startsWith "I" then (s.drop 1).toString.toInt?.map Ret.int
  else if s.startsWith "D" then (parsePairs (fun v => v.toInt?) (s.drop 1).toString).map Ret.dict
  else if s.startsWith "B" then (parsePairs (fun v => v.toInt?) (s.drop 1).toString).map Ret.block
  else none

def showD (d : List (Nat × Int)) : String :=
  "{" ++ ";".intercalate (d.map (fun p => toString p.1 ++ ":" ++ toString p.2)) ++ "}"

def showVal : Val → String
  | .int i => toString i
  | .bool b => if b then "T" else "F"
  | .dict d => showD d
  | .block mp => "{100:" ++ showD mp ++ "}"

def showKw (kw : Kw) : String :=
  if kw.isEmpty then "-" else ",".intercalate (kw.map (fun p => toString p.1 ++ ":" ++ showVal p.2))

def showObs : Obs → String
  | .call key ev _ kw => "c" ++ toString key ++ "." ++ toString ev ++ "." ++ showKw kw
  | .cb pid sn kw => "b" ++ toString pid ++ "." ++ toString sn ++ "." ++ showKw kw

def showSObs : SObs → String
  | .mon ev sn kw => "m" ++ toString ev ++ "." ++ toString sn ++ "." ++ showKw kw
  | .fut wid => "f" ++ toString wid
  | .exc => "x"

/-- main log from position `i` on, with the side-log entries in front of the position they are stamped with -/
def mergeLogs : Nat → List Obs → List (Nat × SObs) → List String
  | _, [], side => side.map (fun p => showSObs p.2)
  | i, o :: r, side =>
    (side.takeWhile (fun p => p.1 ≤ i)).map (fun p => showSObs p.2) ++
      showObs o :: mergeLogs (i + 1) r (side.dropWhile (fun p => p.1 ≤ i))

structure DState where
  progs : List (Nat × Prog) := []
  bus : Bus := { s := {} }
  shownLog : Nat := 0
  shownSide : Nat := 0

def lookupProg (t : List (Nat × Prog)) (pid : Nat) : Prog :=
  match t with
  | [] => ⟨[], .none⟩
  | (p, pr) :: r => if p = pid then pr else lookupProg r pid

def initF (F : Facts) : DState := { bus := { s := { facts := F } } }

def init : DState := initF Facts.canon

def showReg (hs : List Handler) : String :=
  if hs.isEmpty then "-" else " ".intercalate (hs.map (fun h => toString h.key))

/-- everything logged since the last answer -/
def DState.flush (d : DState) (b : Bus) : DState × String :=
  let out := mergeLogs d.shownLog (b.s.log.drop d.shownLog) (b.s.mlog.drop d.shownSide)
  ({ d with bus := b, shownLog := b.s.log.length, shownSide := b.s.mlog.length },
   if out.isEmpty then "ok" else " ".intercalate out)

def driverStepF (F : Facts) (d : DState) (line : String) : DState × String :=
  match line.splitOn " " with
  | ["reset"] => (initF F, "ok")
  | "prog" :: pid :: ret :: acts =>
    match pid.toNat?, parseRet ret, parseActs acts with
    | some p, some r, some a => ({ d with progs := (p, ⟨a, r⟩) :: d.progs }, "ok")
    | _, _, _ => (d, "bad-op")
  | "top" :: acts =>
    match parseActs acts with
    | some a =>
      let b := d.bus.top a
      if b.s.raised then (d, "bad-op") else ({ d with bus := b }, "ok")
    | none => (d, "bad-op")
  | ["drain"] =>
    -- the model iterates the snapshot; a source that iterates the live list is outside it
    if !F.iterCopy then (d, "unmodelled") else
    match Bus.invoke (lookupProg d.progs) 100000 d.bus with
    | some (b, _) => d.flush b
    | none => (d, "diverged")
  | ["soon"] =>
    if !F.iterCopy then (d, "unmodelled") else
    match Bus.soon (lookupProg d.progs) 100000 d.bus with
    | some b => d.flush b
    | none => (d, "diverged")
  | ["reg", ev] =>
    match ev.toNat? with
    | some e => (d, showReg (regGet d.bus.s.reg e))
    | none => (d, "bad-op")
  | ["left"] => (d, toString d.bus.queue.length ++ " " ++ toString d.bus.s.cbq.length)
  | _ => (d, "bad-op")

def driverStep : DState → String → DState × String := driverStepF Facts.canon

end MpfVerif.EventBus
