/-!
# Event bus (C01) — model of `mpf/core/events.py`: registry, `_post`, `_run_handlers`, `_process_event`,
`process_event_queue`

* kwargs are Python dicts: association lists in insertion order (`kwSet` = `d[k] = v`, `kwUpdate` = `d.update(u)` =
  `dict(list(d.items()) + list(u.items()))`).
* Handler programs are data (`Prog`): a list of actions (post / add handler / remove by key / remove all) and a return
  value; handlers are referenced by a program id, the table `progs : Nat → Prog` is a parameter of everything.
* `Loop.step` is ONE iteration of the loops of `process_event_queue`, generic in the state `S` and the event type
  (`proc` = dispatch one event, `cbrun` = pop the *last* callback and run it).  `Spec.step` is the reference: a single
  depth-first agenda.  The concrete bus instantiates both with `processEvent` / `cbRun`.
-/
namespace MpfVerif.EventBus

/-! ## kwargs -/

inductive Val
  | int (i : Int) | bool (b : Bool) | dict (d : List (Nat × Int))
  deriving DecidableEq, Repr

abbrev Kw := List (Nat × Val)

/-- `d[k] = v` on an insertion-ordered dict -/
def kwSet : Kw → Nat → Val → Kw
  | [], k, v => [(k, v)]
  | (k', v') :: r, k, v => if k' = k then (k, v) :: r else (k', v') :: kwSet r k v

/-- `d.update(u)`; also `dict(list(d.items()) + list(u.items()))` -/
def kwUpdate (d : Kw) : Kw → Kw
  | [] => d
  | (k, v) :: r => kwUpdate (kwSet d k v) r

def kwGet : Kw → Nat → Option Val
  | [], _ => none
  | (k', v) :: r, k => if k' = k then some v else kwGet r k

def ofInts (d : List (Nat × Int)) : Kw := d.map (fun p => (p.1, Val.int p.2))

/-- key id of `ev_result` -/
def evResult : Nat := 0

/-! ## handlers, programs -/

inductive Ret
  | none | bool (b : Bool) | dict (d : List (Nat × Int)) | int (i : Int)
  deriving DecidableEq, Repr

inductive Ty | plain | boolean | relay
  deriving DecidableEq, Repr

structure Handler where
  key : Nat
  prio : Int
  kw : Kw
  cond : Option (Nat × Int)
  pid : Nat
  deriving DecidableEq, Repr

structure Posted where
  ev : Nat
  ty : Ty
  cb : Option Nat
  kw : Kw
  sn : Nat
  deriving DecidableEq, Repr

inductive Act
  | post (ev : Nat) (ty : Ty) (cb : Option Nat) (kw : Kw)
  | add (ev : Nat) (h : Handler)
  | removeKey (ev key : Nat)
  | removeAll (ev : Nat)
  | replace (ev : Nat) (h : Handler)   -- replace_handler(ev, callback h.pid, h.prio, **h.kw); h.key names the new entry
  | removeFn (pid : Nat)               -- remove_handler(method)
  | removeEvFn (ev pid : Nat)          -- remove_handler_by_event(ev, handler)
  deriving DecidableEq, Repr

structure Prog where
  acts : List Act
  ret : Ret
  deriving DecidableEq, Repr

inductive Obs
  | call (key ev sn : Nat) (kw : Kw)
  | cb (pid sn : Nat) (kw : Kw)
  deriving DecidableEq, Repr

/-! ## registry -/

abbrev Reg := List (Nat × List Handler)

def regGet : Reg → Nat → List Handler
  | [], _ => []
  | (e, hs) :: r, ev => if e = ev then hs else regGet r ev

def regSet : Reg → Nat → List Handler → Reg
  | [], ev, hs => [(ev, hs)]
  | (e, old) :: r, ev, hs => if e = ev then (ev, hs) :: r else (e, old) :: regSet r ev hs

/-- stable insertion for a descending sort: `h` originally precedes everything in the list -/
def insDesc (h : Handler) : List Handler → List Handler
  | [] => [h]
  | y :: ys => if h.prio ≥ y.prio then h :: y :: ys else y :: insDesc h ys

/-- `list.sort(key=lambda x: x.priority, reverse=True)` (stable) -/
def sortDesc : List Handler → List Handler
  | [] => []
  | h :: r => insDesc h (sortDesc r)

/-- `add_handler`: append, then sort the whole list -/
def addHandler (reg : Reg) (ev : Nat) (h : Handler) : Reg := regSet reg ev (sortDesc (regGet reg ev ++ [h]))

/-- `remove_handler_by_key` (an emptied list is the same as an absent event: `_remove_event_if_empty`) -/
def removeKey (reg : Reg) (ev key : Nat) : Reg := regSet reg ev ((regGet reg ev).filter (fun h => h.key != key))

def removeAll (reg : Reg) (ev : Nat) : Reg := regSet reg ev []

/-- `rh.kwargs == kwargs` on dicts without duplicate keys: same size and the same value under every key
(the order of the items does not matter) -/
def kwSame (a b : Kw) : Bool := a.length == b.length && a.all (fun p => kwGet b p.1 == some p.2)

/-- entries `replace_handler(event, handler, priority, **kwargs)` removes: the callback is identified by its program id
(`rh[0] == handler`); with kwargs the registered kwargs must be equal as well, without kwargs every entry of that
callback goes -/
def replaceMatches (h x : Handler) : Bool :=
  if h.kw.isEmpty then x.pid == h.pid else x.pid == h.pid && kwSame x.kw h.kw

/-- `replace_handler`: remove the matching entries of this event, then `add_handler` (append + stable sort: the new
entry lands behind every entry of the same or a higher priority) -/
def replaceHandler (reg : Reg) (ev : Nat) (h : Handler) : Reg :=
  regSet reg ev (sortDesc ((regGet reg ev).filter (fun x => !replaceMatches h x) ++ [h]))

/-- `remove_handler(method)`: every entry of that callback, under every event -/
def removeFn : Reg → Nat → Reg
  | [], _ => []
  | (e, hs) :: r, pid => (e, hs.filter (fun x => x.pid != pid)) :: removeFn r pid

/-- `remove_handler_by_event(event, handler)` (kwargs are not looked at) -/
def removeEvFn (reg : Reg) (ev pid : Nat) : Reg := regSet reg ev ((regGet reg ev).filter (fun x => x.pid != pid))

/-! ## the bus without its queues -/

structure Core where
  reg : Reg := []
  cbq : List (Nat × Nat × Kw) := []     -- `callback_queue`: (callback program, serial of the post, kwargs)
  nextSn : Nat := 0
  log : List Obs := []
  deriving DecidableEq, Repr

/-- one action of a handler / callback / top-level caller; returns what `_post` appended to `event_queue` -/
def runAct (c : Core) : Act → Core × List Posted
  | .post ev ty cb kw =>
    let c' := { c with nextSn := c.nextSn + 1 }
    -- fast path of `_post`: no callback and no handler registered *now*: dropped
    if cb.isNone && (regGet c.reg ev).isEmpty then (c', []) else (c', [⟨ev, ty, cb, kw, c.nextSn⟩])
  | .add ev h => ({ c with reg := addHandler c.reg ev h }, [])
  | .removeKey ev key => ({ c with reg := removeKey c.reg ev key }, [])
  | .removeAll ev => ({ c with reg := removeAll c.reg ev }, [])
  | .replace ev h => ({ c with reg := replaceHandler c.reg ev h }, [])
  | .removeFn pid => ({ c with reg := removeFn c.reg pid }, [])
  | .removeEvFn ev pid => ({ c with reg := removeEvFn c.reg ev pid }, [])

def runActs (c : Core) : List Act → Core × List Posted
  | [] => (c, [])
  | a :: r =>
    let (c1, p1) := runAct c a
    let (c2, p2) := runActs c1 r
    (c2, p1 ++ p2)

def condHolds (cond : Option (Nat × Int)) (merged : Kw) : Bool :=
  match cond with
  | none => true
  | some (k, v) => kwGet merged k == some (Val.int v)

def truthy : Ret → Bool
  | .none => false
  | .bool b => b
  | .dict d => !d.isEmpty
  | .int i => i != 0

def retVal : Ret → Val
  | .none => .bool false
  | .bool b => .bool b
  | .dict d => .dict d
  | .int i => .int i

/-- the `for handler in self.registered_handlers[event][:]` loop of `_run_handlers` over the snapshot `hs`;
`kw` is the mutable `kwargs` of `_process_event`, `res` the last handler result -/
def runHandlers (progs : Nat → Prog) (ev sn : Nat) (ty : Ty) :
    List Handler → Core → Kw → Ret → Core × Kw × Ret × List Posted
  | [], c, kw, res => (c, kw, res, [])
  | h :: hs, c, kw, res =>
    let merged := kwUpdate kw h.kw
    if !condHolds h.cond merged then runHandlers progs ev sn ty hs c kw res
    else
      let c0 := { c with log := c.log ++ [Obs.call h.key ev sn merged] }
      let (c1, p1) := runActs c0 (progs h.pid).acts
      let r := (progs h.pid).ret
      if ty = .boolean ∧ r = .bool false then (c1, kwSet kw evResult (.bool false), r, p1)
      else
        let kw' := match ty, r with
          | .relay, .dict d => kwUpdate kw (ofInts d)
          | _, _ => kw
        let (c2, kw2, r2, p2) := runHandlers progs ev sn ty hs c1 kw' r
        (c2, kw2, r2, p1 ++ p2)

/-- `_process_event` -/
def processEvent (progs : Nat → Prog) (c : Core) (e : Posted) : Core × List Posted :=
  let (c1, kw1, res, posted) := runHandlers progs e.ev e.sn e.ty (regGet c.reg e.ev) c e.kw .none
  match e.cb with
  | none => (c1, posted)
  | some cb =>
    let kw2 := if truthy res then kwSet kw1 evResult (retVal res) else kw1
    ({ c1 with cbq := c1.cbq ++ [(cb, e.sn, kw2)] }, posted)

/-- split off the last element (`deque.pop()`) -/
def popLast {α : Type} : List α → Option (List α × α)
  | [] => none
  | [x] => some ([], x)
  | x :: y :: r => match popLast (y :: r) with
    | some (l, z) => some (x :: l, z)
    | none => none

/-- `callback, kwargs = self.callback_queue.pop(); callback(**kwargs)`; the callback is itself a program -/
def cbRun (progs : Nat → Prog) (c : Core) : Option (Core × List Posted) :=
  match popLast c.cbq with
  | none => none
  | some (rest, (pid, sn, kw)) =>
    some (runActs { c with cbq := rest, log := c.log ++ [Obs.cb pid sn kw] } (progs pid).acts)

/-! ## `process_event_queue`, one loop iteration at a time (generic) -/

structure Loop (S Ev : Type) where
  s : S
  queue : List Ev := []            -- `self.event_queue`
  cur : List Ev := []              -- `next_queue`
  inner : List (List Ev) := []     -- `inner_queue`

/-- One iteration.  `cur = e :: rest`: the body of `while next_queue:`.  `cur = []`: the inner loop is not running —
swap `event_queue` in if there is one, otherwise pop and run the last callback, otherwise the outer loop ends. -/
def Loop.step {S Ev : Type} (proc : S → Ev → S × List Ev) (cbrun : S → Option (S × List Ev)) (st : Loop S Ev) :
    Option (Loop S Ev) :=
  match st.cur with
  | e :: rest =>
    -- event = next_queue.popleft(); if not next_queue and inner_queue: next_queue = inner_queue.popleft()
    let (cur1, inner1) :=
      match rest, st.inner with
      | [], q :: qs => (q, qs)
      | _, _ => (rest, st.inner)
    let (s', posted) := proc st.s e
    let queue' := st.queue ++ posted
    -- if self.event_queue: inner_queue.appendleft(next_queue); next_queue = self.event_queue; self.event_queue = deque()
    if queue'.isEmpty then some ⟨s', [], cur1, inner1⟩ else some ⟨s', [], queue', cur1 :: inner1⟩
  | [] =>
    if st.queue.isEmpty then
      match cbrun st.s with
      | some (s', posted) => some ⟨s', st.queue ++ posted, [], st.inner⟩
      | none => none
    else some ⟨st.s, [], st.queue, st.inner⟩

/-- `n` iterations (stops early when the loop has ended) -/
def Loop.iter {S Ev : Type} (proc : S → Ev → S × List Ev) (cbrun : S → Option (S × List Ev)) :
    Nat → Loop S Ev → Loop S Ev
  | 0, st => st
  | n + 1, st => match Loop.step proc cbrun st with
    | some st' => Loop.iter proc cbrun n st'
    | none => st

/-- the reference: one agenda, children of the dispatched event go in front of everything waiting -/
structure Spec (S Ev : Type) where
  s : S
  agenda : List Ev

def Spec.step {S Ev : Type} (proc : S → Ev → S × List Ev) (cbrun : S → Option (S × List Ev)) (sp : Spec S Ev) :
    Option (Spec S Ev) :=
  match sp.agenda with
  | e :: rest => let (s', posted) := proc sp.s e; some ⟨s', posted ++ rest⟩
  | [] => match cbrun sp.s with
    | some (s', posted) => some ⟨s', posted⟩
    | none => none

def Spec.iter {S Ev : Type} (proc : S → Ev → S × List Ev) (cbrun : S → Option (S × List Ev)) :
    Nat → Spec S Ev → Spec S Ev
  | 0, sp => sp
  | n + 1, sp => match Spec.step proc cbrun sp with
    | some sp' => Spec.iter proc cbrun n sp'
    | none => sp

/-- the agenda an implementation state stands for -/
def Loop.abs {S Ev : Type} (st : Loop S Ev) : Spec S Ev := ⟨st.s, st.cur ++ st.inner.flatten ++ st.queue⟩

/-! ## the concrete bus -/

abbrev Bus := Loop Core Posted

def Bus.step (progs : Nat → Prog) : Bus → Option Bus := Loop.step (processEvent progs) (cbRun progs)

/-- code running outside the loop (boot, a delay callback, a switch handler): its posts land in `event_queue` -/
def Bus.top (b : Bus) (acts : List Act) : Bus :=
  let (c, posted) := runActs b.s acts
  { b with s := c, queue := b.queue ++ posted }

/-- `process_event_queue()` with fuel; `none` = fuel exhausted -/
def Bus.drain (progs : Nat → Prog) : Nat → Bus → Option Bus
  | 0, _ => none
  | n + 1, b => match Bus.step progs b with
    | some b' => Bus.drain progs n b'
    | none => some b

/-! ## line-protocol driver -/

def parseVal (s : String) : Option Val :=
  if s = "T" then some (.bool true) else if s = "F" then some (.bool false) else s.toInt?.map Val.int

def parsePairs {α : Type} (f : String → Option α) (s : String) : Option (List (Nat × α)) :=
  if s = "-" then some [] else
  (s.splitOn ",").foldr (fun item acc => do
    let rest ← acc
    match item.splitOn ":" with
    | [k, v] => do let k' ← k.toNat?; let v' ← f v; pure ((k', v') :: rest)
    | _ => none) (some [])

def parseKw : String → Option Kw := parsePairs parseVal

def parseTy : String → Option Ty
  | "n" => some .plain | "b" => some .boolean | "r" => some .relay | _ => none

def parseCond (s : String) : Option (Option (Nat × Int)) :=
  if s = "-" then some none else
  match s.splitOn "=" with
  | [k, v] => do let k' ← k.toNat?; let v' ← v.toInt?; pure (some (k', v'))
  | _ => none

/-- `key/prio/kw/cond/pid` -/
def parseHandler (s : String) : Option Handler :=
  match s.splitOn "/" with
  | [key, prio, kw, cond, pid] => do
    pure ⟨← key.toNat?, ← prio.toInt?, ← parseKw kw, ← parseCond cond, ← pid.toNat?⟩
  | _ => none

def parseAct (toks : List String) : Option Act :=
  match toks with
  | ["P", ev, ty, cb, kw] => do
    let cb' ← (if cb = "-" then some none else cb.toNat?.map some)
    pure (.post (← ev.toNat?) (← parseTy ty) cb' (← parseKw kw))
  | ["A", ev, h] => do pure (.add (← ev.toNat?) (← parseHandler h))
  | ["R", ev, key] => do pure (.removeKey (← ev.toNat?) (← key.toNat?))
  | ["X", ev] => do pure (.removeAll (← ev.toNat?))
  | ["H", ev, h] => do pure (.replace (← ev.toNat?) (← parseHandler h))
  | ["M", pid] => do pure (.removeFn (← pid.toNat?))
  | ["E", ev, pid] => do pure (.removeEvFn (← ev.toNat?) (← pid.toNat?))
  | _ => none

/-- acts separated by the token `|` -/
def splitBar : List String → List (List String)
  | [] => [[]]
  | t :: r => if t = "|" then [] :: splitBar r else
    match splitBar r with
    | [] => [[t]]
    | h :: tl => (t :: h) :: tl

def parseActs (toks : List String) : Option (List Act) :=
  if toks.isEmpty then some [] else
  (splitBar toks).foldr (fun a acc => do let rest ← acc; let x ← parseAct a; pure (x :: rest)) (some [])

def parseRet (s : String) : Option Ret :=
  if s = "N" then some .none else if s = "T" then some (.bool true) else if s = "F" then some (.bool false)
  else if s.startsWith "I" then (s.drop 1).toString.toInt?.map Ret.int
  else if s.startsWith "D" then (parsePairs (fun v => v.toInt?) (s.drop 1).toString).map Ret.dict
  else none

def showVal : Val → String
  | .int i => toString i
  | .bool b => if b then "T" else "F"
  | .dict d => "{" ++ ";".intercalate (d.map (fun p => toString p.1 ++ ":" ++ toString p.2)) ++ "}"

def showKw (kw : Kw) : String :=
  if kw.isEmpty then "-" else ",".intercalate (kw.map (fun p => toString p.1 ++ ":" ++ showVal p.2))

def showObs : Obs → String
  | .call key ev _ kw => "c" ++ toString key ++ "." ++ toString ev ++ "." ++ showKw kw
  | .cb pid sn kw => "b" ++ toString pid ++ "." ++ toString sn ++ "." ++ showKw kw

structure DState where
  progs : List (Nat × Prog) := []
  bus : Bus := { s := {} }

def lookupProg (t : List (Nat × Prog)) (pid : Nat) : Prog :=
  match t with
  | [] => ⟨[], .none⟩
  | (p, pr) :: r => if p = pid then pr else lookupProg r pid

def init : DState := {}

def showReg (hs : List Handler) : String :=
  if hs.isEmpty then "-" else " ".intercalate (hs.map (fun h => toString h.key))

def driverStep (d : DState) (line : String) : DState × String :=
  match line.splitOn " " with
  | ["reset"] => (init, "ok")
  | "prog" :: pid :: ret :: acts =>
    match pid.toNat?, parseRet ret, parseActs acts with
    | some p, some r, some a => ({ d with progs := (p, ⟨a, r⟩) :: d.progs }, "ok")
    | _, _, _ => (d, "bad-op")
  | "top" :: acts =>
    match parseActs acts with
    | some a => ({ d with bus := d.bus.top a }, "ok")
    | none => (d, "bad-op")
  | ["drain"] =>
    let n := d.bus.s.log.length
    match Bus.drain (lookupProg d.progs) 100000 d.bus with
    | some b =>
      let obs := b.s.log.drop n
      ({ d with bus := b }, if obs.isEmpty then "ok" else " ".intercalate (obs.map showObs))
    | none => (d, "diverged")
  | ["reg", ev] =>
    match ev.toNat? with
    | some e => (d, showReg (regGet d.bus.s.reg e))
    | none => (d, "bad-op")
  | _ => (d, "bad-op")

end MpfVerif.EventBus
