import MpfVerif.Model.Show
import MpfVerif.Model.ShowToken
/-!
# A show-player key with its running-show instances (C17) — replacement in sync

`show_player` keeps one `RunningShow` per key in its instance dict.  A `play` for a key whose instance still runs
*replaces* it (`ShowController.replace_or_advance_show`): without `sync_ms` the old instance is stopped at once; with
`sync_ms` the new instance waits for its sync point and holds `start_callback = old.stop` — the old instance keeps running
(it is in no dict any more) until the new one starts (`_start_now`: timer, or a resume/advance/step_back request) **or is
stopped before it started** (`stop()` runs a still-pending start callback).  The deferred stop can be a chain: the
replaced instance may itself still wait for its start and hold the stop of the one before it.

`insts` lists every instance ever created under the key, newest first; the id of an instance is the number of instances
created before it (its position from the end).  The replaced instance is always the one created just before, so
`replaces = some id` always names the next element of the list (`Lemmas/ShowKey.lean: replaces_previous`).
Each instance is a `Show.RS` and evolves by `Show.step` (requests, timer callbacks) and `Show.stop` (deferred stop).
Observations are tagged with the instance id.
-/
namespace MpfVerif.ShowKey
open MpfVerif.Show

structure Inst where
  rs : RS
  replaces : Option Nat := none      -- pending `start_callback`: the stop of instance `id`
  /-- what `replace_or_advance_show` compares besides the fields that live in `rs` (speed, manual_advance — both can be
  changed by an `update` request): `(config id, loops, sync_ms)` of the `ShowConfig` the instance was created with; the
  config id stands for show name, priority, show tokens and the events_when_looped/…/completed lists.  `none`: the play
  entry has `events_when_played` / `events_when_stopped` (or `block_queue`): such a play always replaces. -/
  cfg : Option (Nat × Option Nat × Nat) := none
  deriving DecidableEq, Repr

abbrev TObs := Nat × Obs

def tag (k : Nat) (o : List Obs) : List TObs := o.map (fun x => (k, x))

/-- `RunningShow.stop` as a bound method (`start_callback = old_instance.stop`) of the head of `l`: nothing if it is
stopped already; otherwise its own pending start callback runs first (the instance it replaced is stopped: the
cascade), then the instance's own clean-up and `stopped` event -/
def stopFrom : List Inst → List Inst × List TObs
  | [] => ([], [])
  | x :: rest =>
    if x.rs.stopped then (x :: rest, [])
    else
      let r := Show.stop x.rs
      if x.replaces.isSome then
        let p := stopFrom rest
        ({ x with rs := r.1, replaces := none } :: p.1, p.2 ++ tag rest.length r.2)
      else ({ x with rs := r.1, replaces := none } :: rest, tag rest.length r.2)

/-- after the instance `x` (above `rest`) made the step `r`: a still-pending start callback runs when the instance has
started (`_start_now`) or is stopped (`stop`) — in both cases *before* the instance's own effects -/
def settle (x : Inst) (rest : List Inst) (r : RS × List Obs) : List Inst × List TObs :=
  if x.replaces.isSome && (r.1.started || r.1.stopped) then
    let p := stopFrom rest
    ({ x with rs := r.1, replaces := none } :: p.1, p.2 ++ tag rest.length r.2)
  else ({ x with rs := r.1 } :: rest, tag rest.length r.2)

/-- a request / timer callback `op` for the instance with id `i` -/
def stepAt (i : Nat) (op : Show.Op) : List Inst → List Inst × List TObs
  | [] => ([], [])
  | x :: rest =>
    if rest.length = i then settle x rest (Show.step x.rs op)
    else
      let p := stepAt i op rest
      (x :: p.1, p.2)

inductive KOp
  | play (durs : List Nat) (num den : Nat) (loops : Option Nat) (start : Int) (running manual : Bool) (sync : Nat) (t : Nat)
  | req (op : Show.Op)            -- stop / pause / resume / advance / back / speed for the key (never `play` / `fire`)
  | fire (i t : Nat)              -- the timer of instance `i` runs at clock time `t`
  /-- a play whose entry has no `events_when_played` / `events_when_stopped` / `block_queue`: `replace_or_advance_show`
  compares the new `ShowConfig` (`cid`: config id, see `Inst.cfg`) with the instance in the dict and may keep or advance it -/
  | playc (cid : Nat) (durs : List Nat) (num den : Nat) (loops : Option Nat) (start : Int) (running manual : Bool)
      (sync : Nat) (t : Nat)
  deriving Repr

structure KS where
  insts : List Inst := []
  now : Nat := 0
  deriving Repr

/-- requests reach the instance in the dict: the newest one (`Show.ctl` checks `known`: a stopped key is not in the dict) -/
def isReq : Show.Op → Bool
  | .play .. => false
  | .fire _ => false
  | _ => true

def opTime : Show.Op → Nat
  | .play _ _ _ _ _ _ _ _ t => t
  | .stop t => t | .pause t => t | .resume t => t | .advance t => t | .back t => t
  | .speed _ _ t => t | .fire t => t

/-! ### `ShowController.replace_or_advance_show`: keep / advance / replace -/

inductive Dec
  | keep | advance | replace
  deriving DecidableEq, Repr

/-- `RunningShow.current_step_index`: `None` until the first step ran (a show that still waits for its synchronised
start), afterwards the index of the step played last, i.e. `next_step_index - 1` -/
def curIdx (s : RS) : Option Int := if s.pending then none else some (s.nextIdx - 1)

/-- `old_instance.show_config == config` (a namedtuple comparison; speed and manual_advance follow `update` requests) -/
def sameCfg (x : Inst) (cid num den : Nat) (loops : Option Nat) (manual : Bool) (sync : Nat) : Bool :=
  x.cfg == some (cid, loops, sync) && x.rs.spNum == num && x.rs.spDen == den && x.rs.manual == manual

/-- the decision of `replace_or_advance_show` for a play entry without events_when_played/stopped and block_queue
(`start_step` is never `None` from the show player: `template_int`, default 1): an instance that does not run, or runs
another config, is replaced; one that is *at* the requested start step (`current_step_index + 1 == start_step`,
`start_step` is 1-based) is kept; one that is one step before it is advanced; everything else is replaced — in
particular an instance whose `current_step_index` is still `None` -/
def decision (x : Inst) (cid num den : Nat) (loops : Option Nat) (manual : Bool) (sync : Nat) (start : Int) : Dec :=
  if x.rs.stopped then .replace
  else if !sameCfg x cid num den loops manual sync then .replace
  else match curIdx x.rs with
    | none => .replace
    | some c => if c + 1 = start then .keep else if c + 2 = start then .advance else .replace

/-- a new `RunningShow` is created; an old one that still runs is stopped at once or - with `sync_ms` - in sync -/
def playNew (c : Option (Nat × Option Nat × Nat)) (s : KS) (durs : List Nat) (num den : Nat) (loops : Option Nat)
    (start : Int) (running manual : Bool) (sync : Nat) (t : Nat) : KS × List TObs :=
  -- the new `RunningShow` (created after the old one was dealt with)
  let fresh := Show.step {} (.play durs num den loops start running manual sync t)
  let n := s.insts.length
  match s.insts with
  | [] => ({ insts := [{ rs := fresh.1, cfg := c }], now := max s.now t }, tag n fresh.2)
  | x :: rest =>
    if x.rs.stopped then
      ({ insts := { rs := fresh.1, cfg := c } :: x :: rest, now := max s.now t }, tag n fresh.2)
    else if sync ≠ 0 then
      -- stop the current show in sync with the new show: `start_callback = old_instance.stop`
      ({ insts := { rs := fresh.1, replaces := some rest.length, cfg := c } :: x :: rest, now := max s.now t }, tag n fresh.2)
    else
      let p := stopFrom (x :: rest)
      ({ insts := { rs := fresh.1, cfg := c } :: p.1, now := max s.now t }, p.2 ++ tag n fresh.2)

/-- a request for the key -/
def reqStep (s : KS) (op : Show.Op) : KS × List TObs :=
  if isReq op then
    let p := stepAt (s.insts.length - 1) op s.insts
    ({ insts := p.1, now := max s.now (opTime op) }, p.2)
  else (s, [])

def step (s : KS) : KOp → KS × List TObs
  | .play durs num den loops start running manual sync t => playNew none s durs num den loops start running manual sync t
  | .req op => reqStep s op
  | .fire i t =>
    let p := stepAt i (.fire t) s.insts
    ({ insts := p.1, now := max s.now t }, p.2)
  | .playc cid durs num den loops start running manual sync t =>
    match s.insts with
    | [] => playNew (some (cid, loops, sync)) s durs num den loops start running manual sync t
    | x :: _ =>
      match decision x cid num den loops manual sync start with
      | .keep => ({ s with now := max s.now t }, [])                -- `return old_instance`
      | .advance => reqStep s (.advance t)                           -- `old_instance.advance(); return old_instance`
      | .replace => playNew (some (cid, loops, sync)) s durs num den loops start running manual sync t

def run (s : KS) : List KOp → KS × List TObs
  | [] => (s, [])
  | o :: r =>
    let p := step s o
    let q := run p.1 r
    (q.1, p.2 ++ q.2)

/-! ## line-protocol driver -/

def showT (o : TObs) : String := toString o.1 ++ ":" ++ showObs o.2

def flags : List Inst → String
  | [] => ""
  | x :: rest => flags rest ++ (if x.rs.stopped then "S" else "R")

def answer (r : KS × List TObs) : KS × String :=
  (r.1, "o" ++ String.join (r.2.map (fun o => " " ++ showT o)) ++ " |" ++ flags r.1.insts)

def instAt (i : Nat) : List Inst → Option Inst
  | [] => none
  | x :: rest => if rest.length = i then some x else instAt i rest

def driverStep (s : KS) (line : String) : KS × String :=
  match line.splitOn " " with
  | "play" :: rest =>
    -- play <num> <den> <loops|inf> <start (Int)> <running 0/1> <manual 0/1> <sync> <t> <d1> ... <dn>
    match rest with
    | num :: den :: loops :: start :: running :: manual :: sync :: t :: ds =>
      match allNat [num, den, running, manual, sync, t], allNat ds,
            (if loops = "inf" then some none else loops.toNat?.map some), start.toInt? with
      | some [num, den, running, manual, sync, t], some durs, some lp, some start =>
        if num = 0 ∨ durs.isEmpty ∨ t < s.now ∨ !exactFor durs num den then (s, "bad-op")
        else answer (step s (.play durs num den lp start (running == 1) (manual == 1) sync t))
      | _, _, _, _ => (s, "bad-op")
    | _ => (s, "bad-op")
  | "playc" :: rest =>
    -- playc <cid> <num> <den> <loops|inf> <start (Int)> <running 0/1> <manual 0/1> <sync> <t> <d1> ... <dn>
    -- answers like `play`, followed by ` |keep`, ` |advance` or ` |replace` (` |new` over an empty key)
    match rest with
    | cid :: num :: den :: loops :: start :: running :: manual :: sync :: t :: ds =>
      match allNat [cid, num, den, running, manual, sync, t], allNat ds,
            (if loops = "inf" then some none else loops.toNat?.map some), start.toInt? with
      | some [cid, num, den, running, manual, sync, t], some durs, some lp, some start =>
        if num = 0 ∨ durs.isEmpty ∨ t < s.now ∨ !exactFor durs num den then (s, "bad-op")
        else
          let r := answer (step s (.playc cid durs num den lp start (running == 1) (manual == 1) sync t))
          (r.1, r.2 ++ " |" ++ (match s.insts with
            | [] => "new"
            | x :: _ => match decision x cid num den lp (manual == 1) sync start with
              | .keep => "keep" | .advance => "advance" | .replace => "replace"))
      | _, _, _, _ => (s, "bad-op")
    | _ => (s, "bad-op")
  | [op, t] =>
    match t.toNat? with
    | none => (s, "bad-op")
    | some t =>
      if t < s.now then (s, "bad-op") else
      match op with
      | "stop" => answer (step s (.req (.stop t)))
      | "pause" => answer (step s (.req (.pause t)))
      | "resume" => answer (step s (.req (.resume t)))
      | "advance" => answer (step s (.req (.advance t)))
      | "back" => answer (step s (.req (.back t)))
      | _ => (s, "bad-op")
  | ["fire", i, t] =>
    match allNat [i, t] with
    | some [i, t] =>
      if t < s.now then (s, "bad-op") else
      match instAt i s.insts with
      | none => (s, "bad-op")
      | some x =>
        match dueAny (setNow x.rs t) with
        | none => (s, "not-enabled")
        | some _ => answer (step s (.fire i t))
    | _ => (s, "bad-op")
  | ["speed", num, den, t] =>
    match allNat [num, den, t] with
    | some [num, den, t] =>
      if num = 0 ∨ t < s.now then (s, "bad-op")
      else match s.insts with
        | x :: _ => if x.rs.known ∧ !exactFor x.rs.durs num den then (s, "bad-op") else answer (step s (.req (.speed num den t)))
        | [] => answer (step s (.req (.speed num den t)))
    | _ => (s, "bad-op")
  | ["reset"] => ({}, "ok")
  | "tok" :: rest => (s, ShowToken.tokLine rest)      -- token substitution (stateless): `Model/ShowToken.lean`
  | _ => (s, "bad-op")

def init : KS := {}

end MpfVerif.ShowKey
