/-!
# State machine devices (C18 extension) — model of `mpf/devices/state_machine.py`

A fourth kind of "logic block" that the text of C18 does not name: it is covered by the model-vs-implementation
comparison only.  States and events are numbered.  The device registers one handler per (transition whose `source`
contains the current state, occurrence of an event in its `events`) - in configuration order - and removes them all when
the state is left.  The event dispatcher of MPF runs a *copy* of the handler list made when the dispatch starts, so every
handler that was registered at that moment runs, even after an earlier one has left the state: the later transition is
then taken from whatever state the earlier one led to (its `source` is not checked again).  Handlers added by the new
state do not run in the same dispatch.  The model follows the code: `matches` is computed once from the state at
dispatch start and folded.
-/
namespace MpfVerif.StateMachine

structure Trans where
  src : List Nat
  tgt : Nat
  events : List Nat
  post : Bool                 -- `events_when_transitioning` configured (one event per transition, named after it)
  deriving DecidableEq, Repr

structure Cfg where
  nStates : Nat := 1
  start : Nat := 0            -- `starting_state`
  onEv : List Bool := []      -- state i has `events_when_started`
  offEv : List Bool := []     -- state i has `events_when_stopped`
  trans : List Trans := []
  persist : Bool := false     -- `persist_state`
  deriving DecidableEq, Repr

inductive Obs
  | started (i : Nat) | stopped (i : Nat) | transitioning (j : Nat)
  deriving DecidableEq, Repr

structure St where
  cur : Option Nat := none              -- the current state; `none`: the owning mode is not running
  player : Nat := 0
  saved : List (Nat × Nat) := []        -- player variable `state_machine_<name>` per player (newest first)
  deriving DecidableEq, Repr

inductive Op
  | ev (k : Nat) | stopMode | startMode (p : Nat) | newGame
  deriving DecidableEq, Repr

def flag (l : List Bool) (i : Nat) : Bool := l.getD i false

def lookup (p : Nat) : List (Nat × Nat) → Option Nat
  | [] => none
  | x :: r => if x.1 = p then some x.2 else lookup p r

/-- the handlers registered for event `k` while in state `i`: (transition number, transition), one per occurrence -/
def matchesFrom (i k : Nat) : Nat → List Trans → List (Nat × Trans)
  | _, [] => []
  | j, t :: r =>
    (if t.src.contains i then (t.events.filter (· == k)).map (fun _ => (j, t)) else []) ++ matchesFrom i k (j + 1) r

/-- `_transition`: stop the current state, post the transition's event, start the target -/
def take (c : Cfg) (cur : Nat) (x : Nat × Trans) : Nat × List Obs :=
  (x.2.tgt, (if flag c.offEv cur then [Obs.stopped cur] else []) ++ (if x.2.post then [Obs.transitioning x.1] else [])
            ++ (if flag c.onEv x.2.tgt then [Obs.started x.2.tgt] else []))

def takeAll (c : Cfg) : Nat → List (Nat × Trans) → Nat × List Obs
  | cur, [] => (cur, [])
  | cur, x :: r => let a := take c cur x; let b := takeAll c a.1 r; (b.1, a.2 ++ b.2)

def step (c : Cfg) (s : St) : Op → St × List Obs
  | .ev k =>
    match s.cur with
    | none => (s, [])
    | some i => let r := takeAll c i (matchesFrom i k 0 c.trans); ({ s with cur := some r.1 }, r.2)
  | .stopMode =>
    match s.cur with
    | none => (s, [])
    | some i => ({ s with cur := none, saved := if c.persist then (s.player, i) :: s.saved else s.saved }, [])
  | .startMode p =>
    match s.cur with
    | some _ => (s, [])
    | none =>
      match (if c.persist then lookup p s.saved else none) with
      | some i => ({ s with cur := some i, player := p }, [])
      | none => ({ s with cur := some c.start, player := p }, if flag c.onEv c.start then [Obs.started c.start] else [])
  | .newGame =>
    match s.cur with
    | some _ => (s, [])
    | none => ({ s with saved := [], player := 0 }, [])

def run (c : Cfg) : St → List Op → St × List (Op × List Obs)
  | s, [] => (s, [])
  | s, op :: r => let a := step c s op; let b := run c a.1 r; (b.1, (op, a.2) :: b.2)

/-- `boot = true`: machine-wide (in its starting state from boot on); `false`: owned by a mode that is not running -/
def init (c : Cfg) (boot : Bool) : St := { cur := if boot then some c.start else none }

/-! ## line protocol (`sm …` lines of the C18 driver) -/

structure D where
  c : Cfg := {}
  s : St := {}

def showObs : Obs → String
  | .started i => "on:" ++ toString i
  | .stopped i => "off:" ++ toString i
  | .transitioning j => "tr:" ++ toString j

def showStored (d : D) (p : Nat) : String :=
  match (if d.s.cur.isSome && p == d.s.player then d.s.cur else lookup p d.s.saved) with
  | some i => toString i | none => "-"

def showD (d : D) : String :=
  "st=" ++ (match d.s.cur with | some i => toString i | none => "-") ++
  (if d.c.persist then " s=" ++ String.intercalate "/" ([0, 1, 2, 3].map (showStored d)) else "")

def showStep (d : D) (obs : List Obs) : String := showD d ++ " |" ++ String.join (obs.map (fun o => " " ++ showObs o))

def parseBits (s : String) : Option (List Bool) :=
  s.toList.mapM (fun ch => if ch = '1' then some true else if ch = '0' then some false else none)

def parseNats (s : String) : Option (List Nat) :=
  if s = "" then some [] else (s.splitOn ",").mapM String.toNat?

/-- `src1,src2>tgt:e1,e2:p` -/
def parseTrans (s : String) : Option Trans :=
  match s.splitOn ">" with
  | [a, b] =>
    match b.splitOn ":" with
    | [t, e, p] => do
      let src ← parseNats a
      let tgt ← t.toNat?
      let ev ← parseNats e
      let post ← (if p = "1" then some true else if p = "0" then some false else none)
      pure ⟨src, tgt, ev, post⟩
    | _ => none
  | _ => none

def validCfg (c : Cfg) : Bool :=
  decide (c.start < c.nStates) && c.onEv.length == c.nStates && c.offEv.length == c.nStates &&
  c.trans.all (fun t => decide (t.tgt < c.nStates) && t.src.all (· < c.nStates) && !t.src.isEmpty && !t.events.isEmpty)

def driverStep (d : D) (toks : List String) : D × String :=
  match toks with
  | "cfg" :: n :: st :: ps :: bt :: on :: off :: tr =>
    match n.toNat?, st.toNat?, parseBits ps, parseBits bt, parseBits on, parseBits off, tr.mapM parseTrans with
    | some n, some st, some [ps], some [bt], some on, some off, some tr =>
      let c : Cfg := { nStates := n, start := st, onEv := on, offEv := off, trans := tr, persist := ps }
      if validCfg c then let d' : D := ⟨c, init c bt⟩; (d', "ok " ++ showD d') else (d, "bad-op")
    | _, _, _, _, _, _, _ => (d, "bad-op")
  | ["ev", k] =>
    match k.toNat? with
    | some k => let r := step d.c d.s (.ev k); (⟨d.c, r.1⟩, showStep ⟨d.c, r.1⟩ r.2)
    | none => (d, "bad-op")
  | ["stop"] => let r := step d.c d.s .stopMode; (⟨d.c, r.1⟩, showStep ⟨d.c, r.1⟩ r.2)
  | ["start", p] =>
    match p.toNat? with
    | some p => let r := step d.c d.s (.startMode p); (⟨d.c, r.1⟩, showStep ⟨d.c, r.1⟩ r.2)
    | none => (d, "bad-op")
  | ["newgame"] =>
    if d.s.cur.isSome then (d, "bad-op") else let r := step d.c d.s .newGame; (⟨d.c, r.1⟩, showStep ⟨d.c, r.1⟩ r.2)
  | _ => (d, "bad-op")

end MpfVerif.StateMachine
