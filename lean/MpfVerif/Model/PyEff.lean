import MpfVerif.Model.PyExec
/-!
# The effectful layer of the deep embedding (methods that call other methods and act on the outside world)

`translate/py2eff.py` turns a Python *method* into a `List ESt` literal.  On top of the pure subset of `Model/PyExec.lean`:
  * expressions with `+` and `*` (`AEx`),
  * `x = self.f(...)` / `self.f(...)` where `f` is itself translated: the callee's program is embedded as data in the call
    statement (`callPure` for the pure subset, `call` for effectful callees) — no recursion in the modelled classes, so the
    interpreter is structurally recursive and kernel-reducible,
  * every call on a collaborator (`self.hw_driver.pulse(...)`, `self.delay.add(...)`, `self.config['psu'].…`) is an *effect*:
    appended to a log with its evaluated arguments; its return value is supplied by an oracle function (the environment).
The log survives an exception: what was done before a `raise` stays done.
-/
namespace MpfVerif.Py

inductive AEx
  | pure (e : Ex)
  | add (a b : AEx)
  | mul (a b : AEx)

/-- Python `+` / `*` on the modelled values: bool counts as int; int∘int is exact; a float operand makes the result a
float (micro-units, exact — float rounding is outside the model); NaN is contagious; anything else is a TypeError. -/
def arith (isMul : Bool) (a b : PyVal) : Except Err PyVal :=
  let asInt : PyVal → Option Int := fun v => match v with
    | .int i => some i | .bool true => some 1 | .bool false => some 0 | _ => none
  match asInt a, asInt b with
  | some x, some y => pure (.int (if isMul then x * y else x + y))
  | _, _ =>
    match a.num, b.num with
    | some (some x), some (some y) => pure (.flt (if isMul then x * y / 1000000 else x + y))
    | some _, some _ => pure .nan
    | _, _ => throw "TypeError"

def evalA (c : Ctx) (l : Locals) : AEx → Except Err PyVal
  | .pure e => evalE c l e
  | .add a b => do arith false (← evalA c l a) (← evalA c l b)
  | .mul a b => do arith true (← evalA c l a) (← evalA c l b)

/-- one call on a collaborator object, with evaluated arguments (positional ones are named "0", "1", …; the fields of a
`PulseSettings` / `HoldSettings` argument are flattened to "pulse.power", "hold.duration", …; a bound method passed as a
callback is the string "cb:<name>") -/
structure Eff where
  obj : String
  meth : String
  args : List (String × PyVal)
  deriving DecidableEq, Repr

def Eff.arg (e : Eff) (k : String) : PyVal := (e.args.lookup k).getD .none

inductive ESt
  | assign (n : String) (e : AEx)
  | ifThen (c : Cd) (body : List ESt) (orelse : List ESt)
  | raise (e : Err)
  | ret (e : AEx)
  | callPure (target : Option String) (prog : List St) (args : List (String × AEx))
  | call (target : Option String) (prog : List ESt) (args : List (String × AEx))
  | eff (target : Option String) (obj meth : String) (args : List (String × AEx))

/-- what the outside world answers to an effect (e.g. the PSU's wait time) -/
abbrev Oracle := Eff → PyVal

def evalArgs (c : Ctx) (l : Locals) : List (String × AEx) → Except Err (List (String × PyVal))
  | [] => pure []
  | (k, e) :: r => do
    let v ← evalA c l e
    let vs ← evalArgs c l r
    pure ((k, v) :: vs)

def bindTarget (l : Locals) (t : Option String) (v : PyVal) : Locals :=
  match t with
  | some n => fun m => if m = n then v else l m
  | none => l

def argLocals (args : List (String × PyVal)) : Locals := fun n => (args.lookup n).getD .none

mutual
/-- run one statement: the extended effect log and either an exception or the outcome -/
def execES (c : Ctx) (ora : Oracle) (l : Locals) (log : List Eff) : ESt → List Eff × Except Err Out
  | .assign n e =>
    match evalA c l e with
    | .ok v => (log, .ok (.next (fun m => if m = n then v else l m)))
    | .error x => (log, .error x)
  | .ifThen cd body orelse =>
    match evalC c l cd with
    | .ok true => execEL c ora l log body
    | .ok false => execEL c ora l log orelse
    | .error x => (log, .error x)
  | .raise e => (log, .error e)
  | .ret e =>
    match evalA c l e with
    | .ok v => (log, .ok (.done v))
    | .error x => (log, .error x)
  | .callPure t prog args =>
    match evalArgs c l args with
    | .error x => (log, .error x)
    | .ok vs =>
      match call c prog vs with
      | .ok v => (log, .ok (.next (bindTarget l t v)))
      | .error x => (log, .error x)
  | .call t prog args =>
    match evalArgs c l args with
    | .error x => (log, .error x)
    | .ok vs =>
      match execEL c ora (argLocals vs) log prog with
      | (log', .ok (.done v)) => (log', .ok (.next (bindTarget l t v)))
      | (log', .ok (.next _)) => (log', .ok (.next (bindTarget l t .none)))
      | (log', .error x) => (log', .error x)
  | .eff t obj meth args =>
    match evalArgs c l args with
    | .error x => (log, .error x)
    | .ok vs =>
      let e : Eff := ⟨obj, meth, vs⟩
      (log ++ [e], .ok (.next (bindTarget l t (ora e))))
def execEL (c : Ctx) (ora : Oracle) (l : Locals) (log : List Eff) : List ESt → List Eff × Except Err Out
  | [] => (log, .ok (.next l))
  | s :: rest =>
    match execES c ora l log s with
    | (log', .ok (.next l')) => execEL c ora l' log' rest
    | (log', .ok (.done v)) => (log', .ok (.done v))
    | (log', .error x) => (log', .error x)
end

/-- run a translated method from an empty log: its effects in order, and its result (falling off the end = None) -/
def callE (c : Ctx) (ora : Oracle) (prog : List ESt) (args : List (String × PyVal)) : List Eff × Except Err PyVal :=
  match execEL c ora (argLocals args) [] prog with
  | (log, .ok (.done v)) => (log, .ok v)
  | (log, .ok (.next _)) => (log, .ok .none)
  | (log, .error x) => (log, .error x)

end MpfVerif.Py
