/-!
# Hardware switch-to-coil rules (C10) — model of `flipper.py`, `autofire.py`, `kickback.py`,
`platform_controller.py` (rule setters, `clear_hw_rule`, PSU switch handler, `SoftwareEosRepulseManager`) and the
virtual platform's `rules` dict.

* The platform rule table is a list of `Entry` keyed by `(switch, coil)`; auxiliary switch handlers (PSU notification,
  the four handlers of the software EOS repulse manager) are a second list.
* A device is a flipper (wiring variants: single-wound, dual-wound main+hold, each with or without an EOS switch,
  optional software EOS repulse) or an autofire coil / kickback (timeout protection, re-enable delay, ball search).
* `step` = one request from outside (API call or control event, switch change, lifecycle event, clock advance)
  followed by every software timer that is due.  Time is in milliseconds.
-/
namespace MpfVerif.Rules

/-- one row of the platform's `rules` dict.  kind: 0 pulse_on_hit, 1 pulse_on_hit_and_enable_and_release,
2 pulse_on_hit_and_release, 3 pulse_on_hit_and_release_and_disable, 4 pulse_on_hit_and_enable_and_release_and_disable,
5 delayed_pulse_on_hit -/
structure Entry where
  sw : Nat
  coil : Nat
  kind : Nat
  /-- the settings the rule was written with: `[invert, debounce, pulse ms, pulse power ‰, hold power ‰ + 1 (0 = no hold),
  recycle, delay ms, hardware repulse (0 none, 1 settings passed but off, 2 on), repulse debounce ms]` -/
  cont : List Nat := []
  /-- the pulse length is scaled by the flipper power setting sampled when the rule is written -/
  pw : Bool := false
  deriving DecidableEq, Repr

/-- auxiliary switch handler registered together with a rule.  kind: 0 PSU pulse notification, 1 button active,
2 button inactive, 3 EOS closed long enough (timed), 4 EOS open (software EOS repulse manager) -/
structure Aux where
  sw : Nat
  state : Nat
  kind : Nat
  coil : Nat
  deriving DecidableEq, Repr

abbrev Key := Nat × Nat
def Entry.key (e : Entry) : Key := (e.sw, e.coil)

/-- one `HardwareRule`: its table rows, its auxiliary handlers, and whether the coil limits accept its settings -/
structure Spec where
  entries : List Entry
  aux : List Aux
  ok : Bool

structure FCfg where
  act : Option Nat := none       -- activation_switch
  eos : Option Nat := none       -- eos_switch when use_eos
  main : Nat := 0
  hold : Option Nat := none
  repulse : Bool := false        -- repulse_on_eos_open
  eosMs : Nat := 0               -- eos_active_ms_before_repulse
  hwRepulse : Bool := false      -- platform feature hardware_eos_repulse: the platform gets the repulse settings, no manager
  actNc : Bool := false          -- activation switch is NC
  eosNc : Bool := false
  power : Bool := false          -- power_setting_name configured
  moPulse : Option Nat := none   -- main_coil_overwrite: pulse_ms, pulse_power ‰, hold_power ‰
  moPower : Option Nat := none
  moHold : Option Nat := none
  hoPulse : Option Nat := none   -- hold_coil_overwrite: pulse_ms, pulse_power ‰
  hoPower : Option Nat := none
  mainDefPulse : Nat := 10       -- the coils' defaults
  holdDefPulse : Nat := 10
  mainDefHold : Option Nat := none
  holdDefHold : Option Nat := none
  mpfPulse : Nat := 10           -- mpf: default_pulse_ms
  okMain : Bool := true          -- limits accept the main rule
  okHold : Bool := true
  holdMs : Nat := 1000           -- ball_search_hold_time

structure ACfg where
  sw : Nat := 0
  coil : Nat := 0
  reverse : Bool := false        -- reverse_switch
  nc : Bool := false             -- the switch is NC
  swDeb : Bool := false          -- the switch's own debounce is "normal"
  owDeb : Option Bool := none    -- switch_overwrite: debounce == "normal"
  owRecycle : Option Bool := none  -- coil_overwrite: recycle
  defRecycle : Option Bool := none -- coil: default_recycle
  owPulse : Option Nat := none   -- coil_overwrite: pulse_ms
  defPulse : Nat := 10
  owPower : Option Nat := none   -- coil_overwrite: pulse_power ‰
  delay : Nat := 0               -- coil_pulse_delay (0 = plain pulse rule)
  ok : Bool := true              -- limits accept the rule and the platform supports it
  watch : Nat := 0               -- timeout_watch_time in ms (0 = no timeout protection)
  maxHits : Nat := 0
  disableMs : Nat := 0
  fired : Option Nat := none     -- kickback: code of its `kickback_<name>_fired` event

inductive Kind
  | flipper (f : FCfg)
  | autofire (a : ACfg)

structure Dev where
  kind : Kind := .autofire {}
  enEv : List Nat := []          -- enable_events
  disEv : List Nat := []         -- disable_events

structure Cfg where
  n : Nat
  dev : Nat → Dev

def psuAux (b : Bool) (sw st coil : Nat) : List Aux := if b then [⟨sw, st, 0, coil⟩] else []

def b2n (b : Bool) : Nat := if b then 1 else 0

/-- the software manager exists when the rule asks for a repulse and the platform cannot do it itself -/
def softRepulse (f : FCfg) : Bool := f.repulse && !f.hwRepulse

def eosAux (f : FCfg) (a e : Nat) : List Aux :=
  if softRepulse f then [⟨a, 1, 1, f.main⟩, ⟨a, 0, 2, f.main⟩, ⟨e, 1, 3, f.main⟩, ⟨e, 0, 4, f.main⟩] else []

/-- `Flipper._get_pulse_ms` / `_get_hold_pulse_ms` followed by `Driver.get_and_verify_pulse_ms`: with a power setting the
base is the overwrite (the mpf default when it is None or 0) and the result is scaled when the rule is written; otherwise
the overwrite, or the coil's default when there is none -/
def pulseBase (power : Bool) (ow : Option Nat) (mpfDef coilDef : Nat) : Nat :=
  if power then (match ow with | some p => if p = 0 then mpfDef else p | none => mpfDef)
  else ow.getD coilDef

/-- `get_and_verify_hold_power`, encoded `+ 1` (0 is "rule without hold") -/
def holdEnc (ow coilDef : Option Nat) : Nat := (ow.getD (coilDef.getD 0)) + 1

/-- `_get_repulse_settings`: what the platform is told about the repulse -/
def repEnc (f : FCfg) : List Nat :=
  if softRepulse f then [0, 0] else [if f.repulse then 2 else 1, f.eosMs]

def fCont (inv : Bool) (pulse power hold : Nat) (rep : List Nat) : List Nat :=
  [b2n inv, 0, pulse, power, hold, 0, 0] ++ rep

/-- `Flipper.enable`: the rules A–I by wiring variant, in the order they are written, with the settings they carry.
(As in the code: the EOS rule of the main coil takes its pulse from `hold_coil_overwrite`, the hold rule its hold power
from `main_coil_overwrite`.) -/
def flipperSpecs (f : FCfg) : List Spec :=
  match f.act with
  | none => []
  | some a =>
    let pMain := pulseBase f.power f.moPulse f.mpfPulse f.mainDefPulse
    let pEos := pulseBase f.power f.hoPulse f.mpfPulse f.mainDefPulse
    let pHold := pulseBase f.power f.hoPulse f.mpfPulse f.holdDefPulse
    let psuSt := if f.actNc then 0 else 1
    let mainSpec : Spec :=
      match f.eos, f.hold with
      | some e, some _ =>
        let cn := fun inv => fCont inv pEos (f.hoPower.getD 1000) 0 (repEnc f)
        ⟨[⟨a, f.main, 3, cn f.actNc, f.power⟩, ⟨e, f.main, 3, cn f.eosNc, f.power⟩],
         eosAux f a e ++ psuAux (f.power || pEos != 0) a psuSt f.main, f.okMain⟩
      | some e, none =>
        let cn := fun inv => fCont inv pEos (f.hoPower.getD 1000) (holdEnc f.moHold f.mainDefHold) (repEnc f)
        ⟨[⟨a, f.main, 4, cn f.actNc, f.power⟩, ⟨e, f.main, 4, cn f.eosNc, f.power⟩],
         eosAux f a e ++ psuAux (f.power || pEos != 0) a psuSt f.main, f.okMain⟩
      | none, some _ =>
        ⟨[⟨a, f.main, 2, fCont f.actNc pMain (f.moPower.getD 1000) 0 [0, 0], f.power⟩],
         psuAux (f.power || pMain != 0) a psuSt f.main, f.okMain⟩
      | none, none =>
        ⟨[⟨a, f.main, 1, fCont f.actNc pMain (f.moPower.getD 1000) (holdEnc f.moHold f.mainDefHold) [0, 0], f.power⟩],
         psuAux (f.power || pMain != 0) a psuSt f.main, f.okMain⟩
    match f.hold with
    | some h => [mainSpec, ⟨[⟨a, h, 1, fCont f.actNc pHold (f.hoPower.getD 1000) (holdEnc f.moHold f.holdDefHold) [0, 0], f.power⟩],
                            psuAux (f.power || pHold != 0) a psuSt h, f.okHold⟩]
    | none => [mainSpec]

/-- `AutofireCoil.enable`: the one rule with the settings selected from the overwrites and the defaults -/
def autofireEntry (a : ACfg) : Entry :=
  let inv := a.reverse != a.nc
  let deb := match a.owDeb with | some d => d | none => a.swDeb
  let recycle := match a.owRecycle with | some r => r | none => (match a.defRecycle with | some r => r | none => true)
  ⟨a.sw, a.coil, if a.delay = 0 then 0 else 5,
   [b2n inv, b2n deb, a.owPulse.getD a.defPulse, a.owPower.getD 1000, 0, b2n recycle, a.delay, 0, 0], false⟩

def specsOf (d : Dev) : List Spec :=
  match d.kind with
  | .flipper f => flipperSpecs f
  | .autofire a =>
    [⟨[autofireEntry a], psuAux (a.owPulse.getD a.defPulse != 0) a.sw (if a.reverse != a.nc then 0 else 1) a.coil, a.ok⟩]

def concatMap {α β : Type} (f : α → List β) : List α → List β
  | [] => []
  | x :: xs => f x ++ concatMap f xs

def entriesOf (d : Dev) : List Entry := concatMap Spec.entries (specsOf d)
def auxOf (d : Dev) : List Aux := concatMap Spec.aux (specsOf d)
def installable (d : Dev) : Bool := (specsOf d).all Spec.ok

/-- the manager exists while the rule of a flipper with EOS switch and `repulse_on_eos_open` is installed -/
def hasManager (f : FCfg) : Bool := f.act.isSome && f.eos.isSome && softRepulse f

structure DSt where
  enabled : Bool := false
  -- flipper
  swFlipped : Bool := false
  relDue : Option Nat := none      -- delay `flipper_<name>_ball_search` (sw_release)
  button : Bool := false           -- manager: _button_is_active
  eosLong : Bool := false          -- manager: _is_eos_closed_long_enough
  repOn : Bool := false            -- manager: coil enabled by a repulse
  eosDue : Option Nat := none      -- manager: timed EOS handler pending
  actOn : Bool := false            -- logical state of the activation switch
  eosOn : Bool := false
  eosSince : Nat := 0
  -- autofire / kickback
  hits : List Nat := []            -- _timeout_hits
  reDue : Option Nat := none       -- delay `_timeout_enable_delay`
  searching : Bool := false        -- _ball_search_in_progress
  searchDue : Option Nat := none   -- delay `ball_search_ignore_done`
  factor : Nat := 1000             -- flipper: the power setting (‰) sampled when its rules were written

/-- coil commands: 0 pulse, 1 enable, 2 disable -/
abbrev Cmd := Nat × Nat

structure St where
  now : Nat := 0
  setting : Nat := 1000            -- the flipper power setting (‰)
  table : List Entry := []
  aux : List Aux := []
  on : List Nat := []              -- coils enabled by a software command
  devs : Nat → DSt := fun _ => {}
  log : List Cmd := []             -- coil commands of the current step
  refused : List Nat := []         -- devices whose enable was refused in the current step

def upd (s : St) (i : Nat) (d : DSt) : St := { s with devs := fun j => if j = i then d else s.devs j }

def coilOn (s : St) (c : Nat) : St := { s with on := if c ∈ s.on then s.on else c :: s.on, log := s.log ++ [(1, c)] }
def coilOff (s : St) (c : Nat) : St := { s with on := s.on.filter (· ≠ c), log := s.log ++ [(2, c)] }
def coilPulse (s : St) (c : Nat) : St := { s with log := s.log ++ [(0, c)] }

def hasKey (ks : List Key) (e : Entry) : Bool := ks.contains e.key

/-- `clear_hw_rule` for every rule of the device: rows removed by key, auxiliary handlers removed -/
def clearRules (s : St) (d : Dev) : St :=
  { s with table := s.table.filter (fun e => !hasKey ((entriesOf d).map Entry.key) e),
           aux := s.aux.filter (fun a => !(auxOf d).contains a) }

def installRules (s : St) (d : Dev) : St :=
  { s with table := s.table ++ entriesOf d, aux := s.aux ++ auxOf d }

/-- `Flipper.sw_release` -/
def swRelease (s : St) (i : Nat) (f : FCfg) : St :=
  let s1 := coilOff (upd s i { s.devs i with swFlipped := false }) f.main
  match f.hold with
  | some h => coilOff s1 h
  | none => s1

/-- `Flipper.sw_flip` -/
def swFlip (s : St) (i : Nat) (f : FCfg) : St :=
  if (s.devs i).enabled then
    let s1 := upd s i { s.devs i with swFlipped := true }
    match f.hold with
    | some h => coilOn (coilPulse s1 f.main) h
    | none => coilOn s1 f.main
  else s

/-- `enable()` of either device class (after the fixes: a refused rule leaves the device disabled, nothing written).
The manager's timed EOS handler is registered with the switch controller: when the EOS switch is already closed it is
scheduled for the rest of the debounce time, and not at all when the switch has been closed for longer than that
(`add_switch_handler_obj`) - the manager then waits for the next EOS cycle. -/
def enableDev (c : Cfg) (s : St) (i : Nat) : St :=
  let d := c.dev i
  let ds := s.devs i
  if ds.enabled then s
  else if installable d then
    let s1 := installRules s d
    match d.kind with
    | .flipper f =>
      upd s1 i { ds with enabled := true, factor := s.setting, button := false, eosLong := false, repOn := false,
                         eosDue := if hasManager f && ds.eosOn && f.eosMs != 0 && decide (s.now < ds.eosSince + f.eosMs)
                                   then some (ds.eosSince + f.eosMs) else none }
    | .autofire _ => upd s1 i { ds with enabled := true }
  else { s with refused := s.refused ++ [i] }

/-- `disable()` of either device class -/
def disableDev (c : Cfg) (s : St) (i : Nat) : St :=
  let d := c.dev i
  let ds := s.devs i
  match d.kind with
  | .flipper f =>
    if ds.enabled then
      let s1 := clearRules s d
      -- SoftwareEosRepulseManager.stop(): release a coil enabled by a repulse
      let s2 := if ds.repOn then coilOff s1 f.main else s1
      let s3 := upd s2 i { ds with repOn := false, eosDue := none, button := false, eosLong := false }
      let s4 := if ds.swFlipped then swRelease s3 i f else s3
      upd s4 i { s4.devs i with enabled := false }
    else s
  | .autofire _ =>
    let s0 := upd s i { ds with reDue := none }
    if ds.enabled then upd (clearRules s0 d) i { ds with reDue := none, enabled := false } else s0

/-- apply `f` to every device index below `n`, in order -/
def forDevs (f : St → Nat → St) : Nat → St → St
  | 0, s => s
  | k + 1, s => f (forDevs f k s) k

/-- an event: disable handlers run before enable handlers (priority 10 vs 1) -/
def evStep (c : Cfg) (s : St) (e : Nat) : St :=
  let s1 := forDevs (fun s i => if (c.dev i).disEv.contains e then disableDev c s i else s) c.n s
  forDevs (fun s i => if (c.dev i).enEv.contains e then enableDev c s i else s) c.n s1

/-- timeout protection of `AutofireCoil._hit` (device enabled): count the hit; too many → disable and re-enable later -/
def hitCore (c : Cfg) (s : St) (i : Nat) (a : ACfg) : St :=
  let ds := s.devs i
  if a.watch != 0 then
    let hs := ds.hits.filter (fun t => decide (s.now * 1000 < t * 1000 + a.watch)) ++ [s.now]
    let s0 := upd s i { ds with hits := hs }
    if a.maxHits ≤ hs.length then
      let s' := disableDev c s0 i
      upd s' i { s'.devs i with reDue := some (s.now + a.disableMs) }
    else s0
  else s

/-- `AutofireCoil._hit` (+ `Kickback._hit`): a kickback posts its fired event while still enabled -/
def hitDev (c : Cfg) (s : St) (i : Nat) : St :=
  match (c.dev i).kind with
  | .flipper _ => s
  | .autofire a =>
    if !(s.devs i).enabled then s
    else
      let s1 := hitCore c s i a
      match a.fired with
      | some ev => if (s1.devs i).enabled then evStep c s1 ev else s1
      | none => s1

/-- flipper switch change as seen by the software EOS repulse manager (which = 0 activation, 1 EOS) -/
def fswDev (c : Cfg) (s : St) (i which : Nat) (st : Bool) : St :=
  match (c.dev i).kind with
  | .autofire _ => s
  | .flipper f =>
    let ds := s.devs i
    let live := ds.enabled && hasManager f
    if which = 0 then
      if ds.actOn = st then s
      else if !live then upd s i { ds with actOn := st }
      else if st then upd s i { ds with actOn := st, button := true }
      else coilOff (upd s i { ds with actOn := st, button := false, repOn := false }) f.main
    else
      if ds.eosOn = st then s
      else
        let ds1 := { ds with eosOn := st, eosSince := s.now }
        if !live then upd s i ds1
        else if st then
          (if f.eosMs = 0 then upd s i { ds1 with eosLong := true } else upd s i { ds1 with eosDue := some (s.now + f.eosMs) })
        else if ds.button && ds.eosLong then
          (match f.hold with
           | none => coilOn (upd s i { ds1 with eosDue := none, eosLong := false, repOn := true }) f.main
           | some _ => coilPulse (upd s i { ds1 with eosDue := none, eosLong := false }) f.main)
        else upd s i { ds1 with eosDue := none }

/-- ball search callback of one device -/
def searchDev (c : Cfg) (s : St) (i : Nat) : St :=
  match (c.dev i).kind with
  | .flipper f =>
    let s1 := swFlip s i f
    upd s1 i { s1.devs i with relDue := some (s.now + f.holdMs) }
  | .autofire a =>
    coilPulse (upd s i { s.devs i with searching := true, searchDue := some (s.now + 200) }) a.coil

def isDue (o : Option Nat) (now : Nat) : Bool :=
  match o with
  | some d => decide (d ≤ now)
  | none => false

def fireRel (s : St) (i : Nat) (f : FCfg) : St :=
  if isDue (s.devs i).relDue s.now then swRelease (upd s i { s.devs i with relDue := none }) i f else s

def fireEos (s : St) (i : Nat) : St :=
  if isDue (s.devs i).eosDue s.now then upd s i { s.devs i with eosDue := none, eosLong := true } else s

def fireRe (c : Cfg) (s : St) (i : Nat) : St :=
  if isDue (s.devs i).reDue s.now then enableDev c (upd s i { s.devs i with reDue := none }) i else s

def fireSearch (s : St) (i : Nat) : St :=
  if isDue (s.devs i).searchDue s.now then upd s i { s.devs i with searchDue := none, searching := false } else s

/-- fire the software timers of device `i` that are due -/
def fireDev (c : Cfg) (s : St) (i : Nat) : St :=
  match (c.dev i).kind with
  | .flipper f => fireEos (fireRel s i f) i
  | .autofire _ => fireSearch (fireRe c s i) i

def fireAll (c : Cfg) (s : St) : St := forDevs (fireDev c) c.n s

inductive Op
  | enable (i : Nat)
  | disable (i : Nat)
  | swFlip (i : Nat)
  | swRelease (i : Nat)
  | search (i : Nat)
  | fsw (i which : Nat) (st : Bool)
  | hit (i : Nat)
  | ev (e : Nat)
  | advance (dt : Nat)
  | setting (v : Nat)

/-- the request itself; a device index outside the configuration names no device -/
def doOp (c : Cfg) (s : St) : Op → St
  | .enable i => if i < c.n then enableDev c s i else s
  | .disable i => if i < c.n then disableDev c s i else s
  | .swFlip i => if i < c.n then (match (c.dev i).kind with | .flipper f => swFlip s i f | _ => s) else s
  | .swRelease i => if i < c.n then (match (c.dev i).kind with | .flipper f => swRelease s i f | _ => s) else s
  | .search i => if i < c.n then searchDev c s i else s
  | .fsw i w st => if i < c.n then fswDev c s i w st else s
  | .hit i => if i < c.n then hitDev c s i else s
  | .ev e => evStep c s e
  | .advance dt => { s with now := s.now + dt }
  | .setting v => { s with setting := v }

/-- one step: the request, then every timer that is due -/
def step (c : Cfg) (s : St) (op : Op) : St :=
  fireAll c (doOp c { s with log := [], refused := [] } op)

def run (c : Cfg) (s : St) (ops : List Op) : St := ops.foldl (step c) s

def init : St := {}

/-! ## the rules as the platform holds them: a power-scaled pulse is the base times the setting sampled by the owner -/

def scaleEntry (k : Nat) (e : Entry) : Entry :=
  if e.pw then { e with cont := e.cont.set 2 (e.cont.getD 2 0 * k / 1000) } else e

/-- the sampled setting of the enabled device (below `n`) that owns row `e` -/
def ownerFactor (c : Cfg) (s : St) (e : Entry) : Nat → Nat
  | 0 => 1000
  | j + 1 => if (s.devs j).enabled && (entriesOf (c.dev j)).contains e then (s.devs j).factor else ownerFactor c s e j

def effTable (c : Cfg) (s : St) : List Entry := s.table.map (fun e => scaleEntry (ownerFactor c s e c.n) e)

/-! ## driver -/

def natOf (t : String) : Option Nat := t.toNat?
def optOf (t : String) : Option (Option Nat) := if t = "-" then some none else t.toNat?.map some
def boolOf (t : String) : Option Bool := if t = "1" then some true else if t = "0" then some false else none
def listOf (t : String) : Option (List Nat) := if t = "-" then some [] else (t.splitOn ",").mapM natOf
def optBoolOf (t : String) : Option (Option Bool) := if t = "-" then some none else (boolOf t).map some

structure DrvSt where
  devs : List Dev := []
  s : St := {}

def cfgOf (d : DrvSt) : Cfg := ⟨d.devs.length, fun i => d.devs.getD i {}⟩

def showOpt (now : Nat) : Option Nat → String
  | none => "-"
  | some d => toString (d - now)

def b2s (b : Bool) : String := if b then "1" else "0"

def showDev (now : Nat) (d : Dev) (ds : DSt) : String :=
  match d.kind with
  | .flipper f =>
    let mgr := if ds.enabled && hasManager f then s!"{b2s ds.button}{b2s ds.eosLong}{b2s ds.repOn}/{showOpt now ds.eosDue}" else "-/-"
    s!"F{b2s ds.enabled}{b2s ds.swFlipped}/{showOpt now ds.relDue}/{mgr}"
  | .autofire _ => s!"A{b2s ds.enabled}{b2s ds.searching}/{showOpt now ds.reDue}/{showOpt now ds.searchDue}/{ds.hits.length}"

def showState (d : DrvSt) : String :=
  let s := d.s
  let t := ",".intercalate ((effTable (cfgOf d) s).map (fun e => "/".intercalate ((e.sw :: e.coil :: e.kind :: e.cont).map toString)))
  let h := ",".intercalate (s.aux.map (fun a => s!"{a.sw}/{a.state}/{a.kind}/{a.coil}"))
  let o := ",".intercalate (s.on.map toString)
  let ds := ",".intercalate ((List.range d.devs.length).map (fun i => showDev s.now (d.devs.getD i {}) (s.devs i)))
  let l := ",".intercalate (s.log.map (fun c => s!"{c.1}/{c.2}"))
  let r := ",".intercalate (s.refused.map toString)
  s!"t={t} h={h} on={o} d={ds} c={l} r={r}"

def parseDev (ts : List String) : Option Dev :=
  match ts with
  | ["F", act, eos, main, hold, rep, eosMs, hwRep, actNc, eosNc, power, moPulse, moPower, moHold, hoPulse, hoPower,
     mainDefPulse, holdDefPulse, mainDefHold, holdDefHold, okM, okH, holdMs, en, dis] => do
    let f : FCfg := { act := ← optOf act, eos := ← optOf eos, main := ← natOf main, hold := ← optOf hold,
                      repulse := ← boolOf rep, eosMs := ← natOf eosMs, hwRepulse := ← boolOf hwRep,
                      actNc := ← boolOf actNc, eosNc := ← boolOf eosNc, power := ← boolOf power,
                      moPulse := ← optOf moPulse, moPower := ← optOf moPower, moHold := ← optOf moHold,
                      hoPulse := ← optOf hoPulse, hoPower := ← optOf hoPower,
                      mainDefPulse := ← natOf mainDefPulse, holdDefPulse := ← natOf holdDefPulse,
                      mainDefHold := ← optOf mainDefHold, holdDefHold := ← optOf holdDefHold,
                      okMain := ← boolOf okM, okHold := ← boolOf okH, holdMs := ← natOf holdMs }
    pure { kind := .flipper f, enEv := ← listOf en, disEv := ← listOf dis }
  | ["A", sw, coil, reverse, nc, swDeb, owDeb, owRecycle, defRecycle, owPulse, defPulse, owPower, delay, ok, watch, maxHits,
     disMs, fired, en, dis] => do
    let a : ACfg := { sw := ← natOf sw, coil := ← natOf coil, reverse := ← boolOf reverse, nc := ← boolOf nc,
                      swDeb := ← boolOf swDeb, owDeb := ← optBoolOf owDeb, owRecycle := ← optBoolOf owRecycle,
                      defRecycle := ← optBoolOf defRecycle, owPulse := ← optOf owPulse, defPulse := ← natOf defPulse,
                      owPower := ← optOf owPower, delay := ← natOf delay,
                      ok := ← boolOf ok, watch := ← natOf watch, maxHits := ← natOf maxHits, disableMs := ← natOf disMs,
                      fired := ← optOf fired }
    pure { kind := .autofire a, enEv := ← listOf en, disEv := ← listOf dis }
  | _ => none

def parseOp (n : Nat) (ts : List String) : Option Op :=
  let idx (t : String) : Option Nat := do
    let i ← natOf t
    if i < n then some i else none
  match ts with
  | ["enable", i] => (idx i).map .enable
  | ["disable", i] => (idx i).map .disable
  | ["sw_flip", i] => (idx i).map .swFlip
  | ["sw_release", i] => (idx i).map .swRelease
  | ["search", i] => (idx i).map .search
  | ["fsw", i, w, st] => do pure (.fsw (← idx i) (← natOf w) (← boolOf st))
  | ["hit", i] => (idx i).map .hit
  | ["ev", e] => (natOf e).map .ev
  | ["advance", dt] => (natOf dt).map .advance
  | ["setting", v] => (natOf v).map .setting
  | _ => none

def driverStep (d : DrvSt) (line : String) : DrvSt × String :=
  match line.splitOn " " with
  | ["reset", t] =>
    match natOf t with
    | some n => ({ devs := [], s := { now := n } }, "ok")
    | none => (d, "bad-op")
  | "dev" :: rest =>
    match parseDev rest with
    | some dv => ({ d with devs := d.devs ++ [dv] }, "ok")
    | none => (d, "bad-op")
  | "op" :: rest =>
    match parseOp d.devs.length rest with
    | some op =>
      let d' := { d with s := step (cfgOf d) d.s op }
      (d', showState d')
    | none => (d, "bad-op")
  | _ => (d, "bad-op")

end MpfVerif.Rules
