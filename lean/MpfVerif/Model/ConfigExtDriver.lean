import MpfVerif.Model.ConfigExt
import MpfVerif.Gen.SpecSections
/-!
# C12 extension: line protocol (parsing validators / trees, printing results) and the generated spec as model data
-/
namespace MpfVerif.ConfigExt
open MpfVerif.Config

/-- the text between the first `(` and the final `)` -/
def splitParam (s : String) : String × Option String :=
  match s.splitOn "(" with
  | [b] => (b, Option.none)
  | b :: rest => (b, some ((("(".intercalate rest).dropEnd 1).toString))
  | [] => ("", Option.none)

/-- a validator as written in `config_spec.yaml` -/
def parseXV (s : String) : Option XV :=
  match parseV s with
  | some v => some (.base v)
  | Option.none =>
    let (base, param) := splitParam s
    match base, param with
    | "boolean", Option.none => some (.base .bool)
    | "event_handler", Option.none => some .evstr
    | "event_posted", Option.none => some .evstr
    | "int_from_hex", Option.none => some .intFromHex
    | "color", Option.none => some .color
    | "gain", Option.none => some .gain
    | "dict", Option.none => some .dict
    | "list", Option.none => some .list
    | "kivycolor", Option.none => some .other
    | "template_float", Option.none => some (.tmpl .float)
    | "template_int", Option.none => some (.tmpl .int)
    | "template_bool", Option.none => some (.tmpl .bool)
    | "template_secs", Option.none => some (.tmpl .secs)
    | "template_ms", Option.none => some (.tmpl .ms)
    | "template_str", Option.none => some (.tmpl .str)
    | "template_float_or_token", Option.none => some (.orToken (.tmpl .float))
    | "color_or_token", Option.none => some (.orToken .color)
    | "bool_or_token", Option.none => some (.orToken (.base .bool))
    | "ms_or_token", Option.none => some (.orToken (.base .ms))
    | "secs_or_token", Option.none => some (.orToken (.base .secs))
    | "int_or_token", p => (parseV ("int" ++ (match p with | some x => "(" ++ x ++ ")" | Option.none => ""))).map (fun v => .orToken (.base v))
    | "float_or_token", p => (parseV ("float" ++ (match p with | some x => "(" ++ x ++ ")" | Option.none => ""))).map (fun v => .orToken (.base v))
    | "num_or_token", p => (parseV ("num" ++ (match p with | some x => "(" ++ x ++ ")" | Option.none => ""))).map (fun v => .orToken (.base v))
    | "machine", some c => some (.machine c)
    | "subconfig", some c => some (.subconfig (c.splitOn ","))
    | _, _ => Option.none

def parseIT (s : String) : Option IT :=
  match s with
  | "single" => some .single | "list" => some .list | "set" => some .set | "dict" => some .dict
  | "event_handler" => some .eventHandler | _ => Option.none

/-- `item_type|validator|default` -> Key (the dict item types split their validator at the top-level colon) -/
def mkKey (key : String) (it : String) (vd : String) (dflt : String) : Option Key := do
  let I ← parseIT it
  let (a, b) := splitDictValidator vd
  let twoPart := I == .dict || I == .eventHandler
  let V1 ← parseXV (if twoPart then a else vd)
  let V2 ← (if twoPart then (match b with | some x => (parseXV x).map some | Option.none => some Option.none) else some Option.none)
  let brace := !(vd == "event_posted" || vd == "event_handler")
  pure { key := key, kind := 0, it := I, vd := V1, vvd := V2, brace := brace, dflt := if dflt.isEmpty then Option.none else some dflt }

def keyOfGen (k : MpfVerif.Gen.SpecSections.K) : Key :=
  if k.kind == 1 then { key := k.key, kind := 1 }
  else if k.kind == 2 then { key := k.key, kind := 2 }
  else match mkKey k.key k.itemType k.validator k.dflt with
    | some x => x
    | Option.none => { key := k.key, kind := 0, it := .single, vd := .other, dflt := if k.dflt.isEmpty then Option.none else some k.dflt }

/-- the whole of `config_spec.yaml`, as the model reads it -/
def genSpecs : List Sec :=
  MpfVerif.Gen.SpecSections.table.map (fun s => { name := s.name, allowOthers := s.allowOthers, keys := s.keys.map keyOfGen })

/-! ## trees on the wire: Polish notation, `,`-separated: `L<n>` then n trees, `D<n>` then n key/value pairs, else a scalar -/

def parseMany (p : List String → Option (T × List String)) : Nat → List String → Option (List T × List String)
  | 0, ts => some ([], ts)
  | n + 1, ts => do
    let (x, r) ← p ts
    let (xs, r') ← parseMany p n r
    pure (x :: xs, r')

def pairUp : List T → Option (List (Y × T))
  | [] => some []
  | .s k :: v :: r => (pairUp r).map ((k, v) :: ·)
  | _ => Option.none

def parseT : Nat → List String → Option (T × List String)
  | 0, _ => Option.none
  | _ + 1, [] => Option.none
  | f + 1, tk :: rest =>
    match tk.toList with
    | 'L' :: n => do
      let k ← (String.ofList n).toNat?
      let (xs, r) ← parseMany (parseT f) k rest
      pure (.l xs, r)
    | 'D' :: n => do
      let k ← (String.ofList n).toNat?
      let (xs, r) ← parseMany (parseT f) (2 * k) rest
      let kvs ← pairUp xs
      pure (.d kvs, r)
    | _ => (parseY tk).map (fun y => (.s y, rest))

def parseTree (s : String) : Option T :=
  let toks := s.splitOn ","
  match parseT (toks.length + 1) toks with
  | some (t, []) => some t
  | _ => Option.none

def showTK : TK → String
  | .float => "float" | .int => "int" | .bool => "bool" | .str => "str" | .text => "text"

def insertSorted (x : String) : List String → List String
  | [] => [x]
  | y :: r => if x ≤ y then x :: y :: r else y :: insertSorted x r

def sortStrs (l : List String) : List String := l.foldr insertSorted []

/-- canonical text of a result tree; dict entries sorted (CPython's dict order is not part of the model) -/
def showT : Nat → T → String
  | 0, _ => "?"
  | _ + 1, .s y => showY y
  | f + 1, .l xs => s!"L{xs.length}" ++ String.join (xs.map (fun x => "," ++ showT f x))
  | f + 1, .d kvs => s!"D{kvs.length}" ++ String.join (sortStrs (kvs.map (fun p => "," ++ showY p.1 ++ "," ++ showT f p.2)))
  | _ + 1, .color r g b => s!"c{r}.{g}.{b}"
  | _ + 1, .tmpl k native v => (if native then "tn" else "te" ++ showTK k) ++ ":" ++ showY v
  | _ + 1, .token s => "k" ++ hexOfStr s
  | _ + 1, .dev _ n => "v." ++ hexOfStr n

def showRT : RT → String
  | .ok t => "ok " ++ showT 64 t | .reject => "reject" | .raise => "raise" | .unmodelled => "unmodelled"

def parseEnv (toks : List String) : Option (List (String × List String)) :=
  toks.mapM (fun t => match t.splitOn "=" with
    | [c, ns] => (if ns.isEmpty then some [] else (ns.splitOn ",").mapM strOfHex).map (fun l => (c, l))
    | _ => Option.none)

def FUEL : Nat := 8

/-- the parser's verdicts: `1` / `0` for the item itself, or `b:<hex>,<hex>` = the texts of this source it refuses -/
def mkEnv (st : List (String × List String)) (syn : String) : Option Env :=
  if syn == "1" then some { devs := st, synOk := true }
  else if syn == "0" then some { devs := st, synOk := false }
  else if syn.startsWith "b:" then
    (((syn.drop 2).toString.splitOn ",").mapM strOfHex).map (fun l => { devs := st, synOk := true, synBad := l })
  else Option.none

/-- Python's `needle in haystack` on strings -/
def isInfix (p : List Char) : List Char → Bool
  | [] => p.isEmpty
  | c :: r => p.isPrefixOf (c :: r) || isInfix p r

/-- `ConfigProcessor._check_sections` for one known section: `config_type not in spec[k]['__valid_in__']` (a substring test) -/
def validIn (ct : String) (s : MpfVerif.Gen.SpecSections.S) : Bool := isInfix ct.toList s.validIn.toList

/-- driver state: the device names per collection -/
def driverStepX (st : List (String × List String)) (line : String) : List (String × List String) × String :=
  match line.splitOn " " with
  | "env" :: toks =>
    (match parseEnv toks with | some e => (e, "ok") | Option.none => (st, "bad-op"))
  | ["xitem", syn, vd, tr] =>
    (match parseXV vd, parseTree tr, mkEnv st syn with
     | some V, some t, some env =>
       (st, showRT (valOne (valSec genSpecs env FUEL) env V t))
     | _, _, _ => (st, "bad-op"))
  | ["xcitem", syn, it, vd, tr] =>
    (match mkKey "k" it vd "None", parseTree tr, mkEnv st syn with
     | some K, some t, some env =>
       (st, showRT (valItem (valSec genSpecs env FUEL) env K t))
     | _, _, _ => (st, "bad-op"))
  | ["xsec", syn, names, tr] =>
    (match parseTree tr, mkEnv st syn with
     | some t, some env =>
       (st, showRT (valSec genSpecs env FUEL (names.splitOn ",") t))
     | _, _ => (st, "bad-op"))
  | ["validin", ct, sec] =>
    (match MpfVerif.Gen.SpecSections.table.find? (fun s => s.name == sec) with
     | some s => (st, if validIn ct s then "ok" else "reject")
     | Option.none => (st, "no-section"))
  | _ =>
    let (_, o) := MpfVerif.Config.driverStep () line
    (st, o)

end MpfVerif.ConfigExt
