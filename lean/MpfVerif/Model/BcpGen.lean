import MpfVerif.Model.Bcp
import MpfVerif.Gen.BcpTables
/-!
# The BCP encoder / decoder driven by the tables regenerated from the source (C19)

`Gen/BcpTables.lean` is rewritten from `mpf/core/bcp/bcp_socket_client.py` on every check (`translate/bcp_tables.py`): the
`isinstance` chain of the encoder in source order with its prefixes, the `safe` argument of `quote`, the pair format, the
decoder's chain of prefix tests with slice offsets and conversions, the `json=` test, the separator characters, `BYTE_MARKER`.
Here the per-value functions are *interpreters of those tables* (unknown table entries give an error, never a default);
`Lemmas/BcpGen.lean` proves that they are the hand model's functions (`tables_refine_*`), so every theorem about
`Model/Bcp.lean` speaks about the tables found in the source, and the line-protocol driver below runs the table-driven
functions, so the correspondence run compares the real code with them.
-/
namespace MpfVerif.Bcp
open MpfVerif.Gen

/-- `urllib.parse.quote(s, safe)`: the always-safe set plus the characters of `safe` -/
def quoteWith (safe : Bytes) : Bytes → Bytes
  | [] => []
  | b :: bs => if isSafe b || safe.contains b then b :: quoteWith safe bs
      else 37 :: hexDigit (b / 16) :: hexDigit (b % 16) :: quoteWith safe bs

/-- Python's `isinstance(v, <type name>)` on the scalar universe: a bool IS an int -/
def Val.isInstance (v : Val) (ty : String) : Bool :=
  match v with
  | .bool _ => ty == "bool" || ty == "int"
  | .int _ => ty == "int"
  | .flt _ => ty == "float"
  | .none => ty == "NoneType"
  | .str _ => ty == "str"

/-- `str(v)` -/
def Val.pyStr : Val → Bytes
  | .str s => s
  | .int i => intText i
  | .flt t => t
  | .bool b => if b then sTrue else sFalse
  | .none => [78, 111, 110, 101]

/-- the encoder's `if isinstance … elif … else` chain over the table: first matching arm wins; `quoted` is
`quote(str(v), safe)`, computed before the chain as in the source -/
def encodeBy (quoted : Bytes) (v : Val) : List (String × List Nat × Bool) → Bytes
  | [] => quoted
  | (ty, pre, withValue) :: r =>
    if v.isInstance ty then (if withValue then pre ++ quoted else pre) else encodeBy quoted v r

def encodeValueT (v : Val) : Bytes := encodeBy (quoteWith BcpTables.quoteSafeValue v.pyStr) v BcpTables.encChain

/-- `'{}={}&'.format(quote(k, safe), value)`; `none` when the format does not have three pieces -/
def encodePairT (kv : Bytes × Val) : Option Bytes :=
  match BcpTables.pairFormat with
  | [a, b, c] => some (a ++ quoteWith BcpTables.quoteSafeKey kv.1 ++ b ++ encodeValueT kv.2 ++ c)
  | _ => none

def concatOpt : List (Option Bytes) → Option Bytes
  | [] => some []
  | none :: _ => none
  | some x :: r => (concatOpt r).map (x ++ ·)

/-- the non-JSON branch of `encode_command_string`: accumulate the pairs, cut the trailing characters, `urlunparse` -/
def encodeFlatT (cmd : Bytes) (kw : List (Bytes × Val)) : Option Bytes :=
  (concatOpt (kw.map encodePairT)).map fun s =>
    let q := s.take (s.length - BcpTables.trailingCut)
    if q.isEmpty then cmd else cmd ++ 63 :: q

/-- one arm of the decoder's chain; `none` = no decision (next arm), `some none` = ValueError / unknown table entry -/
def decodeArm (raw value : Bytes) (arm : String × List Nat × Nat × String) : Option (Option Val) :=
  let (kind, lit, off, conv) := arm
  if kind == "startswith" then
    if lit.isPrefixOf raw then
      (if conv == "int" then some ((parseInt (value.drop off)).map Val.int)
       else if conv == "float" then some (some (.flt (value.drop off)))
       else some none)
    else none
  else if kind == "lower==" || kind == "==" then
    if (if kind == "==" then raw else toLower raw) = lit then
      (if conv == "True" then some (some (.bool true))
       else if conv == "False" then some (some (.bool false))
       else if conv == "None" then some (some .none)
       else some none)
    else none
  else some none

def decodeBy (raw value : Bytes) : List (String × List Nat × Nat × String) → Option Val
  | [] => some (.str value)
  | arm :: r =>
    match decodeArm raw value arm with
    | some res => res
    | none => decodeBy raw value r

/-- `s.replace(a, b)` for single characters; anything else is not understood (`none`) -/
def replace1 (ab : List Nat × List Nat) (l : Bytes) : Option Bytes :=
  match ab with
  | ([a], [b]) => some (l.map (fun x => if x = a then b else x))
  | _ => none

def decodeValueT (raw : Bytes) : Option Val :=
  match replace1 BcpTables.valueReplace raw with
  | some r => decodeBy raw (unquote r) BcpTables.decChain
  | none => none

def sepOf : List Nat → Option Nat
  | [c] => some c
  | _ => none

/-- the decoder's `for pair in query.split(sep)` loop over the tables -/
def decodePairsT (part : Nat) : List Bytes → List (Bytes × Val) → Option (List (Bytes × Val))
  | [], acc => some acc.reverse
  | p :: rest, acc =>
    if p.isEmpty then decodePairsT part rest acc else
    let (n, v) := splitFirst part p
    match replace1 BcpTables.nameReplace n with
    | none => none
    | some n' =>
      let name := unquote n'
      if hasKey name acc then decodePairsT part rest acc else
      match decodeValueT (v.getD []) with
      | some val => decodePairsT part rest ((name, val) :: acc)
      | none => none

/-- `decode_command_string` over the tables: `query[lo:hi] == lit` selects JSON -/
def decodeT (line : Bytes) : Decoded :=
  let (cmd, q) := splitFirst 63 line
  let query := q.getD []
  if (query.drop BcpTables.jsonTestLo).take (BcpTables.jsonTestHi - BcpTables.jsonTestLo) = BcpTables.jsonTest then
    .json cmd (query.drop BcpTables.jsonDrop)
  else match sepOf BcpTables.splitSep, sepOf BcpTables.partSep with
    | some amp, some eq =>
      (match decodePairsT eq (splitAll amp query) [] with
       | some kw => .flat cmd kw
       | none => .error)
    | _, _ => .error

/-- the payload marker test of `read_message` with `BYTE_MARKER` from the source -/
def markerOfT (line : Bytes) : Option (Bytes × Nat) :=
  match splitLast BcpTables.byteMarker line with
  | some (h, t) => if t.isEmpty then none else (digitsVal 0 t).map (fun n => (h, n))
  | none => none

/-- line-protocol driver: `enc` / `dec` run the table-driven functions, the reader ops the hand model -/
def driverStepT (s : RSt) (line : String) : RSt × String :=
  match line.splitOn " " with
  | "enc" :: cmd :: n :: rest =>
    match ofHex cmd, n.toNat? with
    | some c, some k =>
      match parseKw k rest with
      | some kw =>
        (match encodeFlatT c kw with
         | some b => (s, "ok " ++ toHex b)
         | none => (s, "error"))
      | none => (s, "bad-op")
    | _, _ => (s, "bad-op")
  | ["dec", l] =>
    match ofHex l with
    | some b => (s, showDecoded (decodeT b))
    | none => (s, "bad-op")
  | ["marker", l] =>
    match ofHex l with
    | some b => (s, if markerOfT b = markerOf b then "ok" else "differs")
    | none => (s, "bad-op")
  | _ => driverStep s line

end MpfVerif.Bcp
