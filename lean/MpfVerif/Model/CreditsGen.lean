import MpfVerif.Model.Credits
import MpfVerif.Gen.CreditsOps
/-!
# What a run of the *generated* credits handlers means for the hand model's state (C20)

`Gen/CreditsOps.lean` is `mpf/modes/credits/code/credits.py` as data.  `sigma c s` is the object state the handlers read
(machine variable `credit_units`, setting `free_play`, the instance attributes), `sctx c` the configuration values and the
pricing table, `applyEff` the (hand-written) meaning of one logged action for `Credits.St`: a store write, a posted event,
a delay, a command to the coin-inhibit output, or a call of one of the *opaque* methods (`_update_credit_strings`,
`_audit*`, `enable_*_play`), whose meaning is the corresponding piece of the hand model.  Anything `applyEff` has no meaning
for raises the `unknown` flag — it can never be ignored silently.  `Props/C20.lean` proves, per handler, that folding the
log of the generated program over the state equals what the hand model computes (ghost ledger fields aside).
-/
namespace MpfVerif.Credits
open MpfVerif.Py

def sigma (c : Cfg) (s : St) : String → PyVal := fun k =>
  if k = "mv:credit_units" then .int s.units
  else if k = "set:free_play" then .bool s.freePlay
  else if k = "credit_units_per_game" then .int (upg c)
  else if k = "credit_unit" then .int (creditUnit c)
  else if k = "pricing_tiers_wrap_around" then .int (wrap c)
  else if k = "credit_units_for_pricing_tiers" then .int s.tier
  else if k = "reset_pricing_tier_count_this_game" then .bool s.resetThisGame
  else .none

def sctx (c : Cfg) : SCtx where
  cfg := fun k =>
    if k = "max_credits" then .int c.maxCredits
    else if k = "fractional_credit_expiration_time" then .int (c.fracExp * 1000)
    else if k = "credit_expiration_time" then .int (c.allExp * 1000)
    else if k = "coin_inhibit_disable_output" then (if c.inhibit then .str "output" else .none)
    else .none
  tab := fun t k => if t = "pricing_table" then .int (table c k.toNat) else .none

def intOf : PyVal → Int
  | .int i => i | .bool true => 1 | _ => 0

/-- the meaning of one logged action; the flag is raised by anything the model has no meaning for -/
def applyEff (c : Cfg) (x : St × Bool) (e : Eff) : St × Bool :=
  let s := x.1
  if e.obj = "store" then
    if e.meth = "mv:credit_units" then ({ s with units := intOf (e.arg "value"), stamp := s.now }, x.2)
    else if e.meth = "credit_units_for_pricing_tiers" then ({ s with tier := (intOf (e.arg "value")).toNat }, x.2)
    else if e.meth = "reset_pricing_tier_count_this_game" then
      ({ s with resetThisGame := e.arg "value" == .bool true }, x.2)
    else (s, true)
  else if e.obj = "events" then
    if e.arg "event" == .str "credits_added" then ({ s with nAdded := s.nAdded + 1 }, x.2)
    else if e.arg "event" == .str "max_credits_reached" then ({ s with nMax := s.nMax + 1 }, x.2)
    else if e.arg "event" == .str "not_enough_credits" then ({ s with nNotEnough := s.nNotEnough + 1 }, x.2)
    else (s, true)
  else if e.obj = "delay" then
    if e.meth = "reset" then
      if e.arg "name" == .str "clear_fractional_credits" && e.arg "callback" == .str "cb:_clear_fractional_credits" then
        ({ s with fracDue := some (s.now + (intOf (e.arg "ms")).toNat / 1000) }, x.2)
      else if e.arg "name" == .str "clear_all_credits" && e.arg "callback" == .str "cb:clear_all_credits" then
        ({ s with allDue := some (s.now + (intOf (e.arg "ms")).toNat / 1000) }, x.2)
      else (s, true)
    else if e.meth = "remove" then
      if e.arg "name" == .str "clear_fractional_credits" then ({ s with fracDue := none }, x.2)
      else if e.arg "name" == .str "clear_all_credits" then ({ s with allDue := none }, x.2)
      else (s, true)
    else (s, true)
  else if e.obj = "inhibit" then
    if e.meth = "enable" then ({ s with inhibit := some true }, x.2)
    else if e.meth = "disable" then ({ s with inhibit := some false }, x.2)
    else (s, true)
  else if e.obj = "self" then
    if e.meth = "_update_credit_strings" then (updStrings s, x.2)
    else if e.meth = "_audit" then
      ({ s with coinCount := s.coinCount + 1, earn := s.earn + (intOf (e.arg "value")).toNat }, x.2)
    else if e.meth = "_audit_event" then
      (if e.arg "audit_class" == .str "service_credit" then { s with service := s.service + (intOf (e.arg "value")).toNat }
       else { s with awards := s.awards + (intOf (e.arg "value")).toNat }, x.2)
    else if e.meth = "_audit_increment_non_coin" then
      (if e.arg "audit_class" == .str "3 Total Paid Games" then { s with paid := s.paid + (intOf (e.arg "value")).toNat }
       else s, x.2)
    else if e.meth = "enable_credit_play" then (enableCredit c s, x.2)
    else if e.meth = "enable_free_play" then (enableFree c s, x.2)
    else (s, true)
  else (s, true)

/-- the hand state without its ghost ledger (which the implementation does not have) -/
def core (s : St) : St := { s with inUnits := 0, bonus := 0, granted := 0, deducted := 0, lost := 0 }

/-- run a generated handler in state `s`: the state its logged actions lead to (ghost fields erased), whether every
action had a meaning, and its result (`none` = it raised) -/
def genRun (c : Cfg) (s : St) (prog : List SSt) (args : List (String × PyVal)) : St × Bool × Option PyVal :=
  let r := callS (sctx c) prog args (sigma c s)
  let x := r.1.log.foldl (applyEff c) (s, false)
  (core x.1, x.2, r.2)

end MpfVerif.Credits
