import MpfVerif.Model.Writer
/-!
# Machine variables: persist / expire / reload (C15) — model of `mpf/core/machine_vars.py`

`vars` is the `machine_vars` dict (insertion order, unique names), `file` is what was last handed to the data manager's
`save_all` (the persisted subset with absolute expiry times).  Times are whole seconds.  Values are `Option Int`
(`none` = Python `None`).  The only import is the writer model (so that one driver serves both).
-/
namespace MpfVerif.MachineVars

structure MV where
  name : Nat
  value : Option Int := none
  persist : Bool := false
  expireSecs : Nat := 0            -- 0 = no expiry (`None`)
  timeout : Option Nat := none     -- absolute expiry time
  deriving DecidableEq, Repr

structure Entry where
  name : Nat
  value : Option Int
  expire : Option Nat
  deriving DecidableEq, Repr

structure St where
  vars : List MV := []
  file : List Entry := []
  deriving DecidableEq, Repr

def find (n : Nat) : List MV → Option MV
  | [] => none
  | v :: r => if v.name = n then some v else find n r

def replace (v : MV) : List MV → List MV
  | [] => [v]
  | x :: r => if x.name = v.name then v :: r else x :: replace v r

/-- `_write_machine_vars_to_disk`: the persisted subset -/
def snapshot (vs : List MV) : List Entry :=
  vs.filterMap (fun v => if v.persist then some ⟨v.name, v.value, v.timeout⟩ else none)

/-- `'expire' in settings and settings['expire'] and settings['expire'] < current_time` -/
def expired (e : Option Nat) (t : Nat) : Bool :=
  match e with
  | some x => x != 0 && x < t
  | none => false

/-- the (name, value) pairs `load_machine_vars` restores at time `t` -/
def reload (f : List Entry) (t : Nat) : List (Nat × Option Int) :=
  f.filterMap (fun e => if expired e.expire t then none else some (e.name, e.value))

/-- `configure_machine_var` (does not write) -/
def configure (vs : List MV) (now n : Nat) (persist : Bool) (exp : Nat) : List MV :=
  let to := if exp = 0 then none else some (now + exp)
  match find n vs with
  | none => vs ++ [{ name := n, persist := persist, expireSecs := exp, timeout := to }]
  | some v => replace { v with persist := persist, expireSecs := exp, timeout := to } vs

/-- `set_machine_var` -/
def setVar (s : St) (now n : Nat) (val : Option Int) (persist : Bool) : St :=
  let isNew := (find n s.vars).isNone
  let vs0 := if isNew then configure s.vars now n persist 0 else s.vars
  match find n vs0 with
  | none => s
  | some v =>
    let change := isNew || v.value != val
    let v' := { v with value := val, timeout := if v.expireSecs = 0 then v.timeout else some (now + v.expireSecs) }
    let vs := replace v' vs0
    let write := (change || v.expireSecs != 0) && v'.persist
    { vars := vs, file := if write then snapshot vs else s.file }

/-- `remove_machine_var` -/
def remove (s : St) (n : Nat) : St :=
  match find n s.vars with
  | none => s
  | some _ =>
    let vs := s.vars.filter (fun v => v.name != n)
    { vars := vs, file := snapshot vs }

/-- next boot at time `t`: a fresh variable store loads the file -/
def boot (s : St) (t : Nat) : St :=
  (reload s.file t).foldl (fun st e => setVar st t e.1 e.2 true) { vars := [], file := s.file }

/-! ## driver (serves the writer model and this one) -/

def showOI : Option Int → String
  | none => "N"
  | some i => toString i

def showON : Option Nat → String
  | none => "N"
  | some i => toString i

def showSt (s : St) : String :=
  "vars" ++ String.join (s.vars.map (fun v => " " ++ toString v.name ++ "=" ++ showOI v.value ++ ":" ++
      (if v.persist then "1" else "0") ++ ":" ++ toString v.expireSecs ++ ":" ++ showON v.timeout)) ++
  " file" ++ String.join (s.file.map (fun e => " " ++ toString e.name ++ "=" ++ showOI e.value ++ ":" ++ showON e.expire))

def parseOI (s : String) : Option (Option Int) :=
  if s = "N" then some none else (s.toInt?).map some

structure DSt where
  w : Writer.St := {}
  m : St := {}

def driverStep (d : DSt) (line : String) : DSt × String :=
  match line.splitOn " " with
  | ["mvreset"] => ({ d with m := {} }, "ok")
  | ["cfg", now, n, p, e] =>
    match now.toNat?, n.toNat?, e.toNat? with
    | some t, some k, some x =>
      let m := { d.m with vars := configure d.m.vars t k (p = "1") x }; ({ d with m := m }, showSt m)
    | _, _, _ => (d, "bad-op")
  | ["set", now, n, v, p] =>
    match now.toNat?, n.toNat?, parseOI v with
    | some t, some k, some x => let m := setVar d.m t k x (p = "1"); ({ d with m := m }, showSt m)
    | _, _, _ => (d, "bad-op")
  | ["rm", n] =>
    match n.toNat? with
    | some k => let m := remove d.m k; ({ d with m := m }, showSt m)
    | none => (d, "bad-op")
  | ["boot", now] =>
    match now.toNat? with
    | some t => let m := boot d.m t; ({ d with m := m }, showSt m)
    | none => (d, "bad-op")
  | _ => let (w, o) := Writer.driverStep d.w line; ({ d with w := w }, o)

end MpfVerif.MachineVars
