/-!
# Model of `mpf/core/switch_controller.py` for one switch — property C03

The controller keeps, per switch and independently of all other switches, the logical/raw state with the time of the
last change, the registered handlers per state (`registered_switches[switch][state]`, a list of `(ms, callback)`), the
pending hold-time deadlines (`_active_timed_switches[switch]`, an insertion-ordered dict deadline ↦ list of handlers) and
the single scheduled wake-up (`_timed_switch_handler_delay[switch] = (handle, time)`).  This model has exactly these
fields.  Time is `Nat` ticks (harness: 1 tick = 1/8 s, so `last_change + ms/1000.0` is exact).  Callbacks are opaque ids.

The loop is not guessed: `Op.to t` (time passes) is impossible beyond a scheduled wake-up, `Op.wake` is the loop running
`_process_active_timed_switches` — the caller (the harness, from what asyncio did) chooses when among same-instant work.
-/
namespace MpfVerif.Switch

/-- `TimedSwitchHandler(callback, state, ms)` -/
structure TEntry where
  cb : Nat
  st : Bool
  ms : Nat
deriving DecidableEq, Repr

/-- `RegisteredSwitch(ms, callback)` -/
structure Reg where
  cb : Nat
  ms : Nat
deriving DecidableEq, Repr

structure Sw where
  invert : Bool := false
  state : Bool := false
  hw : Bool := false
  /-- time of the last change; `none` = never changed since start (`last_change = -100000`) -/
  lastChange : Option Nat := none
  reg0 : List Reg := []
  reg1 : List Reg := []
  timed : List (Nat × List TEntry) := []
  wake : Option Nat := none
  now : Nat := 0
deriving Repr

inductive Op
  | report (logical : Bool) (v : Bool)
  | add (st : Bool) (ms cb : Nat)
  | remove (st : Bool) (ms cb : Nat)
  | to (t : Nat)
  | wake
  | query (st : Bool) (ms : Nat)
deriving DecidableEq, Repr

inductive Obs
  | call (cb : Nat) (st : Bool) (ms : Nat) (t : Nat)   -- a handler registered for (st, ms) was invoked at t
  | answer (b : Bool)                                  -- is_active / is_inactive result
deriving DecidableEq, Repr

def Sw.reg (s : Sw) (st : Bool) : List Reg := if st then s.reg1 else s.reg0

def Sw.setReg (s : Sw) (st : Bool) (l : List Reg) : Sw := if st then { s with reg1 := l } else { s with reg0 := l }

def minKey : List (Nat × List TEntry) → Option Nat
  | [] => none
  | (k, _) :: r => match minKey r with
    | none => some k
    | some m => some (if k ≤ m then k else m)

/-- insert into the insertion-ordered dict deadline ↦ handlers -/
def insertTimed (key : Nat) (e : TEntry) : List (Nat × List TEntry) → List (Nat × List TEntry)
  | [] => [(key, [e])]
  | (k, es) :: r => if k = key then (k, es ++ [e]) :: r else (k, es) :: insertTimed key e r

/-- `_add_timed_switch_handler` -/
def addTimed (s : Sw) (key : Nat) (e : TEntry) : Sw :=
  let timed := insertTimed key e s.timed
  let next := (minKey timed).getD key
  let wake := match s.wake with
    | none => some next
    | some w => if next < w then some next else some w
  { s with timed := timed, wake := wake }

/-- `_call_handlers`: untimed handlers run now, timed ones get a deadline -/
def callHandlers (st : Bool) (lc : Nat) : List Reg → Sw → Sw × List Obs
  | [], s => (s, [])
  | r :: rest, s =>
    if r.ms = 0 then
      let x := callHandlers st lc rest s
      (x.1, .call r.cb st 0 lc :: x.2)
    else
      callHandlers st lc rest (addTimed s (lc + r.ms) ⟨r.cb, st, r.ms⟩)

/-- logical state a report stands for -/
def logicalOf (invert logical v : Bool) : Bool := if logical then v else (v != invert)

def isMatch (st : Bool) (ms cb : Nat) (e : TEntry) : Bool := e.st == st && e.ms == ms && e.cb == cb

/-- due keys are called in dict order and deleted; the rest stays -/
def processTimed (now : Nat) : List (Nat × List TEntry) → List (Nat × List TEntry) × List Obs
  | [] => ([], [])
  | (k, es) :: r =>
    let x := processTimed now r
    if k ≤ now then (x.1, es.map (fun e => Obs.call e.cb e.st e.ms now) ++ x.2)
    else ((k, es) :: x.1, x.2)

def step (s : Sw) : Op → Option (Sw × List Obs)
  | .report logical v =>
    let st := logicalOf s.invert logical v
    if st = s.state then some (s, [])            -- duplicate: nothing at all
    else
      -- state/hw_state/last_change, `_cancel_timed_handlers`, `_call_handlers`
      let s1 := { s with state := st, hw := (st != s.invert), lastChange := some s.now, timed := [], wake := none }
      some (callHandlers st s.now (s1.reg st) s1)
  | .add st ms cb =>
    let s1 := s.setReg st (s.reg st ++ [⟨cb, ms⟩])
    -- in-progress catch-up: `last_change + ms/1000 > now and state == switch.state`
    match s.lastChange with
    | some lc => if ms ≠ 0 ∧ s.now < lc + ms ∧ st = s.state then some (addTimed s1 (lc + ms) ⟨cb, st, ms⟩, [])
                 else some (s1, [])
    | none => some (s1, [])
  | .remove st ms cb =>
    let s1 := s.setReg st ((s.reg st).filter (fun r => !(r.ms == ms && r.cb == cb)))
    some ({ s1 with timed := s1.timed.map (fun kv => (kv.1, kv.2.filter (fun e => !isMatch st ms cb e))) }, [])
  | .to t =>
    if s.now ≤ t ∧ t ≤ s.wake.getD t then some ({ s with now := t }, []) else none
  | .wake =>
    match s.wake with
    | none => none
    | some w =>
      if w ≤ s.now then
        let x := processTimed s.now s.timed
        some ({ s with timed := x.1, wake := minKey x.1 }, x.2)
      else none
  | .query st ms =>
    let held := match s.lastChange with
      | none => true
      | some lc => lc + ms ≤ s.now
    some (s, [.answer (s.state == st && (ms == 0 || held))])

def run : Sw → List Op → Option (Sw × List Obs)
  | s, [] => some (s, [])
  | s, op :: ops =>
    match step s op with
    | none => none
    | some r1 =>
      match run r1.1 ops with
      | none => none
      | some r2 => some (r2.1, r1.2 ++ r2.2)

/-! ## The Switch device's own events (`mpf/devices/switch.py`)

At start-up the device registers one untimed handler per state with the controller: `_post_events(state)` when
`ignore_window_ms` is 0, `_post_events_with_recycle(state)` otherwise (events with `|ms` are ordinary timed handlers of the
controller model above).  So the controller calls it exactly once per real change (`untimed_once_per_change`); `Dev` is
what the device does with those calls.  `post st` = all configured events for state `st` are posted
(`<name>_active/_inactive`, tag events, `events_when_activated/deactivated`). -/

structure Dev where
  /-- `ignore_window_ms` in ticks; 0 = no window -/
  window : Nat := 0
  state : Bool := false
  /-- `recycle_clear_time` -/
  clear : Option Nat := none
  /-- the state bound to the pending `_recycle_passed` call -/
  opened : Bool := false
  /-- ghost: the state of the last post (initially the start-up state) -/
  posted : Bool := false
  now : Nat := 0
deriving Repr, DecidableEq

inductive DOp
  | change (st : Bool)   -- the controller reports a real change into `st` to the device's handler
  | to (t : Nat)
  | pass                 -- the loop runs `_recycle_passed`
deriving Repr, DecidableEq

inductive DObs
  | post (st : Bool)
deriving Repr, DecidableEq

def dstep (d : Dev) : DOp → Option (Dev × List DObs)
  | .change st =>
    if st = d.state then none
    else if d.window = 0 then some ({ d with state := st, posted := st }, [.post st])     -- `_post_events`
    else match d.clear with                                                           -- `_post_events_with_recycle`
      | some _ => some ({ d with state := st }, [])
      | none => some ({ d with state := st, clear := some (d.now + d.window), opened := st, posted := st }, [.post st])
  | .to t => if d.now ≤ t ∧ t ≤ d.clear.getD t then some ({ d with now := t }, []) else none
  | .pass =>
    match d.clear with
    | none => none
    | some c =>
      if c ≤ d.now then
        -- `_recycle_passed(state)`: window closed; post only if the switch toggled
        if d.state = d.opened then some ({ d with clear := none }, [])
        else some ({ d with clear := none, posted := d.state }, [.post d.state])
      else none

def drun : Dev → List DOp → Option (Dev × List DObs)
  | d, [] => some (d, [])
  | d, op :: ops =>
    match dstep d op with
    | none => none
    | some r1 =>
      match drun r1.1 ops with
      | none => none
      | some r2 => some (r2.1, r1.2 ++ r2.2)

/-! ## line protocol: `new`, `sw <invert> <initial state> <initial hw_state>` (adds a switch), `<i> report l|r 0|1`,
`<i> add st ms cb`, `<i> rm st ms cb`, `<i> wake`, `<i> q st ms`, `to t` (all switches), `<i> pending` -/

def b01 (t : String) : Option Bool := if t == "1" then some true else if t == "0" then some false else none

def showB (b : Bool) : String := if b then "1" else "0"

def showObs : Obs → String
  | .call cb st ms t => s!"c {cb} {showB st} {ms} {t}"
  | .answer b => s!"a {showB b}"

def showAll (os : List Obs) : String := if os.isEmpty then "ok" else " ".intercalate (os.map showObs)

def parseOp : List String → Option Op
  | ["report", k, v] => do
    let l ← if k == "l" then some true else if k == "r" then some false else none
    some (.report l (← b01 v))
  | ["add", st, ms, cb] => do some (.add (← b01 st) (← ms.toNat?) (← cb.toNat?))
  | ["rm", st, ms, cb] => do some (.remove (← b01 st) (← ms.toNat?) (← cb.toNat?))
  | ["wake"] => some .wake
  | ["q", st, ms] => do some (.query (← b01 st) (← ms.toNat?))
  | _ => none

def setAt (l : List Sw) (i : Nat) (s : Sw) : List Sw := l.set i s

def toAll (t : Nat) : List Sw → Option (List Sw)
  | [] => some []
  | s :: r => do
    let x ← step s (.to t)
    let y ← toAll t r
    some (x.1 :: y)

def toAllD (t : Nat) : List Dev → Option (List Dev)
  | [] => some []
  | d :: r => do
    let x ← dstep d (.to t)
    let y ← toAllD t r
    some (x.1 :: y)

def showPending (s : Sw) : String :=
  "T " ++ " ".intercalate (s.timed.map (fun kv => s!"{kv.1}:" ++ ",".intercalate (kv.2.map (fun e => s!"{e.cb}/{showB e.st}/{e.ms}"))))
    ++ " W " ++ (match s.wake with | none => "-" | some w => toString w)
    ++ " S " ++ showB s.state ++ showB s.hw

structure Drv where
  sws : List Sw := []
  devs : List Dev := []

def showD (os : List DObs) : String :=
  if os.isEmpty then "ok" else " ".intercalate (os.map (fun o => match o with | .post st => s!"post {showB st}"))

/-- extra lines for the device model: `dev <window> <state>` (adds a device), `d <i> change 0|1`, `d <i> pass` -/
def driverStep (d : Drv) (line : String) : Drv × String :=
  match (line.splitOn " ").filter (fun x => x != "") with
  | ["new"] => ({}, "ok")
  | ["sw", inv, st, hw] =>
    match b01 inv, b01 st, b01 hw with
    | some i, some v, some h => ({ d with sws := d.sws ++ [{ invert := i, state := v, hw := h }] }, "ok")
    | _, _, _ => (d, "bad-op")
  | ["dev", w, st] =>
    match w.toNat?, b01 st with
    | some w, some v => ({ d with devs := d.devs ++ [{ window := w, state := v, posted := v }] }, "ok")
    | _, _ => (d, "bad-op")
  | ["to", t] =>
    match t.toNat? with
    | some t => match toAll t d.sws, toAllD t d.devs with
      | some s', some d' => ({ sws := s', devs := d' }, "ok")
      | _, _ => (d, "not-enabled")
    | none => (d, "bad-op")
  | "d" :: i :: rest =>
    match i.toNat? with
    | some i =>
      match d.devs[i]? with
      | some dv =>
        let op : Option DOp := match rest with
          | ["change", st] => (b01 st).map .change
          | ["pass"] => some .pass
          | _ => none
        match op with
        | some op => match dstep dv op with
          | some r => ({ d with devs := d.devs.set i r.1 }, showD r.2)
          | none => (d, "not-enabled")
        | none => (d, "bad-op")
      | none => (d, "bad-op")
    | none => (d, "bad-op")
  | i :: rest =>
    match i.toNat? with
    | some i =>
      match d.sws[i]? with
      | some s =>
        if rest == ["pending"] then (d, showPending s) else
        match parseOp rest with
        | some op => match step s op with
          | some r => ({ d with sws := setAt d.sws i r.1 }, showAll r.2)
          | none => (d, "not-enabled")
        | none => (d, "bad-op")
      | none => (d, "bad-op")
    | none => (d, "bad-op")
  | _ => (d, "bad-op")

end MpfVerif.Switch
