/-!
# Model of `mpf/core/switch_controller.py` for one switch — property C03

The controller keeps, per switch and independently of all other switches, the logical/raw state with the time of the
last change, the registered handlers per state (`registered_switches[switch][state]`, a list of `(ms, callback)`), the
pending hold-time deadlines (`_active_timed_switches[switch]`, an insertion-ordered dict deadline ↦ list of handlers) and
the single scheduled wake-up (`_timed_switch_handler_delay[switch] = (handle, time)`).  This model has exactly these
fields (plus the switch's mute set and whether a monitor is installed).  Time is `Nat` ticks (harness: 1 tick = 1/8 s, so
`last_change + ms/1000.0` is exact).  Callbacks are ids; what a callback does when it is called is given by `P : Prog` — a list
of `add`/`remove` actions on the handlers of its own switch — so that handlers which register or remove handlers (their own,
a peer's, one that is later in the same walk or in the same deadline bucket) during `_call_handlers` and
`_process_active_timed_switches` are part of the model; the theorems quantify over every `P`.

The loop is not guessed: `Op.to t` (time passes) is impossible beyond a scheduled wake-up, `Op.wake` is the loop running
`_process_active_timed_switches` — the caller (the harness, from what asyncio did) chooses when among same-instant work.
-/
namespace MpfVerif.Switch

/-- `TimedSwitchHandler(callback, state, ms)` -/
structure TEntry where
  cb : Nat
  st : Bool
  ms : Nat
deriving DecidableEq, Repr

/-- `RegisteredSwitch(ms, callback)` -/
structure Reg where
  cb : Nat
  ms : Nat
deriving DecidableEq, Repr

/-- what a callback does to the handlers of its own switch when it is invoked (in order) -/
inductive Act
  | add (st : Bool) (ms cb : Nat)       -- `add_switch_handler_obj(switch, cb, st, ms)`
  | remove (st : Bool) (ms cb : Nat)    -- `remove_switch_handler_obj(switch, cb, st, ms)`
deriving DecidableEq, Repr

/-- the behaviour of every callback id (arbitrary; the theorems quantify over it) -/
abbrev Prog := Nat → List Act

structure Sw where
  invert : Bool := false
  state : Bool := false
  hw : Bool := false
  /-- time of the last change; `none` = never changed since start (`last_change = -100000`) -/
  lastChange : Option Nat := none
  reg0 : List Reg := []
  reg1 : List Reg := []
  timed : List (Nat × List TEntry) := []
  wake : Option Nat := none
  now : Nat := 0
  /-- `Switch._mutes` (a set of sources) -/
  mutes : List Nat := []
  /-- a monitor is installed (`SwitchController.monitors`) -/
  mon : Bool := false
deriving Repr

inductive Op
  | report (logical : Bool) (v : Bool)
  | add (st : Bool) (ms cb : Nat)
  | remove (st : Bool) (ms cb : Nat)
  | to (t : Nat)
  | wake
  | query (st : Bool) (ms : Nat)
  | mute (src : Nat)
  | unmute (src : Nat)
  | monitor (on : Bool)
  | resync (hw : Bool)      -- FAST `update_switches_from_hw_data`: hardware snapshot, differences are processed as changes
  | poll (hw : Bool)        -- `update_switches_from_hw` (`verify_switches`): the state is overwritten silently
deriving DecidableEq, Repr

inductive Obs
  | call (cb : Nat) (st : Bool) (ms : Nat) (t : Nat)   -- a handler registered for (st, ms) was invoked at t
  | answer (b : Bool)                                  -- is_active / is_inactive result
  | monitor (st : Bool)                                -- a monitor was told about a change into `st`
deriving DecidableEq, Repr

def Sw.reg (s : Sw) (st : Bool) : List Reg := if st then s.reg1 else s.reg0

def Sw.setReg (s : Sw) (st : Bool) (l : List Reg) : Sw := if st then { s with reg1 := l } else { s with reg0 := l }

def minKey : List (Nat × List TEntry) → Option Nat
  | [] => none
  | (k, _) :: r => match minKey r with
    | none => some k
    | some m => some (if k ≤ m then k else m)

/-- insert into the insertion-ordered dict deadline ↦ handlers -/
def insertTimed (key : Nat) (e : TEntry) : List (Nat × List TEntry) → List (Nat × List TEntry)
  | [] => [(key, [e])]
  | (k, es) :: r => if k = key then (k, es ++ [e]) :: r else (k, es) :: insertTimed key e r

/-- `_add_timed_switch_handler` -/
def addTimed (s : Sw) (key : Nat) (e : TEntry) : Sw :=
  let timed := insertTimed key e s.timed
  let next := (minKey timed).getD key
  let wake := match s.wake with
    | none => some next
    | some w => if next < w then some next else some w
  { s with timed := timed, wake := wake }

/-- logical state a report stands for -/
def logicalOf (invert logical v : Bool) : Bool := if logical then v else (v != invert)

def isMatch (st : Bool) (ms cb : Nat) (e : TEntry) : Bool := e.st == st && e.ms == ms && e.cb == cb

/-- `add_switch_handler_obj`: register, and catch up with a hold time that is still running
(`last_change + ms/1000 > now and state == switch.state`) -/
def addH (s : Sw) (st : Bool) (ms cb : Nat) : Sw :=
  let s1 := s.setReg st (s.reg st ++ [⟨cb, ms⟩])
  match s.lastChange with
  | some lc => if ms ≠ 0 ∧ s.now < lc + ms ∧ st = s.state then addTimed s1 (lc + ms) ⟨cb, st, ms⟩ else s1
  | none => s1

/-- `remove_switch_handler_obj`: every matching registration and every matching pending entry goes (the deadline keys stay) -/
def removeH (s : Sw) (st : Bool) (ms cb : Nat) : Sw :=
  let s1 := s.setReg st ((s.reg st).filter (fun r => !(r.ms == ms && r.cb == cb)))
  { s1 with timed := s1.timed.map (fun kv => (kv.1, kv.2.filter (fun e => !isMatch st ms cb e))) }

def applyAct (s : Sw) : Act → Sw
  | .add st ms cb => addH s st ms cb
  | .remove st ms cb => removeH s st ms cb

/-- a callback runs: its actions in order -/
def applyActs (s : Sw) : List Act → Sw
  | [] => s
  | a :: r => applyActs (applyAct s a) r

/-- the registrations for state `st` that a callback's actions cancel (`entry.cancelled = True`) -/
def cancOf (st : Bool) : List Act → List Reg
  | [] => []
  | .remove st' ms cb :: r => if st' = st then ⟨cb, ms⟩ :: cancOf st r else cancOf st r
  | .add _ _ _ :: r => cancOf st r

/-- `_call_handlers`: walks a *copy* of the registrations for the new state (`snapshot`); an entry cancelled by an earlier
callback of this walk (`canc`) is skipped; untimed handlers run now (and may add/remove handlers), timed ones get a deadline.
Registrations added during the walk are not in the copy, so they are not called in this round. -/
def callHandlers (P : Prog) (st : Bool) (lc : Nat) : List Reg → List Reg → Sw → Sw × List Obs
  | _, [], s => (s, [])
  | canc, r :: rest, s =>
    if r ∈ canc then callHandlers P st lc canc rest s
    else if r.ms = 0 then
      let x := callHandlers P st lc (canc ++ cancOf st (P r.cb)) rest (applyActs s (P r.cb))
      (x.1, .call r.cb st 0 lc :: x.2)
    else
      callHandlers P st lc canc rest (addTimed s (lc + r.ms) ⟨r.cb, st, r.ms⟩)

def lookupT (k : Nat) : List (Nat × List TEntry) → List TEntry
  | [] => []
  | (k', es) :: r => if k' = k then es else lookupT k r

def eraseT (k : Nat) (l : List (Nat × List TEntry)) : List (Nat × List TEntry) := l.filter (fun kv => kv.1 != k)

/-- the inner loop of `_process_active_timed_switches` for one expired deadline `k`: walks a copy of the bucket; an entry
that is no longer in the live bucket (`if entry not in self._active_timed_switches[switch][k]`: removed by an earlier
callback) is skipped -/
def procEntries (P : Prog) (k now : Nat) : List TEntry → Sw → Sw × List Obs
  | [], s => (s, [])
  | e :: rest, s =>
    if e ∈ lookupT k s.timed then
      let x := procEntries P k now rest (applyActs s (P e.cb))
      (x.1, .call e.cb e.st e.ms now :: x.2)
    else procEntries P k now rest s

/-- the outer loop over a copy of the deadline keys: an expired deadline's bucket is processed and only then deleted;
deadlines added by callbacks are not in the copy -/
def procKeys (P : Prog) (now : Nat) : List Nat → Sw → Sw × List Obs
  | [], s => (s, [])
  | k :: ks, s =>
    if k ≤ now then
      let a := procEntries P k now (lookupT k s.timed) s
      let b := procKeys P now ks { a.1 with timed := eraseT k a.1.timed }
      (b.1, a.2 ++ b.2)
    else procKeys P now ks s

/-- the state right after a report that changes the switch, before the handlers are walked
(`state/hw_state/last_change`, `_cancel_timed_handlers`) -/
def changed (s : Sw) (st : Bool) : Sw :=
  { s with state := st, hw := (st != s.invert), lastChange := some s.now, timed := [], wake := none }

/-- `process_switch_obj` for a report standing for logical state `st` -/
def reportL (P : Prog) (s : Sw) (st : Bool) : Sw × List Obs :=
  if st = s.state then (s, [])            -- duplicate: nothing at all
  else
    let s1 := changed s st
    -- a muted switch changes state but calls no handler; monitors are told in any case
    let x := if s1.mutes = [] then callHandlers P st s.now [] (s1.reg st) s1 else (s1, [])
    (x.1, x.2 ++ (if s.mon then [.monitor st] else []))

def step (P : Prog) (s : Sw) : Op → Option (Sw × List Obs)
  | .report logical v => some (reportL P s (logicalOf s.invert logical v))
  | .add st ms cb => some (addH s st ms cb, [])
  | .remove st ms cb => some (removeH s st ms cb, [])
  | .to t =>
    if s.now ≤ t ∧ t ≤ s.wake.getD t then some ({ s with now := t }, []) else none
  | .wake =>
    match s.wake with
    | none => none
    | some w =>
      if w ≤ s.now then
        -- `del self._timed_switch_handler_delay[switch]`, the loops, then one wake-up at the minimum of what is pending now
        let x := procKeys P s.now (s.timed.map (·.1)) { s with wake := none }
        some ({ x.1 with wake := minKey x.1.timed }, x.2)
      else none
  | .query st ms =>
    let held := match s.lastChange with
      | none => true
      | some lc => lc + ms ≤ s.now
    some (s, [.answer (s.state == st && (ms == 0 || held))])
  | .mute src => some ({ s with mutes := if src ∈ s.mutes then s.mutes else src :: s.mutes }, [])
  | .unmute src => some ({ s with mutes := s.mutes.filter (fun x => x != src) }, [])
  | .monitor on => some ({ s with mon := on }, [])
  | .resync hw =>
    -- `switch.hw_state = hw_state`; a differing logical state is processed like any (logical) switch change
    some (reportL P { s with hw := hw } (hw != s.invert))
  | .poll hw => some ({ s with state := (hw != s.invert) }, [])

def run (P : Prog) : Sw → List Op → Option (Sw × List Obs)
  | s, [] => some (s, [])
  | s, op :: ops =>
    match step P s op with
    | none => none
    | some r1 =>
      match run P r1.1 ops with
      | none => none
      | some r2 => some (r2.1, r1.2 ++ r2.2)

/-! ## The Switch device's own events (`mpf/devices/switch.py`)

At start-up the device registers one untimed handler per state with the controller: `_post_events(state)` when
`ignore_window_ms` is 0, `_post_events_with_recycle(state)` otherwise (events with `|ms` are ordinary timed handlers of the
controller model above).  So the controller calls it exactly once per real change (`untimed_once_per_change`); `Dev` is
what the device does with those calls.  `post st` = all configured events for state `st` are posted
(`<name>_active/_inactive`, tag events, `events_when_activated/deactivated`). -/

structure Dev where
  /-- `ignore_window_ms` in ticks; 0 = no window -/
  window : Nat := 0
  state : Bool := false
  /-- `recycle_clear_time` -/
  clear : Option Nat := none
  /-- the state bound to the pending `_recycle_passed` call -/
  opened : Bool := false
  /-- ghost: the state of the last post (initially the start-up state) -/
  posted : Bool := false
  now : Nat := 0
deriving Repr, DecidableEq

inductive DOp
  | change (st : Bool)   -- the controller reports a real change into `st` to the device's handler
  | to (t : Nat)
  | pass                 -- the loop runs `_recycle_passed`
deriving Repr, DecidableEq

inductive DObs
  | post (st : Bool)
deriving Repr, DecidableEq

def dstep (d : Dev) : DOp → Option (Dev × List DObs)
  | .change st =>
    if st = d.state then none
    else if d.window = 0 then some ({ d with state := st, posted := st }, [.post st])     -- `_post_events`
    else match d.clear with                                                           -- `_post_events_with_recycle`
      | some _ => some ({ d with state := st }, [])
      | none => some ({ d with state := st, clear := some (d.now + d.window), opened := st, posted := st }, [.post st])
  | .to t => if d.now ≤ t ∧ t ≤ d.clear.getD t then some ({ d with now := t }, []) else none
  | .pass =>
    match d.clear with
    | none => none
    | some c =>
      if c ≤ d.now then
        -- `_recycle_passed(state)`: window closed; post only if the switch toggled
        if d.state = d.opened then some ({ d with clear := none }, [])
        else some ({ d with clear := none, posted := d.state }, [.post d.state])
      else none

def drun : Dev → List DOp → Option (Dev × List DObs)
  | d, [] => some (d, [])
  | d, op :: ops =>
    match dstep d op with
    | none => none
    | some r1 =>
      match drun r1.1 ops with
      | none => none
      | some r2 => some (r2.1, r1.2 ++ r2.2)

/-! ## line protocol: `new`, `sw <invert> <initial state> <initial hw_state>` (adds a switch), `prog <cb> (a|r st ms cb)*`
(what callback `cb` does when called), `<i> report l|r 0|1`, `<i> add st ms cb`, `<i> rm st ms cb`, `<i> wake`, `<i> q st ms`,
`<i> mute src`, `<i> unmute src`, `mon 0|1` (all switches), `<i> resync hw`, `<i> poll hw`, `to t` (all switches), `<i> pending` -/

def b01 (t : String) : Option Bool := if t == "1" then some true else if t == "0" then some false else none

def showB (b : Bool) : String := if b then "1" else "0"

def showObs : Obs → String
  | .call cb st ms t => s!"c {cb} {showB st} {ms} {t}"
  | .answer b => s!"a {showB b}"
  | .monitor st => s!"m {showB st}"

def showAll (os : List Obs) : String := if os.isEmpty then "ok" else " ".intercalate (os.map showObs)

def parseOp : List String → Option Op
  | ["report", k, v] => do
    let l ← if k == "l" then some true else if k == "r" then some false else none
    some (.report l (← b01 v))
  | ["add", st, ms, cb] => do some (.add (← b01 st) (← ms.toNat?) (← cb.toNat?))
  | ["rm", st, ms, cb] => do some (.remove (← b01 st) (← ms.toNat?) (← cb.toNat?))
  | ["wake"] => some .wake
  | ["q", st, ms] => do some (.query (← b01 st) (← ms.toNat?))
  | ["mute", src] => do some (.mute (← src.toNat?))
  | ["unmute", src] => do some (.unmute (← src.toNat?))
  | ["resync", hw] => do some (.resync (← b01 hw))
  | ["poll", hw] => do some (.poll (← b01 hw))
  | _ => none

/-- `a st ms cb` / `r st ms cb` groups -/
def parseActs : List String → Option (List Act)
  | [] => some []
  | k :: st :: ms :: cb :: rest => do
    let st ← b01 st
    let ms ← ms.toNat?
    let cb ← cb.toNat?
    let tl ← parseActs rest
    if k == "a" then some (.add st ms cb :: tl) else if k == "r" then some (.remove st ms cb :: tl) else none
  | _ => none

def progOf (l : List (Nat × List Act)) : Prog := fun cb =>
  match l.find? (fun kv => kv.1 == cb) with
  | some kv => kv.2
  | none => []

def setAt (l : List Sw) (i : Nat) (s : Sw) : List Sw := l.set i s

def toAll (t : Nat) : List Sw → Option (List Sw)
  | [] => some []
  | s :: r => do
    let x ← step (fun _ => []) s (.to t)
    let y ← toAll t r
    some (x.1 :: y)

def toAllD (t : Nat) : List Dev → Option (List Dev)
  | [] => some []
  | d :: r => do
    let x ← dstep d (.to t)
    let y ← toAllD t r
    some (x.1 :: y)

def showPending (s : Sw) : String :=
  "T " ++ " ".intercalate (s.timed.map (fun kv => s!"{kv.1}:" ++ ",".intercalate (kv.2.map (fun e => s!"{e.cb}/{showB e.st}/{e.ms}"))))
    ++ " W " ++ (match s.wake with | none => "-" | some w => toString w)
    ++ " S " ++ showB s.state ++ showB s.hw

structure Drv where
  sws : List Sw := []
  devs : List Dev := []
  progs : List (Nat × List Act) := []

def showD (os : List DObs) : String :=
  if os.isEmpty then "ok" else " ".intercalate (os.map (fun o => match o with | .post st => s!"post {showB st}"))

/-- extra lines for the device model: `dev <window> <state>` (adds a device), `d <i> change 0|1`, `d <i> pass` -/
def driverStep (d : Drv) (line : String) : Drv × String :=
  match (line.splitOn " ").filter (fun x => x != "") with
  | ["new"] => ({}, "ok")
  | ["sw", inv, st, hw] =>
    match b01 inv, b01 st, b01 hw with
    | some i, some v, some h => ({ d with sws := d.sws ++ [{ invert := i, state := v, hw := h }] }, "ok")
    | _, _, _ => (d, "bad-op")
  | ["dev", w, st] =>
    match w.toNat?, b01 st with
    | some w, some v => ({ d with devs := d.devs ++ [{ window := w, state := v, posted := v }] }, "ok")
    | _, _ => (d, "bad-op")
  | ["to", t] =>
    match t.toNat? with
    | some t => match toAll t d.sws, toAllD t d.devs with
      | some s', some d' => ({ d with sws := s', devs := d' }, "ok")
      | _, _ => (d, "not-enabled")
    | none => (d, "bad-op")
  | "prog" :: cb :: rest =>
    match cb.toNat?, parseActs rest with
    | some cb, some acts => ({ d with progs := (cb, acts) :: d.progs }, "ok")
    | _, _ => (d, "bad-op")
  | ["mon", on] =>
    match b01 on with
    | some on => ({ d with sws := d.sws.map (fun s => { s with mon := on }) }, "ok")
    | none => (d, "bad-op")
  | "d" :: i :: rest =>
    match i.toNat? with
    | some i =>
      match d.devs[i]? with
      | some dv =>
        let op : Option DOp := match rest with
          | ["change", st] => (b01 st).map .change
          | ["pass"] => some .pass
          | _ => none
        match op with
        | some op => match dstep dv op with
          | some r => ({ d with devs := d.devs.set i r.1 }, showD r.2)
          | none => (d, "not-enabled")
        | none => (d, "bad-op")
      | none => (d, "bad-op")
    | none => (d, "bad-op")
  | i :: rest =>
    match i.toNat? with
    | some i =>
      match d.sws[i]? with
      | some s =>
        if rest == ["pending"] then (d, showPending s) else
        match parseOp rest with
        | some op => match step (progOf d.progs) s op with
          | some r => ({ d with sws := setAt d.sws i r.1 }, showAll r.2)
          | none => (d, "not-enabled")
        | none => (d, "bad-op")
      | none => (d, "bad-op")
    | none => (d, "bad-op")
  | _ => (d, "bad-op")

end MpfVerif.Switch
