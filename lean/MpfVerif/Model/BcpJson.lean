import MpfVerif.Model.Bcp
/-!
# JSON text of BCP messages (C19) — concrete model of `json.dumps` / `json.loads`

`jenc` prints a value exactly as CPython 3.12 `json.dumps(v)` does with the default settings
(`ensure_ascii=True`, separators `", "` and `": "`); `jdec` is a recursive-descent parser in the shape of
`json.loads` (`json.decoder.JSONDecoder` + `json.scanner.py_make_scanner` + `scanstring`, strict mode).

The text is a list of *code points* of a Python `str` (`json.loads` is given a `str`); the output of `jenc` is pure
printable ASCII, so there code points and bytes coincide.

Everything is structurally recursive (explicit fuel for nested values), so the kernel (`decide`, `rfl`) and the
compiled driver run the same definitions.  The round-trip theorem is in `MpfVerif/Lemmas/BcpJson.lean`.
-/
namespace MpfVerif.Bcp

/-- the value subset of JSON-serialisable Python objects -/
inductive J
  | null
  | bool (b : Bool)
  | int (i : Int)
  /-- a Python float, carried as the text `json.dumps` prints for it: `float.__repr__` for a finite float
      (`1.5`, `-0.0`, `1e+22`, `1e-07`), `Infinity`, `-Infinity` (and `NaN`) otherwise -/
  | flt (text : Bytes)
  /-- a Python `str` as its list of Unicode code points -/
  | str (cps : List Nat)
  | arr (l : List J)
  /-- a `dict` with `str` keys, in insertion order -/
  | obj (l : List (List Nat × J))

/-! ## encoder: `json.dumps` -/

/-- lower-case hex digit of n < 16 -/
def hexLow (n : Nat) : Nat := if n < 10 then 48 + n else 87 + n

/-- `\uXXXX` with four lower-case hex digits (n < 0x10000) -/
def u4 (n : Nat) : Bytes :=
  [92, 117, hexLow (n / 4096 % 16), hexLow (n / 256 % 16), hexLow (n / 16 % 16), hexLow (n % 16)]

/-- `py_encode_basestring_ascii` on one code point -/
def escCp (cp : Nat) : Bytes :=
  if cp = 34 then [92, 34]
  else if cp = 92 then [92, 92]
  else if cp = 8 then [92, 98]
  else if cp = 12 then [92, 102]
  else if cp = 10 then [92, 110]
  else if cp = 13 then [92, 114]
  else if cp = 9 then [92, 116]
  else if 32 ≤ cp ∧ cp ≤ 126 then [cp]
  else if cp < 65536 then u4 cp
  else u4 (55296 + (cp - 65536) / 1024) ++ u4 (56320 + (cp - 65536) % 1024)

def encStrBody : List Nat → Bytes
  | [] => []
  | c :: r => escCp c ++ encStrBody r

/-- a JSON string literal -/
def encStr (s : List Nat) : Bytes := 34 :: (encStrBody s ++ [34])

def sNull : Bytes := [110, 117, 108, 108]
def sTrueJ : Bytes := [116, 114, 117, 101]
def sFalseJ : Bytes := [102, 97, 108, 115, 101]
def sInfinity : Bytes := [73, 110, 102, 105, 110, 105, 116, 121]
def sNegInfinity : Bytes := 45 :: sInfinity
def sNaN : Bytes := [78, 97, 78]

mutual
/-- `json.dumps(v)` -/
def jenc : J → Bytes
  | .null => sNull
  | .bool b => if b then sTrueJ else sFalseJ
  | .int i => intText i
  | .flt t => t
  | .str s => encStr s
  | .arr l => 91 :: jencL true l
  | .obj l => 123 :: jencM true l
/-- the elements of a list and the closing bracket; `first = false` puts `, ` in front of the element -/
def jencL : Bool → List J → Bytes
  | _, [] => [93]
  | first, v :: r => (if first then [] else [44, 32]) ++ (jenc v ++ jencL false r)
/-- the members of a dict and the closing brace -/
def jencM : Bool → List (List Nat × J) → Bytes
  | _, [] => [125]
  | first, (k, v) :: r => (if first then [] else [44, 32]) ++ (encStr k ++ 58 :: 32 :: (jenc v ++ jencM false r))
end

/-- `MpfJSONEncoder.default(o) = str(o)`: an object json does not know is printed as the JSON string of its
    `str()` (so it comes back as a `str`, not as the object). -/
def jencOther (reprText : List Nat) : Bytes := jenc (.str reprText)

/-! ## decoder: `json.loads` -/

def isWs (b : Nat) : Bool := b == 32 || b == 9 || b == 10 || b == 13

def skipWs : Bytes → Bytes
  | [] => []
  | b :: r => if isWs b then skipWs r else b :: r

/-- `stripPrefix p s = some t` iff `s = p ++ t` -/
def stripPrefix : Bytes → Bytes → Option Bytes
  | [], s => some s
  | _ :: _, [] => none
  | p :: ps, c :: cs => if p = c then stripPrefix ps cs else none

/-- four hex digits (either case) -/
def hex4 (a b c d : Nat) : Option Nat :=
  match unhex a, unhex b, unhex c, unhex d with
  | some w, some x, some y, some z => some (w * 4096 + x * 256 + y * 16 + z)
  | _, _, _, _ => none

/-- the one-character escapes (`BACKSLASH` table of `json.decoder`) -/
def unesc (e : Nat) : Option Nat :=
  if e = 34 then some 34 else if e = 92 then some 92 else if e = 47 then some 47
  else if e = 98 then some 8 else if e = 102 then some 12 else if e = 110 then some 10
  else if e = 114 then some 13 else if e = 116 then some 9 else none

def consCp (c : Nat) (p : Option (List Nat × Bytes)) : Option (List Nat × Bytes) :=
  p.map (fun q => (c :: q.1, q.2))

/-- a pending high surrogate is put in front of what follows -/
def emitPend (pend : Option Nat) (p : Option (List Nat × Bytes)) : Option (List Nat × Bytes) :=
  match pend with
  | none => p
  | some h => consCp h p

/-- `scanstring` (strict) as a scanner with one piece of state: `pend` = a high surrogate (`\ud800`..`\udbff`) just
    decoded and waiting for its partner.  A high surrogate escape directly followed by a low surrogate escape is
    joined into one code point; a lone surrogate is kept as it is (as CPython does). -/
def parseStrS : Option Nat → Bytes → Option (List Nat × Bytes)
  | _, [] => none
  | pend, b :: r =>
    if b = 34 then some (pend.toList, r)
    else if b = 92 then
      match r with
      | [] => none
      | e :: r1 =>
        if e = 117 then
          match r1 with
          | h1 :: h2 :: h3 :: h4 :: r2 =>
            match hex4 h1 h2 h3 h4 with
            | none => none
            | some u =>
              match pend with
              | some hi =>
                if 56320 ≤ u ∧ u < 57344 then
                  consCp (65536 + (hi - 55296) * 1024 + (u - 56320)) (parseStrS none r2)
                else if 55296 ≤ u ∧ u < 56320 then consCp hi (parseStrS (some u) r2)
                else consCp hi (consCp u (parseStrS none r2))
              | none =>
                if 55296 ≤ u ∧ u < 56320 then parseStrS (some u) r2
                else consCp u (parseStrS none r2)
          | _ => none
        else
          match unesc e with
          | none => none
          | some c => emitPend pend (consCp c (parseStrS none r1))
    else if b < 32 then none
    else emitPend pend (consCp b (parseStrS none r))

/-- the string scanner called behind the opening quote; gives the code points and the text behind the closing
    quote -/
def parseStr (s : Bytes) : Option (List Nat × Bytes) := parseStrS none s

/-! ### numbers: `-?(0|[1-9][0-9]*)(\.[0-9]+)?([eE][+-]?[0-9]+)?`, longest match, piece by piece.
Every piece lexer gives (matched text, rest); an empty match means "piece absent". -/

/-- `[0-9]*` -/
def spanDigits : Bytes → Bytes × Bytes
  | [] => ([], [])
  | b :: r => if isDigit b then (b :: (spanDigits r).1, (spanDigits r).2) else ([], b :: r)

/-- `-?` -/
def lexMinus : Bytes → Bytes × Bytes
  | [] => ([], [])
  | c :: r => if c = 45 then ([45], r) else ([], c :: r)

/-- `(0|[1-9][0-9]*)` -/
def lexInt : Bytes → Bytes × Bytes
  | [] => ([], [])
  | c :: r =>
    if c = 48 then ([48], r)
    else if isDigit c then (c :: (spanDigits r).1, (spanDigits r).2)
    else ([], c :: r)

/-- `(\.[0-9]+)?` -/
def lexFrac : Bytes → Bytes × Bytes
  | [] => ([], [])
  | c :: r =>
    if c = 46 ∧ (spanDigits r).1.isEmpty = false then (46 :: (spanDigits r).1, (spanDigits r).2)
    else ([], c :: r)

/-- `[+-]?` -/
def lexSign : Bytes → Bytes × Bytes
  | [] => ([], [])
  | c :: r => if c = 43 ∨ c = 45 then ([c], r) else ([], c :: r)

/-- `([eE][+-]?[0-9]+)?` -/
def lexExp : Bytes → Bytes × Bytes
  | [] => ([], [])
  | c :: r =>
    if (c = 101 ∨ c = 69) ∧ (spanDigits (lexSign r).2).1.isEmpty = false then
      (c :: ((lexSign r).1 ++ (spanDigits (lexSign r).2).1), (spanDigits (lexSign r).2).2)
    else ([], c :: r)

/-- the pieces of a number token: (minus, integer part, fraction, exponent, rest of the input) -/
def lexNum (s : Bytes) : Option (Bytes × Bytes × Bytes × Bytes × Bytes) :=
  if (lexInt (lexMinus s).2).1.isEmpty then none
  else some ((lexMinus s).1, (lexInt (lexMinus s).2).1, (lexFrac (lexInt (lexMinus s).2).2).1,
    (lexExp (lexFrac (lexInt (lexMinus s).2).2).2).1, (lexExp (lexFrac (lexInt (lexMinus s).2).2).2).2)

/-- `int(text)` when there is neither fraction nor exponent, else `float(text)` (kept as the matched text) -/
def parseNum (s : Bytes) : Option (J × Bytes) :=
  match lexNum s with
  | none => none
  | some (m, i, f, e, rest) =>
    if f.isEmpty ∧ e.isEmpty then
      (digitsVal 0 i).map (fun n => (J.int (if m.isEmpty then Int.ofNat n else - Int.ofNat n), rest))
    else some (J.flt (m ++ (i ++ (f ++ e))), rest)

/-- what `json.dumps` can print for a float: a JSON number with a fraction or an exponent, or `Infinity` /
    `-Infinity`.  (Trusted-base remark: CPython's `float.__repr__` of a finite float always has this form —
    digits with a `.` or an `e`, e.g. `1.5`, `-0.0`, `1e+22`, `1e-07` — and `json.dumps` prints the infinities as
    `Infinity` / `-Infinity`.  `NaN` is deliberately left out: `nan != nan`, no round trip at the Python level.) -/
def isFloatText (t : Bytes) : Bool :=
  t == sInfinity || t == sNegInfinity ||
  (match lexNum t with
   | some (_, _, f, e, rest) => rest.isEmpty && !(f.isEmpty && e.isEmpty)
   | none => false)

mutual
/-- `scan_once`: one value at the head of the input (no leading whitespace), and the rest of the input -/
def parseVal : Nat → Bytes → Option (J × Bytes)
  | 0, _ => none
  | fuel + 1, s =>
    match s with
    | [] => none
    | c :: r =>
      if c = 34 then (parseStr r).map (fun p => (J.str p.1, p.2))
      else if c = 91 then
        match skipWs r with
        | [] => none
        | d :: r1 =>
          if d = 93 then some (J.arr [], r1)
          else (parseElems fuel (d :: r1)).map (fun p => (J.arr p.1, p.2))
      else if c = 123 then
        match skipWs r with
        | [] => none
        | d :: r1 =>
          if d = 125 then some (J.obj [], r1)
          else (parseMembers fuel (d :: r1)).map (fun p => (J.obj p.1, p.2))
      else if c = 110 then (stripPrefix [117, 108, 108] r).map (fun t => (J.null, t))
      else if c = 116 then (stripPrefix [114, 117, 101] r).map (fun t => (J.bool true, t))
      else if c = 102 then (stripPrefix [97, 108, 115, 101] r).map (fun t => (J.bool false, t))
      else if c = 78 then (stripPrefix [97, 78] r).map (fun t => (J.flt sNaN, t))
      else if c = 73 then (stripPrefix [110, 102, 105, 110, 105, 116, 121] r).map (fun t => (J.flt sInfinity, t))
      else if c = 45 ∧ r.head? = some 73 then
        (stripPrefix sInfinity r).map (fun t => (J.flt sNegInfinity, t))
      else parseNum (c :: r)
/-- `JSONArray` behind `[` and whitespace, the list not empty: value, then `,` value ... until `]` -/
def parseElems : Nat → Bytes → Option (List J × Bytes)
  | 0, _ => none
  | fuel + 1, s =>
    match parseVal fuel s with
    | none => none
    | some (v, r) =>
      match skipWs r with
      | [] => none
      | d :: r1 =>
        if d = 93 then some ([v], r1)
        else if d = 44 then (parseElems fuel (skipWs r1)).map (fun p => (v :: p.1, p.2))
        else none
/-- `JSONObject` behind `{` and whitespace, the dict not empty: `"key" : value`, then `,` ... until `}` -/
def parseMembers : Nat → Bytes → Option (List (List Nat × J) × Bytes)
  | 0, _ => none
  | fuel + 1, s =>
    match s with
    | [] => none
    | q :: s1 =>
      if q = 34 then
        match parseStr s1 with
        | none => none
        | some (k, r) =>
          match skipWs r with
          | [] => none
          | c :: r1 =>
            if c = 58 then
              match parseVal fuel (skipWs r1) with
              | none => none
              | some (v, r2) =>
                match skipWs r2 with
                | [] => none
                | d :: r3 =>
                  if d = 125 then some ([(k, v)], r3)
                  else if d = 44 then (parseMembers fuel (skipWs r3)).map (fun p => ((k, v) :: p.1, p.2))
                  else none
            else none
      else none
end

/-- `json.loads(text)`: whitespace, one value, whitespace, end of text.  `none` = `JSONDecodeError`.
    (`NaN` is accepted and gives `flt "NaN"`, as CPython accepts it.) -/
def jdec (s : Bytes) : Option J :=
  match parseVal (s.length + 1) (skipWs s) with
  | none => none
  | some (v, rest) => if (skipWs rest).isEmpty then some v else none

/-! ## line-protocol driver hooks

Prefix (Polish) token encoding of a `J` tree, tokens separated by single spaces:
`N`, `T`, `F`, `I<decimal>`, `D<hex of the ASCII text>`, `S<6 lower-case hex digits per code point>` (`S-` = empty),
`A<n>` + n values, `O<n>` + n (string token, value) pairs. -/

def hexCharsVal : Nat → List Char → Option Nat
  | acc, [] => some acc
  | acc, c :: r => match hexVal c with
    | some x => hexCharsVal (acc * 16 + x) r
    | none => none

/-- code points, six hex digits each -/
def parseCps : List Char → Option (List Nat)
  | [] => some []
  | a :: b :: c :: d :: e :: f :: r =>
    match hexCharsVal 0 [a, b, c, d, e, f], parseCps r with
    | some x, some t => some (x :: t)
    | _, _ => none
  | _ => none

def parseStrTok (tok : String) : Option (List Nat) :=
  match tok.toList with
  | 'S' :: r => if r = ['-'] then some [] else parseCps r
  | _ => none

def charsNat (cs : List Char) : Option Nat :=
  if cs.isEmpty then none else digitsVal 0 (cs.map Char.toNat)

def charsInt (cs : List Char) : Option Int :=
  match cs with
  | '-' :: r => (charsNat r).map (fun n => - Int.ofNat n)
  | _ => (charsNat cs).map Int.ofNat

mutual
def parseTree : Nat → List String → Option (J × List String)
  | 0, _ => none
  | fuel + 1, toks =>
    match toks with
    | [] => none
    | tok :: rest =>
      match tok.toList with
      | ['N'] => some (J.null, rest)
      | ['T'] => some (J.bool true, rest)
      | ['F'] => some (J.bool false, rest)
      | 'I' :: cs => (charsInt cs).map (fun i => (J.int i, rest))
      | 'D' :: cs => (ofHex (String.ofList cs)).map (fun t => (J.flt t, rest))
      | 'S' :: _ => (parseStrTok tok).map (fun s => (J.str s, rest))
      | 'A' :: cs =>
        match charsNat cs with
        | some n => (parseTrees fuel n rest).map (fun p => (J.arr p.1, p.2))
        | none => none
      | 'O' :: cs =>
        match charsNat cs with
        | some n => (parsePairs fuel n rest).map (fun p => (J.obj p.1, p.2))
        | none => none
      | _ => none
def parseTrees : Nat → Nat → List String → Option (List J × List String)
  | 0, _, _ => none
  | _ + 1, 0, toks => some ([], toks)
  | fuel + 1, n + 1, toks =>
    match parseTree fuel toks with
    | none => none
    | some (v, rest) => (parseTrees fuel n rest).map (fun p => (v :: p.1, p.2))
def parsePairs : Nat → Nat → List String → Option (List (List Nat × J) × List String)
  | 0, _, _ => none
  | _ + 1, 0, toks => some ([], toks)
  | fuel + 1, n + 1, toks =>
    match toks with
    | [] => none
    | ktok :: rest0 =>
      match parseStrTok ktok with
      | none => none
      | some k =>
        match parseTree fuel rest0 with
        | none => none
        | some (v, rest) => (parsePairs fuel n rest).map (fun p => ((k, v) :: p.1, p.2))
end

def hex6 (n : Nat) : List Char :=
  [hexChar (n / 1048576 % 16), hexChar (n / 65536 % 16), hexChar (n / 4096 % 16), hexChar (n / 256 % 16),
   hexChar (n / 16 % 16), hexChar (n % 16)]

def showStrTok (s : List Nat) : String :=
  if s.isEmpty then "S-" else String.ofList ('S' :: s.flatMap hex6)

mutual
def showTree : J → String
  | .null => "N"
  | .bool b => if b then "T" else "F"
  | .int i => String.ofList ('I' :: (intText i).map Char.ofNat)
  | .flt t => "D" ++ toHex t
  | .str s => showStrTok s
  | .arr l => "A" ++ toString l.length ++ showTrees l
  | .obj l => "O" ++ toString l.length ++ showPairs l
def showTrees : List J → String
  | [] => ""
  | v :: r => " " ++ showTree v ++ showTrees r
def showPairs : List (List Nat × J) → String
  | [] => ""
  | (k, v) :: r => " " ++ showStrTok k ++ " " ++ showTree v ++ showPairs r
end

/-- the JSON operations of the C19 driver: `jenc <tree tokens>` and `jdec <hex of the text>`;
    `none` = not a JSON operation (the caller falls back to `driverStep`) -/
def jsonOp (line : String) : Option String :=
  match line.splitOn " " with
  | "jenc" :: toks =>
    match parseTree (2 * toks.length + 2) toks with
    | some (v, []) => some ("ok " ++ toHex (jenc v))
    | _ => some "bad-op"
  | ["jdec", h] =>
    match ofHex h with
    | some b => (match jdec b with
      | some v => some ("ok " ++ showTree v)
      | none => some "error")
    | none => some "bad-op"
  | "jdec" :: _ => some "bad-op"
  | _ => none

end MpfVerif.Bcp
