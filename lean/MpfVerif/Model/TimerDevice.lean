/-!
# Model of `mpf/devices/timer.py` (the Timer device) — property C13

State: `running`, the count `ticks`, the tick interval `iv`, the device's system timer (`self.timer`, a PeriodicTask:
`arm = some a` means it was created or last ran at `a`, next run at `a + iv`) and the pending timed pause
(`self.delay 'pause'`: `resume = some r`).  Configuration: direction, start/end/max value, restart_on_complete.
Time is `Nat` ticks.  Observations are the `timer_<name>_*` events with the `ticks` argument they carry.

Late deliveries: `Op.stall d` moves the clock while the loop does not run (`slack` = time blocked since the loop was last
idle); afterwards the system timer runs late, once per missed interval, back to back, each run advancing `arm` by exactly
one interval (`PeriodicTask._run`: `_last_call += interval`), and `Op.to` (the loop going idle) is impossible before the
schedule has caught up.  A late pause end starts the timer — and a new schedule — at the instant it actually runs.

`jump`/`set_tick_interval`/`change_tick_interval` re-create the system timer even when the timer is not running; its
first run then finds `running = False`, removes it and posts nothing — `Op.to` performs that silent run when time passes it.
`timer_complete` with `restart_on_complete` restarts through `restart()`; if the start value itself is at/past the end
value the real code recurses for ever — the model answers `diverge` (the parser/generator never configure that).
-/
namespace MpfVerif.TimerDevice

structure Cfg where
  up : Bool := true
  start : Int := 0
  /-- `end_value`; for direction down a missing value is 0 (normalised by the caller) -/
  endv : Option Int := none
  /-- `max_value`; `none` also stands for 0 (`if self.max_value and ...`) -/
  maxv : Option Int := none
  roc : Bool := false
deriving Repr, DecidableEq

structure T where
  running : Bool := false
  ticks : Int := 0
  iv : Nat := 1
  arm : Option Nat := none
  resume : Option Nat := none
  now : Nat := 0
  /-- ghost: for how long the loop has been blocked (stalled) since it was last idle -/
  slack : Nat := 0
  /-- ghost: the instant the system timer (a `PeriodicTask`) was created, and how often it has run since -/
  t0 : Nat := 0
  cnt : Nat := 0
deriving Repr, DecidableEq

inductive Ev | started | stopped | paused | complete | tick | added | subtracted | diverge
deriving Repr, DecidableEq

/-- one posted event with its `ticks` argument -/
structure Obs where
  ev : Ev
  ticks : Int
deriving Repr, DecidableEq

inductive Op
  | start | stop | pause (ms : Nat) | add (v : Int) | sub (v : Int) | jump (v : Int) | reset | restart
  | setIv (k : Nat) | chIv (f : Nat)
  | to (t : Nat)      -- time passes (not beyond an observable timer): the loop is idle until `t`
  | stall (d : Nat)   -- something blocks the loop for `d` ticks: the clock moves on, nothing runs (deliveries will be late)
  | clock             -- the system timer runs `_timer_tick` while the timer is running
  | resumeFire        -- the 'pause' delay runs `self.start`
  | removed           -- the owning mode stops: `Mode._finish_stop` → `device_removed_from_mode` = `stop()` (+ control events off)
deriving Repr, DecidableEq

/-- `_check_for_done`'s condition -/
def done (c : Cfg) (k : Int) : Bool :=
  if c.up then (match c.endv with | some e => decide (e ≤ k) | none => false)
  else decide (k ≤ c.endv.getD 0)

def clip (c : Cfg) (k : Int) : Int :=
  match c.maxv with
  | some m => if m ≠ 0 ∧ m < k then m else k
  | none => k

/-- one clock tick: count up or down -/
def bump (c : Cfg) (k : Int) : Int := if c.up then k + 1 else k - 1

/-- `stop()` -/
def doStop (s : T) : T × List Obs :=
  ({ s with running := false, arm := none, resume := none }, [⟨.stopped, s.ticks⟩])

/-- `timer_complete()`: stop, post complete, restart if configured -/
def doComplete (c : Cfg) (s : T) : T × List Obs :=
  let s1 := (doStop s).1
  let o := [⟨.stopped, s.ticks⟩, ⟨.complete, s.ticks⟩]
  if c.roc then
    -- restart(): reset() = jump(start_value) (system timer re-created, `_check_for_done`), not running -> start()
    let k := clip c c.start
    if done c k then ({ s1 with ticks := k, arm := some s.now, t0 := s.now, cnt := 0 }, o ++ [⟨.diverge, k⟩])
    else ({ s1 with ticks := k, running := true, arm := some s.now, t0 := s.now, cnt := 0 }, o ++ [⟨.started, k⟩, ⟨.tick, k⟩])
  else (s1, o)

/-- `_check_for_done()` after the count changed: complete, or nothing -/
def checkDone (c : Cfg) (s : T) : T × List Obs := if done c s.ticks then doComplete c s else (s, [])

/-- `start()` -/
def doStart (c : Cfg) (s : T) : T × List Obs :=
  if s.running then (s, [])
  else if done c s.ticks then doComplete c s
  else ({ s with running := true, resume := none, arm := some s.now, t0 := s.now, cnt := 0 }, [⟨.started, s.ticks⟩, ⟨.tick, s.ticks⟩])

/-- `jump(v)`: set the count (clipped), re-create the system timer, `_check_for_done` -/
def doJump (c : Cfg) (s : T) (v : Int) : T × List Obs :=
  checkDone c { s with ticks := clip c v, arm := some s.now, t0 := s.now, cnt := 0 }

def step (c : Cfg) (s : T) : Op → Option (T × List Obs)
  | .start => some (doStart c s)
  | .stop => some (doStop s)
  | .removed => some (doStop s)
  | .pause ms =>
    -- running False, system timer removed, paused event; a delay only for ms > 0 (an older one stays otherwise)
    some ({ s with running := false, arm := none, resume := if ms = 0 then s.resume else some (s.now + ms) },
          [⟨.paused, s.ticks⟩])
  | .add v =>
    let s1 := { s with ticks := clip c (s.ticks + v) }
    let r := checkDone c s1
    some (r.1, ⟨.added, s1.ticks⟩ :: r.2)
  | .sub v =>
    let s1 := { s with ticks := s.ticks - v }
    let r := checkDone c s1
    some (r.1, ⟨.subtracted, s1.ticks⟩ :: r.2)
  | .jump v => some (doJump c s v)
  | .reset => some (doJump c s c.start)
  | .restart =>
    let r := doJump c s c.start
    if r.1.running then
      -- `_post_tick_events()`
      if done c r.1.ticks then let r2 := doComplete c r.1; some (r2.1, r.2 ++ r2.2)
      else some (r.1, r.2 ++ [⟨.tick, r.1.ticks⟩])
    else let r2 := doStart c r.1; some (r2.1, r.2 ++ r2.2)
  | .setIv k => some ({ s with iv := k, arm := some s.now, t0 := s.now, cnt := 0 }, [])
  | .chIv f => some ({ s with iv := s.iv * f, arm := some s.now, t0 := s.now, cnt := 0 }, [])
  | .to t =>
    if s.now ≤ t ∧ t ≤ s.resume.getD t ∧ (s.running = true → t ≤ (s.arm.map (· + s.iv)).getD t) then
      -- a system timer left armed on a non-running timer runs silently and removes itself
      let arm := if s.running then s.arm else (match s.arm with
        | some a => if a + s.iv ≤ t then none else some a
        | none => none)
      some ({ s with now := t, arm := arm, slack := 0 }, [])
    else none
  | .stall d => some ({ s with now := s.now + d, slack := s.slack + d }, [])
  | .clock =>
    match s.arm with
    | none => none
    | some a =>
      if s.running ∧ a + s.iv ≤ s.now then
        -- `PeriodicTask._run`: `_last_call += interval` (the instant this run was DUE, not `now`): a late run does not
        -- shift the schedule, runs missed during a stall follow back to back
        let s1 := { s with arm := some (a + s.iv), cnt := s.cnt + 1, ticks := bump c s.ticks }
        -- `_post_tick_events`: complete, or the tick event
        if done c s1.ticks then some (doComplete c s1) else some (s1, [⟨.tick, s1.ticks⟩])
      else none
  | .resumeFire =>
    match s.resume with
    | none => none
    | some r => if r ≤ s.now then some (doStart c { s with resume := none }) else none

def run (c : Cfg) : T → List Op → Option (T × List Obs)
  | s, [] => some (s, [])
  | s, op :: ops =>
    match step c s op with
    | none => none
    | some r1 =>
      match run c r1.1 ops with
      | none => none
      | some r2 => some (r2.1, r1.2 ++ r2.2)

/-- the device right after `device_loaded_in_mode` (before `start_running`) -/
def init (c : Cfg) (iv : Nat) : T := { ticks := c.start, iv := iv }

/-! ## line protocol (prefix `tm` is stripped by the driver): `new <up 0|1> <start> <end|-> <max|-> <roc 0|1> <iv>`,
`start`, `stop`, `pause ms`, `add v`, `sub v`, `jump v`, `reset`, `restart`, `setiv k`, `chiv f`, `to t`, `clock`, `resume`,
`state` -/

def parseInt (t : String) : Option Int :=
  if t.startsWith "-" then (t.drop 1).toNat?.map (fun n => - (n : Int)) else t.toNat?.map (fun n => (n : Int))

def parseOptInt (t : String) : Option (Option Int) := if t == "-" then some none else (parseInt t).map some

def evName : Ev → String
  | .started => "started" | .stopped => "stopped" | .paused => "paused" | .complete => "complete" | .tick => "tick"
  | .added => "time_added" | .subtracted => "time_subtracted" | .diverge => "diverge"

def showAll (os : List Obs) : String :=
  if os.isEmpty then "ok" else " ".intercalate (os.map (fun o => s!"{evName o.ev}:{o.ticks}"))

structure DSt where
  c : Cfg := {}
  s : T := {}

def parseOp : List String → Option Op
  | ["start"] => some .start
  | ["stop"] => some .stop
  | ["pause", ms] => ms.toNat?.map .pause
  | ["add", v] => (parseInt v).map .add
  | ["sub", v] => (parseInt v).map .sub
  | ["jump", v] => (parseInt v).map .jump
  | ["reset"] => some .reset
  | ["restart"] => some .restart
  | ["setiv", k] => do let k ← k.toNat?; if k == 0 then none else some (.setIv k)
  | ["chiv", f] => do let f ← f.toNat?; if f == 0 then none else some (.chIv f)
  | ["to", t] => t.toNat?.map .to
  | ["stall", d] => d.toNat?.map .stall
  | ["clock"] => some .clock
  | ["resume"] => some .resumeFire
  | ["removed"] => some .removed
  | _ => none

def driverStep (d : DSt) (toks : List String) : DSt × String :=
  match toks with
  | ["new", up, st, en, mx, roc, iv] =>
    match parseInt st, parseOptInt en, parseOptInt mx, iv.toNat? with
    | some st, some en, some mx, some iv =>
      if iv == 0 || !(up == "0" || up == "1") || !(roc == "0" || roc == "1") then (d, "bad-op") else
      let c : Cfg := { up := up == "1", start := st, endv := en, maxv := mx, roc := roc == "1" }
      ({ c := c, s := init c iv }, "ok")
    | _, _, _, _ => (d, "bad-op")
  | ["state"] => (d, s!"S {if d.s.running then 1 else 0} {d.s.ticks}")
  | _ =>
    match parseOp toks with
    | some op =>
      match step d.c d.s op with
      | some r => ({ d with s := r.1 }, showAll r.2)
      | none => (d, "not-enabled")
    | none => (d, "bad-op")

end MpfVerif.TimerDevice
