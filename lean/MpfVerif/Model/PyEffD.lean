import MpfVerif.Model.PyEff
/-!
# The effectful layer with one modelled dict attribute (methods of a class that keeps a `dict` as its state)

`translate/py2effd.py` turns the methods of a class whose state is one dict attribute (`DelayManager.delays`) into
`List DSt` literals.  On top of `Model/PyEff.lean` (which is not changed: `AEx`, `Eff`, `evalA`, `argLocals`, `bindTarget`
are reused):

  * the dict attribute is *state* of the interpreter (`Dict` = association list in insertion order, keys unique, the value
    a tuple of fixed width flattened to a `List PyVal`): `t = self.d.pop(k)` / `a, b, c = self.d[k]` / `del self.d[k]`
    raise `KeyError` when the key is absent, `self.d[k] = (…)` replaces in place or appends, `self.d = {}` empties,
    `k in self.d` is an expression;
  * `try: … except <Exc>: … else: …` (one handler, no `finally`);
  * true division `/`;
  * an effect (a call on a collaborator, or calling a callback value) may **raise**: the oracle answers
    `Except Err PyVal`, so `except KeyError` around a callback call means what it means in Python;
  * effect logs are *returned* (the calls made by this statement), not threaded, so a callee can be reasoned about on its
    own and its log is appended by the caller;
  * `for k in list(self.d.keys()): body` exists only at the top level of a method (`DTop.forKeys`): the keys are a snapshot,
    the loop is a structural recursion over that snapshot.
Everything is structurally recursive, so `decide` can run generated programs.
-/
namespace MpfVerif.Py

/-- the modelled dict attribute: key ↦ tuple fields, insertion order -/
abbrev Dict := List (PyVal × List PyVal)

def dictHas (d : Dict) (k : PyVal) : Bool := d.any (fun kv => kv.1 == k)

def dictFind (d : Dict) (k : PyVal) : Option (List PyVal) := (d.find? (fun kv => kv.1 == k)).map (·.2)

def dictKeys (d : Dict) : List PyVal := d.map (fun kv => kv.1)

/-- remove the (first = only) item with key `k` -/
def dictErase : Dict → PyVal → Dict
  | [], _ => []
  | kv :: r, k => if kv.1 == k then r else kv :: dictErase r k

/-- `d[k] = v`: an existing key keeps its position, a new key is appended -/
def dictSet : Dict → PyVal → List PyVal → Dict
  | [], k, v => [(k, v)]
  | kv :: r, k, v => if kv.1 == k then (k, v) :: r else kv :: dictSet r k v

inductive DEx
  | a (e : AEx)
  | div (x y : DEx)
  | inDict (key : DEx)

/-- Python `/` on the modelled values (micro-units; the quotient is rounded down to 1e-6: float rounding is outside the
model, as for `+` and `*`) -/
def arithDiv (a b : PyVal) : Except Err PyVal :=
  match a.num, b.num with
  | some (some x), some (some y) => if y = 0 then throw "ZeroDivisionError" else pure (.flt (x * 1000000 / y))
  | some _, some _ => pure .nan
  | _, _ => throw "TypeError"

def evalD (c : Ctx) (H : Dict) (l : Locals) : DEx → Except Err PyVal
  | .a e => evalA c l e
  | .div x y => do arithDiv (← evalD c H l x) (← evalD c H l y)
  | .inDict k => do let kv ← evalD c H l k; pure (.bool (dictHas H kv))

inductive DSt
  | assign (n : String) (e : DEx)
  | ifThen (c : Cd) (body : List DSt) (orelse : List DSt)
  | raise (e : Err)
  | ret (e : DEx)
  | call (target : Option String) (prog : List DSt) (args : List (String × DEx))
  | eff (target : Option String) (obj meth : String) (args : List (String × DEx))
  | dictPop (targets : List String) (key : DEx)
  | dictGet (targets : List String) (key : DEx)
  | dictDel (key : DEx)
  | dictSet (key : DEx) (vals : List DEx)
  | dictClear
  | tryExcept (body : List DSt) (exc : Err) (handler : List DSt) (orelse : List DSt)

/-- what the outside world does when called: a value, or an exception (a callback that raises) -/
abbrev DOracle := Eff → Except Err PyVal

def evalDArgs (c : Ctx) (H : Dict) (l : Locals) : List (String × DEx) → Except Err (List (String × PyVal))
  | [] => pure []
  | (k, e) :: r => do
    let v ← evalD c H l e
    let vs ← evalDArgs c H l r
    pure ((k, v) :: vs)

def evalDList (c : Ctx) (H : Dict) (l : Locals) : List DEx → Except Err (List PyVal)
  | [] => pure []
  | e :: r => do
    let v ← evalD c H l e
    let vs ← evalDList c H l r
    pure (v :: vs)

/-- tuple unpacking into named locals (missing fields are None; the translator checks the width) -/
def bindMany (l : Locals) : List String → List PyVal → Locals
  | [], _ => l
  | t :: ts, [] => bindMany (fun m => if m = t then .none else l m) ts []
  | t :: ts, v :: vs => bindMany (fun m => if m = t then v else l m) ts vs

/-- result of a statement: the dict afterwards, the calls made (in order), and an exception or the outcome -/
abbrev DRes := Dict × List Eff × Except Err Out

mutual
def execDS (c : Ctx) (ora : DOracle) (H : Dict) (l : Locals) : DSt → DRes
  | .assign n e =>
    match evalD c H l e with
    | .ok v => (H, [], .ok (.next (fun m => if m = n then v else l m)))
    | .error x => (H, [], .error x)
  | .ifThen cd body orelse =>
    match evalC c l cd with
    | .ok true => execDL c ora H l body
    | .ok false => execDL c ora H l orelse
    | .error x => (H, [], .error x)
  | .raise e => (H, [], .error e)
  | .ret e =>
    match evalD c H l e with
    | .ok v => (H, [], .ok (.done v))
    | .error x => (H, [], .error x)
  | .call t prog args =>
    match evalDArgs c H l args with
    | .error x => (H, [], .error x)
    | .ok vs =>
      match execDL c ora H (argLocals vs) prog with
      | (H', log, .ok (.done v)) => (H', log, .ok (.next (bindTarget l t v)))
      | (H', log, .ok (.next _)) => (H', log, .ok (.next (bindTarget l t .none)))
      | (H', log, .error x) => (H', log, .error x)
  | .eff t obj meth args =>
    match evalDArgs c H l args with
    | .error x => (H, [], .error x)
    | .ok vs =>
      let e : Eff := ⟨obj, meth, vs⟩
      match ora e with
      | .ok v => (H, [e], .ok (.next (bindTarget l t v)))
      | .error x => (H, [e], .error x)
  | .dictPop ts k =>
    match evalD c H l k with
    | .error x => (H, [], .error x)
    | .ok kv =>
      match dictFind H kv with
      | some vals => (dictErase H kv, [], .ok (.next (bindMany l ts vals)))
      | none => (H, [], .error "KeyError")
  | .dictGet ts k =>
    match evalD c H l k with
    | .error x => (H, [], .error x)
    | .ok kv =>
      match dictFind H kv with
      | some vals => (H, [], .ok (.next (bindMany l ts vals)))
      | none => (H, [], .error "KeyError")
  | .dictDel k =>
    match evalD c H l k with
    | .error x => (H, [], .error x)
    | .ok kv => if dictHas H kv then (dictErase H kv, [], .ok (.next l)) else (H, [], .error "KeyError")
  | .dictSet k vals =>
    match evalD c H l k with
    | .error x => (H, [], .error x)
    | .ok kv =>
      match evalDList c H l vals with
      | .error x => (H, [], .error x)
      | .ok vs => (dictSet H kv vs, [], .ok (.next l))
  | .dictClear => ([], [], .ok (.next l))
  | .tryExcept body exc handler orelse =>
    match execDL c ora H l body with
    | (H', log, .ok (.done v)) => (H', log, .ok (.done v))
    | (H', log, .ok (.next l')) =>
      match execDL c ora H' l' orelse with
      | (H2, log2, r) => (H2, log ++ log2, r)
    | (H', log, .error x) =>
      if x = exc then
        -- the locals bound before the exception stay bound; the model keeps the ones from before the `try`
        -- (the translator rejects a handler or continuation that reads a name first assigned in the body)
        match execDL c ora H' l handler with
        | (H2, log2, r) => (H2, log ++ log2, r)
      else (H', log, .error x)
def execDL (c : Ctx) (ora : DOracle) (H : Dict) (l : Locals) : List DSt → DRes
  | [] => (H, [], .ok (.next l))
  | s :: rest =>
    match execDS c ora H l s with
    | (H', log, .ok (.next l')) =>
      match execDL c ora H' l' rest with
      | (H2, log2, r) => (H2, log ++ log2, r)
    | (H', log, .ok (.done v)) => (H', log, .ok (.done v))
    | (H', log, .error x) => (H', log, .error x)
end

/-- top level of a method: plain statements and loops over a snapshot of the dict's keys -/
inductive DTop
  | s (st : DSt)
  | forKeys (var : String) (body : List DSt)

/-- `for var in <snapshot>: body` -/
def execFor (c : Ctx) (ora : DOracle) (var : String) (body : List DSt) : List PyVal → Dict → Locals → DRes
  | [], H, l => (H, [], .ok (.next l))
  | k :: ks, H, l =>
    match execDL c ora H (fun m => if m = var then k else l m) body with
    | (H', log, .ok (.next l')) =>
      match execFor c ora var body ks H' l' with
      | (H2, log2, r) => (H2, log ++ log2, r)
    | (H', log, .ok (.done v)) => (H', log, .ok (.done v))
    | (H', log, .error x) => (H', log, .error x)

def execTL (c : Ctx) (ora : DOracle) : List DTop → Dict → Locals → DRes
  | [], H, l => (H, [], .ok (.next l))
  | t :: rest, H, l =>
    match (match t with
           | .s st => execDS c ora H l st
           | .forKeys var body => execFor c ora var body (dictKeys H) H l) with
    | (H', log, .ok (.next l')) =>
      match execTL c ora rest H' l' with
      | (H2, log2, r) => (H2, log ++ log2, r)
    | (H', log, .ok (.done v)) => (H', log, .ok (.done v))
    | (H', log, .error x) => (H', log, .error x)

def resOf : DRes → Dict × List Eff × Except Err PyVal
  | (H, log, .ok (.done v)) => (H, log, .ok v)
  | (H, log, .ok (.next _)) => (H, log, .ok .none)
  | (H, log, .error x) => (H, log, .error x)

/-- run a translated method (no loops): the dict afterwards, its calls in order, its result -/
def callD (c : Ctx) (ora : DOracle) (H : Dict) (prog : List DSt) (args : List (String × PyVal)) :
    Dict × List Eff × Except Err PyVal :=
  resOf (execDL c ora H (argLocals args) prog)

/-- the same for a method with top-level loops -/
def callT (c : Ctx) (ora : DOracle) (H : Dict) (prog : List DTop) (args : List (String × PyVal)) :
    Dict × List Eff × Except Err PyVal :=
  resOf (execTL c ora prog H (argLocals args))

end MpfVerif.Py
