import MpfVerif.Model.Framing2
/-!
# Serial framing (C14), third part

* (a) OPP input reports on the platform level: several chains, each with its own `_parse_msg` state, cards, bad-CRC
  counter and registration; the initial reads of `_identify_connection` (`read_gen2_inp_resp_initial`,
  `read_matrix_inp_resp_initial`, the `cards -= _parse_msg(resp)` count), `initialize()` swapping in the steady-state
  handlers, `get_hw_switch_states`, then `read_gen2_inp_resp` / `read_matrix_inp_resp` behind `_parse_msg`;
  `_read_id`; `process_received_message` of the init phase when the connection is not registered yet (`KeyError`).
* (b) FAST: `_process_nn` (`NN:` node discovery), `_process_id` with the version syntax of `packaging`,
  config responses for numbers beyond the tables.
* (c) PKONE connect phase: the `PCN` / `PCB` replies.
Imports only the first two model files (core only).
-/
namespace MpfVerif.Framing3
open MpfVerif.Framing MpfVerif.Framing2

/-! ## (a) OPP input reports, platform level -/

structure OCard where
  addr : Nat
  mtx : Bool
  mask : List Bool                 -- inputs that are configured as switches (a matrix card: all 64)
  old : Option (List Bool)         -- old_state, bit 0 first; `none` = the `[0, 0]` placeholder of a matrix card never read
  sw : List Bool := []             -- MPF's state per input (true = active): get_hw_switch_states, then the events
  deriving DecidableEq, Repr

/-- what a frame delivered by `_parse_msg` says -/
inductive Rep
  | good (mtx : Bool) (a : Nat) (bits : List Bool)
  | badCrc
  | other
  deriving DecidableEq, Repr

def decode (f : Bytes) : Rep :=
  match f with
  | [a, c, m2, m3, m4, m5, _] =>
    if c = CMD_INP then (if crcOk f then .good false a (beBits [m2, m3, m4, m5]) else .badCrc) else .other
  | [a, c, m2, m3, m4, m5, m6, m7, m8, m9, _] =>
    if c = CMD_MTX then (if crcOk f then .good true a (beBits [m2, m3, m4, m5, m6, m7, m8, m9]) else .badCrc)
    else .other
  | _ => .other

inductive OEv
  | sw (mtx : Bool) (addr idx : Nat) (st : Bool)     -- process_switch_by_num
  | crash                                            -- TypeError: `[0, 0] ^ int` / `int & [0, 0]`
  deriving DecidableEq, Repr

/-- `read_gen2_inp_resp_initial` / `read_matrix_inp_resp_initial` with a good CRC: `old_state = new_state`, no event -/
def setInit (m : Bool) (a : Nat) (bits : List Bool) : List OCard → List OCard
  | [] => []
  | c :: r => if c.mtx = m ∧ c.addr = a then { c with old := some bits } :: r else c :: setInit m a bits r

/-- `read_gen2_inp_resp` / `read_matrix_inp_resp` with a good CRC -/
def setSteady (m : Bool) (a : Nat) (bits : List Bool) : List OCard → List OCard × List OEv
  | [] => ([], [])
  | c :: r =>
    if c.mtx = m ∧ c.addr = a then
      match c.old with
      | some o =>
        ({ c with old := some bits, sw := updSw o bits c.sw } :: r,
         (changes (if m then 32 else 0) o bits).map (fun e => .sw m a e.1 e.2))
      | none => (c :: r, [.crash])
    else ((setSteady m a bits r).1.cons c, (setSteady m a bits r).2)

structure ChainSt where
  ps : PSt := {}                   -- part_msg, _lost_synch
  cards : List OCard := []         -- the chain's entries of opp_inputs
  need : Nat := 0                  -- `cards` of _identify_connection: reads still awaited
  reg : Bool := false              -- in opp_connection
  badCrc : Nat := 0
  deriving DecidableEq, Repr

def initFrame (c : ChainSt) (f : Bytes) : ChainSt :=
  match decode f with
  | .good m a bits => { c with cards := setInit m a bits c.cards }
  | .badCrc => { c with badCrc := c.badCrc + 1 }
  | .other => c

def steadyFrame (c : ChainSt) (f : Bytes) : ChainSt × List OEv :=
  match decode f with
  | .good m a bits => ({ c with cards := (setSteady m a bits c.cards).1 }, (setSteady m a bits c.cards).2)
  | .badCrc => ({ c with badCrc := c.badCrc + 1 }, [])
  | .other => (c, [])

def steadyFrames : ChainSt → List Bytes → ChainSt × List OEv
  | c, [] => (c, [])
  | c, f :: r => ((steadyFrames (steadyFrame c f).1 r).1, (steadyFrame c f).2 ++ (steadyFrames (steadyFrame c f).1 r).2)

/-- one `readuntil(b'\xff')` result handed to `_parse_msg` by the loop at the end of `_identify_connection`: every
delivered frame counts as a card that has answered, whatever its CRC says; the connection is registered when the
count is used up -/
def initRead (c : ChainSt) (resp : Bytes) : ChainSt :=
  let c1 := (parseChunk c.ps resp).2.foldl initFrame { c with ps := (parseChunk c.ps resp).1 }
  { c1 with need := c.need - (parseChunk c.ps resp).2.length, reg := decide (c.need ≤ (parseChunk c.ps resp).2.length) }

/-- `_socket_reader`: one chunk through `_parse_msg` with the steady-state handlers -/
def steadyRead (c : ChainSt) (chunk : Bytes) : ChainSt × List OEv :=
  steadyFrames { c with ps := (parseChunk c.ps chunk).1 } (parseChunk c.ps chunk).2

def steadyReads : ChainSt → List Bytes → ChainSt × List OEv
  | c, [] => (c, [])
  | c, k :: r => ((steadyReads (steadyRead c k).1 r).1, (steadyRead c k).2 ++ (steadyReads (steadyRead c k).1 r).2)

/-- `get_hw_switch_states` for one card: active = bit clear; a matrix card never read makes it raise -/
def hwCard (c : OCard) : Option OCard := c.old.map (fun o => { c with sw := o.map (!·) })

def hwCards : List OCard → Option (List OCard)
  | [] => some []
  | c :: r =>
    match hwCard c, hwCards r with
    | some c', some r' => some (c' :: r')
    | _, _ => none

def hwChains : List ChainSt → Option (List ChainSt)
  | [] => some []
  | c :: r =>
    match hwCards c.cards, hwChains r with
    | some cs, some r' => some ({ c with cards := cs } :: r')
    | _, _ => none

structure OSt where
  chains : List ChainSt := []
  steady : Bool := false           -- initialize() has swapped the handlers
  booted : Bool := false           -- get_hw_switch_states went through
  deriving DecidableEq, Repr

inductive OOp
  | initRead (i : Nat) (resp : Bytes)
  | swap
  | hw
  | read (i : Nat) (chunk : Bytes)
  deriving DecidableEq, Repr

def modChain (i : Nat) (f : ChainSt → ChainSt × List OEv) (s : OSt) : OSt × List OEv :=
  match s.chains[i]? with
  | some c => ({ s with chains := s.chains.set i (f c).1 }, (f c).2)
  | none => (s, [])

def oStep (s : OSt) : OOp → OSt × List OEv
  | .initRead i r => modChain i (fun c => (initRead c r, [])) s
  | .swap => ({ s with steady := true }, [])
  | .hw =>
    match hwChains s.chains with
    | some cs => ({ s with chains := cs, booted := true }, [])
    | none => (s, [.crash])
  | .read i k =>
    if s.steady then modChain i (fun c => steadyRead c k) s
    else modChain i (fun c => ((parseChunk c.ps k).2.foldl initFrame { c with ps := (parseChunk c.ps k).1 }, [])) s

def oRun : OSt → List OOp → OSt × List OEv
  | s, [] => (s, [])
  | s, o :: r => ((oRun (oStep s o).1 r).1, (oStep s o).2 ++ (oRun (oStep s o).1 r).2)

/-- the card table entry `inp_addr_dict[chain-addr]` / `matrix_inp_addr_dict[chain-addr]` -/
def oldOf (m : Bool) (a : Nat) : List OCard → Option (Option (List Bool))
  | [] => none
  | c :: r => if c.mtx = m ∧ c.addr = a then some c.old else oldOf m a r

/-- the specification: what the last good report for card `(m, a)` in a frame list says (`cur` if there is none) -/
def lastGood (m : Bool) (a : Nat) (cur : Option (List Bool)) : List Bytes → Option (List Bool)
  | [] => cur
  | f :: r =>
    match decode f with
    | .good m' a' b => if m' = m ∧ a' = a then lastGood m a (some b) r else lastGood m a cur r
    | _ => lastGood m a cur r

/-- `_read_id`: the 8 byte response to the serial-number request -/
def readId (r : Bytes) : Option Nat :=
  match r with
  | [a, c, s0, s1, s2, s3, k, e] =>
    if e = 255 ∧ crc8 [a, c, s0, s1, s2, s3] = k ∧ a = 32 ∧ c = 0 then some (be32 [s0, s1, s2, s3]) else none
  | _ => none

/-- `process_received_message` during `_identify_connection`, i.e. before `register_processor_connection`: every path
that ends in `lost_synch()` raises `KeyError` instead -/
def initDispatchU (reg : Bool) (inv : Inv) (m : Bytes) : Option (Inv × IObs) :=
  let r := initDispatch inv m
  let lost : Bool := match r.2 with
    | .cfg _ e => e == .lost
    | .vers _ e => e == .lost
    | .illegal => true
    | _ => false
  if lost && !reg then none else some r

/-! ## (b) FAST: `ID:` with the firmware-version syntax, `NN:` node discovery -/

def isDig (b : Nat) : Bool := 48 ≤ b && b ≤ 57

/-- release numbers of a version string `N(.N)*` (what `packaging.version.parse` accepts over the generated alphabet:
digits, dots, an optional leading `v`); state: the number being read (`none` = a digit is required next) -/
def verScan : Option Nat → List Nat → Bytes → Option (List Nat)
  | none, _, [] => none
  | some n, acc, [] => some (acc ++ [n])
  | none, acc, b :: r => if isDig b then verScan (some (b - 48)) acc r else none
  | some n, acc, b :: r =>
    if isDig b then verScan (some (n * 10 + (b - 48))) acc r
    else if b = 46 then verScan none (acc ++ [n]) r
    else none

def verNums (t : Bytes) : Option (List Nat) :=
  match t with
  | 118 :: r => verScan none [] r
  | 86 :: r => verScan none [] r
  | _ => verScan none [] t

/-- some entry is positive -/
def anyPos : List Nat → Bool
  | [] => false
  | y :: ys => decide (0 < y) || anyPos ys

/-- `a < b` on release tuples, the shorter one padded with zeros -/
def relLt : List Nat → List Nat → Bool
  | [], ys => anyPos ys
  | _ :: _, [] => false
  | x :: xs, y :: ys => if x < y then true else if y < x then false else relLt xs ys

/-- `str.strip('\x00')` -/
def stripNul (t : Bytes) : Bytes := ((t.dropWhile (· = 0)).reverse.dropWhile (· = 0)).reverse

/-- `'-'.join(model.split('-')[:3])` -/
def dash3 (t : Bytes) : Bytes := (((splitAll 45 t).take 3).intersperse [45]).flatten

def sNotFound : Bytes := [33, 78, 111, 100, 101, 32, 78, 111, 116, 32, 70, 111, 117, 110, 100, 33]   -- "!Node Not Found!"

structure NBoard where
  node : Nat
  sw : Nat
  dr : Nat
  startSw : Nat
  startDr : Nat
  deriving DecidableEq, Repr

structure NNSt where
  loop : List Bytes := []          -- io_loop: the configured model string (three dash parts, upper case) per node
  boards : List NBoard := []       -- platform.io_boards in registration order
  deriving DecidableEq, Repr

inductive NObs
  | quiet          -- `NN:F`
  | bad            -- ValueError: skipped as malformed
  | done           -- done_processing_msg_response()
  | assert_        -- model / firmware mismatch: a deliberate stop
  deriving DecidableEq, Repr

def findBoard (n : Nat) : List NBoard → Option NBoard
  | [] => none
  | b :: r => if b.node = n then some b else findBoard n r

/-- sum of the switch / driver counts of nodes `0 .. n-1`; `none` when one of them is not registered -/
def priorOf : Nat → List NBoard → Option (Nat × Nat)
  | 0, _ => some (0, 0)
  | n + 1, bs =>
    match priorOf n bs, findBoard n bs with
    | some (s, d), some b => some (s + b.sw, d + b.dr)
    | _, _ => none

/-- `_process_nn` on the payload of an `NN:` response -/
def nnProcess (s : NNSt) (p : Bytes) : NNSt × NObs :=
  if p = [70] then (s, .quiet) else
  match splitAll 44 p with
  | [f0, f1, f2, f3, f4, _, _, _, _, _, _] =>
    match parseHex f0, parseHex f3, parseHex f4 with
    | some n0, some d0, some w0 =>
      let node := min n0 255
      let model := dash3 (stripNul f1)
      if model.isEmpty ∨ model = sNotFound then (s, .done)
      else if (findBoard node s.boards).isSome then (s, .done)
      else match s.loop[node]? with
        | none => (s, .bad)                                 -- a node beyond the configured loop
        | some cfg =>
          if model ≠ cfg then (s, .assert_) else
          match priorOf node s.boards with
          | none => (s, .bad)                               -- a node whose predecessors are not known yet
          | some (ps, pd) =>
            let s' := { s with boards := s.boards ++ [{ node := node, sw := min w0 255, dr := min d0 255,
                                                         startSw := ps, startDr := pd }] }
            match verNums f2 with
            | none => (s', .bad)                            -- registered, then `version.parse` raises
            | some v => if relLt v [1, 9] then (s', .assert_) else (s', .done)
    | _, _, _ => (s, .bad)
  | _ => (s, .bad)

/-- `_dispatch_incoming_msg` of the Neuron communicator in the configuration phase, with node discovery and the
version syntax of `ID:` -/
def cfgDispatch3 (s : NNSt) (f : Bytes) : NNSt × CObs :=
  if f.any (fun b => 128 ≤ b) then (s, .und)
  else if f.take 3 = hNN ∧ f ≠ sWDP ∧ f ≠ sTLP then
    match nnProcess s (f.drop 3) with
    | (s', .quiet) => (s', .quiet hNN)
    | (s', .bad) => (s', .bad)
    | (s', .done) => (s', .done hNN)
    | (s', .assert_) => (s', .assert_)
  else if f.take 3 = hID then
    match splitWs [] (f.drop 3) with
    | [_, _, fw] => (s, if (verNums fw).isSome then .id else .bad)
    | _ => (s, .bad)
  else (s, cfgDispatch f)

def cfgStep3 (s : NNSt × Bytes) (b : Nat) : (NNSt × Bytes) × List CObs :=
  if b = CR then
    (if s.2.isEmpty then ((s.1, []), []) else (((cfgDispatch3 s.1 s.2).1, []), [(cfgDispatch3 s.1 s.2).2]))
  else ((s.1, s.2 ++ [b]), [])

/-! ## (c) PKONE connect phase: the `PCN` and `PCB` replies (each one `readuntil(b'E')` result, decoded) -/

/-- the longest prefix of ASCII digits, and the rest -/
def spanDig : Bytes → Bytes × Bytes
  | [] => ([], [])
  | b :: r => if isDig b then (b :: (spanDig r).1, (spanDig r).2) else ([], b :: r)

inductive CRes
  | noBoard                                -- `PCB<n>N`
  | ctrl (fw hw : Bytes)                   -- PCN accepted: firmware digits, hardware revision digits
  | ext (fw hw : Bytes)                    -- extension board registered
  | light (fw hw : Bytes) (rgbw : Bool)    -- lightshow board registered
  | retry                                  -- PCN: the reply does not start with `PCN`: ask again
  | assert_                                -- AssertionError: unexpected PCN reply, firmware too old, lightshow address > 3
  | attrErr                                -- AttributeError: PCB reply not recognised (`match` is None) / board type N
  | valErr                                 -- InvalidVersion: a one-digit firmware number gives the version string ".d"
  deriving DecidableEq, Repr

/-- firmware digits `d…dm` mean version `d…d.m`; MPF wants at least 1.0 -/
def fwCheck (f : Bytes) (ok : CRes) : CRes :=
  if f.length < 2 then .valErr
  else if (f.dropLast.all (· = 48)) then .assert_
  else ok

/-- `re.match('PCNF([0-9]+)H([0-9]+)E', msg)` and what follows -/
def pcnParse (m : Bytes) : CRes :=
  if m.take 3 ≠ [80, 67, 78] then .retry else
  match m with
  | 80 :: 67 :: 78 :: 70 :: r =>
    match (spanDig r).2 with
    | 72 :: r2 =>
      if !(spanDig r).1.isEmpty && !(spanDig r2).1.isEmpty && (spanDig r2).2.head? = some 69
      then fwCheck (spanDig r).1 (.ctrl (spanDig r).1 (spanDig r2).1) else .assert_
    | _ => .assert_
  | _ => .assert_

/-- what may follow the hardware revision in a `PCB` reply: `(P[YN])?(RGB|RGBW)?E`; `true` = RGBW firmware -/
def pcbTails : List (Bytes × Bool) :=
  [([69], false), ([82, 71, 66, 69], false), ([82, 71, 66, 87, 69], true),
   ([80, 89, 69], false), ([80, 89, 82, 71, 66, 69], false), ([80, 89, 82, 71, 66, 87, 69], true),
   ([80, 78, 69], false), ([80, 78, 82, 71, 66, 69], false), ([80, 78, 82, 71, 66, 87, 69], true)]

def tailOf (t : Bytes) : List (Bytes × Bool) → Option Bool
  | [] => none
  | (x, w) :: r => if x = t then some w else tailOf t r

/-- the reply to `PCB<addr>`: the board number inside the reply is not compared with the address asked for -/
def pcbParse (addr : Nat) (m : Bytes) : CRes :=
  if m = [80, 67, 66, 48 + addr, 78, 69] then .noBoard else
  match m with
  | 80 :: 67 :: 66 :: d :: t :: 70 :: r =>
    if 48 ≤ d ∧ d ≤ 55 ∧ (t = 88 ∨ t = 76 ∨ t = 78) then
      match (spanDig r).2 with
      | 72 :: r2 =>
        if !(spanDig r).1.isEmpty && !(spanDig r2).1.isEmpty then
          match tailOf (spanDig r2).2 pcbTails with
          | some w =>
            if t = 88 then fwCheck (spanDig r).1 (.ext (spanDig r).1 (spanDig r2).1)
            else if t = 76 then fwCheck (spanDig r).1 (if addr < 4 then .light (spanDig r).1 (spanDig r2).1 w else .assert_)
            else .attrErr
          | none => .attrErr
        else .attrErr
      | _ => .attrErr
    else .attrErr
  | _ => .attrErr

/-! ## line-protocol driver (new ops; everything else goes to `Framing2.driverStep`) -/

def parseBits (t : String) : List Bool := if t = "-" then [] else t.toList.map (fun ch => ch == '1')

def showOEv : OEv → String
  | .sw _ a i st => "s" ++ toString a ++ "." ++ toString i ++ "=" ++ (if st then "1" else "0")
  | .crash => "crash"

def maskedStr (mask sw : List Bool) : String :=
  if mask.isEmpty then "-" else
  String.ofList ((mask.zip sw).map (fun p => if p.1 then (if p.2 then '1' else '0') else '-'))

def showOCard (c : OCard) : String :=
  toString c.addr ++ (if c.mtx then "m" else "i") ++ ":" ++
  (match c.old with | some o => bitsStr o | none => "none") ++ ":" ++ maskedStr c.mask c.sw

def showChain (c : ChainSt) : String :=
  words (c.cards.map showOCard ++
    ["need=" ++ toString c.need, "reg=" ++ (if c.reg then "1" else "0"), "crc=" ++ toString c.badCrc,
     "buf=" ++ toHex c.ps.buf, "lost=" ++ (if c.ps.lost then "1" else "0")])

def asc (b : Bytes) : String := String.ofList (b.map (fun x => Char.ofNat x))

def showCRes : CRes → String
  | .noBoard => "none"
  | .ctrl f h => "ctrl " ++ asc f ++ " " ++ asc h
  | .ext f h => "ext " ++ asc f ++ " " ++ asc h
  | .light f h w => "light " ++ asc f ++ " " ++ asc h ++ " " ++ (if w then "rgbw" else "rgb")
  | .retry => "retry"
  | .assert_ => "assert"
  | .attrErr => "attr"
  | .valErr => "value"

structure DSt3 where
  old : DSt2 := {}
  o : OSt := {}
  nn : NNSt × Bytes := ({}, [])

def showBoard (b : NBoard) : String :=
  toString b.node ++ ":" ++ toString b.sw ++ "/" ++ toString b.dr ++ "@" ++ toString b.startSw ++ "/" ++ toString b.startDr

def driverStepA (s : DSt3) (line : String) : Option (DSt3 × String) :=
  match line.splitOn " " with
  | ["oreset"] => some ({ s with o := {} }, "ok")
  | ["ochain"] => some ({ s with o := { s.o with chains := s.o.chains ++ [{}] } }, "ok")
  | ["ocard", i, a, k, mask] =>
    match i.toNat?, a.toNat? with
    | some ci, some ad =>
      match s.o.chains[ci]? with
      | some c =>
        let card : OCard := { addr := ad, mtx := k = "m", mask := parseBits mask,
                              old := if k = "m" then none else some (List.replicate 32 false),
                              sw := List.replicate (if k = "m" then 64 else 32) false }
        some ({ s with o := { s.o with chains := s.o.chains.set ci { c with cards := c.cards ++ [card] } } }, "ok")
      | none => some (s, "bad-op")
    | _, _ => some (s, "bad-op")
  | ["oneed", i, n] =>
    match i.toNat?, n.toNat? with
    | some ci, some k =>
      match s.o.chains[ci]? with
      | some c => some ({ s with o := { s.o with chains := s.o.chains.set ci { c with need := k } } }, "ok")
      | none => some (s, "bad-op")
    | _, _ => some (s, "bad-op")
  | ["oinit", i, h] =>
    match i.toNat?, ofHex h with
    | some ci, some b =>
      match s.o.chains[ci]? with
      | some c =>
        let st := (oStep s.o (.initRead ci b)).1
        some ({ s with o := st }, "found=" ++ toString (parseChunk c.ps b).2.length ++ " " ++
                                   (match st.chains[ci]? with | some c' => showChain c' | none => "?"))
      | none => some (s, "bad-op")
    | _, _ => some (s, "bad-op")
  | ["oswap"] => some ({ s with o := (oStep s.o .swap).1 }, "ok")
  | ["ohw"] =>
    let r := oStep s.o .hw
    some ({ s with o := r.1 }, if r.2.isEmpty then "ok" else words (r.2.map showOEv))
  | ["oread", i, h] =>
    match i.toNat?, ofHex h with
    | some ci, some b =>
      match s.o.chains[ci]? with
      | some _ =>
        let r := oStep s.o (.read ci b)
        some ({ s with o := r.1 }, words (r.2.map showOEv ++
                                    [match r.1.chains[ci]? with
                                     | some c' => "crc=" ++ toString c'.badCrc ++ " buf=" ++ toHex c'.ps.buf ++
                                                  " lost=" ++ (if c'.ps.lost then "1" else "0")
                                     | none => "?"]))
      | none => some (s, "bad-op")
    | _, _ => some (s, "bad-op")
  | ["ostate", i] =>
    match i.toNat? with
    | some ci => some (s, match s.o.chains[ci]? with | some c => showChain c | none => "bad-op")
    | none => some (s, "bad-op")
  | ["nninit"] => some ({ s with nn := ({}, []) }, "ok")
  | ["nnloop", h] =>
    match ofHex h with
    | some b => some ({ s with nn := ({ s.nn.1 with loop := s.nn.1.loop ++ [b] }, s.nn.2) }, "ok")
    | none => some (s, "bad-op")
  | ["fcfg3", c] =>
    match ofHex c with
    | some b =>
      let (st, obs) := feed cfgStep3 s.nn b
      some ({ s with nn := st }, words (obs.map showC ++ ["buf=" ++ toHex st.2,
              "boards=" ++ (if st.1.boards.isEmpty then "-" else ",".intercalate (st.1.boards.map showBoard))]))
    | none => some (s, "bad-op")
  | ["pkcn", h] =>
    match ofHex h with
    | some b => some (s, showCRes (pcnParse b))
    | none => some (s, "bad-op")
  | ["pkcb", a, h] =>
    match a.toNat?, ofHex h with
    | some ad, some b => some (s, showCRes (pcbParse ad b))
    | _, _ => some (s, "bad-op")
  | ["oppid", h] =>
    match ofHex h with
    | some b => some (s, match readId b with | some n => "id " ++ toString n | none => "reject")
    | none => some (s, "bad-op")
  | ["oppinitu", reg, h] =>
    match ofHex h with
    | some b =>
      match initDispatchU (reg = "1") s.old.inv b with
      | some (i, o) => some ({ s with old := { s.old with inv := i } }, showI o)
      | none => some (s, "keyerror")
    | none => some (s, "bad-op")
  | _ => none

def driverStep (s : DSt3) (line : String) : DSt3 × String :=
  match driverStepA s line with
  | some r => r
  | none => let (o, out) := Framing2.driverStep s.old line; ({ s with old := o }, out)

end MpfVerif.Framing3
