/-!
# The ball ledger — bookkeeping protocol of MPF's ball devices (C04, C05)

This is **not** a model of the asyncio coroutines of `mpf/devices/ball_device/*.py`; it is the protocol they are meant
to follow, at the granularity of MPF's own accounting events.  Nodes are ball devices and playfields.  Per node:

* `balls`    — `BallDevice.balls` (belief about the physical content: `counted_balls`, minus one while the state is
               `ball_left` / `failed_confirm`) resp. `Playfield.balls`
* `counted`  — `BallCountHandler._ball_count` (`counted_balls`), devices only
* `avail`    — `available_balls` (claims; moved at *planning* time in `setup_eject_chain`)
* `inc`      — `IncomingBallsHandler._incoming_balls` / `Playfield._incoming_balls` (source of every expected ball)
* `phase`    — `BallDevice._state`, `cur` — `OutgoingBallsHandler._current_target`, `queue` — `_eject_queue`,
               `tries` — `eject_try`, `reqs` — `len(_ball_requests)`
* ghosts: `heading` (balls MPF has fired towards the node and not yet accounted for), `inflight`, `brokenPosted`,
  `requested`/`delivered`.

`step` is partial: `none` = the transition is not enabled (a guard of the code fails).  The driver is a *monitor*:
the harness feeds it the transitions it observed on the real machine; it answers `ok <counts>` or `not-enabled`.
-/
namespace MpfVerif.BallLedger

def total (l : List Int) : Int := l.foldr (· + ·) 0

@[simp] theorem total_nil : total [] = 0 := rfl
@[simp] theorem total_cons (x : Int) (l : List Int) : total (x :: l) = x + total l := rfl

/-- add `d` to entry `i` (no-op when out of range) -/
def bump : List Int → Nat → Int → List Int
  | [], _, _ => []
  | x :: xs, 0, d => (x + d) :: xs
  | x :: xs, i + 1, d => x :: bump xs i d

/-- replace entry `i` (no-op when out of range) -/
def setAt {α : Type} : List α → Nat → α → List α
  | [], _, _ => []
  | _ :: xs, 0, v => v :: xs
  | x :: xs, i + 1, v => x :: setAt xs i v

inductive Phase
  | idle | waitBall | waitTarget | ejecting | ballLeft | failedConfirm | broken
  deriving DecidableEq, Repr, Inhabited

def Phase.name : Phase → String
  | .idle => "idle" | .waitBall => "waiting_for_ball" | .waitTarget => "waiting_for_target_ready"
  | .ejecting => "ejecting" | .ballLeft => "ball_left" | .failedConfirm => "failed_confirm" | .broken => "eject_broken"

/-- static configuration -/
structure Cfg where
  n : Nat := 0
  pf : List Bool := []            -- node is a playfield
  cap : List Int := []            -- number of ball switches
  maxT : List Nat := []           -- max_eject_attempts (0 = unlimited)
  edges : List (Nat × Nat) := []  -- eject_targets
  missing : Nat := 0              -- ball_missing_target = captures_from playfield
  mech : List Bool := []          -- mechanical_eject: the player can let the ball go at any time
  ext : List Bool := []           -- confirm_eject_type switch / event: the eject is confirmed by an external signal
  deriving Repr

structure St where
  balls : List Int := []
  counted : List Int := []
  avail : List Int := []
  inc : List (List Nat) := []
  heading : List Int := []
  phase : List Phase := []
  cur : List (Option Nat) := []
  tries : List Nat := []
  failed : List Bool := []
  confirmed : List Bool := []
  queue : List (List Nat) := []
  reqs : List Nat := []
  inflight : Int := 0
  known : Int := 0
  brokenPosted : List Nat := []
  requested : Nat := 0
  delivered : Nat := 0
  manual : List Bool := []        -- a mechanical eject that began while the device was idle is under way
  skipping : List Bool := []      -- `_skipping_ball`: an expected ball may have passed the (mechanical) device unseen
  deriving Repr

inductive Op
  | request                            -- a ball was requested from outside (ghost counter only)
  | plan (path : List Nat)             -- setup_eject_chain
  | queueReq (d : Nat)                 -- _ball_requests.append
  | reqPop (d : Nat)                   -- _ball_requests.popleft
  | waitBall (d : Nat)                 -- state waiting_for_ball (dequeues when idle)
  | waitTarget (d : Nat)               -- state waiting_for_target_ready (dequeues when idle; the retry after a failure)
  | attempt (d t n : Nat)              -- ball_eject_attempt event; n > 0 is a retry
  | ejectStart (d t : Nat)             -- ejecting_ball event: the readiness guard has passed, the coil fires
  | ballLeft (d : Nat)                 -- state ball_left: incoming ball registered at the target
  | confirmTimeout (d : Nat)           -- state failed_confirm
  | enterExpected (d : Nat)            -- ball_enter with a matching incoming ball
  | pfCapture (d : Nat)                -- balldevice_captured_from_<playfield>
  | enterUnexpected (d : Nat)          -- ball_enter without incoming ball
  | pfArrived (t : Nat)                -- Playfield.ball_arrived: playfield activity confirms its first incoming ball
  | confirm (d t : Nat)                -- ball_eject_success in state ball_left
  | lateConfirm (d t : Nat)            -- ball_eject_success in state failed_confirm
  | ejectFailedReturn (d n : Nat)      -- ball_eject_failed(retry) after the ball came back
  | ejectFailedStuck (d n : Nat)       -- ball_eject_failed(retry) after the ball never left
  | broken (d : Nat)                   -- last attempt failed: state eject_broken, ball_eject_failed(retry=False), broken
  | lostEjected (d : Nat)              -- ball_missing_timeout: lost_ejected_ball
  | lostIdle (d : Nat)                 -- lost_idle_ball
  | incomingTimeout (d : Nat)          -- lost_incoming_ball
  | newBallFound                       -- found_new_ball
  | manualLeft (d t : Nat)             -- mechanical eject during idle: handle_mechanical_eject_during_idle + already_left eject
  | confirmManual (d t : Nat)          -- ball_eject_success of such an eject inside the confirm window (state still idle)
  | manualTimeout (d : Nat)            -- its confirm window closed: state failed_confirm
  | manualReturn (d : Nat)             -- its ball came back (incoming ball withdrawn at the target): no failure event, the
                                       -- eject loop takes the request over with attempt 0
  | extConfirm (d t : Nat)             -- ball_eject_success by the confirm switch / event: the target keeps the incoming ball
                                       -- (a playfield: until playfield activity; a device: until it arrives or times out)
  | pfArrivedStale (t src : Nat)       -- Playfield.ball_arrived pops an incoming ball whose eject is already confirmed
  | pfArrivedFrom (t src : Nat)        -- Playfield.ball_arrived confirms the first incoming ball that *can* arrive (balls of
                                       -- sources with an external confirmation cannot before their signal): not the head
  | skipStart (d t : Nat)              -- `_skipping_ball`: ejecting_ball while waiting_for_ball (mechanical device)
  | skipConfirm (d t : Nat)            -- the ball did pass: eject_success of `d` and confirmation of its source's eject
  | skipConfirmIdle (d t : Nat)        -- the same while `d` was idle (no eject of its own pending)
  | skipFail (d t : Nat)               -- it did not (it arrived in `d` after all, or went back): ball_eject_failed(1, retry)
  deriving Repr

/-! ### accessors -/
def St.b (s : St) (i : Nat) : Int := s.balls.getD i 0
def St.c (s : St) (i : Nat) : Int := s.counted.getD i 0
def St.a (s : St) (i : Nat) : Int := s.avail.getD i 0
def St.ph (s : St) (i : Nat) : Phase := s.phase.getD i .idle
def St.cu (s : St) (i : Nat) : Option Nat := s.cur.getD i none
def St.incOf (s : St) (i : Nat) : List Nat := s.inc.getD i []
def Cfg.isPf (c : Cfg) (i : Nat) : Bool := c.pf.getD i false
def Cfg.capOf (c : Cfg) (i : Nat) : Int := c.cap.getD i 0
def Cfg.maxOf (c : Cfg) (i : Nat) : Nat := c.maxT.getD i 0
def Cfg.edge (c : Cfg) (a b : Nat) : Bool := c.edges.contains (a, b)
def Cfg.isMech (c : Cfg) (i : Nat) : Bool := c.mech.getD i false
def Cfg.isExt (c : Cfg) (i : Nat) : Bool := c.ext.getD i false
def St.man (s : St) (i : Nat) : Bool := s.manual.getD i false
def St.skp (s : St) (i : Nat) : Bool := s.skipping.getD i false

/-- last element of `l`, or `d` when `l` is empty -/
def lastOf : List Nat → Nat → Nat
  | [], d => d
  | x :: xs, _ => lastOf xs x

/-- consecutive hops of a path -/
def hops : List Nat → List (Nat × Nat)
  | a :: b :: r => (a, b) :: hops (b :: r)
  | _ => []

def addHops (q : List (List Nat)) : List (Nat × Nat) → List (List Nat)
  | [] => q
  | (a, b) :: r => addHops (setAt q a (q.getD a [] ++ [b])) r

/-- `OutgoingBallsHandler.is_ready_to_receive` is false: ejecting to a playfield with `_eject_future` set -/
def busyToPf (c : Cfg) (s : St) (t : Nat) : Bool :=
  match s.cu t with
  | some u => c.isPf u && (s.ph t == .ejecting || s.ph t == .ballLeft || s.ph t == .failedConfirm) && !(s.failed.getD t false)
  | none => false

/-- `wait_for_ready_to_receive` returns: free space exceeds the registered incoming balls, target not ejecting -/
def readyTo (c : Cfg) (s : St) (t : Nat) : Bool :=
  c.isPf t || (decide (c.capOf t - s.c t > ((s.incOf t).length : Int)) && !busyToPf c s t)

/-- `find_available_ball_in_path(start)` along the `_current_target` chain.  A device whose eject loop has taken its next
request from the queue (`_current_target` set) but still waits for its count to be valid / for no incoming balls before it
enters `waiting_for_ball` shows state idle: in the ledger the request is still the head of the queue (`dequeue` happens
with the state change).  While a ball is registered as incoming at such a device that head *is* its `_current_target`
(the eject cannot be cancelled yet - no cancel future - but the path is found). -/
def findAvail (c : Cfg) (s : St) (start : Nat) : Nat → Nat → Bool
  | 0, _ => false
  | fuel + 1, t =>
    match s.cu t with
    | none =>
      match s.queue.getD t [] with
      | u :: _ =>
        if s.ph t == .idle && !(s.incOf t).isEmpty then
          if u = start then false else if c.isPf u then true else findAvail c s start fuel u
        else decide (s.a t > 0)
      | [] => decide (s.a t > 0)
    | some u => if u = start then false else if c.isPf u then true else findAvail c s start fuel u

/-- `_skipping_ball` runs while the device waits for the ball of its current eject, or while it is idle -/
def skipPhase (s : St) (d t : Nat) : Bool :=
  (s.ph d == .waitBall && s.cu d == some t) || (s.ph d == .idle && s.cu d == none)

/-- dequeue the next eject when idle -/
def dequeue (s : St) (d : Nat) : Option St :=
  match s.cu d, s.queue.getD d [] with
  | none, t :: rest => some { s with cur := setAt s.cur d (some t), queue := setAt s.queue d rest, tries := setAt s.tries d 0 }
  | _, _ => none

/-- leaving `failed_confirm` after a failed eject: the ball is believed to be back -/
def creditReturn (s : St) (d : Nat) : St :=
  if s.ph d == .failedConfirm then { s with balls := bump s.balls d 1, inflight := s.inflight - 1 } else s

/-- guard of every transition that credits a returned ball: in `failed_confirm` the belief is one below the count -/
def canCredit (s : St) (d : Nat) : Bool := s.ph d != .failedConfirm || decide (s.b d < s.c d)

def finishEject (s : St) (d : Nat) : St :=
  { s with counted := bump s.counted d (-1), phase := setAt s.phase d .idle, cur := setAt s.cur d none,
           tries := setAt s.tries d 0, failed := setAt s.failed d false, confirmed := setAt s.confirmed d false,
           manual := setAt s.manual d false }

/-- a ball is declared lost on its way to `t` and assumed to be on the playfield `c.missing`: cancel the rest of the
path if it led there, else claim another ball for the path (`restore`); `none` = "Failed to restore the path" -/
def lostPath (c : Cfg) (s : St) (start t : Nat) : Option St :=
  if s.ph t == .waitBall && s.cu t == some c.missing then
    some { s with cur := setAt s.cur t none, phase := setAt s.phase t .idle }
  else if findAvail c s start c.n t then
    some { s with avail := bump (bump s.avail t (-1)) c.missing 1 }
  else none

def failCommon (c : Cfg) (s : St) (d n : Nat) (fromPhase : Phase) : Option St :=
  match s.cu d with
  | some t =>
    if d < c.n && t < c.n && c.edge d t && s.ph d == fromPhase && !(s.failed.getD d false) && s.tries.getD d 0 + 1 == n
        && (c.maxOf d == 0 || n < c.maxOf d) then
      let s1 := { s with tries := setAt s.tries d n, failed := setAt s.failed d true, heading := bump s.heading t (-1) }
      if fromPhase == .failedConfirm then
        if (s.incOf t).contains d then some { s1 with inc := setAt s1.inc t ((s.incOf t).erase d) } else none
      else some s1
    else none
  | none => none

def step (c : Cfg) (s : St) : Op → Option St
  | .request => some { s with requested := s.requested + 1 }
  | .plan path =>
    match path with
    | p0 :: p1 :: rest =>
      if p0 < c.n && lastOf rest p1 < c.n && path.all (· < c.n) && (hops path).all (fun h => c.edge h.1 h.2)
          && decide (s.a p0 > 0) && !c.isPf p0 then
        some { s with avail := bump (bump s.avail p0 (-1)) (lastOf rest p1) 1, queue := addHops s.queue (hops path) }
      else none
    | _ => none
  | .queueReq d => if d < c.n && !c.isPf d then some { s with reqs := setAt s.reqs d (s.reqs.getD d 0 + 1) } else none
  | .reqPop d =>
    if d < c.n && s.reqs.getD d 0 > 0 then some { s with reqs := setAt s.reqs d (s.reqs.getD d 0 - 1) } else none
  | .waitBall d =>
    if d < c.n && !c.isPf d && decide (s.c d ≤ 0) then
      if s.ph d == .idle then
        (dequeue s d).map fun s1 => { s1 with phase := setAt s1.phase d .waitBall }
      else if s.failed.getD d false && (s.ph d == .ejecting || s.ph d == .failedConfirm) && canCredit s d then
        let s1 := creditReturn s d
        some { s1 with phase := setAt s1.phase d .waitBall, failed := setAt s1.failed d false }
      else none
    else none
  | .waitTarget d =>
    if d < c.n && !c.isPf d then
      if s.ph d == .idle then
        (dequeue s d).map fun s1 => { s1 with phase := setAt s1.phase d .waitTarget }
      else if s.ph d == .waitBall then some { s with phase := setAt s.phase d .waitTarget }
      else if s.failed.getD d false && (s.ph d == .ejecting || s.ph d == .failedConfirm) && canCredit s d then
        let s1 := creditReturn s d
        some { s1 with phase := setAt s1.phase d .waitTarget, failed := setAt s1.failed d false }
      else none
    else none
  | .attempt d t n =>
    if d < c.n && s.ph d == .waitTarget && s.cu d == some t && s.tries.getD d 0 == n then some s else none
  | .ejectStart d t =>
    if d < c.n && t < c.n && c.edge d t && s.ph d == .waitTarget && !(s.failed.getD d false) && s.cu d == some t
        && decide (s.b d > 0) && readyTo c s t then
      some { s with phase := setAt s.phase d .ejecting, heading := bump s.heading t 1 }
    else none
  | .ballLeft d =>
    match s.cu d with
    | some t =>
      if d < c.n && t < c.n && c.edge d t && s.ph d == .ejecting && !(s.failed.getD d false) && decide (s.b d > 0) then
        some { s with phase := setAt s.phase d .ballLeft, balls := bump s.balls d (-1), inflight := s.inflight + 1,
                      inc := setAt s.inc t (s.incOf t ++ [d]) }
      else none
    | none => none
  | .confirmTimeout d =>
    if d < c.n && s.ph d == .ballLeft then some { s with phase := setAt s.phase d .failedConfirm } else none
  | .enterExpected d =>
    match s.incOf d with
    | src :: rest =>
      if d < c.n && !c.isPf d && decide (s.c d < c.capOf d) then
        some { s with balls := bump s.balls d 1, counted := bump s.counted d 1, inc := setAt s.inc d rest,
                      heading := bump s.heading d (-1), inflight := s.inflight - 1,
                      confirmed := setAt s.confirmed src true }
      else none
    | [] => none
  | .pfCapture d =>
    if d < c.n && !c.isPf d && c.missing < c.n && c.isPf c.missing then
      some { s with balls := bump s.balls c.missing (-1), avail := bump (bump s.avail c.missing (-1)) d 1,
                    inflight := s.inflight + 1 }
    else none
  | .enterUnexpected d =>
    -- no incoming ball that could have arrived: none registered, or only balls of sources with an external confirmation
    -- (confirm switch / event), which cannot be matched before their signal
    if d < c.n && !c.isPf d && ((s.incOf d).isEmpty || (s.incOf d).all (fun src => c.isExt src)) && decide (s.c d < c.capOf d) then
      some { s with balls := bump s.balls d 1, counted := bump s.counted d 1, inflight := s.inflight - 1 }
    else none
  | .pfArrived t =>
    match s.incOf t with
    | src :: rest =>
      if t < c.n && c.isPf t then some { s with inc := setAt s.inc t rest, confirmed := setAt s.confirmed src true } else none
    | [] => none
  | .confirm d t =>
    if d < c.n && t < c.n && c.edge d t && !c.isPf d && s.ph d == .ballLeft && s.cu d == some t && decide (s.b d < s.c d) then
      if c.isPf t then
        if (s.incOf t).contains d || s.confirmed.getD d false then
          let s1 := finishEject s d
          some { s1 with balls := bump s1.balls t 1, inflight := s1.inflight - 1, inc := setAt s1.inc t ((s.incOf t).erase d),
                         heading := bump s1.heading t (-1), delivered := s1.delivered + 1 }
        else none
      else if s.confirmed.getD d false then some (finishEject s d) else none
    else none
  | .lateConfirm d t =>
    if d < c.n && t < c.n && c.edge d t && !c.isPf d && s.ph d == .failedConfirm && !(s.failed.getD d false) && s.cu d == some t
        && decide (s.b d < s.c d) then
      if c.isPf t then
        if (s.incOf t).contains d || s.confirmed.getD d false then
          let s1 := finishEject s d
          some { s1 with balls := bump s1.balls t 1, inflight := s1.inflight - 1, inc := setAt s1.inc t ((s.incOf t).erase d),
                         heading := bump s1.heading t (-1), delivered := s1.delivered + 1 }
        else none
      else if s.confirmed.getD d false then some (finishEject s d) else none
    else none
  | .ejectFailedReturn d n => failCommon c s d n .failedConfirm
  | .ejectFailedStuck d n => failCommon c s d n .ejecting
  | .broken d =>
    match s.cu d with
    | some t =>
      if d < c.n && t < c.n && c.edge d t && (s.ph d == .ejecting || s.ph d == .failedConfirm) && !(s.failed.getD d false)
          && c.maxOf d > 0 && s.tries.getD d 0 + 1 == c.maxOf d && s.brokenPosted.getD d 0 == 0 && canCredit s d then
        let s1 := creditReturn s d
        let s2 := { s1 with phase := setAt s1.phase d .broken, tries := setAt s1.tries d (c.maxOf d),
                            heading := bump s1.heading t (-1), brokenPosted := setAt s1.brokenPosted d 1 }
        if s.ph d == .failedConfirm then
          if (s.incOf t).contains d then some { s2 with inc := setAt s2.inc t ((s.incOf t).erase d) } else none
        else some s2
      else none
    | none => none
  | .lostEjected d =>
    match s.cu d with
    | some t =>
      if d < c.n && t < c.n && c.missing < c.n && c.isPf c.missing && c.edge d t && !c.isPf t && s.ph d == .failedConfirm
          && !(s.failed.getD d false) && (s.incOf t).contains d && decide (s.b d < s.c d) then
        (lostPath c s d t).map fun s1 =>
          let s2 := finishEject s1 d
          { s2 with inc := setAt s2.inc t ((s.incOf t).erase d), heading := bump s2.heading t (-1),
                    balls := bump s2.balls c.missing 1, inflight := s2.inflight - 1 }
      else none
    | none => none
  | .lostIdle d =>
    if d < c.n && c.missing < c.n && c.isPf c.missing && !c.isPf d && s.ph d == .idle && (s.queue.getD d []).isEmpty && s.cu d == none && decide (s.b d > 0) then
      some { s with balls := bump (bump s.balls d (-1)) c.missing 1, counted := bump s.counted d (-1),
                    avail := bump (bump s.avail d (-1)) c.missing 1 }
    else none
  | .incomingTimeout d =>
    match s.incOf d with
    | _ :: rest =>
      if d < c.n && c.missing < c.n && c.isPf c.missing && !c.isPf d then
        (lostPath c s d d).map fun s1 =>
          { s1 with inc := setAt s1.inc d rest, heading := bump s1.heading d (-1), balls := bump s1.balls c.missing 1,
                    inflight := s1.inflight - 1 }
      else none
    | [] => none
  | .newBallFound =>
    if c.missing < c.n && c.isPf c.missing && decide (total s.counted > s.known) then
      some { s with known := s.known + 1, balls := bump s.balls c.missing 1, avail := bump s.avail c.missing 1 }
    else none
  | .manualLeft d t =>
    -- the player lets go of a ball that rests in an idle mechanical device: the count drops with nothing queued.  The ball
    -- is *adopted*: its claim moves to the target (like `plan`), an eject towards `t` is in progress (`cur`), the ball is
    -- registered as incoming at `t`.  `balls`/`counted` still include it until the eject is confirmed (state stays idle).
    if d < c.n && t < c.n && c.edge d t && !c.isPf d && c.isMech d && s.ph d == .idle && s.cu d == none
        && (s.queue.getD d []).isEmpty && decide (s.b d > 0) && decide (s.a d > 0) && !s.man d then
      some { s with avail := bump (bump s.avail d (-1)) t 1, cur := setAt s.cur d (some t), manual := setAt s.manual d true,
                    heading := bump s.heading t 1, inc := setAt s.inc t (s.incOf t ++ [d]) }
    else none
  | .confirmManual d t =>
    if d < c.n && t < c.n && c.edge d t && !c.isPf d && c.isPf t && s.man d && s.ph d == .idle && s.cu d == some t
        && decide (s.b d > 0) && ((s.incOf t).contains d || s.confirmed.getD d false) then
      let s1 := finishEject s d
      -- (with an external confirmation the playfield keeps the incoming ball, see `extConfirm`)
      some { s1 with balls := bump (bump s1.balls d (-1)) t 1,
                     inc := setAt s1.inc t (if c.isExt d && (s.incOf t).contains d then s.incOf t else (s.incOf t).erase d),
                     heading := bump s1.heading t (-1), delivered := s1.delivered + 1 }
    else none
  | .manualTimeout d =>
    if d < c.n && !c.isPf d && s.man d && s.ph d == .idle && (s.cu d).isSome && decide (s.b d > 0) then
      some { s with phase := setAt s.phase d .failedConfirm, balls := bump s.balls d (-1), inflight := s.inflight + 1 }
    else none
  | .manualReturn d =>
    match s.cu d with
    | some t =>
      if d < c.n && t < c.n && c.edge d t && !c.isPf d && s.man d && s.ph d == .failedConfirm && !(s.failed.getD d false)
          && (s.incOf t).contains d && decide (s.b d < s.c d) then
        -- (the ball is credited and the phase changes with the `waitTarget`/`waitBall` that follows, as after any failure)
        some { s with failed := setAt s.failed d true, manual := setAt s.manual d false, tries := setAt s.tries d 0,
                      inc := setAt s.inc t ((s.incOf t).erase d), heading := bump s.heading t (-1) }
      else none
    | none => none
  | .extConfirm d t =>
    if d < c.n && t < c.n && c.edge d t && !c.isPf d && c.isExt d && (s.ph d == .ballLeft || s.ph d == .failedConfirm)
        && !(s.failed.getD d false) && s.cu d == some t && decide (s.b d < s.c d) && (s.incOf t).contains d then
      let s1 := finishEject s d
      if c.isPf t then
        some { s1 with balls := bump s1.balls t 1, inflight := s1.inflight - 1, heading := bump s1.heading t (-1),
                       delivered := s1.delivered + 1 }
      else
        -- a device target: the source is done, the ball stays in flight and registered as incoming at the target until it
        -- arrives there (`enterExpected`) or its incoming time-out runs out (`incomingTimeout`)
        some s1
    else none
  | .pfArrivedStale t src =>
    if t < c.n && c.isPf t && (s.incOf t).contains src then some { s with inc := setAt s.inc t ((s.incOf t).erase src) } else none
  | .pfArrivedFrom t src =>
    if t < c.n && c.isPf t && (s.incOf t).contains src then
      some { s with inc := setAt s.inc t ((s.incOf t).erase src), confirmed := setAt s.confirmed src true }
    else none
  | .skipStart d t =>
    if d < c.n && t < c.n && c.edge d t && !c.isPf d && c.isMech d && skipPhase s d t
        && !(s.incOf d).isEmpty && !s.skp d then
      some { s with skipping := setAt s.skipping d true, heading := bump s.heading t 1, inc := setAt s.inc t (s.incOf t ++ [d]) }
    else none
  | .skipConfirm d t =>
    match s.incOf d with
    | src :: rest =>
      if d < c.n && t < c.n && c.edge d t && !c.isPf d && c.isPf t && s.skp d && s.ph d == .waitBall && s.cu d == some t
          && ((s.incOf t).contains d || s.confirmed.getD d false) then
        some { s with balls := bump s.balls t 1, inflight := s.inflight - 1, heading := bump (bump s.heading t (-1)) d (-1),
                      inc := setAt s.inc d rest, confirmed := setAt (setAt s.confirmed d false) src true,
                      phase := setAt s.phase d .idle, cur := setAt s.cur d none, tries := setAt s.tries d 0,
                      skipping := setAt s.skipping d false, delivered := s.delivered + 1 }
      else none
    | [] => none
  | .skipConfirmIdle d t =>
    -- the device was idle (it was to keep the expected ball): the ball is on the playfield now, and so is its claim
    match s.incOf d with
    | src :: rest =>
      if d < c.n && t < c.n && c.edge d t && !c.isPf d && c.isPf t && s.skp d && s.ph d == .idle && s.cu d == none
          && ((s.incOf t).contains d || s.confirmed.getD d false) then
        some { s with balls := bump s.balls t 1, inflight := s.inflight - 1, heading := bump (bump s.heading t (-1)) d (-1),
                      inc := setAt s.inc d rest, confirmed := setAt (setAt s.confirmed d false) src true,
                      avail := bump (bump s.avail d (-1)) t 1,
                      skipping := setAt s.skipping d false, delivered := s.delivered + 1 }
      else none
    | [] => none
  | .skipFail d t =>
    if d < c.n && t < c.n && c.edge d t && !c.isPf d && s.skp d && skipPhase s d t
        && (s.incOf t).contains d then
      some { s with skipping := setAt s.skipping d false, heading := bump s.heading t (-1),
                    inc := setAt s.inc t ((s.incOf t).erase d) }
    else none

/-- run a whole history; `none` as soon as one transition is not enabled -/
def run (c : Cfg) : St → List Op → Option St
  | s, [] => some s
  | s, op :: rest => match step c s op with
    | some s' => run c s' rest
    | none => none

/-- initial state: `counts[i]` balls counted in device `i`, everything idle -/
def initSt (c : Cfg) (counts : List Int) : St :=
  { balls := counts, counted := counts, avail := counts,
    inc := List.replicate c.n [], heading := List.replicate c.n 0, phase := List.replicate c.n .idle,
    cur := List.replicate c.n none, tries := List.replicate c.n 0, failed := List.replicate c.n false,
    confirmed := List.replicate c.n false, queue := List.replicate c.n [], reqs := List.replicate c.n 0,
    inflight := 0, known := total counts, brokenPosted := List.replicate c.n 0, manual := List.replicate c.n false,
    skipping := List.replicate c.n false }

/-! ## the entrance-switch counter (`entrance_switch_counter.py`): a device without ball switches counts the hits of its
entrance switch up and its own ejects down -/

structure EC where
  node : Nat := 0
  cap : Nat := 0
  fullTo : Bool := false          -- entrance_switch_full_timeout configured
  last : Nat := 0                 -- `_last_count`
  entries : Nat := 0              -- ghost: balls counted in
  ejects : Nat := 0               -- ghost: balls counted out
  dropped : Nat := 0              -- ghost: hits that were not counted (ignore window, device already full, short deferred hit)
  pending : Bool := false         -- the hit that would fill the device waits for the full timeout or the switch opening
  deriving Repr

inductive ECOp
  | hit (ignored : Bool)          -- `_entrance_switch_handler`; `ignored` = inside entrance_switch_ignore_window_ms
  | full                          -- `_entrance_switch_full_handler`: a ball rests on the entrance switch
  | left                          -- `_ball_left`: 10 ms after the device's own eject
  | release                       -- `_entrance_switch_released_handler`
  deriving Repr

def ecStep (e : EC) : ECOp → Option EC
  | .hit true => some { e with dropped := e.dropped + 1 }
  | .hit false =>
    if e.cap ≤ e.last then some { e with dropped := e.dropped + 1 }                       -- "already full": not counted
    else if e.fullTo && e.cap == e.last + 1 then some { e with pending := true }          -- left to full handler / release
    else some { e with last := e.last + 1, entries := e.entries + 1 }
  | .full =>
    if e.last < e.cap then some { e with entries := e.entries + (e.cap - e.last), last := e.cap, pending := false }
    else some { e with pending := false }
  | .left => if e.last > 0 then some { e with last := e.last - 1, ejects := e.ejects + 1 } else none
  | .release =>
    -- the switch opened before the full time-out: by design the deferred hit is taken for a bounce of the balls already in the
    -- device (Gottlieb troughs: the balls roll down over the entrance switch after an eject) and dropped
    if e.pending then some { e with dropped := e.dropped + 1, pending := false } else some e

def ecRun : EC → List ECOp → Option EC
  | e, [] => some e
  | e, op :: rest => match ecStep e op with
    | some e' => ecRun e' rest
    | none => none

/-! ## driver (monitor) -/

def showNode (c : Cfg) (s : St) (i : Nat) : String :=
  if c.isPf i then s!"{s.b i}/{s.a i}/{(s.incOf i).length}"
  else s!"{s.b i}/{s.c i}/{s.a i}/{(s.incOf i).length}/{(s.ph i).name}/{(s.queue.getD i []).length + (if (s.cu i).isSome then 1 else 0)}/{s.reqs.getD i 0}"

def showSt (c : Cfg) (s : St) : String :=
  s!"ok known={s.known} " ++ " ".intercalate ((List.range c.n).map (showNode c s))

structure DSt where
  c : Cfg := {}
  s : St := {}
  ec : Option EC := none

def nats (ts : List String) : Option (List Nat) := ts.mapM String.toNat?

def parseOp : List String → Option Op
  | ["request"] => some .request
  | "plan" :: rest => (nats rest).map .plan
  | ["queueReq", d] => d.toNat?.map .queueReq
  | ["reqPop", d] => d.toNat?.map .reqPop
  | ["waitBall", d] => d.toNat?.map .waitBall
  | ["waitTarget", d] => d.toNat?.map .waitTarget
  | ["attempt", d, t, n] => do pure (.attempt (← d.toNat?) (← t.toNat?) (← n.toNat?))
  | ["retry", d, t, n] => do pure (.attempt (← d.toNat?) (← t.toNat?) (← n.toNat?))
  | ["ejectStart", d, t] => do pure (.ejectStart (← d.toNat?) (← t.toNat?))
  | ["ballLeft", d] => d.toNat?.map .ballLeft
  | ["confirmTimeout", d] => d.toNat?.map .confirmTimeout
  | ["enterExpected", d] => d.toNat?.map .enterExpected
  | ["pfCapture", d] => d.toNat?.map .pfCapture
  | ["enterUnexpected", d] => d.toNat?.map .enterUnexpected
  | ["pfArrived", t] => t.toNat?.map .pfArrived
  | ["confirm", d, t] => do pure (.confirm (← d.toNat?) (← t.toNat?))
  | ["lateConfirm", d, t] => do pure (.lateConfirm (← d.toNat?) (← t.toNat?))
  | ["ejectFailedReturn", d, n] => do pure (.ejectFailedReturn (← d.toNat?) (← n.toNat?))
  | ["ejectFailedStuck", d, n] => do pure (.ejectFailedStuck (← d.toNat?) (← n.toNat?))
  | ["broken", d] => d.toNat?.map .broken
  | ["lostEjected", d] => d.toNat?.map .lostEjected
  | ["lostIdle", d] => d.toNat?.map .lostIdle
  | ["incomingTimeout", d] => d.toNat?.map .incomingTimeout
  | ["newBallFound"] => some .newBallFound
  | ["manualLeft", d, t] => do pure (.manualLeft (← d.toNat?) (← t.toNat?))
  | ["confirmManual", d, t] => do pure (.confirmManual (← d.toNat?) (← t.toNat?))
  | ["manualTimeout", d] => d.toNat?.map .manualTimeout
  | ["manualReturn", d] => d.toNat?.map .manualReturn
  | ["extConfirm", d, t] => do pure (.extConfirm (← d.toNat?) (← t.toNat?))
  | ["pfArrivedStale", t, src] => do pure (.pfArrivedStale (← t.toNat?) (← src.toNat?))
  | ["pfArrivedFrom", t, src] => do pure (.pfArrivedFrom (← t.toNat?) (← src.toNat?))
  | ["skipStart", d, t] => do pure (.skipStart (← d.toNat?) (← t.toNat?))
  | ["skipConfirm", d, t] => do pure (.skipConfirm (← d.toNat?) (← t.toNat?))
  | ["skipFail", d, t] => do pure (.skipFail (← d.toNat?) (← t.toNat?))
  | ["skipConfirmIdle", d, t] => do pure (.skipConfirmIdle (← d.toNat?) (← t.toNat?))
  | _ => none

/-- node token: `p` (playfield) or `d,<cap>,<maxTries>,<balls>` -/
def parseNode (t : String) : Option (Bool × Int × Nat × Int) :=
  match t.splitOn "," with
  | ["p"] => some (true, 0, 0, 0)
  | ["d", a, b, e] => do pure (false, ((← a.toNat?) : Int), ← b.toNat?, ((← e.toNat?) : Int))
  | _ => none

/-- extra tokens of the node section: `ec,<node>,<cap>,<fullTimeout 0|1>,<initial count>` and `mech,<node>` -/
def parseEC (t : String) : Option EC :=
  match t.splitOn "," with
  | ["ec", n, cp, f, l] => do pure { node := ← n.toNat?, cap := ← cp.toNat?, fullTo := (← f.toNat?) != 0, last := ← l.toNat? }
  | _ => none

def parseMech (t : String) : Option Nat :=
  match t.splitOn "," with
  | ["mech", n] => n.toNat?
  | ["ext", n] => n.toNat?
  | _ => none

def parseECOp : List String → Option ECOp
  | ["hit", i] => i.toNat?.map fun k => .hit (k != 0)
  | ["full", _] => some .full
  | ["left", _] => some .left
  | ["release", _] => some .release
  | _ => none

def parseEdge (t : String) : Option (Nat × Nat) :=
  match t.splitOn ">" with
  | [a, b] => do pure (← a.toNat?, ← b.toNat?)
  | _ => none

/-- `cfg <missing> <node>... | <edge>...` -/
def parseCfg (ts : List String) : Option (Cfg × St × Option EC) :=
  match ts with
  | m :: rest =>
    let sect := rest.takeWhile (· != "|")
    let nodesT := sect.filter (fun t => !(t.startsWith "ec,") && !(t.startsWith "mech,") && !(t.startsWith "ext,"))
    let extT := sect.filter (·.startsWith "ext,")
    let ecT := sect.filter (·.startsWith "ec,")
    let mechT := sect.filter (·.startsWith "mech,")
    let edgesT := (rest.dropWhile (· != "|")).drop 1
    do
      let ns ← nodesT.mapM parseNode
      let es ← edgesT.mapM parseEdge
      let ecs ← ecT.mapM parseEC
      let ms ← mechT.mapM parseMech
      let xs ← extT.mapM parseMech
      let c : Cfg := { n := ns.length, pf := ns.map (·.1), cap := ns.map (·.2.1), maxT := ns.map (·.2.2.1), edges := es,
                       missing := ← m.toNat?, mech := (List.range ns.length).map (fun i => ms.contains i),
                       ext := (List.range ns.length).map (fun i => xs.contains i) }
      pure (c, initSt c (ns.map (·.2.2.2)), ecs.head?)
  | [] => none

def showAll (d : DSt) : String :=
  match d.ec with
  | some e => showSt d.c d.s ++ s!" ec={e.last}"
  | none => showSt d.c d.s

def driverStep (d : DSt) (line : String) : DSt × String :=
  match line.splitOn " " with
  | "cfg" :: rest =>
    match parseCfg rest with
    | some (c, s, ec) => let d' : DSt := { c := c, s := s, ec := ec }; (d', showAll d')
    | none => (d, "bad-op")
  | ["show"] => (d, showAll d)
  | "ec" :: rest =>
    match d.ec, parseECOp rest with
    | some e, some op =>
      match ecStep e op with
      | some e' => let d' := { d with ec := some e' }; (d', showAll d')
      | none => (d, "not-enabled")
    | _, _ => (d, "bad-op")
  | ts =>
    match parseOp ts with
    | some op =>
      match step d.c d.s op with
      | some s' => let d' := { d with s := s' }; (d', showAll d')
      | none => (d, "not-enabled")
    | none => (d, "bad-op")

end MpfVerif.BallLedger
