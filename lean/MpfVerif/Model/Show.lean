/-!
# Running shows (C17) — model of `RunningShow` in `mpf/assets/show.py` as driven by `show_player`

Times are rational: `Nat` numerators over one common denominator chosen per run by the harness (so fine that every
`dur * spDen / spNum` is an integer — the driver refuses anything else, `Lemmas/ShowExact.lean` proves that the schedule
is then the exact rational one), durations are per step in the same unit (`0` stands for Python's `-1`: hold for ever),
speed is the fraction `spNum / spDen`, so a step lasts `dur * spDen / spNum`.
A live `call_at` timer is an element of `timers`; `handle` is `_delay_handler` (the one timer the show can cancel).
Observations: `eff idx t` (the effects of step `idx` are played with `start_time = t`), `ev e` (a show event is posted),
`clr` (the show's context is cleared in the players it used).
-/
namespace MpfVerif.Show

inductive Ev
  | played | stopped | looped | paused | resumed | advanced | steppedBack | completed
  deriving DecidableEq, Repr

inductive Obs
  | eff (idx t : Nat)
  | ev (e : Ev)
  | clr
  deriving DecidableEq, Repr

structure RS where
  durs : List Nat := []
  spNum : Nat := 1
  spDen : Nat := 1
  loops : Option Nat := none          -- `none`: loops < 0 (for ever)
  manual : Bool := false
  nextIdx : Int := 0
  nextTime : Nat := 0
  timers : List (Nat × Nat) := []     -- live timers (id, when)
  handle : Option Nat := none         -- `_delay_handler`
  nextId : Nat := 0
  stopped : Bool := true              -- no show yet = nothing can run
  dirty : Bool := false               -- `_players` is non-empty: effects were played under the show's context
  now : Nat := 0
  known : Bool := false               -- the show player's instance dict has an entry for the show's key
  pending : Bool := false             -- `sync_ms`: the live timer is the synchronised start (`_start_now`), no step ran yet
  pauseAfter : Bool := false          -- `not start_running`, kept for `_start_now`
  started : Bool := false             -- ghost: `_start_now` ran (it is what posts `events_when_played`)
  deriving DecidableEq, Repr

/-- `duration / speed` of step `i` -/
def ttn (s : RS) (i : Nat) : Nat := s.durs.getD i 0 * s.spDen / s.spNum

/-- `_remove_delay_handler` -/
def cancelHandle (s : RS) : RS :=
  match s.handle with
  | some id => { s with timers := s.timers.filter (fun t => decide (t.1 ≠ id)), handle := none }
  | none => s

/-- `stop()` -/
def stop (s : RS) : RS × List Obs :=
  if s.stopped then (s, [])
  else
    let s1 := cancelHandle { s with stopped := true }
    ({ s1 with dirty := false }, (if s.dirty then [Obs.clr] else []) ++ [Obs.ev .stopped])

/-- the body of `_run_next_step` once the step index is known: play the step's effects, post the events, advance the
index and (unless manual / hold / pause-after-step) schedule the next step at the *absolute* time `nextTime + d` -/
def playStep (s : RS) (idx : Nat) (evs : List Ev) (pauseAfter : Bool) : RS × List Obs :=
  let d := ttn s idx
  let s1 := { s with nextIdx := (idx : Int) + 1, dirty := true }
  let s2 := if !s.manual && decide (0 < d) && !pauseAfter then
      { s1 with nextTime := s.nextTime + d, timers := s1.timers ++ [(s.nextId, s.nextTime + d)],
                handle := some s.nextId, nextId := s.nextId + 1 }
    else s1
  (s2, Obs.eff idx s.nextTime :: evs.map Obs.ev)

/-- `_run_next_step` (with the D14/D26 repair: a stopped show runs nothing) -/
def runNext (s : RS) (post : List Ev) (pauseAfter : Bool) : RS × List Obs :=
  if s.stopped then (s, [])
  else
    let total : Nat := s.durs.length
    let idx0 : Int := if s.nextIdx < 0 then s.nextIdx % (total : Int) else s.nextIdx
    if idx0 ≥ (total : Int) then
      match s.loops with
      | none => playStep s 0 (post ++ [Ev.looped]) pauseAfter
      | some (n + 1) => playStep { s with loops := some n } 0 (post ++ [Ev.looped]) pauseAfter
      | some 0 =>
        let (s1, o) := stop s
        (s1, o ++ (post ++ [Ev.completed]).map Obs.ev)
    else playStep s idx0.toNat post pauseAfter

/-- `_start_play`: the index of the first step.  `start_step` is 1-based; a negative one counts from the end
(Python's `%` with a positive modulus is Lean's `Int.emod`); `0`/`None` is the first step; a value beyond the end is kept
and treated by `_run_next_step` as "at the end of the show" (a loop is consumed, or the show completes at once). -/
def startIdx (start : Int) (total : Nat) : Int :=
  if start > 0 then start - 1 else if start < 0 then start % (total : Int) else 0

/-- `sync_ms`: `next_step_time += sync - next_step_time % sync` — the first multiple of `sync` strictly after `t` -/
def syncTime (sync t : Nat) : Nat := t + sync - t % sync

inductive Op
  | play (durs : List Nat) (num den : Nat) (loops : Option Nat) (start : Int) (running manual : Bool) (sync : Nat) (t : Nat)
  | stop (t : Nat)
  | pause (t : Nat)
  | resume (t : Nat)
  | advance (t : Nat)
  | back (t : Nat)
  | speed (num den t : Nat)
  | fire (t : Nat)          -- the handle's timer runs at clock time `t` (≥ its deadline: the loop may be late)
  deriving Repr

/-- `_start_play` of a fresh instance `s0` (its `nextTime` is the start time handed in): run the first step now, or —
with `sync_ms` — arm the start timer at the next multiple of `sync` -/
def startPlay (s0 : RS) (running : Bool) (sync : Nat) : RS × List Obs :=
  if sync = 0 then runNext { s0 with started := true } [.played] (!running)
  else
    let T := syncTime sync s0.nextTime
    ({ s0 with nextTime := T, pending := true, pauseAfter := !running, timers := s0.timers ++ [(s0.nextId, T)],
               handle := some s0.nextId, nextId := s0.nextId + 1 }, [])

/-- what the show's timer runs: the synchronised start (`_start_now`) or an ordinary step (`_run_next_step`) -/
def timerBody (s : RS) : RS × List Obs :=
  if s.stopped then (s, [])      -- (`_start_now` / `_run_next_step` of a stopped show return at once)
  else if s.pending then runNext { s with pending := false, started := true } [.played] s.pauseAfter
  else runNext s [] false

/-- `resume()` / `advance()` / `step_back()` after `_remove_delay_handler()`: the next step runs now.  A show that still
waits for its synchronised start is *started* now instead (`_start_if_waiting`: `played` is posted, the start step
runs, the request's own event is not posted) — the repair of the defect that such a request played steps of a show that
had never started. -/
def reqBody (s1 : RS) (ev : Ev) (back : Bool) : RS × List Obs :=
  if s1.stopped then (s1, [])
  else if s1.pending then
    runNext { s1 with nextTime := s1.now, pending := false, started := true } [.played] s1.pauseAfter
  else runNext { s1 with nextTime := s1.now, nextIdx := if back then s1.nextIdx - 2 else s1.nextIdx } [ev] false

def setNow (s : RS) (t : Nat) : RS := { s with now := max s.now t }

/-- the timer the loop may run: the show's handle, when due -/
def dueHandle (s : RS) : Option (Nat × Nat) :=
  match s.handle with
  | some id => s.timers.find? (fun t => t.1 == id && decide (t.2 ≤ s.now))
  | none => none

/-- any live timer that is due (there is never one besides the handle: `single_timer`) -/
def dueAny (s : RS) : Option (Nat × Nat) := s.timers.find? (fun t => decide (t.2 ≤ s.now))

/-- the control requests of the show player reach the show only while its key is in the instance dict -/
def ctl (s : RS) (t : Nat) (f : RS → RS × List Obs) : RS × List Obs :=
  if s.known then f (setNow s t) else (setNow s t, [])

def step (s : RS) : Op → RS × List Obs
  | .play durs num den loops start running manual sync t =>
    -- `replace_or_advance_show`: a previous instance that still runs is stopped, then a new RunningShow starts
    -- (`_start_play`).  With `sync_ms` the start is a timer at the next multiple of `sync` (the driver refuses a
    -- synchronised play over an instance that still runs: its stop would be deferred to the start, outside this model).
    let (sOld, o) := stop (setNow s t)
    let s0 : RS := { durs := durs, spNum := num, spDen := den, loops := loops, manual := manual,
                     nextIdx := startIdx start durs.length, nextTime := sOld.now, stopped := false, now := sOld.now,
                     nextId := sOld.nextId, timers := sOld.timers, known := true }
    let (s1, o1) := startPlay s0 running sync
    (s1, o ++ o1)
  | .stop t => ctl s t (fun s => let (s1, o) := stop s; ({ s1 with known := false }, o))
  | .pause t => ctl s t (fun s => (cancelHandle s, [Obs.ev .paused]))
  | .resume t => ctl s t (fun s => reqBody (cancelHandle s) .resumed false)
  | .advance t => ctl s t (fun s => reqBody (cancelHandle s) .advanced false)
  | .back t => ctl s t (fun s => reqBody (cancelHandle s) .steppedBack true)
  | .speed num den t => ctl s t (fun s => ({ s with spNum := num, spDen := den }, []))
  | .fire t =>
    let s1 := setNow s t
    match dueAny s1 with
    | none => (s1, [])
    | some tm =>
      -- the timer is consumed; the show still remembers its (now dead) handle, as in Python
      timerBody { s1 with timers := s1.timers.filter (fun x => decide (x.1 ≠ tm.1)) }

def run (s : RS) : List Op → RS × List Obs
  | [] => (s, [])
  | o :: r =>
    let (s1, o1) := step s o
    let (s2, o2) := run s1 r
    (s2, o1 ++ o2)

/-! ## line-protocol driver -/

def showEv : Ev → String
  | .played => "played" | .stopped => "stopped" | .looped => "looped" | .paused => "paused"
  | .resumed => "resumed" | .advanced => "advanced" | .steppedBack => "stepped_back" | .completed => "completed"

def showObs : Obs → String
  | .eff i t => "e" ++ toString i ++ "@" ++ toString t
  | .ev e => "E" ++ showEv e
  | .clr => "clr"

def answer (r : RS × List Obs) : RS × String :=
  (r.1, "o" ++ String.join (r.2.map (fun o => " " ++ showObs o)) ++ " |" ++ toString r.1.timers.length ++
    (if r.1.stopped then " S" else " R"))

/-- the time unit is fine enough for this speed: every `dur * den / num` is exact (no rounding in the model) -/
def exactFor (durs : List Nat) (num den : Nat) : Bool := durs.all (fun d => d * den % num == 0)

def allNat (ws : List String) : Option (List Nat) := ws.mapM (fun w => w.toNat?)

def driverStep (s : RS) (line : String) : RS × String :=
  match line.splitOn " " with
  | "play" :: rest =>
    -- play <num> <den> <loops|inf> <start (Int)> <running 0/1> <manual 0/1> <sync> <t> <d1> ... <dn>
    match rest with
    | num :: den :: loops :: start :: running :: manual :: sync :: t :: ds =>
      match allNat [num, den, running, manual, sync, t], allNat ds,
            (if loops = "inf" then some none else loops.toNat?.map some), start.toInt? with
      | some [num, den, running, manual, sync, t], some durs, some lp, some start =>
        -- times are numerators over a common denominator: the unit must be fine enough for `dur * den / num` to be exact
        if num = 0 ∨ durs.isEmpty ∨ t < s.now ∨ !exactFor durs num den ∨ (sync ≠ 0 ∧ !s.stopped) then (s, "bad-op")
        else answer (step s (.play durs num den lp start (running == 1) (manual == 1) sync t))
      | _, _, _, _ => (s, "bad-op")
    | _ => (s, "bad-op")
  | [op, t] =>
    match t.toNat? with
    | none => (s, "bad-op")
    | some t =>
      if t < s.now then (s, "bad-op") else
      match op with
      | "stop" => answer (step s (.stop t))
      | "pause" => answer (step s (.pause t))
      | "resume" => answer (step s (.resume t))
      | "advance" => answer (step s (.advance t))
      | "back" => answer (step s (.back t))
      | "fire" =>
        match dueAny (setNow s t) with
        | none => (s, "not-enabled")
        | some _ => answer (step s (.fire t))
      | _ => (s, "bad-op")
  | ["speed", num, den, t] =>
    match allNat [num, den, t] with
    | some [num, den, t] =>
      if num = 0 ∨ t < s.now ∨ (s.known ∧ !exactFor s.durs num den) then (s, "bad-op") else answer (step s (.speed num den t))
    | _ => (s, "bad-op")
  | ["reset"] => ({}, "ok")
  | _ => (s, "bad-op")

def init : RS := {}

end MpfVerif.Show
