/-!
# Game lifecycle (C06) — the coroutine `Game._run` of `mpf/modes/game/code/game.py` (after the D19/D20 repairs, the ball increment at the
beginning of the turn and the early return of `_start_game` when the game is already ending) as a
resumable state machine

`pc = some e`: the coroutine awaits the completion of lifecycle event `e` (for `ball_started`: it then sits in
`_end_ball_event.wait()`); `resume` runs the code from there up to and including the next lifecycle post.  Environment
requests (`end_ball`, `end_game`, slam tilt, `balls_in_play = n`, a drain, an extra-ball award, a player-add request) may
arrive at any pc.  When a posted event completes (handlers, queue waits) is a scheduler choice: `resume` is an input op.

Session 3: the real tilt mode as far as it acts on the game (`tilt`, `slamTilt`, `tiltWarn`, `warnReset`, `tiltClear`:
`tilted`, `slam`, the end-of-ball event, per-player warnings), a player-add request vetoed by a `player_add_request`
handler (`addVetoed`), a stop of the game mode from outside (`abort`, pseudo event `abt` in the trace), a growing
`num_balls_known` (`setKnown`), `balls_per_game` / `max_players` templates evaluated when `_run` begins (`config`, only
between games), and `end_game` while `_start_game` waits for the first player (the game ends without having started).
Ball devices, ball saves and multiballs are not modelled: what they do reaches the game as `drain n` / `setBip n`.
-/
namespace MpfVerif.Game

inductive Ev
  | gws | gsg | gsd | ptws | ptsg | ptsd | bws | bsg | bsd | bwe | beg | bed | ptwe | pteg | pted | gwe | geg | ged
  | abt      -- pseudo event: the game mode was stopped from outside while `_run` had not returned (its task is cancelled)
  deriving DecidableEq, Repr

inductive Op
  | start | resume | endBall | endGame | slam | setBip (n : Int) | drain (n : Nat) | extraBall | addPlayer
  | addAccepted | addRejected | playerAdded | finish | startCheck
  -- the real tilt mode (mpf/modes/tilt/code/tilt.py): tilt(), slam_tilt(), tilt_warning(), reset_warnings(), _tilt_done()
  | tilt | slamTilt | tiltWarn | warnReset | tiltClear
  | addVetoed                    -- a player_add_request handler returned False
  | abort                        -- Mode.stop() of the game mode during the game (service mode, restart)
  | setKnown (n : Nat)           -- ball_controller.num_balls_known changed (a new ball was found)
  | config (b m : Nat)           -- balls_per_game / max_players templates are evaluated when `_run` begins
  deriving DecidableEq, Repr

structure St where
  bpg : Nat := 3
  maxPlayers : Nat := 4
  known : Nat := 3
  pc : Option Ev := none
  players : Nat := 0
  cur : Nat := 0
  balls : Nat → Nat := fun _ => 0
  extra : Nat → Nat := fun _ => 0
  bip : Nat := 0
  ending : Bool := false
  slam : Bool := false
  endEv : Bool := false
  checked : Bool := false        -- `_start_game` is past its `if self.ending: return`
  pendAdds : Nat := 0            -- player_add_request accepted, player not yet appended (same drain of the bus)
  tilted : Bool := false         -- Game.tilted
  warnTo : Nat := 3              -- tilt: warnings_to_tilt
  warn : Nat → Nat := fun _ => 0 -- player variable tilt_warnings
  -- ghost counters of the current game (not observable; for the extra-ball accounting theorem)
  started : Nat → Nat := fun _ => 0      -- ball_will_start per player
  firstBalls : Nat → Nat := fun _ => 0   -- turns of that player whose first ball started
  awarded : Nat → Nat := fun _ => 0      -- extra balls awarded to that player
  log : List (Ev × Nat × Nat) := []

def setAt (f : Nat → Nat) (i v : Nat) : Nat → Nat := fun j => if j = i then v else f j

def emit (st : St) (e : Ev) : St :=
  { st with pc := some e, log := st.log ++ [(e, st.cur, st.balls st.cur)] }

/-- the `balls_in_play` setter: clamp to 0..num_balls_known; going from >0 to 0 sets the end-of-ball event -/
def setBipTo (st : St) (v : Int) : St :=
  let nb : Nat := if v > (st.known : Int) then st.known else if v < 0 then 0 else v.toNat
  { st with bip := nb, endEv := st.endEv || (decide (st.bip > 0) && decide (nb = 0)) }

/-- `while not self.ending:` — next turn, or the end of the game -/
def loopCheck (st : St) : St :=
  if st.ending then emit st .gwe
  else
    -- `_start_player_turn`: (first turn: rotate to player 1); `self.player.ball += 1`; post player_turn_will_start
    let c := if st.cur = 0 then 1 else st.cur
    emit { st with cur := c, balls := setAt st.balls c (st.balls c + 1) } .ptws

/-- `_run_ball` up to its first post, for a ball that does start -/
def startBall (st : St) (first : Bool) : St :=
  emit { st with endEv := false, started := setAt st.started st.cur (st.started st.cur + 1),
                 firstBalls := if first then setAt st.firstBalls st.cur (st.firstBalls st.cur + 1) else st.firstBalls } .bws

/-- `while self.player.extra_balls and not self.slam_tilted and not self.ending: await self._award_extra_ball()` -/
def extraCheck (st : St) : St :=
  if st.extra st.cur > 0 && !st.slam && !st.ending then
    startBall { st with extra := setAt st.extra st.cur (st.extra st.cur - 1) } false
  else emit st .ptwe

def resume (st : St) : Option St :=
  if st.pendAdds > 0 then none else      -- an accepted add completes in the same drain of the bus, before `_run` resumes
  match st.pc with
  | none => none
  | some .gws => some (emit st .gsg)
  | some .gsg =>
    -- `_start_game` after game_starting: `if self.ending: return` (then `while not self.ending` is skipped); otherwise
    -- (op `startCheck`) it asks for a first player if there is none and waits until one has been added
    if !st.checked then (if st.ending then some (emit st .gwe) else none)
    -- waiting for the first player: `end_game` wakes the wait and the game ends without having started
    else if st.players = 0 then (if st.ending then some (emit st .gwe) else none) else some (emit st .gsd)
  | some .gsd => some (loopCheck st)
  | some .ptws => some (emit st .ptsg)
  | some .ptsg => some (emit st .ptsd)
  | some .ptsd => some (if st.ending then extraCheck st else startBall st true)
  | some .bws => some (emit st .bsg)
  | some .bsg => some (emit (setBipTo st 1) .bsd)
  | some .bsd => if st.endEv then some (emit { st with bip := 0 } .bwe) else none
  | some .bwe => some (emit st .beg)
  | some .beg => some (emit st .bed)
  | some .bed => some (extraCheck st)
  | some .ptwe => some (emit st .pteg)
  | some .pteg => some (emit st .pted)
  | some .pted =>
    if st.slam || (decide (st.balls st.cur ≥ st.bpg) && decide (st.cur = st.players)) then
      some (loopCheck { st with ending := true })
    else some (loopCheck { st with cur := if st.cur < st.players then st.cur + 1 else 1 })
  | some .gwe => some (emit st .geg)
  | some .geg => some (emit st .ged)
  | some .ged => none
  | some .abt => none

/-- `Tilt.tilt`: nothing while the game is already tilted or ending; otherwise `tilted = True` and `game.end_ball()` -/
def tiltNow (st : St) : St :=
  if st.tilted || st.ending then st else { st with tilted := true, endEv := true }

/-- `Tilt.tilt_warning`: ignored without a current player, while ending or tilted; the warning is counted in the current
player's `tilt_warnings` and the `warnings_to_tilt`-th one tilts -/
def tiltWarn (st : St) : St :=
  if st.cur = 0 || st.ending || st.tilted then st
  else
    let st1 := { st with warn := setAt st.warn st.cur (st.warn st.cur + 1) }
    if st.warn st.cur + 1 ≥ st.warnTo then tiltNow st1 else st1

/-- the guards of `request_player_add` -/
def addRefused (st : St) : Bool :=
  st.ending || decide (st.players ≥ st.maxPlayers) || (decide (st.cur ≠ 0) && decide (st.balls st.cur > 1))

/-- the asynchronous form of a player add: the request is accepted / refused now, the player appears later -/
def stepAdd (st : St) : Op → Option St
  | .addAccepted => if st.pc.isNone || addRefused st then none else some { st with pendAdds := st.pendAdds + 1 }
  | .addRejected => if st.pc.isNone || !addRefused st then none else some st
  | .playerAdded => if st.pc.isNone || st.pendAdds = 0 then none
    else some { st with players := st.players + 1, cur := if st.cur = 0 then st.players + 1 else st.cur,
                        pendAdds := st.pendAdds - 1 }
  | _ => none

def step (st : St) : Op → Option St
  | .start =>
    if st.pc.isSome then none
    else some (emit { st with players := 0, cur := 0, balls := fun _ => 0, extra := fun _ => 0, bip := 0,
                              ending := false, slam := false, endEv := false, pendAdds := 0, checked := false,
                              tilted := false, warn := (fun _ => 0),
                              started := (fun _ => 0), firstBalls := (fun _ => 0), awarded := (fun _ => 0) } .gws)
  | .resume => resume st
  | .endBall => if st.pc.isNone then none else some { st with endEv := true }
  | .endGame => if st.pc.isNone then none else some { st with ending := true, endEv := true }
  | .slam => if st.pc.isNone then none else some { st with slam := true, endEv := true }   -- Tilt.slam_tilt: slam_tilted = True; tilt() -> end_ball()
  | .setBip n => if st.pc.isNone then none else some (setBipTo st n)
  | .drain n =>
    -- `ball_drained` is registered from just before `ball_started` until `_end_ball` begins
    if st.pc = some .bsd then some (if n = 0 then st else setBipTo st ((st.bip : Int) - n)) else none
  | .extraBall =>
    if st.pc.isNone || st.cur = 0 then none
    else
      let ex := setAt st.extra st.cur (st.extra st.cur + 1)
      let aw := setAt st.awarded st.cur (st.awarded st.cur + 1)
      some { st with extra := ex, awarded := aw }
  | .addPlayer =>
    if st.pc.isNone then none
    else if addRefused st then some st
    else some { st with players := st.players + 1, cur := if st.cur = 0 then st.players + 1 else st.cur }
  | .addAccepted => stepAdd st .addAccepted
  | .addRejected => stepAdd st .addRejected
  | .playerAdded => stepAdd st .playerAdded
  -- `_run` has returned: the mode stops and `machine.game` is cleared
  | .startCheck =>
    if st.pc = some .gsg && !st.checked && !st.ending && decide (st.pendAdds = 0) then some { st with checked := true } else none
  | .finish => if st.pc = some .ged then some { st with pc := none } else none
  | .tilt => if st.pc.isNone then none else some (tiltNow st)
  -- Tilt.slam_tilt: `game.slam_tilted = True; self.tilt()`
  | .slamTilt => if st.pc.isNone then none else some (tiltNow { st with slam := true })
  | .tiltWarn => if st.pc.isNone then none else some (tiltWarn st)
  -- Tilt.reset_warnings (reset_warnings_events, default ball_will_end): not without a player, not while ending
  | .warnReset =>
    if st.pc.isNone then none
    else if st.cur = 0 || st.ending then some st else some { st with warn := setAt st.warn st.cur 0 }
  -- Tilt._tilt_done once the balls are home and the settle time is over: `game.tilted = False`
  | .tiltClear => if st.pc.isNone || !st.tilted then none else some { st with tilted := false }
  | .addVetoed => if st.pc.isNone || st.pendAdds = 0 then none else some { st with pendAdds := st.pendAdds - 1 }
  -- the mode is stopped while `_run` is still running: the task is cancelled, `machine.game = None`
  | .abort =>
    if st.pc.isNone || st.pc = some .ged || st.pc = some .abt then none
    else some { st with pc := none, pendAdds := 0, log := st.log ++ [(.abt, st.cur, st.balls st.cur)] }
  -- only growth is modelled (a ball MPF did not know is found); balls are never written off in the modelled world
  | .setKnown n => if n ≥ st.known then some { st with known := n } else none
  | .config b m =>
    if st.pc.isNone && decide (b ≥ 1) then some { st with bpg := b, maxPlayers := m, balls := fun _ => 0 } else none

def run (st : St) : List Op → St
  | [] => st
  | op :: r => run ((step st op).getD st) r

/-! ## driver -/

def showEv : Ev → String
  | .gws => "game_will_start" | .gsg => "game_starting" | .gsd => "game_started"
  | .ptws => "player_turn_will_start" | .ptsg => "player_turn_starting" | .ptsd => "player_turn_started"
  | .bws => "ball_will_start" | .bsg => "ball_starting" | .bsd => "ball_started"
  | .bwe => "ball_will_end" | .beg => "ball_ending" | .bed => "ball_ended"
  | .ptwe => "player_turn_will_end" | .pteg => "player_turn_ending" | .pted => "player_turn_ended"
  | .gwe => "game_will_end" | .geg => "game_ending" | .ged => "game_ended" | .abt => "aborted"

def b01 (b : Bool) : String := if b then "1" else "0"

def answer (st : St) (r : Option St) : St × String :=
  match r with
  | none => (st, "not-enabled")
  | some st' =>
    let evs := st'.log.drop st.log.length
    (st', (" ".intercalate (evs.map (fun e => showEv e.1 ++ ":" ++ toString e.2.1 ++ ":" ++ toString e.2.2)) ++
      " | bip=" ++ toString st'.bip ++ " players=" ++ toString st'.players ++
      " ending=" ++ b01 st'.ending ++ " tilted=" ++ b01 st'.tilted ++ " slam=" ++ b01 st'.slam ++
      " endev=" ++ b01 st'.endEv ++ " warn=" ++ toString (st'.warn st'.cur) ++
      " known=" ++ toString st'.known).trimAsciiStart.toString)

def driverStep (st : St) (line : String) : St × String :=
  match line.splitOn " " with
  | ["reset", bpg, mx, known, wt] =>
    match bpg.toNat?, mx.toNat?, known.toNat?, wt.toNat? with
    | some b, some m, some k, some w => ({ bpg := b, maxPlayers := m, known := k, warnTo := w }, "ok")
    | _, _, _, _ => (st, "bad-op")
  | ["config", bpg, mx] =>
    match bpg.toNat?, mx.toNat? with
    | some b, some m => match step st (.config b m) with
      | some st' => (st', "ok")
      | none => (st, "not-enabled")
    | _, _ => (st, "bad-op")
  | ["known", n] => match n.toNat? with
    | some v => answer st (step st (.setKnown v))
    | none => (st, "bad-op")
  | ["tilt"] => answer st (step st .tilt)
  | ["slamtilt"] => answer st (step st .slamTilt)
  | ["tiltwarn"] => answer st (step st .tiltWarn)
  | ["warnreset"] => answer st (step st .warnReset)
  | ["tiltclear"] => answer st (step st .tiltClear)
  | ["addvetoed"] => answer st (step st .addVetoed)
  | ["abort"] => match step st .abort with
    | some st' => (st', "ok")
    | none => (st, "not-enabled")
  | ["state"] => (st, "game=" ++ b01 st.pc.isSome)
  | ["start"] => answer st (step st .start)
  | ["resume"] => answer st (step st .resume)
  | ["endball"] => answer st (step st .endBall)
  | ["endgame"] => answer st (step st .endGame)
  | ["slam"] => answer st (step st .slam)
  | ["extraball"] => answer st (step st .extraBall)
  | ["addplayer"] => answer st (step st .addPlayer)
  | ["addaccepted"] => answer st (step st .addAccepted)
  | ["addrejected"] => answer st (step st .addRejected)
  | ["playeradded"] => answer st (step st .playerAdded)
  | ["startcheck"] => answer st (step st .startCheck)
  | ["finish"] => match step st .finish with
    | some st' => (st', "ok")
    | none => (st, "not-enabled")
  | ["setbip", n] => match n.toInt? with
    | some v => answer st (step st (.setBip v))
    | none => (st, "bad-op")
  | ["drain", n] => match n.toNat? with
    | some v => answer st (step st (.drain v))
    | none => (st, "bad-op")
  | _ => (st, "bad-op")

end MpfVerif.Game
