import MpfVerif.Gen.TimeSuffix
import MpfVerif.Gen.BoolWords
/-!
# Config validation (C12) — scalar validators, time strings, section validation

Hand model of `ConfigValidator.validate_item` for the scalar validators, `Util.string_to_ms` driven by the
*generated* suffix table (`Gen/TimeSuffix.lean`), and the key logic of `_validate_config`.
Numbers: ints are `Int`; floats are exact rationals `num/den` (`den > 0`), NaN and ±inf are separate values.
Python's `int()` / `float()` string parsing is modelled for ASCII decimal literals; anything the model cannot decide
is answered `unmodelled` (never guessed).
-/
namespace MpfVerif.Config
open MpfVerif.Gen.TimeSuffix

inductive Y
  | none | bool (b : Bool) | int (i : Int) | rat (num : Int) (den : Nat) | nan | inf (neg : Bool) | str (s : String)
  deriving DecidableEq, Repr

/-- result of a validation -/
inductive R
  | ok (v : Y) | reject | raise | unmodelled
  deriving DecidableEq, Repr

/-! ## parsing Python number literals (ASCII subset) -/

def isWs (c : Char) : Bool := c == ' ' || c == '\t' || c == '\n' || c == '\r' || c == '\x0b' || c == '\x0c'
def isDig (c : Char) : Bool := '0' ≤ c && c ≤ '9'

def dropWs : List Char → List Char
  | [] => []
  | c :: r => if isWs c then dropWs r else c :: r

def strip (l : List Char) : List Char := (dropWs (dropWs l).reverse).reverse

def digitsVal : Nat → List Char → Option Nat
  | acc, [] => some acc
  | acc, c :: r => if isDig c then digitsVal (acc * 10 + (c.toNat - 48)) r else none

def splitSign : List Char → Bool × List Char
  | '-' :: r => (true, r)
  | '+' :: r => (false, r)
  | l => (false, l)

inductive P (α : Type) | val (a : α) | err | unknown
  deriving Repr

/-- Python's underscore rule for numeric literals: an underscore must stand between two digits (`isD`); returns the
text without underscores, or `none` when one is misplaced -/
def dropUnderscores (isD : Char → Bool) (prevDigit : Bool) : List Char → Option (List Char)
  | [] => some []
  | c :: r =>
    if c == '_' then
      (if prevDigit then (match r with
        | c2 :: _ => if isD c2 then dropUnderscores isD false r else Option.none
        | [] => Option.none) else Option.none)
    else (dropUnderscores isD (isD c) r).map (c :: ·)

/-- Python `int(s)` for a str: `some`-value, ValueError, or not decided by the model (non-ASCII digits) -/
def pyInt (s : String) : P Int :=
  let l := s.toList
  if l.any (fun c => c.toNat ≥ 128) then .unknown
  else
    let (neg, d0) := splitSign (strip l)
    match dropUnderscores isDig false d0 with
    | Option.none => .err
    | some d =>
      if d.isEmpty then .err
      else match digitsVal 0 d with
        | some n => .val (if neg then - (Int.ofNat n) else Int.ofNat n)
        | Option.none => .err

def splitAtChar (ch : Char) : List Char → List Char × Option (List Char)
  | [] => ([], none)
  | c :: r => if c == ch then ([], some r) else
      let (h, t) := splitAtChar ch r
      (c :: h, t)

def lower (l : List Char) : List Char := l.map Char.toLower

/-- `digits[.digits]`, `.digits`, `digits.` as an exact rational -/
def pyMantissa (d : List Char) : Option (Nat × Nat) :=
  let (ip, fp) := splitAtChar '.' d
  let f := fp.getD []
  if ip.isEmpty && f.isEmpty then Option.none
  else match digitsVal 0 ip, digitsVal 0 f with
    | some a, some b => some (a * 10 ^ f.length + b, 10 ^ f.length)
    | _, _ => Option.none

/-- Python `float(s)` for a str, exact: a rational, NaN/inf, ValueError, or not decided (non-ASCII, decimal exponents
beyond ±300 where overflow / underflow to inf / 0 sets in) -/
def pyFloat (s : String) : P Y :=
  let l := s.toList
  if l.any (fun c => c.toNat ≥ 128) then .unknown
  else
    let (neg, d0) := splitSign (strip l)
    let dl := lower d0
    if dl == "nan".toList then .val .nan
    else if dl == "inf".toList || dl == "infinity".toList then .val (.inf neg)
    else match dropUnderscores isDig false dl with
      | Option.none => .err
      | some d =>
        let (m, ex) := splitAtChar 'e' d
        match pyMantissa m with
        | Option.none => .err
        | some (num, den) =>
          let sgn : Int := if neg then -1 else 1
          match ex with
          | Option.none => .val (.rat (sgn * Int.ofNat num) den)
          | some e =>
            let (eneg, ed) := splitSign e
            if ed.isEmpty then .err
            else match digitsVal 0 ed with
              | Option.none => .err
              | some k =>
                if k > 300 || num ≥ 10 ^ 17 || den > 10 ^ 17 then .unknown
                else if eneg then .val (.rat (sgn * Int.ofNat num) (den * 10 ^ k))
                else .val (.rat (sgn * Int.ofNat (num * 10 ^ k)) den)

/-! ## rational helpers -/

/-- truncate toward zero -/
def truncQ (n : Int) (d : Nat) : Int := if n ≥ 0 then n / d else - ((- n) / d)

/-- round half to even of `n/d` (`d > 0`) -/
def roundHalfEven (n : Int) (d : Nat) : Int :=
  let fl := n / (d : Int)            -- floor (Int division rounds toward -inf for positive divisor)
  let r2 := 2 * (n - fl * d)         -- twice the remainder, compare with d
  if r2 < d then fl else if r2 > d then fl + 1 else (if fl % 2 = 0 then fl else fl + 1)

/-- `a/b ≤ c/d` -/
def leQ (a : Int) (b : Nat) (c : Int) (d : Nat) : Bool := a * d ≤ c * b

/-- numeric view: (num, den) -/
def numOf : Y → Option (Int × Nat)
  | .bool b => some (if b then 1 else 0, 1)
  | .int i => some (i, 1)
  | .rat n d => some (n, d)
  | _ => none

/-! ## range parameter `(lo,hi)` with NONE -/

structure Range where
  lo : Option (Int × Nat)
  hi : Option (Int × Nat)
  deriving Repr

/-- `not value >= lo` or `not value <= hi` rejects; NaN fails both comparisons -/
def inRange (r : Option Range) (v : Y) : Bool :=
  match r with
  | none => true
  | some r =>
    match v with
    | .nan => r.lo.isNone && r.hi.isNone
    | .inf neg => (if neg then r.lo.isNone else true) && (if neg then true else r.hi.isNone)
    | _ =>
      match numOf v with
      | some (n, d) =>
        (match r.lo with | some (a, b) => leQ a b n d | none => true) &&
        (match r.hi with | some (a, b) => leQ n d a b | none => true)
      | none => false

/-! ## time strings (table driven) -/

def upper (l : List Char) : List Char := l.map Char.toUpper

def endsWith (l suf : List Char) : Bool := suf.reverse.isPrefixOf l.reverse

def dropRight (l : List Char) (k : Nat) : List Char := (l.reverse.drop k).reverse

/-- the branch chain of `string_to_ms` after `.upper()`, driven by the generated table -/
def msOfUpper (tbl : List Entry) (u : List Char) : R :=
  match tbl with
  | [] =>
    match pyInt (String.ofList u) with
    | .val i => .ok (.int i) | .err => .reject | .unknown => .unmodelled
  | e :: rest =>
    if e.suffixes.any (fun s => endsWith u s.toList) then
      let body := String.ofList (dropRight u e.slice)
      if e.floatConv then
        match pyFloat body with
        | .val (.rat n d) =>
          let m : Nat := e.mults.foldl (· * ·) 1
          let n' := n * (m : Int)
          if e.outer == "round" then
            (if 2 * (n' % (d : Int)) == (d : Int) then .unmodelled else .ok (.int (roundHalfEven n' d)))
          else if e.outer == "int" then .ok (.int (truncQ n' d))
          else .ok (.rat n' d)
        | .val .nan => .reject            -- round(nan) / int(nan): ValueError
        | .val (.inf _) => .raise        -- OverflowError
        | .val _ => .unmodelled
        | .err => .reject
        | .unknown => .unmodelled
      else
        match pyInt body with
        | .val i =>
          let m : Nat := e.mults.foldl (· * ·) 1
          .ok (.int (i * (m : Int)))
        | .err => .reject | .unknown => .unmodelled
    else msOfUpper rest u

/-- `Util.string_to_ms` -/
def stringToMs (v : Y) : R :=
  match v with
  | .none => .ok (.int 0)
  | .bool b => .ok (.int (if b then 1 else 0))
  | .int i => .ok (.int i)
  | .rat n d => .ok (.int (truncQ n d))
  | .nan => .reject
  | .inf _ => .raise
  | .str s => msOfUpper table (upper s.toList)

/-! ## scalar validators -/

/-- the word lists of `_validate_type_bool`, regenerated from the source (`Gen/BoolWords.lean`) -/
def boolFalse : List String := MpfVerif.Gen.BoolWords.falseWords
def boolTrue : List String := MpfVerif.Gen.BoolWords.trueWords

def lowerS (s : String) : String := String.ofList (lower s.toList)

def vBool (v : Y) : R :=
  match v with
  | .none => .ok .none
  | .bool b => .ok (.bool b)
  | .str s => if boolFalse.contains (lowerS s) then .ok (.bool false)
              else if boolTrue.contains (lowerS s) then .ok (.bool true) else .reject
  | _ => .reject

/-- the shared tail of the numeric validators: `None` passes, a converted value must be in range -/
def rangeCheck (r : Option Range) : R → R
  | .ok .none => .ok .none
  | .ok x => if inRange r x then .ok x else .reject
  | o => o

/-- `int(item)` -/
def intConv : Y → R
  | .none => .ok .none
  | .bool b => .ok (.int (if b then 1 else 0))
  | .int i => .ok (.int i)
  | .rat n d => .ok (.int (truncQ n d))
  | .nan => .reject
  | .inf _ => .raise
  | .str s => match pyInt s with | .val i => .ok (.int i) | .err => .reject | .unknown => .unmodelled

def vInt (r : Option Range) (v : Y) : R := rangeCheck r (intConv v)

/-- `float(item)`; the result is one of rat / nan / inf -/
def floatOfP : P Y → R
  | .val (.rat n d) => .ok (.rat n d)
  | .val .nan => .ok .nan
  | .val (.inf s) => .ok (.inf s)
  | .val _ => .unmodelled
  | .err => .reject
  | .unknown => .unmodelled

def floatConv : Y → R
  | .none => .ok .none
  | .bool b => .ok (.rat (if b then 1 else 0) 1)
  | .int i => .ok (.rat i 1)
  | .rat n d => .ok (.rat n d)
  | .nan => .ok .nan
  | .inf s => .ok (.inf s)
  | .str s => floatOfP (pyFloat s)

def vFloat (r : Option Range) (v : Y) : R := rangeCheck r (floatConv v)

/-- `num`: ints and floats pass through unconverted, strings become float when they contain a dot, else int -/
def numConv : Y → R
  | .none => .ok .none
  | .str s =>
    if s.toList.any (· == '.') then floatOfP (pyFloat s)
    else (match pyInt s with | .val i => .ok (.int i) | .err => .reject | .unknown => .unmodelled)
  | x => .ok x

def vNum (r : Option Range) (v : Y) : R := rangeCheck r (numConv v)

/-- `str(item)` for the scalar kinds whose text the model knows -/
def pyStr : Y → Option String
  | .bool true => some "True" | .bool false => some "False"
  | .int i => some (toString i) | .str s => some s | _ => Option.none

def vStr (lowerIt : Bool) (v : Y) : R :=
  match v with
  | .none => .ok .none
  | x => match pyStr x with
    | some s => .ok (.str (if lowerIt then lowerS s else s))
    | Option.none => .unmodelled

def vEnum (vals : List String) (v : Y) : R :=
  let vals := vals.map lowerS
  let item : Y := match v with | .str s => .str (lowerS s) | x => x
  match item with
  | .none => if vals.contains "none" then .ok .none else (if vals.contains "None" then .ok (.str "None") else .reject)
  | x =>
    match pyStr x with
    | some s =>
      if vals.contains s then .ok (.str s)
      else if x == .bool false && vals.contains "no" then .ok (.str "no")
      else if x == .bool true && vals.contains "yes" then .ok (.str "yes")
      else .reject
    | Option.none => .unmodelled

def isPow2 (i : Int) : Bool := i > 0 && (i.toNat &&& (i.toNat - 1)) == 0

/-- `pow2` returns the *unconverted* item when `int(item)` is a power of two (recorded finding D29) -/
def vPow2 (v : Y) : R :=
  match v with
  | .none => .ok .none
  | x =>
    match intConv x with
    | .ok (.int i) => if isPow2 i then .ok x else .reject
    | .ok _ => .reject
    | .reject => .reject
    | .raise => .raise          -- `int(inf)`: OverflowError is not caught by is_power2
    | .unmodelled => .unmodelled

def vMs (v : Y) : R :=
  match v with
  | .none => .ok .none
  | x => stringToMs x

/-- `string_to_secs`: `str(item)`, append `s` when there is no letter, `string_to_ms(..) / 1000.0` -/
def vSecs (v : Y) : R :=
  match v with
  | .none => .ok .none
  | x =>
    match pyStr x with
    | some s =>
      let l := s.toList
      let l' := if l.any Char.isAlpha then l else l ++ ['s']
      match msOfUpper table (upper l') with
      | .ok (.int i) => .ok (.rat i 1000)
      | .ok _ => .unmodelled
      | o => o
    | Option.none => .unmodelled

def vBoolInt (v : Y) : R :=
  match vBool v with
  | .ok (.bool true) => .ok (.int 1)
  | .ok _ => .ok (.int 0)
  | o => o

/-- `validate_item`: the string "none" (any case) is None first -/
def preNone (v : Y) : Y :=
  match v with
  | .str s => if lowerS s == "none" then .none else v
  | x => x

inductive V
  | int (r : Option Range) | float (r : Option Range) | num (r : Option Range) | bool | str | lstr | ms | secs
  | enum (vals : List String) | pow2 | boolInt
  deriving Repr

def validateItem (vd : V) (item : Y) : R :=
  let x := preNone item
  match vd with
  | .int r => vInt r x | .float r => vFloat r x | .num r => vNum r x | .bool => vBool x
  | .str => vStr false x | .lstr => vStr true x | .ms => vMs x | .secs => vSecs x
  | .enum vals => vEnum vals x | .pow2 => vPow2 x | .boolInt => vBoolInt x

/-! ## the declared type of a validator (what `validate_typed` establishes) -/

def HasType (vd : V) (out : Y) : Bool :=
  match vd, out with
  | _, .none => true                       -- None is returned only for a None item (see `none_only_for_none`)
  | .int r, .int i => inRange r (.int i)
  | .float r, .rat n d => inRange r (.rat n d)
  | .float r, .nan => (match r with | Option.none => true | some rr => rr.lo.isNone && rr.hi.isNone)
  | .float r, .inf s => inRange r (.inf s)
  | .num r, .int i => inRange r (.int i)
  | .num r, .bool b => inRange r (.bool b)
  | .num r, .rat n d => inRange r (.rat n d)
  | .num r, .nan => inRange r .nan
  | .num r, .inf s => inRange r (.inf s)
  | .bool, .bool _ => true
  | .str, .str _ => true
  | .lstr, .str _ => true
  | .ms, .int _ => true
  | .secs, .rat _ _ => true
  | .enum vals, .str s => (vals.map lowerS).contains s || s == "None"
  | .boolInt, .int i => i == 0 || i == 1
  | _, _ => false

/-! ## item types: single / list / set / dict (`validate_config_item`) -/

/-- a config item as it comes out of YAML: scalar, list of scalars, or dict of scalars -/
inductive Item
  | scalar (y : Y) | list (ys : List Y) | dict (kvs : List (Y × Y))
  deriving DecidableEq, Repr

/-- result of validating an item -/
inductive RI
  | ok (v : Item) | reject | raise | unmodelled
  deriving DecidableEq, Repr

inductive IType | single | list | set | dict
  deriving DecidableEq, Repr

def splitOnComma : List Char → List (List Char)
  | [] => [[]]
  | c :: r => if c == ',' then [] :: splitOnComma r else
      match splitOnComma r with
      | [] => [[c]]
      | h :: t => (c :: h) :: t

/-- `Util.string_to_list` / `string_to_event_list` (they differ only for strings containing a brace, which the model
does not decide): `none` = AssertionError, `some none` = not decided -/
def toList (brace : Bool) : Item → Option (Option (List Y))
  | .list ys => some (some ys)
  | .dict _ => Option.none
  | .scalar .none => some (some [])
  | .scalar (.str s) =>
    let l := s.toList
    if l.isEmpty then some (some [])
    else if l.any (fun c => c.toNat ≥ 128) then some Option.none
    else if brace && l.any (· == '{') then some Option.none
    else some (some ((splitOnComma l).map (fun x =>
      if x == "none".toList then Y.none else Y.str (String.ofList (strip x)))))
  | .scalar (.nan) => some (some [.nan])
  | .scalar (.inf b) => some (some [.inf b])
  | .scalar y => some (some [y])

/-- validate the elements one by one; an empty / blank string element is an error -/
def validateElems (chk : Bool) (vd : V) : List Y → RI
  | [] => .ok (.list [])
  | y :: rest =>
    if chk && (y == .str "" || y == .str " ") then .reject else      -- only the list path rejects blank elements
    match validateItem vd y with
    | .ok v =>
      (match validateElems chk vd rest with
       | .ok (.list vs) => .ok (.list (v :: vs))
       | .ok _ => .unmodelled
       | o => o)
    | .reject => .reject
    | .raise => .raise
    | .unmodelled => .unmodelled

def validatePairs (kvd vvd : V) : List (Y × Y) → RI
  | [] => .ok (.dict [])
  | (k, v) :: rest =>
    match validateItem kvd k, validateItem vvd v with
    | .ok k', .ok v' =>
      (match validatePairs kvd vvd rest with
       | .ok (.dict kvs) => if kvs.any (fun p => p.1 == k') then .unmodelled else .ok (.dict ((k', v') :: kvs))
       | .ok _ => .unmodelled
       | o => o)
    | .unmodelled, _ => .unmodelled
    | _, .unmodelled => .unmodelled
    | .raise, _ => .raise
    | _, .raise => .raise
    | _, _ => .reject

/-- `validate_config_item` for a present item (`brace` = the list splitter that honours braces is used) -/
def validateConfigItem (it : IType) (vd : V) (vvd : Option V) (brace : Bool) (item : Item) : RI :=
  match it with
  | .single =>
    (match item with
     | .scalar y => (match validateItem vd y with
        | .ok v => .ok (.scalar v) | .reject => .reject | .raise => .raise | .unmodelled => .unmodelled)
     | _ => .unmodelled)
  | .list =>
    (match toList brace item with
     | some (some ys) => validateElems true vd ys
     | some Option.none => .unmodelled
     | Option.none => .reject)
  | .set =>
    (match toList false item with
     | some (some ys) => (match validateElems false vd ys.eraseDups with
        | .ok (.list vs) => .ok (.list vs.eraseDups) | o => o)
     | some Option.none => .unmodelled
     | Option.none => .reject)
  | .dict =>
    (match vvd with
     | Option.none => .reject
     | some vv =>
       match item with
       | .scalar .none => .ok (.dict [])
       | .scalar (.str s) => if s == "None" then .ok (.dict []) else .reject
       | .dict kvs => validatePairs vd vv kvs
       | _ => .reject)

/-! ## section validation: keys -/

structure KeySpec where
  key : String
  it : IType := .single
  vd : V
  vvd : Option V := Option.none
  brace : Bool := true
  default : Option String      -- none = required; "None"-like defaults are strings handled by preNone
  deriving Repr

def riOfR : R → RI
  | .ok v => .ok (.scalar v) | .reject => .reject | .raise => .raise | .unmodelled => .unmodelled

/-- the item used when a key is absent: the spec's default text (the string "None" means None) -/
def defaultItem (d : String) : Item := if lowerS d == "none" then .scalar .none else .scalar (.str d)

/-- `_validate_config` restricted to scalar validators: unknown keys rejected (unless `__allow_others__`), every spec key
present in the result (default validated when absent, rejected when required and absent), provided values validated -/
def validateSection (allowOthers : Bool) (extraKeys : Nat) (spec : List KeySpec) (src : List (String × Item)) :
    Option (List (String × RI)) :=
  if !allowOthers && extraKeys > 0 then Option.none
  else some (spec.map (fun ks =>
    match src.lookup ks.key with
    | some v => (ks.key, validateConfigItem ks.it ks.vd ks.vvd ks.brace v)
    | Option.none =>
      match ks.default with
      | some d => (ks.key, validateConfigItem ks.it ks.vd ks.vvd ks.brace (defaultItem d))
      | Option.none => (ks.key, .reject)))

/-! ## line protocol -/

def hexNib (c : Char) : Option Nat :=
  if '0' ≤ c ∧ c ≤ '9' then some (c.toNat - 48) else if 'a' ≤ c ∧ c ≤ 'f' then some (c.toNat - 87) else Option.none

def unhexBytes : List Char → Option (List UInt8)
  | [] => some []
  | [_] => Option.none
  | a :: b :: r => do
    let x ← hexNib a; let y ← hexNib b; let t ← unhexBytes r
    pure (UInt8.ofNat (x * 16 + y) :: t)

def strOfHex (h : String) : Option String :=
  if h == "-" then some "" else
  match unhexBytes h.toList with
  | some bs => String.fromUTF8? (ByteArray.mk bs.toArray)
  | Option.none => Option.none

def parseY (t : String) : Option Y :=
  if t == "N" then some .none else if t == "T" then some (.bool true) else if t == "F" then some (.bool false)
  else if t == "nan" then some .nan else if t == "inf" then some (.inf false) else if t == "-inf" then some (.inf true)
  else match t.toList with
    | 'i' :: r => (String.ofList r).toInt?.map .int
    | 'q' :: r =>
      match (String.ofList r).splitOn "/" with
      | [a, b] => do
        let n ← a.toInt?; let d ← b.toNat?
        if d = 0 then Option.none else pure (.rat n d)
      | _ => Option.none
    | 's' :: r => (strOfHex (String.ofList r)).map .str
    | _ => Option.none

def hexOf (n : Nat) : Char := if n < 10 then Char.ofNat (48 + n) else Char.ofNat (87 + n)

def hexOfStr (s : String) : String :=
  if s.isEmpty then "-" else
  String.ofList (s.toUTF8.toList.flatMap (fun b => [hexOf (b.toNat / 16), hexOf (b.toNat % 16)]))

/-- normalise a rational to lowest terms for printing -/
def showQ (n : Int) (d : Nat) : String :=
  let g := Nat.gcd n.natAbs d
  let g := if g = 0 then 1 else g
  if d / g = 1 then s!"q{n / (g : Int)}/1" else s!"q{n / (g : Int)}/{d / g}"

def showY : Y → String
  | .none => "N" | .bool true => "T" | .bool false => "F" | .int i => s!"i{i}"
  | .rat n d => showQ n d | .nan => "nan" | .inf false => "inf" | .inf true => "-inf"
  | .str s => "s" ++ hexOfStr s

def showR : R → String
  | .ok v => "ok " ++ showY v | .reject => "reject" | .raise => "raise" | .unmodelled => "unmodelled"

def parseBound (s : String) : Option (Option (Int × Nat)) :=
  if s == "NONE" then some Option.none else
  match pyFloat s with
  | .val (.rat n d) => some (some (n, d))
  | _ => Option.none

def parseRange (p : String) : Option Range :=
  match p.splitOn "," with
  | [a, b] => do
    let lo ← parseBound a; let hi ← parseBound b
    pure { lo := lo, hi := hi }
  | _ => Option.none

/-- `int(0,10)`, `enum(a,b)`, `bool` … -/
def parseV (s : String) : Option V :=
  let (base, param) : String × Option String :=
    match s.splitOn "(" with
    | [b] => (b, Option.none)
    | b :: rest => (b, some ((("(".intercalate rest).dropEnd 1).toString))
    | [] => ("", Option.none)
  let rng : Option (Option Range) := match param with
    | Option.none => some Option.none
    | some p => (parseRange p).map some
  match base with
  | "int" => rng.map V.int | "float" => rng.map V.float | "num" => rng.map V.num
  | "bool" => some .bool | "str" => some .str | "lstr" => some .lstr | "ms" => some .ms | "secs" => some .secs
  | "enum" => param.map (fun p => V.enum (p.splitOn ","))
  | "pow2" => some .pow2 | "bool_int" => some .boolInt
  | _ => Option.none

def parseItem (t : String) : Option Item :=
  if t.startsWith "l:" then
    let body := (t.drop 2).toString
    if body.isEmpty then some (.list []) else ((body.splitOn ",").mapM parseY).map Item.list
  else if t.startsWith "d:" then
    let body := (t.drop 2).toString
    if body.isEmpty then some (.dict []) else
      ((body.splitOn ",").mapM (fun (kv : String) => match kv.splitOn "=" with
        | [a, b] => do pure ((← parseY a), (← parseY b))
        | _ => Option.none)).map Item.dict
  else (parseY t).map Item.scalar

def showItem : Item → String
  | .scalar y => showY y
  | .list ys => "l:" ++ ",".intercalate (ys.map showY)
  | .dict kvs => "d:" ++ ",".intercalate (kvs.map (fun p => showY p.1 ++ "=" ++ showY p.2))

def showRI : RI → String
  | .ok v => "ok " ++ showItem v | .reject => "reject" | .raise => "raise" | .unmodelled => "unmodelled"

def parseIType (s : String) : Option IType :=
  match s with
  | "single" => some .single | "list" => some .list | "set" => some .set | "dict" => some .dict | _ => Option.none

/-- split `a:b` dict validators at the top-level colon -/
def splitDictValidator (s : String) : String × Option String :=
  let rec go (cs : List Char) (depth : Nat) (acc : List Char) : List Char × Option (List Char) :=
    match cs with
    | [] => (acc.reverse, Option.none)
    | c :: r =>
      if c == '(' then go r (depth + 1) (c :: acc)
      else if c == ')' then go r (depth - 1) (c :: acc)
      else if c == ':' && depth == 0 then (acc.reverse, some r)
      else go r depth (c :: acc)
  let (a, b) := go s.toList 0 []
  (String.ofList a, b.map String.ofList)

/-- `key|itemtype|validator|defaulthex|item-or-minus` -/
def parseKeyTok (t : String) : Option (KeySpec × Option Item) :=
  match t.splitOn "|" with
  | [k, it, vd, dflt, v] => do
    let I ← parseIType it
    let (a, b) := splitDictValidator vd
    let V1 ← parseV a
    let V2 ← (match b with | some x => (parseV x).map some | Option.none => some Option.none)
    let d ← strOfHex dflt
    let val ← (if v == "-" then some Option.none else (parseItem v).map some)
    let brace := !(a == "event_posted" || a == "event_handler")
    pure ({ key := k, it := I, vd := V1, vvd := V2, brace := brace, default := if d.isEmpty then Option.none else some d }, val)
  | _ => Option.none

def driverStep (u : Unit) (line : String) : Unit × String :=
  match line.splitOn " " with
  | ["item", vd, v] =>
    match parseV vd, parseY v with
    | some V, some y => (u, showR (validateItem V y))
    | _, _ => (u, "bad-op")
  | ["citem", it, vd, v] =>
    match parseIType it, parseItem v with
    | some I, some item =>
      let (a, b) := splitDictValidator vd
      match parseV a, (match b with | some x => (parseV x).map some | Option.none => some Option.none) with
      | some V1, some V2 => (u, showRI (validateConfigItem I V1 V2 true item))
      | _, _ => (u, "bad-op")
    | _, _ => (u, "bad-op")
  | ["ms", v] =>
    match parseY v with
    | some y => (u, showR (stringToMs y))
    | Option.none => (u, "bad-op")
  | "section" :: allow :: extra :: toks =>
    match extra.toNat?, toks.mapM parseKeyTok with
    | some ex, some ks =>
      let spec := ks.map (·.1)
      let src := ks.filterMap (fun p => p.2.map (fun v => (p.1.key, v)))
      match validateSection (allow == "1") ex spec src with
      | Option.none => (u, "reject")
      | some rs =>
        if rs.any (fun p => p.2 == .unmodelled) then (u, "unmodelled")
        else if rs.any (fun p => match p.2 with | .ok _ => false | _ => true) then (u, "reject")
        else (u, "ok" ++ String.join (rs.map (fun p => " " ++ p.1 ++ "=" ++ (match p.2 with | .ok v => showItem v | _ => "?"))))
    | _, _ => (u, "bad-op")
  | _ => (u, "bad-op")

end MpfVerif.Config
