/-!
# BCP wire format (C19) — byte-level model of `mpf/core/bcp/bcp_socket_client.py`

Bytes are `Nat` (< 256 where it matters).  A Python `str` is modelled by its UTF-8 bytes.
* `quote` = `urllib.parse.quote(s, safe='')`, `unq` = CPython's `unquote_to_bytes` scanner written structurally.
* `encodeFlat` = `encode_command_string` for scalar parameters (the non-JSON branch).
* `decode` = `decode_command_string` (query split on `&`, first `=`, type prefix on the *raw* value, unquote once).
* `Reader` = `read_message`: `readline`, the `&bytes=N` marker as last parameter, `readexactly(N)`; one byte at a time.
-/
namespace MpfVerif.Bcp

abbrev Bytes := List Nat

/-! ## percent-encoding -/

def isSafe (b : Nat) : Bool :=
  (65 ≤ b && b ≤ 90) || (97 ≤ b && b ≤ 122) || (48 ≤ b && b ≤ 57) || b == 95 || b == 46 || b == 45 || b == 126

/-- upper-case hex digit of n < 16 -/
def hexDigit (n : Nat) : Nat := if n < 10 then 48 + n else 55 + n

def unhex (b : Nat) : Option Nat :=
  if 48 ≤ b ∧ b ≤ 57 then some (b - 48)
  else if 65 ≤ b ∧ b ≤ 70 then some (b - 55)
  else if 97 ≤ b ∧ b ≤ 102 then some (b - 87)
  else none

def quote : Bytes → Bytes
  | [] => []
  | b :: bs => if isSafe b then b :: quote bs else 37 :: hexDigit (b / 16) :: hexDigit (b % 16) :: quote bs

/-- scanner state of `unquote_to_bytes`: nothing pending, `%` seen, `%h` seen -/
inductive PSt | idle | pct | pctH (h : Nat)

def unq : PSt → Bytes → Bytes
  | .idle, [] => []
  | .pct, [] => [37]
  | .pctH h, [] => [37, h]
  | .idle, b :: r => if b = 37 then unq .pct r else b :: unq .idle r
  | .pct, b :: r =>
    match unhex b with
    | some _ => unq (.pctH b) r
    | none => if b = 37 then 37 :: unq .pct r else 37 :: b :: unq .idle r
  | .pctH h, b :: r =>
    match unhex h, unhex b with
    | some x, some y => (x * 16 + y) :: unq .idle r
    | _, _ => if b = 37 then 37 :: h :: unq .pct r else 37 :: h :: b :: unq .idle r

def unquote (l : Bytes) : Bytes := unq .idle l

/-- `s.replace('+', ' ')` -/
def plusToSpace (l : Bytes) : Bytes := l.map (fun b => if b = 43 then 32 else b)

/-! ## decimal integers (own digit functions with a proved inverse) -/

/-- decimal digits of `n`, most significant first; `fuel` bounds the recursion (any `fuel > n` is enough) -/
def natDigitsAux : Nat → Nat → Bytes → Bytes
  | 0, _, acc => acc
  | fuel + 1, n, acc => if n < 10 then (48 + n) :: acc else natDigitsAux fuel (n / 10) ((48 + n % 10) :: acc)

def natText (n : Nat) : Bytes := natDigitsAux (n + 1) n []

def intText (i : Int) : Bytes :=
  match i with
  | .ofNat n => natText n
  | .negSucc n => 45 :: natText (n + 1)

def isDigit (b : Nat) : Bool := 48 ≤ b && b ≤ 57

/-- value of a digit string, `none` if some byte is not a digit -/
def digitsVal : Nat → Bytes → Option Nat
  | acc, [] => some acc
  | acc, b :: r => if isDigit b then digitsVal (acc * 10 + (b - 48)) r else none

def isSpace (b : Nat) : Bool := (9 ≤ b && b ≤ 13) || (28 ≤ b && b ≤ 32)

def dropSpaces : Bytes → Bytes
  | [] => []
  | b :: r => if isSpace b then dropSpaces r else b :: r

def stripSpaces (l : Bytes) : Bytes := (dropSpaces (dropSpaces l).reverse).reverse

/-- Python `int(text)` restricted to what can reach it here: surrounding blanks, optional sign, decimal digits -/
def parseInt (t : Bytes) : Option Int :=
  match stripSpaces t with
  | [] => none
  | c :: r =>
    if c = 45 then (if r.isEmpty then none else (digitsVal 0 r).map (fun n => - (Int.ofNat n)))
    else if c = 43 then (if r.isEmpty then none else (digitsVal 0 r).map Int.ofNat)
    else (digitsVal 0 (c :: r)).map Int.ofNat

/-! ## values, encoder, decoder -/

inductive Val
  | str (b : Bytes) | int (i : Int) | flt (text : Bytes) | bool (b : Bool) | none
  deriving DecidableEq, Repr

def sTrue : Bytes := [84, 114, 117, 101]
def sFalse : Bytes := [70, 97, 108, 115, 101]
def pInt : Bytes := [105, 110, 116, 58]            -- "int:"
def pFloat : Bytes := [102, 108, 111, 97, 116, 58] -- "float:"
def pBool : Bytes := [98, 111, 111, 108, 58]       -- "bool:"
def sNone : Bytes := [78, 111, 110, 101, 84, 121, 112, 101, 58]  -- "NoneType:"
def sJsonEq : Bytes := [106, 115, 111, 110, 61]    -- "json="
def sJson : Bytes := [106, 115, 111, 110]          -- "json"

def encodeValue : Val → Bytes
  | .str s => quote s
  | .int i => pInt ++ quote (intText i)
  | .flt t => pFloat ++ quote t
  | .bool b => pBool ++ quote (if b then sTrue else sFalse)
  | .none => sNone

def encodePair (kv : Bytes × Val) : Bytes := quote kv.1 ++ 61 :: encodeValue kv.2

def joinAmp : List Bytes → Bytes
  | [] => []
  | [x] => x
  | x :: y :: r => x ++ 38 :: joinAmp (y :: r)

/-- `encode_command_string` on scalar parameters: `cmd?k=v&k=v` (`urlunparse` drops the `?` of an empty query) -/
def encodeFlat (cmd : Bytes) (kw : List (Bytes × Val)) : Bytes :=
  if kw.isEmpty then cmd else cmd ++ 63 :: joinAmp (kw.map encodePair)

/-- split at the first occurrence of `sep` -/
def splitFirst (sep : Nat) : Bytes → Bytes × Option Bytes
  | [] => ([], none)
  | b :: r => if b = sep then ([], some r) else
      let (h, t) := splitFirst sep r
      (b :: h, t)

/-- `s.split(sep)` -/
def splitAll (sep : Nat) : Bytes → List Bytes
  | [] => [[]]
  | b :: r => if b = sep then [] :: splitAll sep r else
      match splitAll sep r with
      | [] => [[b]]
      | h :: t => (b :: h) :: t

def toLower (l : Bytes) : Bytes := l.map (fun b => if 65 ≤ b ∧ b ≤ 90 then b + 32 else b)

def sBoolTrue : Bytes := [98, 111, 111, 108, 58, 116, 114, 117, 101]
def sBoolFalse : Bytes := [98, 111, 111, 108, 58, 102, 97, 108, 115, 101]

/-- the decoder's per-value branch chain (`raw` is the text between `=` and `&`) -/
def decodeValue (raw : Bytes) : Option Val :=
  let value := unquote (plusToSpace raw)
  if pInt.isPrefixOf raw then (parseInt (value.drop 4)).map Val.int
  else if pFloat.isPrefixOf raw then some (.flt (value.drop 6))
  else if toLower raw = sBoolTrue then some (.bool true)
  else if toLower raw = sBoolFalse then some (.bool false)
  else if raw = sNone then some .none
  else some (.str value)

def hasKey (k : Bytes) : List (Bytes × Val) → Bool
  | [] => false
  | (k', _) :: r => k = k' || hasKey k r

/-- the `for pair in query.split('&')` loop; first occurrence of a name wins; `none` = ValueError -/
def decodePairs : List Bytes → List (Bytes × Val) → Option (List (Bytes × Val))
  | [], acc => some acc.reverse
  | p :: rest, acc =>
    if p.isEmpty then decodePairs rest acc else
    let (n, v) := splitFirst 61 p
    let name := unquote (plusToSpace n)
    if hasKey name acc then decodePairs rest acc else
    match decodeValue (v.getD []) with
    | some val => decodePairs rest ((name, val) :: acc)
    | Option.none => Option.none

inductive Decoded
  | flat (cmd : Bytes) (kw : List (Bytes × Val))
  | json (cmd : Bytes) (text : Bytes)
  | error
  deriving DecidableEq, Repr

/-- `decode_command_string`: `urlsplit` = split at the first `?`; `json=` switches to the JSON branch -/
def decode (line : Bytes) : Decoded :=
  let (cmd, q) := splitFirst 63 line
  let query := q.getD []
  if sJsonEq.isPrefixOf query then .json cmd (query.drop 5)
  else match decodePairs (splitAll 38 query) [] with
    | some kw => .flat cmd kw
    | Option.none => .error

/-- the JSON branch of the encoder, over an abstract JSON text -/
def encodeJson (cmd : Bytes) (text : Bytes) : Bytes := cmd ++ 63 :: (sJsonEq ++ text)

/-! ## the receiver: readline / `&bytes=N` / readexactly -/

def sMarker : Bytes := [38, 98, 121, 116, 101, 115, 61]   -- "&bytes="

/-- `rpartition(pat)`: split at the last occurrence -/
def splitLast (pat : Bytes) : Bytes → Option (Bytes × Bytes)
  | [] => none
  | b :: rest =>
    match splitLast pat rest with
    | some (h, t) => some (b :: h, t)
    | none => if pat.isPrefixOf (b :: rest) then some ([], (b :: rest).drop pat.length) else none

/-- the marker test of `read_message`: last `&bytes=` followed by a non-empty all-digit tail -/
def markerOf (line : Bytes) : Option (Bytes × Nat) :=
  match splitLast sMarker line with
  | some (h, t) => if t.isEmpty then none else (digitsVal 0 t).map (fun n => (h, n))
  | none => none

inductive RMode
  | line
  | payload (msg : Bytes) (need : Nat) (got : Bytes)
  deriving DecidableEq, Repr

structure RSt where
  buf : Bytes := []      -- bytes of the current line, in arrival order
  mode : RMode := .line
  deriving DecidableEq, Repr

/-- a frame handed to `_process_command`: the line (without marker) and the payload -/
abbrev Frame := Bytes × Bytes

def stepByte (s : RSt) (b : Nat) : RSt × List Frame :=
  match s.mode with
  | .line =>
    if b = 10 then
      match markerOf s.buf with
      | some (h, n) => if n = 0 then ({}, [(h, [])]) else ({ buf := [], mode := .payload h n [] }, [])
      | none => ({}, [(s.buf, [])])
    else ({ s with buf := s.buf ++ [b] }, [])
  | .payload msg need got =>
    let got' := got ++ [b]
    if got'.length = need then ({}, [(msg, got')]) else ({ s with mode := .payload msg need got' }, [])

def feed : RSt → Bytes → RSt × List Frame
  | s, [] => (s, [])
  | s, b :: r =>
    let (s1, o1) := stepByte s b
    let (s2, o2) := feed s1 r
    (s2, o1 ++ o2)

def feedChunks : RSt → List Bytes → RSt × List Frame
  | s, [] => (s, [])
  | s, c :: r =>
    let (s1, o1) := feed s c
    let (s2, o2) := feedChunks s1 r
    (s2, o1 ++ o2)

/-- what the sender puts on the wire for one message -/
def wire (f : Frame) : Bytes :=
  if f.2.isEmpty then f.1 ++ [10] else f.1 ++ sMarker ++ natText f.2.length ++ 10 :: f.2

/-! ## line-protocol driver -/

def hexVal (c : Char) : Option Nat :=
  if '0' ≤ c ∧ c ≤ '9' then some (c.toNat - 48)
  else if 'a' ≤ c ∧ c ≤ 'f' then some (c.toNat - 87)
  else none

def unhexStr : List Char → Option Bytes
  | [] => some []
  | [_] => none
  | a :: b :: r => do
    let x ← hexVal a; let y ← hexVal b; let t ← unhexStr r
    pure ((x * 16 + y) :: t)

def ofHex (s : String) : Option Bytes := if s = "-" then some [] else unhexStr s.toList

def hexChar (n : Nat) : Char := if n < 10 then Char.ofNat (48 + n) else Char.ofNat (87 + n)

def toHex (b : Bytes) : String :=
  if b.isEmpty then "-" else String.ofList (b.flatMap (fun x => [hexChar (x / 16), hexChar (x % 16)]))

def valTokens : Val → String
  | .str s => "s " ++ toHex s
  | .int i => "i " ++ toHex (intText i)
  | .flt t => "f " ++ toHex t
  | .bool b => "b " ++ (if b then "01" else "00")
  | .none => "n -"

def parseKw : Nat → List String → Option (List (Bytes × Val))
  | 0, [] => some []
  | n + 1, k :: t :: p :: r => do
    let key ← ofHex k
    let pl ← ofHex p
    let v ← (match t with
      | "s" => some (Val.str pl)
      | "i" => (parseInt pl).map Val.int
      | "f" => some (Val.flt pl)
      | "b" => some (Val.bool (pl = [1]))
      | "n" => some Val.none
      | _ => Option.none)
    let rest ← parseKw n r
    pure ((key, v) :: rest)
  | _, _ => none

def showDecoded : Decoded → String
  | .flat cmd kw => "ok " ++ toHex cmd ++ " " ++ toString kw.length ++
      String.join (kw.map (fun kv => " " ++ toHex kv.1 ++ " " ++ valTokens kv.2))
  | .json cmd t => "json " ++ toHex cmd ++ " " ++ toHex t
  | .error => "error"

def showFrames (fs : List Frame) : String :=
  if fs.isEmpty then "ok" else "frames" ++ String.join (fs.map (fun f => " " ++ toHex f.1 ++ "/" ++ toHex f.2))

def driverStep (s : RSt) (line : String) : RSt × String :=
  match line.splitOn " " with
  | "enc" :: cmd :: n :: rest =>
    match ofHex cmd, n.toNat? with
    | some c, some k =>
      match parseKw k rest with
      | some kw => (s, "ok " ++ toHex (encodeFlat c kw))
      | none => (s, "bad-op")
    | _, _ => (s, "bad-op")
  | ["dec", l] =>
    match ofHex l with
    | some b => (s, showDecoded (decode b))
    | none => (s, "bad-op")
  | ["reset"] => ({}, "ok")
  | ["feed", c] =>
    match ofHex c with
    | some b => let (s', fs) := feed s b; (s', showFrames fs)
    | none => (s, "bad-op")
  | _ => (s, "bad-op")

end MpfVerif.Bcp
