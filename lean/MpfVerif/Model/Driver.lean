import MpfVerif.Gen.DriverVerify
/-!
# Driver command paths and software timers (C08) — hand model on top of the *generated* limit functions

`pulse / enable / timed_enable / disable / _pulse_now / _enable_now / _enable_limit_reached` of `mpf/devices/driver.py`
with `max_wait_ms = None` (no PSU delay).  Time is in milliseconds.  The limit checks are not re-modelled here: the
ops call the translated programs of `Gen/DriverVerify.lean` through the interpreter.
-/
namespace MpfVerif.Driver
open MpfVerif.Py MpfVerif.Gen.DriverVerify

inductive Cmd
  | pulse (power dur : PyVal)
  | enable (pp pd hp : PyVal) (soft : Bool)     -- soft = the software-timed pulse of `_pulse_now`
  | timedEnable (pp pd hp hd : PyVal)
  | disable
  deriving DecidableEq, Repr

structure St where
  now : Nat := 0
  timedDisable : Option Nat := none      -- delay "timed_disable"
  limitDue : Option Nat := none          -- delay "enable_limit_reached"
  softOn : Bool := false                 -- ghost: last hold-type command was a software-timed pulse still on
  holdSince : Option Nat := none         -- ghost: coil enabled (by `enable`) since, not yet disabled

inductive Op
  | pulse (ms pw : PyVal)
  | enable (ms pw hp : PyVal)
  | timedEnable (te hp ms pw : PyVal)
  | disable
  | advance (dt : Nat)

def vPulseMs (c : Ctx) (x : PyVal) := call c get_and_verify_pulse_ms [("pulse_ms", x)]
def vPulsePower (c : Ctx) (x : PyVal) := call c get_and_verify_pulse_power [("pulse_power", x)]
def vHoldPower (c : Ctx) (x : PyVal) := call c get_and_verify_hold_power [("hold_power", x)]
def vTimedMs (c : Ctx) (x : PyVal) := call c get_and_verify_timed_enable_ms [("timed_enable_ms", x)]

/-- integer milliseconds of an int/bool value -/
def msOf : PyVal → Nat
  | .int i => i.toNat | .bool true => 1 | _ => 0

/-- `max_hold_duration * 1000` in ms (config value in seconds: int or float in micro-units) -/
def secsToMs : PyVal → Nat
  | .int i => (i * 1000).toNat | .flt m => (m / 1000).toNat | .bool true => 1000 | _ => 0

def doDisable (s : St) : St × List Cmd :=
  ({ s with limitDue := none, softOn := false, holdSince := none }, [.disable])

/-- `timed_enable(...)` -/
def doTimedEnable (c : Ctx) (s : St) (te hp ms pw : PyVal) : Except Err (St × List Cmd) := do
  let pd ← vPulseMs c ms
  let pp ← vPulsePower c pw
  let hd ← vTimedMs c te
  let h ← vHoldPower c hp
  pure (s, [.timedEnable pp pd h hd])

/-- `_pulse_now(pulse_ms, pulse_power)` with already verified values -/
def pulseNow (c : Ctx) (s : St) (pm pp : PyVal) : Except Err (St × List Cmd) :=
  if (c.cfg "pulse_with_timed_enable").truthy then doTimedEnable c s .none .none pm pp
  else do
    let a ← pyCmp "<" (.int 0) pm
    let b ← pyCmp "<=" pm (c.env "max_pulse")
    if a && b then pure (s, [.pulse pp pm])
    else pure ({ s with timedDisable := some (s.now + msOf pm), softOn := true }, [.enable pp (.int 0) pp true])

def doOp (c : Ctx) (s : St) : Op → Except Err (St × List Cmd)
  | .pulse ms pw => do
    let pm ← vPulseMs c ms
    let pp ← vPulsePower c pw
    pulseNow c s pm pp
  | .enable ms pw hp => do
    let pm ← vPulseMs c ms
    let pp ← vPulsePower c pw
    let h ← vHoldPower c hp
    if (← pyCmp "==" h (.flt 0)) then throw "DriverLimitsError"
    let md := c.cfg "max_hold_duration"
    let s1 := { s with softOn := false, holdSince := some (s.holdSince.getD s.now) }
    let s2 := if md.truthy && s.limitDue.isNone then { s1 with limitDue := some (s.now + secsToMs md) } else s1
    pure (s2, [.enable pp pm h false])
  | .timedEnable te hp ms pw => doTimedEnable c s te hp ms pw
  | .disable => pure (doDisable s)
  | .advance _ => pure (s, [])

/-- fire the (at most two) software timers that are due at `s.now`; both callbacks are `disable` -/
def fireDue (s : St) : St × List Cmd :=
  let (s1, o1) := match s.timedDisable with
    | some d => if d ≤ s.now then (let (s', o) := doDisable { s with timedDisable := none }; (s', o)) else (s, [])
    | none => (s, [])
  let (s2, o2) := match s1.limitDue with
    | some d => if d ≤ s1.now then doDisable { s1 with limitDue := none } else (s1, [])
    | none => (s1, [])
  (s2, o1 ++ o2)

/-- the earliest pending timer -/
def nextDue (s : St) : Option Nat :=
  match s.timedDisable, s.limitDue with
  | some a, some b => some (min a b)
  | some a, none => some a
  | none, some b => some b
  | none, none => none

/-- run the clock up to `target`, stopping at every timer deadline on the way; every stop cancels at least one of
the two timers, so fuel 3 is always enough (`advance` passes 3) -/
def advanceTo : Nat → St → Nat → St × List (Nat × Cmd)
  | 0, s, target => ({ s with now := target }, [])
  | fuel + 1, s, target =>
    match nextDue s with
    | some d =>
      if d ≤ target then
        let (s1, o) := fireDue { s with now := max d s.now }
        let (s2, o2) := advanceTo fuel s1 target
        (s2, o.map (fun c => (max d s.now, c)) ++ o2)
      else ({ s with now := target }, [])
    | none => ({ s with now := target }, [])

def advance (s : St) (dt : Nat) : St × List (Nat × Cmd) := advanceTo 3 s (s.now + dt)

/-- one harness step: the op itself, then everything that is due now (the harness runs the loop after every op) -/
def step (c : Ctx) (s : St) (op : Op) : St × Bool × List (Nat × Cmd) :=
  match op with
  | .advance dt => let (s', o) := advance s dt; (s', true, o)
  | _ =>
    match doOp c s op with
    | .ok (s1, o1) => let (s2, o2) := fireDue s1; (s2, true, (o1 ++ o2).map (fun c => (s.now, c)))
    | .error _ => let (s2, o2) := fireDue s; (s2, false, o2.map (fun c => (s.now, c)))

/-! ## driver -/

def showSettings (l : List PyVal) : String := "/".intercalate (l.map showVal)

def showCmd (t0 : Nat) : Nat × Cmd → String
  | (t, .pulse p d) => s!" pulse@{t - t0}:{showSettings [p, d]}"
  | (t, .enable pp pd hp _) => s!" enable@{t - t0}:{showSettings [pp, pd]},{showSettings [hp, .none]}"
  | (t, .timedEnable pp pd hp hd) => s!" timed_enable@{t - t0}:{showSettings [pp, pd]},{showSettings [hp, hd]}"
  | (t, .disable) => s!" disable@{t - t0}:-"

structure DSt where
  ctx : Ctx := ⟨fun _ => .none, fun _ => .none⟩
  s : St := {}
  t0 : Nat := 0

def cfgKeys : List String := ["default_pulse_power", "max_pulse_power", "default_hold_power", "max_hold_power",
  "allow_enable", "max_pulse_ms", "max_hold_duration", "pulse_with_timed_enable"]
def envKeys : List String := ["_pulse_ms", "_timed_enable_ms", "max_pulse"]

def lookupD (ks : List String) (vs : List PyVal) (k : String) : PyVal :=
  ((ks.zip vs).lookup k).getD .none

def parseVals (ts : List String) : Option (List PyVal) := ts.mapM parseVal

def driverStep (d : DSt) (line : String) : DSt × String :=
  match line.splitOn " " with
  | "cfg" :: rest =>
    match parseVals rest with
    | some vs =>
      if vs.length = cfgKeys.length + envKeys.length then
        let cv := vs.take cfgKeys.length
        let ev := vs.drop cfgKeys.length
        ({ d with ctx := ⟨lookupD cfgKeys cv, lookupD envKeys ev⟩ }, "ok")
      else (d, "bad-op")
    | none => (d, "bad-op")
  | ["verify", fn, v] =>
    match parseVal v with
    | some x =>
      let r := match fn with
        | "pulse_ms" => some (vPulseMs d.ctx x) | "pulse_power" => some (vPulsePower d.ctx x)
        | "hold_power" => some (vHoldPower d.ctx x) | "timed_enable_ms" => some (vTimedMs d.ctx x) | _ => none
      match r with
      | some (.ok v) => (d, "ret " ++ showVal v)
      | some (.error e) => (d, "err " ++ e)
      | none => (d, "bad-op")
    | none => (d, "bad-op")
  | ["reset", t] =>
    match t.toNat? with
    | some n => ({ d with s := { now := n }, t0 := n }, "ok")
    | none => (d, "bad-op")
  | "op" :: kind :: rest =>
    let op : Option Op := match kind, rest with
      | "pulse", [_, a, b] => do pure (.pulse (← parseVal a) (← parseVal b))
      | "enable", [_, a, b, c] => do pure (.enable (← parseVal a) (← parseVal b) (← parseVal c))
      | "timed_enable", [_, a, b, c, e] => do pure (.timedEnable (← parseVal a) (← parseVal b) (← parseVal c) (← parseVal e))
      | "disable", [_] => some .disable
      | "advance", [a] => do match (← parseVal a) with | .int i => pure (.advance (i.toNat * 125)) | _ => none
      | _, _ => none
    match op with
    | some o =>
      let (s', ok, cmds) := step d.ctx d.s o
      ({ d with s := s' }, (if ok then "ok" else "refused") ++ String.join (cmds.map (showCmd d.t0)))
    | none => (d, "bad-op")
  | _ => (d, "bad-op")

end MpfVerif.Driver
