import MpfVerif.Gen.DriverVerify
/-!
# Driver command paths and software timers (C08) — hand model on top of the *generated* limit functions

`pulse / enable / timed_enable / disable / _pulse_now / _enable_now / _enable_limit_reached` of `mpf/devices/driver.py`,
with and without `max_wait_ms`: a request the PSU delays (`_notify_psu_and_get_wait_ms` answers `wait_ms > 0`; the answer
is an input) becomes a pending call (`St.pend`) that runs `_pulse_now` / `_enable_now` when its nameless delay is due.
Time is in milliseconds.  The limit checks are not re-modelled here: the ops call the translated programs of
`Gen/DriverVerify.lean` through the interpreter.  The event loop is not modelled as a policy: `fire w` runs one chosen
timer (any order among same-instant timers), `advance` runs everything due in a canonical order.
-/
namespace MpfVerif.Driver
open MpfVerif.Py MpfVerif.Gen.DriverVerify

inductive Cmd
  | pulse (power dur : PyVal)
  | enable (pp pd hp : PyVal) (soft : Bool)     -- soft = the software-timed pulse of `_pulse_now`
  | timedEnable (pp pd hp hd : PyVal)
  | disable
  deriving DecidableEq, Repr

/-- a call delayed by the PSU: `delay.add(wait_ms, self._pulse_now / self._enable_now, **kwargs)` (a nameless delay:
nothing in `driver.py` can cancel it) with its due time and the already verified arguments -/
inductive Pend
  | pulseNow (due : Nat) (pm pp : PyVal)
  | enableNow (due : Nat) (pm pp hp : PyVal)
  deriving DecidableEq, Repr

def Pend.due : Pend → Nat
  | .pulseNow d _ _ => d
  | .enableNow d _ _ _ => d

structure St where
  now : Nat := 0
  timedDisable : Option Nat := none      -- delay "timed_disable"
  limitDue : Option Nat := none          -- delay "enable_limit_reached"
  softOn : Bool := false                 -- ghost: last hold-type command was a software-timed pulse still on
  holdSince : Option Nat := none         -- ghost: coil enabled (by `_enable_now`) since, not yet disabled
  pend : List Pend := []                 -- PSU-delayed `_pulse_now` / `_enable_now` calls, in the order they were added

/-- a timer of the coil's delay manager -/
inductive Which
  | td                -- "timed_disable"
  | lim               -- "enable_limit_reached"
  | pend (i : Nat)    -- the i-th PSU-delayed call
  deriving DecidableEq, Repr

inductive Op
  | pulse (ms pw : PyVal)
  | enable (ms pw hp : PyVal)
  | timedEnable (te hp ms pw : PyVal)
  | disable
  | advance (dt : Nat)
  /-- `pulse(ms, pw, max_wait_ms = mw)`; `w` is what the PSU answers to `get_wait_time_for_pulse` (an input) -/
  | pulseW (ms pw mw w : PyVal)
  /-- `enable(ms, pw, hp, max_wait_ms = mw)` -/
  | enableW (ms pw hp mw w : PyVal)
  /-- `timed_enable(te, hp, ms, pw, max_wait_ms = mw)` (the PSU is asked, the command is sent at once) -/
  | timedEnableW (te hp ms pw mw : PyVal)
  /-- the event loop runs one timer: the clock jumps to its deadline.  Enabled only when no other timer is due earlier;
  the order among timers due at the same instant is the caller's choice -/
  | fire (w : Which)

def vPulseMs (c : Ctx) (x : PyVal) := call c get_and_verify_pulse_ms [("pulse_ms", x)]
def vPulsePower (c : Ctx) (x : PyVal) := call c get_and_verify_pulse_power [("pulse_power", x)]
def vHoldPower (c : Ctx) (x : PyVal) := call c get_and_verify_hold_power [("hold_power", x)]
def vTimedMs (c : Ctx) (x : PyVal) := call c get_and_verify_timed_enable_ms [("timed_enable_ms", x)]

/-- integer milliseconds of an int/bool value -/
def msOf : PyVal → Nat
  | .int i => i.toNat | .bool true => 1 | _ => 0

/-- `max_hold_duration * 1000` in ms (config value in seconds: int or float in micro-units) -/
def secsToMs : PyVal → Nat
  | .int i => (i * 1000).toNat | .flt m => (m / 1000).toNat | .bool true => 1000 | _ => 0

/-- a delay duration in ms: the delay manager gets an int (ms) or a float (micro-units) -/
def delayMs : PyVal → Nat
  | .int i => i.toNat | .bool true => 1 | .flt m => (m / 1000000).toNat | _ => 0

def doDisable (s : St) : St × List Cmd :=
  ({ s with limitDue := none, softOn := false, holdSince := none }, [.disable])

/-- `timed_enable(...)` -/
def doTimedEnable (c : Ctx) (s : St) (te hp ms pw : PyVal) : Except Err (St × List Cmd) := do
  let pd ← vPulseMs c ms
  let pp ← vPulsePower c pw
  let hd ← vTimedMs c te
  let h ← vHoldPower c hp
  pure (s, [.timedEnable pp pd h hd])

/-- `_pulse_now(pulse_ms, pulse_power)` with already verified values -/
def pulseNow (c : Ctx) (s : St) (pm pp : PyVal) : Except Err (St × List Cmd) :=
  if (c.cfg "pulse_with_timed_enable").truthy then doTimedEnable c s .none .none pm pp
  else do
    let a ← pyCmp "<" (.int 0) pm
    let b ← pyCmp "<=" pm (c.env "max_pulse")
    if a && b then pure (s, [.pulse pp pm])
    else pure ({ s with timedDisable := some (s.now + msOf pm), softOn := true }, [.enable pp (.int 0) pp true])

/-- `_enable_now(pulse_ms, pulse_power, hold_power)` with already verified values: the platform command, and the
`max_hold_duration` watchdog armed NOW (`add_if_doesnt_exist`: a running watchdog is kept) -/
def enableNow (c : Ctx) (s : St) (pm pp h : PyVal) : St × List Cmd :=
  let md := c.cfg "max_hold_duration"
  let s1 := { s with softOn := false, holdSince := some (s.holdSince.getD s.now) }
  let s2 := if md.truthy && s.limitDue.isNone then { s1 with limitDue := some (s.now + secsToMs md) } else s1
  (s2, [.enable pp pm h false])

/-- `_notify_psu_and_get_wait_ms`: 0 without `max_wait_ms`, else what the PSU answers -/
def waitOf (mw w : PyVal) : PyVal := if mw = .none then .int 0 else w

def doOp (c : Ctx) (s : St) : Op → Except Err (St × List Cmd)
  | .pulse ms pw => do
    let pm ← vPulseMs c ms
    let pp ← vPulsePower c pw
    pulseNow c s pm pp
  | .enable ms pw hp => do
    let pm ← vPulseMs c ms
    let pp ← vPulsePower c pw
    let h ← vHoldPower c hp
    if (← pyCmp "==" h (.flt 0)) then throw "DriverLimitsError"
    pure (enableNow c s pm pp h)
  | .timedEnable te hp ms pw => doTimedEnable c s te hp ms pw
  | .disable => pure (doDisable s)
  | .advance _ => pure (s, [])
  | .pulseW ms pw mw w => do
    let pm ← vPulseMs c ms
    let pp ← vPulsePower c pw
    if (← pyCmp ">" (waitOf mw w) (.int 0)) then
      pure ({ s with pend := s.pend ++ [.pulseNow (s.now + delayMs (waitOf mw w)) pm pp] }, [])
    else pulseNow c s pm pp
  | .enableW ms pw hp mw w => do
    let pm ← vPulseMs c ms
    let pp ← vPulsePower c pw
    let h ← vHoldPower c hp
    if (← pyCmp "==" h (.flt 0)) then throw "DriverLimitsError"
    if (← pyCmp ">" (waitOf mw w) (.int 0)) then
      pure ({ s with pend := s.pend ++ [.enableNow (s.now + delayMs (waitOf mw w)) pm pp h] }, [])
    else pure (enableNow c s pm pp h)
  | .timedEnableW te hp ms pw _ => doTimedEnable c s te hp ms pw
  | .fire _ => pure (s, [])

def fireTd (s : St) : St × List Cmd :=
  match s.timedDisable with
  | some d => if d ≤ s.now then doDisable { s with timedDisable := none } else (s, [])
  | none => (s, [])

def fireLim (s : St) : St × List Cmd :=
  match s.limitDue with
  | some d => if d ≤ s.now then doDisable { s with limitDue := none } else (s, [])
  | none => (s, [])

/-- fire the (at most two) named software timers that are due at `s.now`; both callbacks are `disable` -/
def fireDue (s : St) : St × List Cmd :=
  ((fireLim (fireTd s).1).1, (fireTd s).2 ++ (fireLim (fireTd s).1).2)

/-- deadlines of all registered timers -/
def dues (s : St) : List Nat := s.timedDisable.toList ++ s.limitDue.toList ++ s.pend.map Pend.due

def listMin : List Nat → Option Nat
  | [] => none
  | a :: r => match listMin r with | some b => some (min a b) | none => some a

/-- the earliest pending timer -/
def nextDue (s : St) : Option Nat := listMin (dues s)

def dueOf (s : St) : Which → Option Nat
  | .td => s.timedDisable
  | .lim => s.limitDue
  | .pend i => (s.pend[i]?).map Pend.due

/-- run the callback of a PSU-delayed call (the delay manager has dropped the entry already); an exception raised by the
callback leaves the platform untouched -/
def runPend (c : Ctx) (s : St) : Pend → St × List Cmd
  | .pulseNow _ pm pp => match pulseNow c s pm pp with | .ok r => r | .error _ => (s, [])
  | .enableNow _ pm pp h => enableNow c s pm pp h

/-- run timer `w` with the clock already at (or past) its deadline: the entry is dropped, then the callback runs -/
def runTimer (c : Ctx) (s : St) : Which → St × List Cmd
  | .td => doDisable { s with timedDisable := none }
  | .lim => doDisable { s with limitDue := none }
  | .pend i => match s.pend[i]? with
    | some p => runPend c { s with pend := s.pend.eraseIdx i } p
    | none => (s, [])

/-- `fire w`: enabled iff `w` is registered and no timer is due earlier; the clock jumps to the deadline -/
def fire (c : Ctx) (s : St) (w : Which) : Option (St × List Cmd) :=
  match dueOf s w with
  | some d => if nextDue s = some d then some (runTimer c { s with now := max d s.now } w) else none
  | none => none

/-- the first timer (canonical order: timed_disable, enable_limit_reached, delayed calls in the order they were added)
whose deadline is `d` -/
def firstAt (s : St) (d : Nat) : Which :=
  if s.timedDisable = some d then .td else if s.limitDue = some d then .lim
  else .pend (s.pend.findIdx (fun p => p.due == d))

/-- run the clock up to `target`, stopping at every timer deadline on the way and running ONE timer per stop.  Out of
fuel the clock stays at the last stop (never past an unfired timer); `advance` passes enough fuel
(`advance_reaches_target`). -/
def advanceTo (c : Ctx) : Nat → St → Nat → St × List (Nat × Cmd)
  | 0, s, _ => (s, [])
  | fuel + 1, s, target =>
    match nextDue s with
    | some d =>
      if d ≤ target then
        let (s1, o) := runTimer c { s with now := max d s.now } (firstAt s d)
        let (s2, o2) := advanceTo c fuel s1 target
        (s2, o.map (fun x => (max d s.now, x)) ++ o2)
      else ({ s with now := max target s.now }, [])
    | none => ({ s with now := max target s.now }, [])

/-- every firing removes a timer; a delayed call may add one of the two named timers -/
def fuelFor (s : St) : Nat := 2 * s.pend.length + 3

def advance (c : Ctx) (s : St) (dt : Nat) : St × List (Nat × Cmd) := advanceTo c (fuelFor s) s (s.now + dt)

/-- one harness step: a request, then the named timers that are due now (the harness runs the loop after every request);
a clock advance running everything that becomes due (canonical order among same-instant timers); or one explicit timer -/
def step (c : Ctx) (s : St) (op : Op) : St × Bool × List (Nat × Cmd) :=
  match op with
  | .advance dt => let (s', o) := advance c s dt; (s', true, o)
  | .fire w =>
    match fire c s w with
    | some (s', o) => (s', true, o.map (fun x => (s'.now, x)))
    | none => (s, false, [])
  | _ =>
    match doOp c s op with
    | .ok (s1, o1) => let (s2, o2) := fireDue s1; (s2, true, (o1 ++ o2).map (fun c => (s.now, c)))
    | .error _ => let (s2, o2) := fireDue s; (s2, false, o2.map (fun c => (s.now, c)))

/-! ## driver -/

def showSettings (l : List PyVal) : String := "/".intercalate (l.map showVal)

def showCmd (t0 : Nat) : Nat × Cmd → String
  | (t, .pulse p d) => s!" pulse@{t - t0}:{showSettings [p, d]}"
  | (t, .enable pp pd hp _) => s!" enable@{t - t0}:{showSettings [pp, pd]},{showSettings [hp, .none]}"
  | (t, .timedEnable pp pd hp hd) => s!" timed_enable@{t - t0}:{showSettings [pp, pd]},{showSettings [hp, hd]}"
  | (t, .disable) => s!" disable@{t - t0}:-"

structure DSt where
  ctx : Ctx := ⟨fun _ => .none, fun _ => .none⟩
  s : St := {}
  t0 : Nat := 0

def cfgKeys : List String := ["default_pulse_power", "max_pulse_power", "default_hold_power", "max_hold_power",
  "allow_enable", "max_pulse_ms", "max_hold_duration", "pulse_with_timed_enable"]
def envKeys : List String := ["_pulse_ms", "_timed_enable_ms", "max_pulse"]

def lookupD (ks : List String) (vs : List PyVal) (k : String) : PyVal :=
  ((ks.zip vs).lookup k).getD .none

def parseVals (ts : List String) : Option (List PyVal) := ts.mapM parseVal

def driverStep (d : DSt) (line : String) : DSt × String :=
  match line.splitOn " " with
  | "cfg" :: rest =>
    match parseVals rest with
    | some vs =>
      if vs.length = cfgKeys.length + envKeys.length then
        let cv := vs.take cfgKeys.length
        let ev := vs.drop cfgKeys.length
        ({ d with ctx := ⟨lookupD cfgKeys cv, lookupD envKeys ev⟩ }, "ok")
      else (d, "bad-op")
    | none => (d, "bad-op")
  | ["verify", fn, v] =>
    match parseVal v with
    | some x =>
      let r := match fn with
        | "pulse_ms" => some (vPulseMs d.ctx x) | "pulse_power" => some (vPulsePower d.ctx x)
        | "hold_power" => some (vHoldPower d.ctx x) | "timed_enable_ms" => some (vTimedMs d.ctx x) | _ => none
      match r with
      | some (.ok v) => (d, "ret " ++ showVal v)
      | some (.error e) => (d, "err " ++ e)
      | none => (d, "bad-op")
    | none => (d, "bad-op")
  | ["reset", t] =>
    match t.toNat? with
    | some n => ({ d with s := { now := n }, t0 := n }, "ok")
    | none => (d, "bad-op")
  | "op" :: kind :: rest =>
    let op : Option Op := match kind, rest with
      | "pulse", [_, a, b] => do pure (.pulse (← parseVal a) (← parseVal b))
      | "enable", [_, a, b, c] => do pure (.enable (← parseVal a) (← parseVal b) (← parseVal c))
      | "timed_enable", [_, a, b, c, e] => do pure (.timedEnable (← parseVal a) (← parseVal b) (← parseVal c) (← parseVal e))
      | "disable", [_] => some .disable
      | "pulse_wait", [a, b, m, w] => do pure (.pulseW (← parseVal a) (← parseVal b) (← parseVal m) (← parseVal w))
      | "enable_wait", [a, b, h, m, w] => do
        pure (.enableW (← parseVal a) (← parseVal b) (← parseVal h) (← parseVal m) (← parseVal w))
      | "timed_enable_wait", [a, b, c, e, m] => do
        pure (.timedEnableW (← parseVal a) (← parseVal b) (← parseVal c) (← parseVal e) (← parseVal m))
      | "advance_to", [a] => a.toNat?.map (fun n => .advance (d.t0 + n - d.s.now))
      | "fire", ["td"] => some (.fire .td)
      | "fire", ["lim"] => some (.fire .lim)
      | "fire", ["pend", i] => i.toNat?.map (fun n => .fire (.pend n))
      | "advance", [a] => do match (← parseVal a) with | .int i => pure (.advance (i.toNat * 125)) | _ => none
      | _, _ => none
    match op with
    | some o =>
      let (s', ok, cmds) := step d.ctx d.s o
      let verdict := match o, ok with
        | .fire _, false => "not-enabled"
        | _, true => "ok"
        | _, false => "refused"
      ({ d with s := s' }, verdict ++ String.join (cmds.map (showCmd d.t0)))
    | none => (d, "bad-op")
  | _ => (d, "bad-op")

end MpfVerif.Driver
