import MpfVerif.Model.Bcp
/-!
# Several BCP clients on one machine (C19): `BcpTransportManager._receive_loop` per client, `process_bcp_message`

Each registered transport has its own reader (`RSt`) fed by its own socket; the reads of different clients interleave
arbitrarily.  A completed frame is handed to the interface, which dispatches it when the command is known and only logs
a warning otherwise.
-/
namespace MpfVerif.Bcp

abbrev Mux := Nat → RSt

/-- one read of `chunk` on client `c`: that client's reader advances, its completed frames are dispatched (tagged) -/
def muxFeed (m : Mux) (c : Nat) (chunk : Bytes) : Mux × List (Nat × Frame) :=
  let r := feed (m c) chunk
  (fun k => if k = c then r.1 else m k, r.2.map (fun f => (c, f)))

/-- a schedule of reads: (client, chunk) in the order the loop performs them -/
def muxRun : Mux → List (Nat × Bytes) → Mux × List (Nat × Frame)
  | m, [] => (m, [])
  | m, (c, chunk) :: r =>
    let s1 := muxFeed m c chunk
    let s2 := muxRun s1.1 r
    (s2.1, s1.2 ++ s2.2)

/-- the bytes client `c` received during a schedule, in order -/
def bytesOf (c : Nat) : List (Nat × Bytes) → Bytes
  | [] => []
  | (k, chunk) :: r => if k = c then chunk ++ bytesOf c r else bytesOf c r

/-- the frames of client `c` in a dispatch log, in order -/
def framesOf (c : Nat) : List (Nat × Frame) → List Frame
  | [] => []
  | (k, f) :: r => if k = c then f :: framesOf c r else framesOf c r

/-- `process_bcp_message`: a frame whose command is not registered is skipped (warning), everything else is dispatched -/
def dispatch (known : Bytes → Bool) (log : List (Nat × Frame)) : List (Nat × Frame) :=
  log.filter (fun e => known (splitFirst 63 e.2.1).1)

end MpfVerif.Bcp
