/-!
# Model of `mpf/core/delays.py` (DelayManager) and `mpf/core/clock.py` (PeriodicTask) — property C13

Time is `Nat` ticks (the harness uses 1 tick = 1/8 s, exactly representable).  The model keeps the two structures the
code keeps, separately:

* `delays`  — the dict `DelayManager.delays : name → (handle, callback, kwargs)` (one entry per name),
* `live`    — the asyncio timer handles that were scheduled by `add` and are neither cancelled nor run yet.

That the two stay coupled (every entry has exactly its live handle and vice versa) is *proved* (Lemmas/Delay.lean), not
built in.  Callbacks are programs (`P : Nat → List Cmd`, callback id ↦ commands it issues on the same manager), so
re-adding / removing / `run_now` from inside a callback is covered.  Nested synchronous calls (`run_now` inside a
callback) are flattened onto one agenda, executed with a step budget (`fuel`).

The event loop is *not* guessed: `Op.to t` (time passes) is enabled only when nothing live is due before `t`, and
`Op.fire hid` / `Op.pfire pid` (the loop runs one due timer) are chosen by the caller — every order of same-instant
timers is a run of the model.
-/
namespace MpfVerif.Delay

/-- a scheduled `loop.call_later` handle created by `DelayManager.add` -/
structure Handle where
  hid : Nat
  name : Nat
  cb : Nat
  arg : Int
  due : Nat
deriving DecidableEq, Repr

/-- one item of `DelayManager.delays` -/
structure Entry where
  name : Nat
  hid : Nat
  cb : Nat
  arg : Int
deriving DecidableEq, Repr

/-- `PeriodicTask`: `last` is `_last_call`, `t0`/`count` are ghost (creation time, number of callbacks made) -/
structure Per where
  pid : Nat
  cb : Nat
  interval : Nat
  t0 : Nat
  count : Nat
  last : Nat
  canceled : Bool
deriving DecidableEq, Repr

/-- what the top level or a callback can call -/
inductive Cmd
  | add (ms name cb : Nat) (arg : Int)
  | addIf (ms name cb : Nat) (arg : Int)
  | reset (ms name cb : Nat) (arg : Int)
  | remove (name : Nat)
  | clear
  | runNow (name : Nat)
  | check (name : Nat)
  | pstart (interval cb : Nat)
  | pcancel (pid : Nat)
  | prestart (pid interval cb : Nat)   -- if task `pid` is still running: cancel it and start a new task (rescheduling in a tick)
  | block (d : Nat)                    -- the running callback takes `d` ticks: the clock advances, the loop does not run
  | raise (keyError : Bool)            -- the running callback raises (KeyError / any other exception)
  | endTry                             -- marker: end of the `try … except KeyError` that `run_now` has around the callback
deriving DecidableEq, Repr

inductive Obs
  | sched (h : Handle)                 -- ghost: `add` scheduled this handle
  | cancel (hid : Nat)                 -- ghost: this handle was cancelled (`clock.unschedule`)
  | fired (h : Handle) (t : Nat)       -- the loop ran the handle: callback `h.cb` called with `h.arg` at `t`
  | ranNow (e : Entry) (t : Nat)       -- `run_now` called callback `e.cb` with `e.arg` at `t`
  | checked (name : Nat) (b : Bool)    -- result of `check(name)`
  | pstarted (pid interval t0 : Nat)   -- ghost: `schedule_interval`
  | tick (pid n t : Nat)               -- n-th callback of periodic task `pid` at `t`
  | exhausted                          -- step budget used up (harness and model cut the same way)
  | blocked (d : Nat)                  -- a callback blocked the loop for `d` ticks
  | raised (keyError : Bool)           -- a callback raised
  | escaped                            -- … and nothing on the call stack caught it: it reaches the loop / the caller
deriving DecidableEq, Repr

structure St where
  now : Nat := 0
  nextId : Nat := 0
  delays : List Entry := []
  live : List Handle := []
  pers : List Per := []
  slack : Nat := 0     -- ghost: for how long callbacks have blocked the loop since it was last idle
deriving Repr

def init : St := {}

def St.entry? (s : St) (n : Nat) : Option Entry := s.delays.find? (fun e => e.name == n)

/-- `delay = self.delays.pop(name)` … `self.machine.clock.unschedule(delay[0])` (the body shared by `add` and `remove`) -/
def popName (s : St) (n : Nat) : St × List Obs :=
  match s.entry? n with
  | none => (s, [])
  | some e => ({ s with delays := s.delays.filter (fun x => x.name != n),
                        live := s.live.filter (fun h => h.hid != e.hid) }, [.cancel e.hid])

/-- `DelayManager.add` -/
def doAdd (s : St) (ms n cb : Nat) (arg : Int) : St × List Obs :=
  let r := popName s n
  let h : Handle := ⟨r.1.nextId, n, cb, arg, r.1.now + ms⟩
  ({ r.1 with nextId := r.1.nextId + 1, delays := r.1.delays ++ [⟨n, h.hid, cb, arg⟩], live := r.1.live ++ [h] },
   r.2 ++ [.sched h])

/-- `DelayManager.clear`: every handle in the dict is unscheduled, the dict is emptied -/
def doClear (s : St) : St × List Obs :=
  ({ s with delays := [], live := s.live.filter (fun h => !(s.delays.any (fun e => e.hid == h.hid))) },
   s.delays.map (fun e => .cancel e.hid))

/-- `ClockBase.schedule_interval` -/
def doPStart (s : St) (iv cb : Nat) : St × List Obs :=
  ({ s with pers := s.pers ++ [⟨s.pers.length, cb, iv, s.now, 0, s.now, false⟩] }, [.pstarted s.pers.length iv s.now])

/-- `ClockBase.unschedule(task)` -/
def doPCancel (s : St) (pid : Nat) : St :=
  { s with pers := s.pers.map (fun p => if p.pid == pid then { p with canceled := true } else p) }

/-- one command: new state, observations, and the commands of a synchronously called callback (pushed on the agenda) -/
def stepCmd (P : Nat → List Cmd) (s : St) : Cmd → St × List Obs × List Cmd
  | .add ms n cb a => let r := doAdd s ms n cb a; (r.1, r.2, [])
  | .addIf ms n cb a =>
    if s.delays.any (fun e => e.name == n) then (s, [], [])
    else let r := doAdd s ms n cb a; (r.1, r.2, [])
  | .reset ms n cb a =>
    -- `if name in self.delays: self.remove(name)` then `add`
    let r0 := if s.delays.any (fun e => e.name == n) then popName s n else (s, [])
    let r := doAdd r0.1 ms n cb a
    (r.1, r0.2 ++ r.2, [])
  | .remove n => let r := popName s n; (r.1, r.2, [])
  | .clear => let r := doClear s; (r.1, r.2, [])
  | .runNow n =>
    match s.entry? n with
    | none => (s, [], [])
    | some e => let r := popName s n; (r.1, r.2 ++ [.ranNow e s.now], P e.cb ++ [.endTry])
  | .check n => (s, [.checked n (s.delays.any (fun e => e.name == n))], [])
  | .pstart iv cb => let r := doPStart s iv cb; (r.1, r.2, [])
  | .pcancel pid => (doPCancel s pid, [], [])
  | .prestart pid iv cb =>
    if s.pers.any (fun p => p.pid == pid && !p.canceled) then
      let r := doPStart (doPCancel s pid) iv cb; (r.1, r.2, [])
    else (s, [], [])
  | .block d => ({ s with now := s.now + d, slack := s.slack + d }, [.blocked d], [])
  | .raise k => (s, [.raised k], [])
  | .endTry => (s, [], [])

/-- unwinding: a KeyError is caught by the innermost enclosing `run_now` (the rest of the agenda up to and including its
`endTry` marker is dropped); `none` = no enclosing `run_now` -/
def dropTry : List Cmd → Option (List Cmd)
  | [] => none
  | .endTry :: rest => some rest
  | _ :: rest => dropTry rest

/-- what remains to be executed after command `c`: everything, except after a `raise` -/
def cont : Cmd → List Cmd → Option (List Cmd)
  | .raise true, rest => dropTry rest
  | .raise false, _ => none
  | _, rest => some rest

/-- run an agenda of commands; a synchronously called callback's program goes in front (call stack flattened) -/
def exec (P : Nat → List Cmd) : Nat → St → List Cmd → St × List Obs
  | _, s, [] => (s, [])
  | 0, s, _ :: _ => (s, [.exhausted])
  | f + 1, s, c :: rest =>
    let r := stepCmd P s c
    match cont c rest with
    | none => (r.1, r.2.1 ++ [.escaped])
    | some rest' =>
      let r2 := exec P f r.1 (r.2.2 ++ rest')
      (r2.1, r.2.1 ++ r2.2)

/-- step budget per top-level operation (the harness callbacks stop issuing commands at the same count) -/
def fuel : Nat := 48

inductive Op
  | cmd (c : Cmd)      -- a call from outside any callback
  | to (t : Nat)       -- time passes to `t`; impossible while something live is due earlier
  | fire (hid : Nat)   -- the loop runs delay handle `hid` (must be live and due)
  | pfire (pid : Nat)  -- the loop runs periodic task `pid` (must be running and due)
deriving Repr

def Per.due (p : Per) : Nat := p.last + p.interval

def step (P : Nat → List Cmd) (s : St) : Op → Option (St × List Obs)
  | .cmd c => some (exec P fuel s [c])
  | .to t =>
    if s.now ≤ t ∧ s.live.all (fun h => t ≤ h.due) ∧ s.pers.all (fun p => p.canceled || t ≤ p.due)
    then some ({ s with now := t, slack := 0 }, []) else none
  | .fire hid =>
    match s.live.find? (fun h => h.hid == hid) with
    | none => none
    | some h =>
      if h.due ≤ s.now then
        -- `_process_delay_callback`: `del self.delays[name]`, then the callback
        let s1 := { s with live := s.live.filter (fun x => x.hid != hid),
                           delays := s.delays.filter (fun e => e.name != h.name) }
        let r := exec P fuel s1 (P h.cb)
        some (r.1, .fired h s.now :: r.2)
      else none
  | .pfire pid =>
    match s.pers.find? (fun p => p.pid == pid) with
    | none => none
    | some p =>
      if !p.canceled ∧ p.due ≤ s.now then
        -- `PeriodicTask._run`: `_last_call += interval`, callback, `_schedule` (absolute: next = new `_last_call` + interval)
        let s1 := { s with pers := s.pers.map (fun q => if q.pid == pid then
                      { q with last := q.last + q.interval, count := q.count + 1 } else q) }
        let r := exec P fuel s1 (P p.cb)
        some (r.1, .tick pid (p.count + 1) s.now :: r.2)
      else none

def run (P : Nat → List Cmd) : St → List Op → Option (St × List Obs)
  | s, [] => some (s, [])
  | s, op :: ops =>
    match step P s op with
    | none => none
    | some r1 =>
      match run P r1.1 ops with
      | none => none
      | some r2 => some (r2.1, r1.2 ++ r2.2)

/-! ## the owning mode (`mpf/core/mode.py`): `Mode.stop()` and `_finish_stop()` as operations on the mode's DelayManager

`Mode.stop()` (mode running): `self.delay.clear()`, then the queue event `mode_<name>_stopping` is posted; while a handler
holds that queue the mode is *stopping* — time passes, handlers and callbacks may still add delays on `mode.delay`, and
those may fire.  When the queue is released `_stopped` / `_finish_stop` run: `self.delay.clear()` once more (and the mode's
devices are removed).  A second `stop()` while stopping or on a stopped mode does nothing to the delays.  A mode-level history is
the run of its flattening: phase 0 = running, 1 = stopping (queue event held), 2 = stopped. -/

inductive MOp
  | op (o : Op)     -- anything else: calls on the manager, time, the loop running a due timer
  | stop            -- `Mode.stop()`
  | finish          -- the `mode_<name>_stopping` queue is released: `_stopped`, `_finish_stop`
deriving Repr

def mflat : Nat → List MOp → List Op
  | _, [] => []
  | ph, .op o :: r => o :: mflat ph r
  | 0, .stop :: r => .cmd .clear :: mflat 1 r
  | (ph + 1), .stop :: r => mflat (ph + 1) r
  | 1, .finish :: r => .cmd .clear :: mflat 2 r
  | 0, .finish :: r => mflat 0 r
  | (ph + 2), .finish :: r => mflat (ph + 2) r

def mphase : Nat → List MOp → Nat
  | ph, [] => ph
  | ph, .op _ :: r => mphase ph r
  | 0, .stop :: r => mphase 1 r
  | (ph + 1), .stop :: r => mphase (ph + 1) r
  | 1, .finish :: r => mphase 2 r
  | 0, .finish :: r => mphase 0 r
  | (ph + 2), .finish :: r => mphase (ph + 2) r

/-- a history of a mode and its delay manager, from phase `ph` -/
def mrun (P : Nat → List Cmd) (s : St) (ph : Nat) (ops : List MOp) : Option (St × List Obs) := run P s (mflat ph ops)

/-! ## line protocol -/

def parseInt (t : String) : Option Int :=
  if t.startsWith "-" then (t.drop 1).toNat?.map (fun n => - (n : Int)) else t.toNat?.map (fun n => (n : Int))

/-- a delay in ticks as the loop sees it: a negative delay is due at once (`call_later` with a negative delay) -/
def parseMs (t : String) : Option Nat := (parseInt t).map Int.toNat

def parseCmd : List String → Option Cmd
  | ["add", ms, n, cb, a] => do some (.add (← parseMs ms) (← n.toNat?) (← cb.toNat?) (← parseInt a))
  | ["addif", ms, n, cb, a] => do some (.addIf (← parseMs ms) (← n.toNat?) (← cb.toNat?) (← parseInt a))
  | ["reset", ms, n, cb, a] => do some (.reset (← parseMs ms) (← n.toNat?) (← cb.toNat?) (← parseInt a))
  | ["rm", n] => do some (.remove (← n.toNat?))
  | ["clear"] => some .clear
  | ["runnow", n] => do some (.runNow (← n.toNat?))
  | ["check", n] => do some (.check (← n.toNat?))
  | ["pstart", iv, cb] => do some (.pstart (← iv.toNat?) (← cb.toNat?))
  | ["pcancel", p] => do some (.pcancel (← p.toNat?))
  | ["prestart", p, iv, cb] => do some (.prestart (← p.toNat?) (← iv.toNat?) (← cb.toNat?))
  | ["block", d] => do some (.block (← d.toNat?))
  | ["raise", k] => do some (.raise ((← k.toNat?) == 0))
  | _ => none

def parseProg : List String → Option (List Cmd)
  | [] => some []
  | t :: ts => do
    let c ← parseCmd ((t.splitOn " ").filter (fun x => x != ""))
    let r ← parseProg ts
    some (c :: r)

def showInt (i : Int) : String := toString i

/-- visible observations only (ghost ones are for the theorems) -/
def showObs : Obs → Option String
  | .fired h t => some s!"F {h.name} {h.cb} {showInt h.arg} {t}"
  | .ranNow e t => some s!"R {e.name} {e.cb} {showInt e.arg} {t}"
  | .checked n b => some s!"C {n} {if b then 1 else 0}"
  | .tick pid n t => some s!"T {pid} {n} {t}"
  | .exhausted => some "X"
  | .blocked d => some s!"B {d}"
  | .raised k => some s!"E {if k then 0 else 1}"
  | .escaped => some "U"
  | _ => none

def showAll (os : List Obs) : String :=
  match os.filterMap showObs with
  | [] => "ok"
  | l => " ".intercalate l

structure DSt where
  s : St := {}
  progs : List (Nat × List Cmd) := []

def DSt.P (d : DSt) (k : Nat) : List Cmd :=
  match d.progs.find? (fun p => p.1 == k) with
  | some p => p.2
  | none => []

def answer (d : DSt) (r : Option (St × List Obs)) : DSt × String :=
  match r with
  | none => (d, "not-enabled")
  | some r => ({ d with s := r.1 }, showAll r.2)

def driverStep (d : DSt) (line : String) : DSt × String :=
  match (line.splitOn " ").filter (fun x => x != "") with
  | ["new"] => ({}, "ok")
  | "prog" :: k :: rest =>
    match k.toNat?, parseProg ((" ".intercalate rest).splitOn ";" |>.filter (fun x => x.trimAscii.toString != "")) with
    | some k, some p => ({ d with progs := (k, p) :: d.progs }, "ok")
    | _, _ => (d, "bad-op")
  | ["to", t] =>
    match t.toNat? with
    | some t => answer d (step d.P d.s (.to t))
    | none => (d, "bad-op")
  | ["fire", n] =>
    match n.toNat? with
    | some n =>
      -- the harness names the delay; the model's handle for that name (due ones first)
      match d.s.live.find? (fun h => h.name == n && h.due ≤ d.s.now) with
      | some h => answer d (step d.P d.s (.fire h.hid))
      | none => (d, "not-enabled")
    | none => (d, "bad-op")
  | ["pfire", p] =>
    match p.toNat? with
    | some p => answer d (step d.P d.s (.pfire p))
    | none => (d, "bad-op")
  | ["now"] => (d, s!"{d.s.now}")
  | ["pending"] =>
    -- names with a live handle, and running periodic tasks (end-of-case comparison)
    (d, "P " ++ " ".intercalate (d.s.live.map (fun h => s!"{h.name}@{h.due}")) ++ " | " ++
        " ".intercalate ((d.s.pers.filter (fun p => !p.canceled)).map (fun p => s!"{p.pid}@{p.due}")))
  | "cmd" :: rest =>
    match parseCmd rest with
    | some c => answer d (step d.P d.s (.cmd c))
    | none => (d, "bad-op")
  | _ => (d, "bad-op")

end MpfVerif.Delay
