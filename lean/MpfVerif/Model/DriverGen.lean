import MpfVerif.Model.Driver
import MpfVerif.Gen.DriverOps
/-!
# What the effects of the *generated* driver methods mean for the hand model's state (C08)

`Gen/DriverOps.lean` is `mpf/devices/driver.py` as data; running it gives a log of calls on the platform driver, the delay
manager, the PSU and the service controller.  `applyEff` is the (hand-written) meaning of the calls the model tracks:
platform commands are emitted as they are, the delays named `timed_disable` / `enable_limit_reached` are the two software
timers of `Driver.St`, a nameless delay with callback `_pulse_now` / `_enable_now` is a PSU-delayed call (`St.pend`).  `hand` / `gen` are the observable result of one request computed by the hand model and by the
generated program; `Props/C08.lean` proves them equal for every configuration, state and argument.
-/
namespace MpfVerif.Driver
open MpfVerif.Py

/-- the command without its ghost flag -/
def Cmd.obs : Cmd → Cmd
  | .enable a b c _ => .enable a b c false
  | x => x

structure Obs where
  timedDisable : Option Nat
  limitDue : Option Nat
  cmds : List Cmd
  pend : List Pend            -- PSU-delayed calls (nameless delays with callback `_pulse_now` / `_enable_now`)
  unknown : Bool := false     -- a call on the platform driver or the delay manager that the model has no meaning for
  deriving DecidableEq, Repr

/-- set one of the two modelled timers (`add` and `reset` replace an existing delay of the same name;
`add_if_doesnt_exist` keeps it); a delay with another name or another callback is not something the model tracks -/
def setTimer (now : Nat) (o : Obs) (e : Eff) (keep : Bool) : Obs :=
  let due := now + delayMs (e.arg "ms")
  if e.arg "name" == .str "timed_disable" && e.arg "callback" == .str "cb:disable" then
    { o with timedDisable := some (if keep then o.timedDisable.getD due else due) }
  else if e.arg "name" == .str "enable_limit_reached" && e.arg "callback" == .str "cb:_enable_limit_reached" then
    { o with limitDue := some (if keep then o.limitDue.getD due else due) }
  else { o with unknown := true }

/-- `delay.add(wait_ms, self._pulse_now / self._enable_now, **kwargs)` without a name: a new delayed call with the keyword
arguments the callback will get; any other nameless delay is not something the model tracks -/
def addPend (now : Nat) (o : Obs) (e : Eff) : Obs :=
  let due := now + delayMs (e.arg "ms")
  if e.arg "callback" == .str "cb:_pulse_now" then
    { o with pend := o.pend ++ [.pulseNow due (e.arg "pulse_ms") (e.arg "pulse_power")] }
  else if e.arg "callback" == .str "cb:_enable_now" then
    { o with pend := o.pend ++ [.enableNow due (e.arg "pulse_ms") (e.arg "pulse_power") (e.arg "hold_power")] }
  else { o with unknown := true }

/-- the meaning of one logged call: `hw_driver.*` are the platform commands, `delay.*` follow
`mpf/core/delays.py` for the delays named `timed_disable` / `enable_limit_reached`; calls on the PSU, the service
controller and BCP have no effect on the modelled state -/
def applyEff (now : Nat) (o : Obs) (e : Eff) : Obs :=
  if e.obj = "hw_driver" then
    if e.meth = "pulse" then { o with cmds := o.cmds ++ [.pulse (e.arg "pulse.power") (e.arg "pulse.duration")] }
    else if e.meth = "enable" then
      { o with cmds := o.cmds ++ [.enable (e.arg "pulse.power") (e.arg "pulse.duration") (e.arg "hold.power") false] }
    else if e.meth = "timed_enable" then
      { o with cmds := o.cmds ++ [.timedEnable (e.arg "pulse.power") (e.arg "pulse.duration") (e.arg "hold.power")
                                    (e.arg "hold.duration")] }
    else if e.meth = "disable" then { o with cmds := o.cmds ++ [.disable] }
    else { o with unknown := true }
  else if e.obj = "delay" then
    if e.meth = "add" && e.arg "name" == .none then addPend now o e
    else if e.meth = "add" || e.meth = "reset" then setTimer now o e false
    else if e.meth = "add_if_doesnt_exist" then setTimer now o e true
    else if e.meth = "remove" then
      if e.arg "name" == .str "timed_disable" then { o with timedDisable := none }
      else if e.arg "name" == .str "enable_limit_reached" then { o with limitDue := none }
      else o
    else if e.meth = "clear" then { o with timedDisable := none, limitDue := none, pend := [] }
    else { o with unknown := true }
  else o

/-- observable result of a request on the hand model: accepted?, the two timers, the platform commands -/
def hand (s : St) (r : Except Err (St × List Cmd)) : Bool × Obs :=
  match r with
  | .ok (s', cmds) => (true, ⟨s'.timedDisable, s'.limitDue, cmds.map Cmd.obs, s'.pend, false⟩)
  | .error _ => (false, ⟨s.timedDisable, s.limitDue, [], s.pend, false⟩)

/-- the same for a run of a generated method: fold its effects over the state the request started in -/
def gen (s : St) (r : List Eff × Except Err PyVal) : Bool × Obs :=
  ((match r.2 with | .ok _ => true | .error _ => false),
   r.1.foldl (applyEff s.now) ⟨s.timedDisable, s.limitDue, [], s.pend, false⟩)

end MpfVerif.Driver
