/-!
# Data-manager writer thread (C15) — model of `DataManager._writing_thread` + `FileManager.save`

One data manager, its writer thread, the file on disk and the temp file.  Values are `Nat` ids (`0` = what was on disk
at start-up).  The thread is a program counter over its blocking points, in the order of the code *after* the D8/D9
repairs:

```
s0:   time.sleep(min_wait)
chk:  while not thread_stopper.is_set():
wait:     if not _dirty.wait(1): continue
spin:     while FileManager.is_busy: time.sleep(0.2)
clr:      _dirty.clear()
cpy:      data = copy.deepcopy(self.data)              (then FileManager.save: is_busy = True)
wr:         file_interfaces[ext].save(temp_file, data)   -- may fail
ren:        os.replace(temp_file, filename)              -- may fail;  finally: is_busy = False
slp:      time.sleep(min_wait)
fchk: if _dirty.is_set():
fspin:    while FileManager.is_busy: time.sleep(0.2)
fclr:     _dirty.clear()
fcpy:     FileManager.save(filename, copy.deepcopy(self.data))   (fwr, fren as above; an error here ends the thread)
done
```
Environment: `save d` (= `save_all`), `shutdown` (= `thread_stopper.set()`), `fail` (the I/O operation at the current
point raises), `crash` (the process dies here).
-/
namespace MpfVerif.Writer

inductive PC
  | s0 | chk | wait | spin | clr | cpy | wr | ren | slp
  | fchk | fspin | fclr | fcpy | fwr | fren | done | dead
  deriving DecidableEq, Repr

structure St where
  data : Nat := 0            -- DataManager.data
  dirty : Bool := false      -- _dirty
  stop : Bool := false       -- machine.thread_stopper
  busy : Bool := false       -- FileManager.is_busy
  disk : Nat := 0            -- content of the file
  tmp : Option Nat := none   -- content of the temp file (`none`: absent or incomplete)
  loc : Nat := 0             -- the thread's deep copy
  pc : PC := .s0
  saved : List Nat := []     -- ghost: every value ever passed to save_all
  deriving DecidableEq, Repr

inductive Op
  | save (d : Nat) | shutdown | step | fail | crash
  deriving DecidableEq, Repr

def threadStep (s : St) : St :=
  match s.pc with
  | .s0 => { s with pc := .chk }
  | .chk => { s with pc := if s.stop then .fchk else .wait }
  | .wait => { s with pc := if s.dirty then (if s.busy then .spin else .clr) else .chk }
  | .spin => { s with pc := if s.busy then .spin else .clr }
  | .clr => { s with dirty := false, pc := .cpy }
  | .cpy => { s with loc := s.data, busy := true, pc := .wr }
  | .wr => { s with tmp := some s.loc, pc := .ren }
  | .ren => { s with disk := s.tmp.getD s.disk, tmp := none, busy := false, pc := .slp }
  | .slp => { s with pc := .chk }
  | .fchk => { s with pc := if s.dirty then (if s.busy then .fspin else .fclr) else .done }
  | .fspin => { s with pc := if s.busy then .fspin else .fclr }
  | .fclr => { s with dirty := false, pc := .fcpy }
  | .fcpy => { s with loc := s.data, busy := true, pc := .fwr }
  | .fwr => { s with tmp := some s.loc, pc := .fren }
  | .fren => { s with disk := s.tmp.getD s.disk, tmp := none, busy := false, pc := .done }
  | .done => s
  | .dead => s

/-- an injected I/O error at the current point (`none`: this point performs no I/O).  In the loop the exception is
caught and logged; in the final flush it ends the thread.  `finally` resets `is_busy` in both. -/
def failStep (s : St) : Option St :=
  match s.pc with
  | .wr => some { s with tmp := none, busy := false, pc := .slp }
  | .ren => some { s with busy := false, pc := .slp }
  | .fwr => some { s with tmp := none, busy := false, pc := .dead }
  | .fren => some { s with busy := false, pc := .dead }
  | _ => none

def step (s : St) : Op → St
  | .save d => { s with data := d, dirty := true, saved := d :: s.saved }
  | .shutdown => { s with stop := true }
  | .step => threadStep s
  | .fail => (failStep s).getD s
  | .crash => { s with pc := .dead }

def run : St → List Op → St
  | s, [] => s
  | s, o :: r => run (step s o) r

def isFault : Op → Bool
  | .fail => true
  | .crash => true
  | _ => false

/-! ## line-protocol driver -/

def hook : PC → String
  | .s0 => "sleep" | .slp => "sleep" | .chk => "chk" | .wait => "wait" | .spin => "spin" | .fspin => "spin"
  | .clr => "clr" | .fclr => "clr" | .cpy => "cpy" | .fcpy => "cpy" | .wr => "wr" | .fwr => "wr"
  | .ren => "ren" | .fren => "ren" | .fchk => "isset" | .done => "done" | .dead => "dead"

def b01 (b : Bool) : String := if b then "1" else "0"

def showSt (s : St) : String :=
  "pc=" ++ hook s.pc ++ " disk=" ++ toString s.disk ++ " dirty=" ++ b01 s.dirty ++ " busy=" ++ b01 s.busy ++
  " data=" ++ toString s.data

def driverStep (s : St) (line : String) : St × String :=
  match line.splitOn " " with
  | ["reset"] => ({}, "ok")
  | ["save", d] =>
    match d.toNat? with
    | some n => let s' := step s (.save n); (s', showSt s')
    | none => (s, "bad-op")
  | ["shutdown"] => let s' := step s .shutdown; (s', showSt s')
  | ["step"] =>
    if s.pc = .done ∨ s.pc = .dead then (s, "not-enabled") else let s' := step s .step; (s', showSt s')
  | ["fail"] =>
    match failStep s with
    | some s' => (s', showSt s')
    | none => (s, "not-enabled")
  | ["crash"] =>
    if s.pc = .done ∨ s.pc = .dead then (s, "not-enabled") else let s' := step s .crash; (s', showSt s')
  | _ => (s, "bad-op")

end MpfVerif.Writer
