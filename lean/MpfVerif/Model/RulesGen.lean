import MpfVerif.Model.Rules
import MpfVerif.Gen.RulesOps
/-!
# What the translated methods of `SoftwareEosRepulseManager` / `AutofireCoil` (Gen/RulesOps.lean) mean for the C10 model

The generated programs run on a store holding the object's attributes and leave an ordered log of attribute writes and
collaborator calls.  `applyMgr` / `applyAf` say what each logged entry does to the model state `Rules.St`; an entry they have no
meaning for yields `none`, so nothing is ignored silently.
-/
namespace MpfVerif.RulesGen
open MpfVerif.Py MpfVerif.Rules

def pb (b : Bool) : PyVal := .bool b

/-- the manager's attributes -/
def mgrStore (ds : DSt) : String → PyVal := fun k =>
  if k = "_button_is_active" then pb ds.button
  else if k = "_is_eos_closed_long_enough" then pb ds.eosLong
  else if k = "_enabled_by_repulse" then pb ds.repOn
  else .none

/-- `self.driver.hold_settings` is set for the single-wound EOS rule (pulse, then hold) and None for the dual-wound one -/
def mgrCtx (f : FCfg) : SCtx := ⟨fun k => if k = "driver.hold_settings" then pb f.hold.isNone else .none, fun _ _ => .none⟩

def applyMgrEff (f : FCfg) (i : Nat) (s : Rules.St) (e : Eff) : Option Rules.St :=
  if e.obj = "store" then
    let ds := s.devs i
    let v := (e.arg "value").truthy
    if e.meth = "_button_is_active" then some (upd s i { ds with button := v })
    else if e.meth = "_is_eos_closed_long_enough" then some (upd s i { ds with eosLong := v })
    else if e.meth = "_enabled_by_repulse" then some (upd s i { ds with repOn := v })
    else none
  else if e.obj = "hw_driver" then
    if e.meth = "enable" then some (coilOn s f.main)
    else if e.meth = "disable" then some (coilOff s f.main)
    else if e.meth = "pulse" then some (coilPulse s f.main)
    else none
  else if e.obj = "switch_controller" ∧ e.meth = "remove_switch_handler_by_keys" then
    some s        -- the four handlers leave the model's `aux` together with the rule (`clearRules`)
  else none

def applyMgr (f : FCfg) (i : Nat) : Rules.St → List Eff → Option Rules.St
  | s, [] => some s
  | s, e :: r => match applyMgrEff f i s e with
    | some s' => applyMgr f i s' r
    | none => none

/-- the log a manager method leaves when run on the attributes of device state `ds` -/
def genMgr (f : FCfg) (ds : DSt) (prog : List SSt) : List Eff := (callS (mgrCtx f) prog [] (mgrStore ds)).1.log

/-! ## `AutofireCoil.enable` / `disable` -/

/-- the autofire device's attributes (`_rule` is an opaque handle: `clear_hw_rule(self._rule)` means `clearRules`) -/
def afStore (ds : DSt) : String → PyVal := fun k => if k = "_enabled" then pb ds.enabled else .none

def optB : Option Bool → PyVal | some b => .bool b | none => .none
def optN : Option Nat → PyVal | some n => .int n | none => .none
/-- a debounce config value: "normal", or one of the others ("quick" / "auto") -/
def debS (b : Bool) : PyVal := .str (if b then "normal" else "quick")

/-- the config entries `enable` reads, as the device configuration `ACfg` of the model holds them -/
def afCtx (a : ACfg) : SCtx := ⟨fun k =>
  if k = "coil_overwrite.recycle" then optB a.owRecycle
  else if k = "coil.default_recycle" then optB a.defRecycle
  else if k = "switch_overwrite.debounce" then (match a.owDeb with | some d => debS d | none => .none)
  else if k = "switch.debounce" then debS a.swDeb
  else if k = "coil_pulse_delay" then .int a.delay
  else if k = "reverse_switch" then pb a.reverse
  else if k = "coil_overwrite.pulse_ms" then optN a.owPulse
  else if k = "coil_overwrite.pulse_power" then optN a.owPower
  else .none, fun _ _ => .none⟩

def vNatD (d : Nat) : PyVal → Nat | .int i => i.toNat | _ => d

/-- the table row `platform_controller.set_pulse_on_hit_rule` / `set_delayed_pulse_on_hit_rule` writes for the settings it
is CALLED with (debounce, invert, recycle, delay, duration, power come from the logged arguments; switch number, coil number,
the switch's NC flag and the coil's default pulse are the platform controller's own knowledge) -/
def rowOfCall (a : ACfg) (e : Eff) (delayed : Bool) : Entry :=
  let inv := (e.arg "0.invert").truthy != a.nc
  let dur := if delayed then e.arg "3.duration" else e.arg "2.duration"
  let pow := if delayed then e.arg "3.power" else e.arg "2.power"
  ⟨a.sw, a.coil, if delayed then 5 else 0,
   [b2n inv, b2n (e.arg "0.debounce").truthy, vNatD a.defPulse dur, vNatD 1000 pow, 0, b2n (e.arg "1.recycle").truthy,
    if delayed then vNatD 0 (e.arg "2") else 0, 0, 0], false⟩

def auxOfCall (a : ACfg) (e : Eff) (delayed : Bool) : List Aux :=
  let inv := (e.arg "0.invert").truthy != a.nc
  let dur := if delayed then e.arg "3.duration" else e.arg "2.duration"
  psuAux (vNatD a.defPulse dur != 0) a.sw (if inv then 0 else 1) a.coil

def applyAfEff (d : Dev) (a : ACfg) (i : Nat) (s : Rules.St) (e : Eff) : Option Rules.St :=
  if e.obj = "store" then
    if e.meth = "_enabled" then some (upd s i { s.devs i with enabled := (e.arg "value").truthy }) else none
  else if e.obj = "pc" then
    if e.meth = "set_pulse_on_hit_rule" then
      some { s with table := s.table ++ [rowOfCall a e false], aux := s.aux ++ auxOfCall a e false }
    else if e.meth = "set_delayed_pulse_on_hit_rule" then
      some { s with table := s.table ++ [rowOfCall a e true], aux := s.aux ++ auxOfCall a e true }
    else if e.meth = "clear_hw_rule" then some (clearRules s d)
    else none
  else if e.obj = "delay" ∧ e.meth = "remove" ∧ e.arg "0" = .str "_timeout_enable_delay" then
    some (upd s i { s.devs i with reDue := none })
  else none

def applyAf (d : Dev) (a : ACfg) (i : Nat) : Rules.St → List Eff → Option Rules.St
  | s, [] => some s
  | s, e :: r => match applyAfEff d a i s e with
    | some s' => applyAf d a i s' r
    | none => none

/-- the log an autofire method leaves when run on the attributes of device state `ds` -/
def genAf (a : ACfg) (ds : DSt) (prog : List SSt) : List Eff := (callS (afCtx a) prog [] (afStore ds)).1.log

end MpfVerif.RulesGen
