import MpfVerif.Model.Rules
import MpfVerif.Gen.RulesOps
/-!
# What the translated methods of `SoftwareEosRepulseManager` / `AutofireCoil` (Gen/RulesOps.lean) mean for the C10 model

The generated programs run on a store holding the object's attributes and leave an ordered log of attribute writes and
collaborator calls.  `applyMgr` / `applyAf` say what each logged entry does to the model state `Rules.St`; an entry they have no
meaning for yields `none`, so nothing is ignored silently.
-/
namespace MpfVerif.RulesGen
open MpfVerif.Py MpfVerif.Rules

def pb (b : Bool) : PyVal := .bool b

/-- the manager's attributes -/
def mgrStore (ds : DSt) : String → PyVal := fun k =>
  if k = "_button_is_active" then pb ds.button
  else if k = "_is_eos_closed_long_enough" then pb ds.eosLong
  else if k = "_enabled_by_repulse" then pb ds.repOn
  else .none

/-- `self.driver.hold_settings` is set for the single-wound EOS rule (pulse, then hold) and None for the dual-wound one -/
def mgrCtx (f : FCfg) : SCtx := ⟨fun k => if k = "driver.hold_settings" then pb f.hold.isNone else .none, fun _ _ => .none⟩

def applyMgrEff (f : FCfg) (i : Nat) (s : Rules.St) (e : Eff) : Option Rules.St :=
  if e.obj = "store" then
    let ds := s.devs i
    let v := (e.arg "value").truthy
    if e.meth = "_button_is_active" then some (upd s i { ds with button := v })
    else if e.meth = "_is_eos_closed_long_enough" then some (upd s i { ds with eosLong := v })
    else if e.meth = "_enabled_by_repulse" then some (upd s i { ds with repOn := v })
    else none
  else if e.obj = "hw_driver" then
    if e.meth = "enable" then some (coilOn s f.main)
    else if e.meth = "disable" then some (coilOff s f.main)
    else if e.meth = "pulse" then some (coilPulse s f.main)
    else none
  else if e.obj = "switch_controller" ∧ e.meth = "remove_switch_handler_by_keys" then
    some s        -- the four handlers leave the model's `aux` together with the rule (`clearRules`)
  else none

def applyMgr (f : FCfg) (i : Nat) : Rules.St → List Eff → Option Rules.St
  | s, [] => some s
  | s, e :: r => match applyMgrEff f i s e with
    | some s' => applyMgr f i s' r
    | none => none

/-- the log a manager method leaves when run on the attributes of device state `ds` -/
def genMgr (f : FCfg) (ds : DSt) (prog : List SSt) : List Eff := (callS (mgrCtx f) prog [] (mgrStore ds)).1.log

end MpfVerif.RulesGen
