/-!
# Placeholder templates (C16) — model of `mpf/core/placeholder_manager.py` `_eval*` and of Python's semantics

* `Val`   : int / float (a dyadic rational `m / 2^e`; results that would not be exact in a double are `unmodelled`) / bool /
            str / None / tuples (cons cells) / placeholder objects (`machine`, `machine.time`, `settings`, `current_player`,
            `players[n]`, `game`, `game.player`, `mode.<name>`, `device.<coll>.<name>`).
* `Expr`  : the supported grammar.  `a and b and c` is the left-nested binary form (same value in both semantics).
* `eval`  : transcription of `_eval_*` — value or error class, the subscription list, and the log of locations read.
* `pyStrict` / `pyLazy` : Python's own semantics for the same grammar with all `and`/`or` operands evaluated, and with
            Python's short-circuit.
* operator semantics (`applyBin`, `applyCmp`, `applyUn`) are shared by all three and dispatched through the tables
  `opTable`, `boolTable`, `cmpTable` (AST class name -> `operator` function name), which `Props/C16` proves equal to
  the tables regenerated from the source.  `unmodelled` marks operations outside the model (no claim, skipped).
-/
namespace MpfVerif.Template

inductive Val
  | int (i : Int) | flt (m : Int) (e : Nat) | bool (b : Bool) | str (s : String) | none
  | tnil | tcons (h : Val) (t : Val)
  | obj (root : String) (path : List String)
  deriving DecidableEq, Repr

/-- `nameError` = a `ValueError` nobody catches on the way (missing name, `'%z' % 1`, slice step 0, unknown mode name);
`attrError` = attribute read from a falsy parent; `absent` = the placeholder raised `ValueError` for the location (not in a
game, player not in game, no such device attribute), which MPF catches at the access -/
inductive PyErr | typeError | nameError | attrError | absent | other | unmodelled
  deriving DecidableEq, Repr

/-- what a Python operator applied to values can raise: `TypeError`, `ValueError`, something else (`ZeroDivisionError`,
`IndexError`, a missing table entry = `KeyError`), or the operation is outside the model -/
inductive OpErr | typeError | valueError | other | unmodelled
  deriving DecidableEq, Repr

def OpErr.toPy : OpErr → PyErr
  | .typeError => .typeError
  | .valueError => .nameError
  | .other => .other
  | .unmodelled => .unmodelled

def liftOp (r : Except OpErr Val) : Except PyErr Val :=
  match r with
  | .ok v => .ok v
  | .error e => .error e.toPy

/-! ## numbers -/

def norm : Int → Nat → Int × Nat
  | m, 0 => (m, 0)
  | m, e + 1 => if m % 2 = 0 then norm (m / 2) e else (m, e + 1)

/-- numeric view: mantissa, binary exponent, is-float -/
def num : Val → Option (Int × Nat × Bool)
  | .int i => some (i, 0, false)
  | .bool b => some (if b then 1 else 0, 0, false)
  | .flt m e => some (m, e, true)
  | _ => Option.none

/-- a float result must be exactly representable in a double (53-bit mantissa, no overflow / denormal), else no claim -/
def mkNum (isF : Bool) (m : Int) (e : Nat) : Except OpErr Val :=
  if isF then
    let r := norm m e
    if r.1.natAbs < 2 ^ 53 ∧ r.2 ≤ 1000 then .ok (.flt r.1 r.2) else .error .unmodelled
  else .ok (.int m)

/-- `k` with `x = 2^k`, if any -/
def log2Exact (x : Nat) : Option Nat := if x ≠ 0 ∧ 2 ^ x.log2 = x then some x.log2 else Option.none

/-- `base ** exponent` for numbers (`m1 / 2^e1`, `m2 / 2^e2`): integer-valued exponents of bounded size; a negative exponent
needs a base that is a power of two (else the result is not dyadic: no claim) -/
def powNum (m1 : Int) (e1 : Nat) (f1 : Bool) (m2 : Int) (e2 : Nat) (f2 : Bool) : Except OpErr Val :=
  let ex := norm m2 e2
  if ex.2 ≠ 0 then .error .unmodelled
  else
    let n := ex.1
    if n.natAbs > 200 then .error .unmodelled
    else if 0 ≤ n then mkNum (f1 || f2) (m1 ^ n.toNat) (e1 * n.toNat)
    else if m1 = 0 then .error .other
    else
      match log2Exact m1.natAbs with
      | some k =>
        let sgn : Int := if m1 < 0 ∧ n.natAbs % 2 = 1 then -1 else 1
        if k ≤ e1 then mkNum true (sgn * 2 ^ ((e1 - k) * n.natAbs)) 0
        else mkNum true sgn ((k - e1) * n.natAbs)
      | Option.none => .error .unmodelled

/-- both mantissas over the common exponent `max e1 e2` -/
def align (m1 : Int) (e1 : Nat) (m2 : Int) (e2 : Nat) : Int × Int × Nat :=
  let E := max e1 e2
  (m1 * 2 ^ (E - e1), m2 * 2 ^ (E - e2), E)

def truthy : Val → Bool
  | .int i => i ≠ 0
  | .flt m _ => m ≠ 0
  | .bool b => b
  | .str s => s ≠ ""
  | .none => false
  | .tnil => false
  | .tcons _ _ => true
  | .obj _ _ => true

def tappend : Val → Val → Val
  | .tcons h t, b => .tcons h (tappend t b)
  | _, b => b

def isTuple : Val → Bool
  | .tnil => true
  | .tcons _ _ => true
  | _ => false

def strRepeat (s : String) : Nat → String
  | 0 => ""
  | n + 1 => s ++ strRepeat s n

def tupleToList : Val → List Val
  | .tcons h t => h :: tupleToList t
  | _ => []

def listToTuple : List Val → Val
  | [] => .tnil
  | h :: t => .tcons h (listToTuple t)

/-- `str(v)` -/
def strOf : Val → Except OpErr String
  | .int i => .ok (toString i)
  | .bool b => .ok (if b then "True" else "False")
  | .str s => .ok s
  | .none => .ok "None"
  | _ => .error .unmodelled

/-- `fmt % args`, CPython's scanner for the conversions `%s`, `%d`, `%%` (anything else: no claim, except the unsupported
character `z`): `TypeError` for a missing / left-over / wrongly typed argument, `ValueError` for an incomplete format -/
def fmtScan : List Char → List Val → String → Except OpErr String
  | [], [], acc => .ok acc
  | [], _ :: _, _ => .error .typeError
  | '%' :: [], _, _ => .error .valueError
  | '%' :: c :: r, args, acc =>
    if c = '%' then fmtScan r args (acc.push '%')
    else if c = 's' ∨ c = 'd' ∨ c = 'z' then
      match args with
      | [] => .error .typeError
      | a :: rest =>
        if c = 'z' then .error .valueError
        else if c = 's' then
          match strOf a with
          | .ok t => fmtScan r rest (acc ++ t)
          | .error e => .error e
        else
          match a with
          | .int i => fmtScan r rest (acc ++ toString i)
          | .bool b => fmtScan r rest (acc ++ (if b then "1" else "0"))
          | .flt _ _ => .error .unmodelled
          | .obj _ _ => .error .unmodelled
          | _ => .error .typeError
    else .error .unmodelled
  | c :: r, args, acc => fmtScan r args (acc.push c)

/-- `__index__` -/
def idxOf : Val → Option Int
  | .int i => some i
  | .bool b => some (if b then 1 else 0)
  | _ => Option.none

def normIdx (n : Nat) (i : Int) : Option Nat :=
  if 0 ≤ i then (if i.toNat < n then some i.toNat else Option.none)
  else (if (-i).toNat ≤ n then some (n - (-i).toNat) else Option.none)

def seqIndex (xs : List α) (k : Val) (wrap : α → Val) : Except OpErr Val :=
  match k with
  | .obj _ _ => .error .unmodelled
  | _ =>
    match idxOf k with
    | some i =>
      match normIdx xs.length i with
      | some j => (match xs[j]? with | some x => .ok (wrap x) | Option.none => .error .other)
      | Option.none => .error .other
    | Option.none => .error .typeError

/-- `v[k]` on a plain value -/
def pyIndex (v k : Val) : Except OpErr Val :=
  match v with
  | .str s => seqIndex s.toList k (fun c => .str (String.singleton c))
  | .tnil => seqIndex (tupleToList v) k id
  | .tcons _ _ => seqIndex (tupleToList v) k id
  | .obj _ _ => .error .unmodelled
  | _ => .error .typeError

def sliceBound : Val → Except OpErr (Option Int)
  | .none => .ok Option.none
  | .int i => .ok (some i)
  | .bool b => .ok (some (if b then 1 else 0))
  | .obj _ _ => .error .unmodelled
  | _ => .error .typeError

def walk : Nat → Int → Int → Int → List Nat
  | 0, _, _, _ => []
  | f + 1, i, h, st => if (st > 0 ∧ i < h) ∨ (st < 0 ∧ i > h) then i.toNat :: walk f (i + st) h st else []

/-- `slice(lo, hi, st).indices(n)` expanded -/
def sliceIdx (n : Nat) (lo hi : Option Int) (st : Int) : List Nat :=
  let N : Int := n
  if st > 0 then
    let clamp := fun (v : Int) => let w := if v < 0 then v + N else v; if w < 0 then 0 else if w > N then N else w
    walk (n + 1) (match lo with | Option.none => 0 | some v => clamp v) (match hi with | Option.none => N | some v => clamp v) st
  else
    let clamp := fun (v : Int) => let w := if v < 0 then v + N else v; if w < 0 then -1 else if w ≥ N then N - 1 else w
    walk (n + 1) (match lo with | Option.none => N - 1 | some v => clamp v) (match hi with | Option.none => -1 | some v => clamp v) st

def pick (xs : List α) : List Nat → List α
  | [] => []
  | i :: r => (match xs[i]? with | some x => [x] | Option.none => []) ++ pick xs r

/-- `v[lo:hi:st]` on a plain value; `b` is the tuple `(lo, hi, st)` (CPython unpacks the step first) -/
def pySlice (v b : Val) : Except OpErr Val :=
  match b with
  | .tcons lo (.tcons hi (.tcons st .tnil)) =>
    let go := fun (n : Nat) (k : List Nat → Val) =>
      match sliceBound st with
      | .error e => Except.error e
      | .ok s =>
        if s = some 0 then .error .valueError
        else match sliceBound lo with
          | .error e => .error e
          | .ok l => match sliceBound hi with
            | .error e => .error e
            | .ok h => .ok (k (sliceIdx n l h (s.getD 1)))
    match v with
    | .str t => go t.length (fun is => .str (String.ofList (pick t.toList is)))
    | .tnil => go 0 (fun _ => .tnil)
    | .tcons _ _ => go (tupleToList v).length (fun is => listToTuple (pick (tupleToList v) is))
    | .obj _ _ => .error .unmodelled
    | _ => .error .typeError
  | _ => .error .other

/-- Python `==` (never raises); `none` = outside the model -/
def pyEq : Val → Val → Option Bool
  | .obj _ _, _ => Option.none
  | _, .obj _ _ => Option.none
  | .str a, .str b => some (a = b)
  | .none, .none => some true
  | .tnil, .tnil => some true
  | .tcons h1 t1, .tcons h2 t2 =>
    match pyEq h1 h2, pyEq t1 t2 with
    | some a, some b => some (a && b)
    | _, _ => Option.none
  | a, b =>
    match num a, num b with
    | some (m1, e1, _), some (m2, e2, _) => let r := align m1 e1 m2 e2; some (r.1 = r.2.1)
    | _, _ => some false

/-- the functions of Python's `operator` module used in the tables -/
def applyBin (fn : String) (a b : Val) : Except OpErr Val :=
  match num a, num b with
  | some (m1, e1, f1), some (m2, e2, f2) =>
    let r := align m1 e1 m2 e2
    let A := r.1; let B := r.2.1; let E := r.2.2
    let isF := f1 || f2
    if fn = "add" then mkNum isF (A + B) E
    else if fn = "sub" then mkNum isF (A - B) E
    else if fn = "mul" then mkNum isF (m1 * m2) (e1 + e2)
    else if fn = "floordiv" then (if B = 0 then .error .other else mkNum isF (Int.fdiv A B) 0)
    else if fn = "mod" then (if B = 0 then .error .other else mkNum isF (Int.fmod A B) E)
    else if fn = "truediv" then
      (if B = 0 then .error .other else if Int.fmod A B = 0 then mkNum true (Int.fdiv A B) 0 else .error .unmodelled)
    else if fn = "pow" then powNum m1 e1 f1 m2 e2 f2
    else if fn = "xor" then
      (if isF then .error .typeError else if m1 < 0 ∨ m2 < 0 then .error .unmodelled
       else match a, b with
         | .bool x, .bool y => .ok (.bool (x != y))
         | _, _ => .ok (.int (Int.ofNat (Nat.xor m1.toNat m2.toNat))))
    else .error .other
  | _, _ =>
    if fn = "add" then
      match a, b with
      | .str x, .str y => .ok (.str (x ++ y))
      | x, y => if isTuple x && isTuple y then .ok (tappend x y) else .error .typeError
    else if fn = "mul" then
      match a, b with
      | .str x, .int n => if n > 10000 then .error .unmodelled else .ok (.str (strRepeat x n.toNat))
      | .str x, .bool n => .ok (.str (if n then x else ""))
      | .int n, .str x => if n > 10000 then .error .unmodelled else .ok (.str (strRepeat x n.toNat))
      | .bool n, .str x => .ok (.str (if n then x else ""))
      | x, y => if (isTuple x && (num y).isSome) || (isTuple y && (num x).isSome) then .error .unmodelled
                else .error .typeError
    else if fn = "mod" then
      match a, b with
      | .str _, .obj _ _ => .error .unmodelled
      | .str f, _ =>
        (match fmtScan f.toList (if isTuple b then tupleToList b else [b]) "" with
         | .ok t => .ok (.str t)
         | .error e => .error e)
      | _, _ => .error .typeError
    else if fn = "sub" ∨ fn = "floordiv" ∨ fn = "truediv" ∨ fn = "pow" ∨ fn = "xor" then .error .typeError
    else .error .other

def applyCmp (fn : String) (a b : Val) : Except OpErr Val :=
  if fn = "eq" then (match pyEq a b with | some r => .ok (.bool r) | Option.none => .error .unmodelled)
  else if fn = "ne" then (match pyEq a b with | some r => .ok (.bool (!r)) | Option.none => .error .unmodelled)
  else
    match num a, num b with
    | some (m1, e1, _), some (m2, e2, _) =>
      let r := align m1 e1 m2 e2
      if fn = "lt" then .ok (.bool (decide (r.1 < r.2.1)))
      else if fn = "gt" then .ok (.bool (decide (r.1 > r.2.1)))
      else if fn = "le" then .ok (.bool (decide (r.1 ≤ r.2.1)))
      else if fn = "ge" then .ok (.bool (decide (r.1 ≥ r.2.1)))
      else .error .other
    | _, _ =>
      match a, b with
      | .str x, .str y =>
        if fn = "lt" then .ok (.bool (decide (x < y)))
        else if fn = "gt" then .ok (.bool (decide (y < x)))
        else if fn = "le" then .ok (.bool (!decide (y < x)))
        else if fn = "ge" then .ok (.bool (!decide (x < y)))
        else .error .other
      | x, y =>
        if isTuple x && isTuple y then .error .unmodelled
        else match x, y with
          | .obj _ _, _ => .error .unmodelled
          | _, .obj _ _ => .error .unmodelled
          | _, _ => if fn = "lt" ∨ fn = "gt" ∨ fn = "le" ∨ fn = "ge" then .error .typeError else .error .other

def applyUn (fn : String) (a : Val) : Except OpErr Val :=
  if fn = "neg" then
    match num a with
    | some (m, e, f) => mkNum f (-m) e
    | Option.none => .error .typeError
  else if fn = "not_" then .ok (.bool (!truthy a))
  else .error .other

def applyBool (fn : String) (a b : Val) : Except OpErr Val :=
  if fn = "and" then .ok (if truthy a then b else a)
  else if fn = "or" then .ok (if truthy a then a else b)
  else .error .other

/-! ## the operator tables of the model (AST class -> function), compared with the source by `Props/C16.tables_correct` -/

def opTable : List (String × String) :=
  [("Add", "add"), ("Sub", "sub"), ("Mult", "mul"), ("FloorDiv", "floordiv"), ("Div", "truediv"), ("Pow", "pow"),
   ("BitXor", "xor"), ("USub", "neg"), ("Not", "not_"), ("Mod", "mod")]
def boolTable : List (String × String) := [("And", "and"), ("Or", "or")]
def cmpTable : List (String × String) :=
  [("Eq", "eq"), ("Lt", "lt"), ("Gt", "gt"), ("LtE", "le"), ("GtE", "ge"), ("NotEq", "ne")]

def lookup (k : String) : List (String × String) → Option String
  | [] => Option.none
  | (a, b) :: r => if a = k then some b else lookup k r

/-- a table lookup that fails is Python's `KeyError` (`other`) -/
def viaTable (t : List (String × String)) (op : String) (f : String → Except OpErr Val) : Except OpErr Val :=
  match lookup op t with
  | some fn => f fn
  | Option.none => .error .other

/-! ## expressions and environments -/

inductive Expr
  | const (v : Val) | name (n : String)
  | unary (op : String) (e : Expr)
  | bin (op : String) (a b : Expr)
  | cmp (op : String) (a b : Expr)
  | boolop (op : String) (a b : Expr)
  | ite (c a b : Expr)
  | tnil | tcons (h t : Expr)
  | attr (e : Expr) (a : String)
  | item (e : Expr) (k : Expr)
  | slice (e : Expr) (b : Expr)        -- `e[lo:hi:st]`, `b` = the tuple expression `(lo, hi, st)` (omitted bound = `None`)
  deriving Repr

abbrev Loc := String × List String

/-- `objs`: the placeholder objects below the roots that exist now (`machine.time`, `game` = a game is running, `game.player`,
`mode.<name>`, `device.<collection>`, `device.<collection>.<name>`); `absent`: locations whose read raises `ValueError`
(`current_player.x` outside a game, `players[3].x` with two players, an unknown device attribute) -/
structure Env where
  params : List (String × Val) := []
  vars : List (Loc × Val) := []
  objs : List Loc := []
  absent : List Loc := []

def findParam (n : String) : List (String × Val) → Option Val
  | [] => Option.none
  | (a, v) :: r => if a = n then some v else findParam n r

def findVar (l : Loc) : List (Loc × Val) → Val
  | [] => .none
  | (a, v) :: r => if a = l then v else findVar l r

/-- the value of a machine variable / player variable / setting / device attribute / game or mode attribute (`None` when
it does not exist); `none` = reading it raises `ValueError` -/
def Env.look (env : Env) (l : Loc) : Option Val := if l ∈ env.absent then Option.none else some (findVar l env.vars)

/-- roots whose placeholder has a `subscribe()` -/
def roots : List String := ["settings", "machine", "device", "current_player", "players"]
/-- levels below the root that must be existing placeholder objects (`device.<collection>.<name>`, `mode.<name>`) -/
def depth (r : String) : Nat := if r = "device" then 2 else if r = "mode" then 1 else 0

inductive Sub
  | root (r : String)                 -- `<placeholder>.subscribe()`
  | inner (l : Loc)                   -- `subscribe_attribute` on an intermediate placeholder (never fires / not a variable)
  | loc (l : Loc)                     -- the event / attribute future of a variable
  deriving DecidableEq, Repr

inductive Out
  | ok (v : Val)
  | default        -- `TemplateEvalError` / `ValueError` in `evaluate`: the template's default value
  | crash          -- any other exception (`AssertionError` out of `evaluate` / `evaluate_and_subscribe`)
  | unmodelled
  deriving DecidableEq, Repr

structure Res where
  out : Out
  subs : List Sub := []
  reads : List Loc := []
  deriving Repr

/-- how an operator error surfaces in MPF: `TypeError` is mapped to the default; a `ValueError` is only caught by
`BaseTemplate.evaluate` (default) and is an `AssertionError` when subscribing -/
def mapOpErr (sub : Bool) : OpErr → Out
  | .typeError => .default
  | .valueError => if sub then .crash else .default
  | .unmodelled => .unmodelled
  | .other => .crash

def ofExcept (sub : Bool) (r : Except OpErr Val) : Out :=
  match r with
  | .ok v => .ok v
  | .error e => mapOpErr sub e

/-- `value.<a>` / `value[<a>]` on a placeholder object -/
def access (sub : Bool) (env : Env) (v : Val) (a : String) (subs : List Sub) (reads : List Loc) : Res :=
  match v with
  | .obj r p =>
    if (r, p ++ [a]) ∈ env.objs ∨ (r = "players" ∧ p = []) then
      { out := .ok (.obj r (p ++ [a])), subs := subs ++ (if sub then [Sub.inner (r, p ++ [a])] else []), reads := reads }
    else if p.length < depth r then
      -- no such device collection / device (`AssertionError`), no such mode (`ValueError`)
      { out := if r = "mode" then (if sub then .crash else .default) else .crash, subs := subs, reads := reads }
    else
      match env.look (r, p ++ [a]) with
      | some x => { out := .ok x, subs := subs ++ (if sub then [Sub.loc (r, p ++ [a])] else []), reads := reads ++ [(r, p ++ [a])] }
      | Option.none => { out := .default, subs := subs ++ (if sub then [Sub.loc (r, p ++ [a])] else []),
                         reads := reads ++ [(r, p ++ [a])] }
  | _ => { out := .crash, subs := subs, reads := reads }      -- attribute of a plain value: `AttributeError` in both modes

/-- `v[vk]` after both have been evaluated (`_eval_subscript` without a slice) -/
def itemRes (sub : Bool) (env : Env) (v vk : Val) (subs : List Sub) (reads : List Loc) : Res :=
  match v, vk with
  | .obj root p, .str key =>
    if root = "settings" ∨ (root = "game" ∧ p = []) then { out := .default, subs := subs, reads := reads }   -- not subscriptable
    else if (root = "machine" ∧ p = ["time"]) ∨ (root = "players" ∧ p = []) then { out := .unmodelled, subs := subs, reads := reads }
    else access sub env (.obj root p) key subs reads
  | .obj root p, .int i =>
    if root = "players" ∧ p = [] then access sub env (.obj root p) (toString i) subs reads
    else { out := .unmodelled, subs := subs, reads := reads }
  | .obj _ _, _ => { out := .unmodelled, subs := subs, reads := reads }
  | tv, k => { out := ofExcept sub (pyIndex tv k), subs := subs, reads := reads }

/-- transcription of `BasePlaceholderManager._eval` (`sub` = the `subscribe` flag) -/
def eval (sub : Bool) (env : Env) : Expr → Res
  | .const v => { out := .ok v }
  | .name n =>
    if n ∈ roots then { out := .ok (.obj n []), subs := if sub then [Sub.root n] else [] }
    else if n = "mode" ∨ (n = "game" ∧ ("game", []) ∈ env.objs) then
      -- ModePlaceholder / Game have no `subscribe()`: rejected when subscribing
      { out := if sub then .crash else .ok (.obj n []) }
    else match findParam n env.params with
      | some v => { out := .ok v }
      | Option.none => { out := if sub then .crash else .default }     -- ValueError("Missing variable")
  | .unary op e =>
    let r := eval sub env e
    match r.out with
    | .ok v => { r with out := ofExcept sub (viaTable opTable op (fun fn => applyUn fn v)) }
    | _ => r
  | .bin op a b =>
    let ra := eval sub env a
    match ra.out with
    | .ok va =>
      let rb := eval sub env b
      match rb.out with
      | .ok vb => { out := ofExcept sub (viaTable opTable op (fun fn => applyBin fn va vb)), subs := ra.subs ++ rb.subs,
                    reads := ra.reads ++ rb.reads }
      | o => { out := o, subs := ra.subs ++ rb.subs, reads := ra.reads ++ rb.reads }
    | _ => ra
  | .cmp op a b =>
    let ra := eval sub env a
    match ra.out with
    | .ok va =>
      let rb := eval sub env b
      match rb.out with
      | .ok vb => { out := ofExcept sub (viaTable cmpTable op (fun fn => applyCmp fn va vb)), subs := ra.subs ++ rb.subs,
                    reads := ra.reads ++ rb.reads }
      | o => { out := o, subs := ra.subs ++ rb.subs, reads := ra.reads ++ rb.reads }
    | _ => ra
  | .boolop op a b =>
    let ra := eval sub env a
    match ra.out with
    | .ok va =>
      let rb := eval sub env b
      match rb.out with
      | .ok vb => { out := ofExcept sub (viaTable boolTable op (fun fn => applyBool fn va vb)), subs := ra.subs ++ rb.subs,
                    reads := ra.reads ++ rb.reads }
      | o => { out := o, subs := ra.subs ++ rb.subs, reads := ra.reads ++ rb.reads }
    | _ => ra
  | .ite c a b =>
    let rc := eval sub env c
    match rc.out with
    | .ok vc =>
      let rb := if truthy vc then eval sub env a else eval sub env b
      { out := rb.out, subs := rc.subs ++ rb.subs, reads := rc.reads ++ rb.reads }
    | _ => rc
  | .tnil => { out := .ok .tnil }
  | .tcons h t =>
    let rh := eval sub env h
    match rh.out with
    | .ok vh =>
      let rt := eval sub env t
      match rt.out with
      | .ok vt => { out := .ok (.tcons vh vt), subs := rh.subs ++ rt.subs, reads := rh.reads ++ rt.reads }
      | o => { out := o, subs := rh.subs ++ rt.subs, reads := rh.reads ++ rt.reads }
    | _ => rh
  | .attr e a =>
    let r := eval sub env e
    match r.out with
    | .ok v =>
      if truthy v = false then { r with out := if sub then .default else .crash }
      else if v = .obj "players" [] then { r with out := .unmodelled }
      else access sub env v a r.subs r.reads
    | _ => r
  | .item e k =>
    let r := eval sub env e
    match r.out with
    | .ok v =>
      let rk := eval sub env k
      match rk.out with
      | .ok vk => itemRes sub env v vk (r.subs ++ rk.subs) (r.reads ++ rk.reads)
      | o => { out := o, subs := r.subs ++ rk.subs, reads := r.reads ++ rk.reads }
    | _ => r
  | .slice e b =>
    let ra := eval sub env e
    match ra.out with
    | .ok va =>
      let rb := eval sub env b
      match rb.out with
      | .ok vb => { out := ofExcept sub (pySlice va vb), subs := ra.subs ++ rb.subs, reads := ra.reads ++ rb.reads }
      | o => { out := o, subs := ra.subs ++ rb.subs, reads := ra.reads ++ rb.reads }
    | _ => ra

/-! ## Python's semantics for the same grammar -/

def pyAccess (env : Env) (v : Val) (a : String) : Except PyErr Val :=
  match v with
  | .obj r p =>
    if (r, p ++ [a]) ∈ env.objs ∨ (r = "players" ∧ p = []) then .ok (.obj r (p ++ [a]))
    else if p.length < depth r then (if r = "mode" then .error .nameError else .error .other)
    else match env.look (r, p ++ [a]) with
      | some x => .ok x
      | Option.none => .error .absent
  | _ => .error .other

def pyItem (env : Env) (v vk : Val) : Except PyErr Val :=
  match v, vk with
  | .obj root p, .str key =>
    if root = "settings" ∨ (root = "game" ∧ p = []) then .error .typeError
    else if (root = "machine" ∧ p = ["time"]) ∨ (root = "players" ∧ p = []) then .error .unmodelled
    else pyAccess env (.obj root p) key
  | .obj root p, .int i => if root = "players" ∧ p = [] then pyAccess env (.obj root p) (toString i) else .error .unmodelled
  | .obj _ _, _ => .error .unmodelled
  | tv, k => liftOp (pyIndex tv k)

/-- Python with every `and` / `or` operand evaluated (`lazy = false`) or with Python's short-circuit (`lazy = true`).
`rej`: the names `mode` / `game` are outside the grammar (they cannot be subscribed: rejected) -/
def py (lazy rej : Bool) (env : Env) : Expr → Except PyErr Val
  | .const v => .ok v
  | .name n =>
    if n ∈ roots then .ok (.obj n [])
    else if n = "mode" ∨ (n = "game" ∧ ("game", []) ∈ env.objs) then (if rej then .error .other else .ok (.obj n []))
    else match findParam n env.params with
      | some v => .ok v
      | Option.none => .error .nameError
  | .unary op e =>
    match py lazy rej env e with
    | .ok v => liftOp (viaTable opTable op (fun fn => applyUn fn v))
    | .error x => .error x
  | .bin op a b =>
    match py lazy rej env a with
    | .ok va =>
      match py lazy rej env b with
      | .ok vb => liftOp (viaTable opTable op (fun fn => applyBin fn va vb))
      | .error x => .error x
    | .error x => .error x
  | .cmp op a b =>
    match py lazy rej env a with
    | .ok va =>
      match py lazy rej env b with
      | .ok vb => liftOp (viaTable cmpTable op (fun fn => applyCmp fn va vb))
      | .error x => .error x
    | .error x => .error x
  | .boolop op a b =>
    match py lazy rej env a with
    | .ok va =>
      if lazy && ((op = "And" && !truthy va) || (op = "Or" && truthy va)) then .ok va
      else match py lazy rej env b with
        | .ok vb => liftOp (viaTable boolTable op (fun fn => applyBool fn va vb))
        | .error x => .error x
    | .error x => .error x
  | .ite c a b =>
    match py lazy rej env c with
    | .ok vc => if truthy vc then py lazy rej env a else py lazy rej env b
    | .error x => .error x
  | .tnil => .ok .tnil
  | .tcons h t =>
    match py lazy rej env h with
    | .ok vh =>
      match py lazy rej env t with
      | .ok vt => .ok (.tcons vh vt)
      | .error x => .error x
    | .error x => .error x
  | .attr e a =>
    match py lazy rej env e with
    | .ok v => if truthy v = false then .error .attrError else if v = .obj "players" [] then .error .unmodelled
               else pyAccess env v a
    | .error x => .error x
  | .item e k =>
    match py lazy rej env e with
    | .ok v =>
      match py lazy rej env k with
      | .ok vk => pyItem env v vk
      | .error x => .error x
    | .error x => .error x
  | .slice e b =>
    match py lazy rej env e with
    | .ok va =>
      match py lazy rej env b with
      | .ok vb => liftOp (pySlice va vb)
      | .error x => .error x
    | .error x => .error x

/-- how a Python exception of the strict semantics shows up in MPF -/
def mapErr (sub : Bool) : PyErr → Out
  | .typeError => .default
  | .nameError => if sub then .crash else .default
  | .attrError => if sub then .default else .crash
  | .absent => .default
  | .other => .crash
  | .unmodelled => .unmodelled

def ofPy (sub : Bool) (r : Except PyErr Val) : Out :=
  match r with
  | .ok v => .ok v
  | .error e => mapErr sub e

/-! ## text templates (`TextTemplate` / `MpfFormatter`): literal pieces and `{expression:spec}` fields -/

inductive Piece
  | lit (s : String)
  | fld (e : Expr) (spec : String)
  deriving Repr

/-- `format(v, spec)` for the empty spec and `d` (other specs: no claim); an error is an `AssertionError` in both modes -/
def fmtVal (v : Val) (spec : String) : Except OpErr String :=
  if spec = "" then strOf v
  else if spec = "d" then
    match v with
    | .int i => .ok (toString i)
    | .bool b => .ok (if b then "1" else "0")
    | .none => .ok "0"                 -- MpfFormatter.format_field: None with an integer spec formats as 0
    | .obj _ _ => .error .unmodelled
    | _ => .error .other
  else .error .unmodelled

/-- a field: a failed evaluation (the raw template's default) and `None` format as `None` -/
def fieldOut (o : Out) (spec : String) : Out :=
  match o with
  | .crash => .crash
  | .unmodelled => .unmodelled
  | .ok v => (match fmtVal v spec with | .ok s => .ok (.str s) | .error .unmodelled => .unmodelled | .error _ => .crash)
  | .default => (match fmtVal .none spec with | .ok s => .ok (.str s) | .error .unmodelled => .unmodelled | .error _ => .crash)

def joinOut (s : String) (o : Out) : Out :=
  match o with
  | .ok (.str t) => .ok (.str (s ++ t))
  | .ok _ => .crash
  | o => o

/-- evaluate the pieces left to right given the outcome of every field (`f`) -/
def textEval (f : Expr → Res) : List Piece → Res
  | [] => { out := .ok (.str "") }
  | .lit s :: ps => let r := textEval f ps; { r with out := joinOut s r.out }
  | .fld e spec :: ps =>
    let r1 := f e
    match fieldOut r1.out spec with
    | .ok (.str s) => let r2 := textEval f ps; { out := joinOut s r2.out, subs := r1.subs ++ r2.subs, reads := r1.reads ++ r2.reads }
    | o => { r1 with out := o }

/-- the same with every field given by Python's semantics -/
def textPy (sub : Bool) (env : Env) : List Piece → Out
  | [] => .ok (.str "")
  | .lit s :: ps => joinOut s (textPy sub env ps)
  | .fld e spec :: ps =>
    match fieldOut (ofPy sub (py false sub env e)) spec with
    | .ok (.str s) => joinOut s (textPy sub env ps)
    | o => o

/-! ## line-protocol driver -/

partial def showVal : Val → String
  | .int i => "I:" ++ toString i
  | .flt m e => "F:" ++ toString m ++ ":" ++ toString e
  | .bool b => if b then "B:1" else "B:0"
  | .str s => "S:" ++ s
  | .none => "N"
  | .tnil => "T()"
  | .tcons h t => "T(" ++ showVal h ++ "," ++ showVal t ++ ")"
  | .obj r p => "O:" ++ ".".intercalate (r :: p)

def showLoc (l : Loc) : String := ".".intercalate (l.1 :: l.2)

def showSub : Sub → String
  | .root r => "root:" ++ r
  | .inner l => "inner:" ++ showLoc l
  | .loc l => "loc:" ++ showLoc l

def showOut : Out → String
  | .ok v => "ok " ++ showVal v
  | .default => "default"
  | .crash => "crash"
  | .unmodelled => "unmodelled"

def showRes (r : Res) : String :=
  showOut r.out ++ " |" ++ String.join (r.subs.map (fun s => " " ++ showSub s)) ++ " |" ++
    String.join (r.reads.map (fun l => " " ++ showLoc l))

def showPy (r : Except PyErr Val) : String :=
  match r with
  | .ok v => "ok " ++ showVal v
  | .error .typeError => "raise TypeError"
  | .error .nameError => "raise NameError"
  | .error .attrError => "raise AttributeError"
  | .error .absent => "raise Absent"
  | .error .other => "raise Other"
  | .error .unmodelled => "unmodelled"

def strTok (s : String) : String := if s = "-" then "" else s

/-- prefix-notation value: `i 5`, `f 3 1`, `b 1`, `s abc`, `n`, `t0`, `tc V V` -/
def parseVal : Nat → List String → Option (Val × List String)
  | 0, _ => Option.none
  | _ + 1, "i" :: x :: r => x.toInt?.map (fun i => (Val.int i, r))
  | _ + 1, "f" :: m :: e :: r => do let a ← m.toInt?; let b ← e.toNat?; pure (Val.flt a b, r)
  | _ + 1, "b" :: x :: r => if x = "1" then some (Val.bool true, r) else if x = "0" then some (Val.bool false, r) else Option.none
  | _ + 1, "s" :: x :: r => some (Val.str (strTok x), r)
  | _ + 1, "n" :: r => some (Val.none, r)
  | _ + 1, "t0" :: r => some (Val.tnil, r)
  | fuel + 1, "tc" :: r => do
    let (h, r1) ← parseVal fuel r
    let (t, r2) ← parseVal fuel r1
    pure (Val.tcons h t, r2)
  | _, _ => Option.none

/-- prefix-notation expression -/
def parseExpr : Nat → List String → Option (Expr × List String)
  | 0, _ => Option.none
  | fuel + 1, toks =>
    match toks with
    | "k" :: r => (parseVal (fuel + 1) r).map (fun x => (Expr.const x.1, x.2))
    | "v" :: n :: r => some (Expr.name n, r)
    | "u" :: op :: r => do let (e, r1) ← parseExpr fuel r; pure (Expr.unary op e, r1)
    | "o" :: op :: r => do
      let (a, r1) ← parseExpr fuel r; let (b, r2) ← parseExpr fuel r1; pure (Expr.bin op a b, r2)
    | "c" :: op :: r => do
      let (a, r1) ← parseExpr fuel r; let (b, r2) ← parseExpr fuel r1; pure (Expr.cmp op a b, r2)
    | "l" :: op :: r => do
      let (a, r1) ← parseExpr fuel r; let (b, r2) ← parseExpr fuel r1; pure (Expr.boolop op a b, r2)
    | "?" :: r => do
      let (c, r1) ← parseExpr fuel r; let (a, r2) ← parseExpr fuel r1; let (b, r3) ← parseExpr fuel r2
      pure (Expr.ite c a b, r3)
    | "t0" :: r => some (Expr.tnil, r)
    | "tc" :: r => do
      let (h, r1) ← parseExpr fuel r; let (t, r2) ← parseExpr fuel r1; pure (Expr.tcons h t, r2)
    | "a" :: an :: r => do let (e, r1) ← parseExpr fuel r; pure (Expr.attr e an, r1)
    | "x" :: r => do
      let (e, r1) ← parseExpr fuel r; let (k, r2) ← parseExpr fuel r1; pure (Expr.item e k, r2)
    | "sl" :: r => do
      let (e, r1) ← parseExpr fuel r; let (lo, r2) ← parseExpr fuel r1; let (hi, r3) ← parseExpr fuel r2
      let (st, r4) ← parseExpr fuel r3
      pure (Expr.slice e (Expr.tcons lo (Expr.tcons hi (Expr.tcons st Expr.tnil))), r4)
    | _ => Option.none

def parseAll (toks : List String) : Option Expr :=
  match parseExpr (toks.length + 1) toks with
  | some (e, []) => some e
  | _ => Option.none

/-- `L =<literal>` / `F <spec or -> <expression>` ... -/
def parsePieces : Nat → List String → Option (List Piece)
  | 0, _ => Option.none
  | _ + 1, [] => some []
  | fuel + 1, "L" :: s :: r => (parsePieces fuel r).map (fun ps => Piece.lit (String.ofList (s.toList.drop 1)) :: ps)
  | fuel + 1, "F" :: spec :: r => do
    let (e, r1) ← parseExpr (r.length + 1) r
    let ps ← parsePieces fuel r1
    pure (Piece.fld e (strTok spec) :: ps)
  | _, _ => Option.none

def parseLoc (l : String) : Option Loc :=
  match l.splitOn "." with
  | r :: p => some (r, p)
  | [] => Option.none

def driverStep (env : Env) (line : String) : Env × String :=
  match line.splitOn " " with
  | ["clear"] => ({}, "ok")
  | "param" :: n :: rest =>
    match parseVal (rest.length + 1) rest with
    | some (v, []) => ({ env with params := (n, v) :: env.params }, "ok")
    | _ => (env, "bad-op")
  | "set" :: l :: rest =>
    match parseVal (rest.length + 1) rest, parseLoc l with
    | some (v, []), some loc => ({ env with vars := (loc, v) :: env.vars }, "ok")
    | _, _ => (env, "bad-op")
  | ["obj", l] =>
    match parseLoc l with
    | some loc => ({ env with objs := loc :: env.objs }, "ok")
    | Option.none => (env, "bad-op")
  | ["absent", l] =>
    match parseLoc l with
    | some loc => ({ env with absent := loc :: env.absent }, "ok")
    | Option.none => (env, "bad-op")
  | "eval" :: s :: rest =>
    match parseAll rest with
    | some e => if s = "1" then (env, showRes (eval true env e)) else if s = "0" then (env, showRes (eval false env e))
                else (env, "bad-op")
    | Option.none => (env, "bad-op")
  | "py" :: s :: rest =>
    match parseAll rest with
    | some e => if s = "lazy" then (env, showPy (py true false env e)) else if s = "strict" then (env, showPy (py false false env e))
                else (env, "bad-op")
    | Option.none => (env, "bad-op")
  | "text" :: s :: rest =>
    match parsePieces (rest.length + 1) rest with
    | some ps => if s = "1" then (env, showRes (textEval (eval true env) ps)) else if s = "0" then (env, showRes (textEval (eval false env) ps))
                 else (env, "bad-op")
    | Option.none => (env, "bad-op")
  | _ => (env, "bad-op")

end MpfVerif.Template
