/-!
# Placeholder templates (C16) — model of `mpf/core/placeholder_manager.py` `_eval*` and of Python's semantics

* `Val`   : int / float (a dyadic rational `m / 2^e`, exact for the generated values) / bool / str / None / tuples
            (cons cells) / placeholder objects (`machine`, `settings`, `current_player`, `device.<coll>.<name>`).
* `Expr`  : the supported grammar.  `a and b and c` is the left-nested binary form (same value in both semantics).
* `eval`  : transcription of `_eval_*` — value or error class, the subscription list, and the log of locations read.
* `pyStrict` / `pyLazy` : Python's own semantics for the same grammar with all `and`/`or` operands evaluated, and with
            Python's short-circuit.
* operator semantics (`applyBin`, `applyCmp`, `applyUn`) are shared by all three and dispatched through the tables
  `opTable`, `boolTable`, `cmpTable` (AST class name -> `operator` function name), which `Props/C16` proves equal to
  the tables regenerated from the source.  `unmodelled` marks operations outside the model (no claim, skipped).
-/
namespace MpfVerif.Template

inductive Val
  | int (i : Int) | flt (m : Int) (e : Nat) | bool (b : Bool) | str (s : String) | none
  | tnil | tcons (h : Val) (t : Val)
  | obj (root : String) (path : List String)
  deriving DecidableEq, Repr

inductive PyErr | typeError | nameError | attrError | other | unmodelled
  deriving DecidableEq, Repr

/-- what a Python operator applied to values can raise: `TypeError`, something else (`ZeroDivisionError`, a missing
table entry = `KeyError`), or the operation is outside the model -/
inductive OpErr | typeError | other | unmodelled
  deriving DecidableEq, Repr

def OpErr.toPy : OpErr → PyErr
  | .typeError => .typeError
  | .other => .other
  | .unmodelled => .unmodelled

def liftOp (r : Except OpErr Val) : Except PyErr Val :=
  match r with
  | .ok v => .ok v
  | .error e => .error e.toPy

/-! ## numbers -/

def norm : Int → Nat → Int × Nat
  | m, 0 => (m, 0)
  | m, e + 1 => if m % 2 = 0 then norm (m / 2) e else (m, e + 1)

/-- numeric view: mantissa, binary exponent, is-float -/
def num : Val → Option (Int × Nat × Bool)
  | .int i => some (i, 0, false)
  | .bool b => some (if b then 1 else 0, 0, false)
  | .flt m e => some (m, e, true)
  | _ => Option.none

def mkNum (isF : Bool) (m : Int) (e : Nat) : Val :=
  if isF then let r := norm m e; .flt r.1 r.2 else .int m

/-- both mantissas over the common exponent `max e1 e2` -/
def align (m1 : Int) (e1 : Nat) (m2 : Int) (e2 : Nat) : Int × Int × Nat :=
  let E := max e1 e2
  (m1 * 2 ^ (E - e1), m2 * 2 ^ (E - e2), E)

def truthy : Val → Bool
  | .int i => i ≠ 0
  | .flt m _ => m ≠ 0
  | .bool b => b
  | .str s => s ≠ ""
  | .none => false
  | .tnil => false
  | .tcons _ _ => true
  | .obj _ _ => true

def tappend : Val → Val → Val
  | .tcons h t, b => .tcons h (tappend t b)
  | _, b => b

def isTuple : Val → Bool
  | .tnil => true
  | .tcons _ _ => true
  | _ => false

def strRepeat (s : String) : Nat → String
  | 0 => ""
  | n + 1 => s ++ strRepeat s n

/-- Python `==` (never raises); `none` = outside the model -/
def pyEq : Val → Val → Option Bool
  | .obj _ _, _ => Option.none
  | _, .obj _ _ => Option.none
  | .str a, .str b => some (a = b)
  | .none, .none => some true
  | .tnil, .tnil => some true
  | .tcons h1 t1, .tcons h2 t2 =>
    match pyEq h1 h2, pyEq t1 t2 with
    | some a, some b => some (a && b)
    | _, _ => Option.none
  | a, b =>
    match num a, num b with
    | some (m1, e1, _), some (m2, e2, _) => let r := align m1 e1 m2 e2; some (r.1 = r.2.1)
    | _, _ => some false

/-- the functions of Python's `operator` module used in the tables -/
def applyBin (fn : String) (a b : Val) : Except OpErr Val :=
  match num a, num b with
  | some (m1, e1, f1), some (m2, e2, f2) =>
    let r := align m1 e1 m2 e2
    let A := r.1; let B := r.2.1; let E := r.2.2
    let isF := f1 || f2
    if fn = "add" then .ok (mkNum isF (A + B) E)
    else if fn = "sub" then .ok (mkNum isF (A - B) E)
    else if fn = "mul" then .ok (mkNum isF (m1 * m2) (e1 + e2))
    else if fn = "floordiv" then (if B = 0 then .error .other else .ok (mkNum isF (Int.fdiv A B) 0))
    else if fn = "mod" then (if B = 0 then .error .other else .ok (mkNum isF (Int.fmod A B) E))
    else if fn = "truediv" then
      (if B = 0 then .error .other else if Int.fmod A B = 0 then .ok (mkNum true (Int.fdiv A B) 0) else .error .unmodelled)
    else if fn = "pow" then
      (if isF then .error .unmodelled else if m2 < 0 then .error .unmodelled else if m2 > 16 then .error .unmodelled
       else .ok (.int (m1 ^ m2.toNat)))
    else if fn = "xor" then
      (if isF then .error .typeError else if m1 < 0 ∨ m2 < 0 then .error .unmodelled
       else match a, b with
         | .bool x, .bool y => .ok (.bool (x != y))
         | _, _ => .ok (.int (Int.ofNat (Nat.xor m1.toNat m2.toNat))))
    else .error .other
  | _, _ =>
    if fn = "add" then
      match a, b with
      | .str x, .str y => .ok (.str (x ++ y))
      | x, y => if isTuple x && isTuple y then .ok (tappend x y) else .error .typeError
    else if fn = "mul" then
      match a, b with
      | .str x, .int n => .ok (.str (strRepeat x n.toNat))
      | .str x, .bool n => .ok (.str (if n then x else ""))
      | .int n, .str x => .ok (.str (strRepeat x n.toNat))
      | .bool n, .str x => .ok (.str (if n then x else ""))
      | x, y => if (isTuple x && (num y).isSome) || (isTuple y && (num x).isSome) then .error .unmodelled
                else .error .typeError
    else if fn = "mod" then
      match a with
      | .str _ => .error .unmodelled
      | _ => .error .typeError
    else if fn = "sub" ∨ fn = "floordiv" ∨ fn = "truediv" ∨ fn = "pow" ∨ fn = "xor" then .error .typeError
    else .error .other

def applyCmp (fn : String) (a b : Val) : Except OpErr Val :=
  if fn = "eq" then (match pyEq a b with | some r => .ok (.bool r) | Option.none => .error .unmodelled)
  else if fn = "ne" then (match pyEq a b with | some r => .ok (.bool (!r)) | Option.none => .error .unmodelled)
  else
    match num a, num b with
    | some (m1, e1, _), some (m2, e2, _) =>
      let r := align m1 e1 m2 e2
      if fn = "lt" then .ok (.bool (decide (r.1 < r.2.1)))
      else if fn = "gt" then .ok (.bool (decide (r.1 > r.2.1)))
      else if fn = "le" then .ok (.bool (decide (r.1 ≤ r.2.1)))
      else if fn = "ge" then .ok (.bool (decide (r.1 ≥ r.2.1)))
      else .error .other
    | _, _ =>
      match a, b with
      | .str x, .str y =>
        if fn = "lt" then .ok (.bool (decide (x < y)))
        else if fn = "gt" then .ok (.bool (decide (y < x)))
        else if fn = "le" then .ok (.bool (!decide (y < x)))
        else if fn = "ge" then .ok (.bool (!decide (x < y)))
        else .error .other
      | x, y =>
        if isTuple x && isTuple y then .error .unmodelled
        else match x, y with
          | .obj _ _, _ => .error .unmodelled
          | _, .obj _ _ => .error .unmodelled
          | _, _ => if fn = "lt" ∨ fn = "gt" ∨ fn = "le" ∨ fn = "ge" then .error .typeError else .error .other

def applyUn (fn : String) (a : Val) : Except OpErr Val :=
  if fn = "neg" then
    match num a with
    | some (m, e, f) => .ok (mkNum f (-m) e)
    | Option.none => .error .typeError
  else if fn = "not_" then .ok (.bool (!truthy a))
  else .error .other

def applyBool (fn : String) (a b : Val) : Except OpErr Val :=
  if fn = "and" then .ok (if truthy a then b else a)
  else if fn = "or" then .ok (if truthy a then a else b)
  else .error .other

/-! ## the operator tables of the model (AST class -> function), compared with the source by `Props/C16.tables_correct` -/

def opTable : List (String × String) :=
  [("Add", "add"), ("Sub", "sub"), ("Mult", "mul"), ("FloorDiv", "floordiv"), ("Div", "truediv"), ("Pow", "pow"),
   ("BitXor", "xor"), ("USub", "neg"), ("Not", "not_"), ("Mod", "mod")]
def boolTable : List (String × String) := [("And", "and"), ("Or", "or")]
def cmpTable : List (String × String) :=
  [("Eq", "eq"), ("Lt", "lt"), ("Gt", "gt"), ("LtE", "le"), ("GtE", "ge"), ("NotEq", "ne")]

def lookup (k : String) : List (String × String) → Option String
  | [] => Option.none
  | (a, b) :: r => if a = k then some b else lookup k r

/-- a table lookup that fails is Python's `KeyError` (`other`) -/
def viaTable (t : List (String × String)) (op : String) (f : String → Except OpErr Val) : Except OpErr Val :=
  match lookup op t with
  | some fn => f fn
  | Option.none => .error .other

/-! ## expressions and environments -/

inductive Expr
  | const (v : Val) | name (n : String)
  | unary (op : String) (e : Expr)
  | bin (op : String) (a b : Expr)
  | cmp (op : String) (a b : Expr)
  | boolop (op : String) (a b : Expr)
  | ite (c a b : Expr)
  | tnil | tcons (h t : Expr)
  | attr (e : Expr) (a : String)
  | item (e : Expr) (k : Expr)
  deriving Repr

abbrev Loc := String × List String

structure Env where
  params : List (String × Val) := []
  vars : List (Loc × Val) := []

def findParam (n : String) : List (String × Val) → Option Val
  | [] => Option.none
  | (a, v) :: r => if a = n then some v else findParam n r

def findVar (l : Loc) : List (Loc × Val) → Val
  | [] => .none
  | (a, v) :: r => if a = l then v else findVar l r

/-- the value of a machine variable / player variable / setting / device attribute (`None` when it does not exist) -/
def Env.read (env : Env) (l : Loc) : Val := findVar l env.vars

def roots : List String := ["settings", "machine", "device", "current_player"]
/-- levels below the root that are still placeholder objects (`device.<collection>.<name>`) -/
def depth (r : String) : Nat := if r = "device" then 2 else 0

inductive Sub
  | root (r : String)                 -- `<placeholder>.subscribe()`
  | inner (l : Loc)                   -- `subscribe_attribute` on an intermediate device placeholder (never fires)
  | loc (l : Loc)                     -- the event / attribute future of a variable
  deriving DecidableEq, Repr

inductive Out
  | ok (v : Val)
  | default        -- `TemplateEvalError` / `ValueError` in `evaluate`: the template's default value
  | crash          -- any other exception (`AssertionError` out of `evaluate` / `evaluate_and_subscribe`)
  | unmodelled
  deriving DecidableEq, Repr

structure Res where
  out : Out
  subs : List Sub := []
  reads : List Loc := []
  deriving Repr

/-- how an operator error surfaces in MPF: only `TypeError` is mapped to the default -/
def mapOpErr : OpErr → Out
  | .typeError => .default
  | .unmodelled => .unmodelled
  | _ => .crash

def ofExcept (r : Except OpErr Val) : Out :=
  match r with
  | .ok v => .ok v
  | .error e => mapOpErr e

/-- `value.<a>` / `value[<a>]` on a placeholder object -/
def access (sub : Bool) (env : Env) (v : Val) (a : String) (subs : List Sub) (reads : List Loc) : Res :=
  match v with
  | .obj r p =>
    if p.length < depth r then
      { out := .ok (.obj r (p ++ [a])), subs := subs ++ (if sub then [Sub.inner (r, p ++ [a])] else []), reads := reads }
    else
      { out := .ok (env.read (r, p ++ [a])), subs := subs ++ (if sub then [Sub.loc (r, p ++ [a])] else []),
        reads := reads ++ [(r, p ++ [a])] }
  | _ => { out := .unmodelled, subs := subs, reads := reads }

def tupleIndex : Val → Nat → Option Val
  | .tcons h _, 0 => some h
  | .tcons _ t, n + 1 => tupleIndex t n
  | _, _ => Option.none

/-- transcription of `BasePlaceholderManager._eval` (`sub` = the `subscribe` flag) -/
def eval (sub : Bool) (env : Env) : Expr → Res
  | .const v => { out := .ok v }
  | .name n =>
    if n ∈ roots then { out := .ok (.obj n []), subs := if sub then [Sub.root n] else [] }
    else match findParam n env.params with
      | some v => { out := .ok v }
      | Option.none => { out := if sub then .crash else .default }     -- ValueError("Missing variable")
  | .unary op e =>
    let r := eval sub env e
    match r.out with
    | .ok v => { r with out := ofExcept (viaTable opTable op (fun fn => applyUn fn v)) }
    | _ => r
  | .bin op a b =>
    let ra := eval sub env a
    match ra.out with
    | .ok va =>
      let rb := eval sub env b
      match rb.out with
      | .ok vb => { out := ofExcept (viaTable opTable op (fun fn => applyBin fn va vb)), subs := ra.subs ++ rb.subs,
                    reads := ra.reads ++ rb.reads }
      | o => { out := o, subs := ra.subs ++ rb.subs, reads := ra.reads ++ rb.reads }
    | _ => ra
  | .cmp op a b =>
    let ra := eval sub env a
    match ra.out with
    | .ok va =>
      let rb := eval sub env b
      match rb.out with
      | .ok vb => { out := ofExcept (viaTable cmpTable op (fun fn => applyCmp fn va vb)), subs := ra.subs ++ rb.subs,
                    reads := ra.reads ++ rb.reads }
      | o => { out := o, subs := ra.subs ++ rb.subs, reads := ra.reads ++ rb.reads }
    | _ => ra
  | .boolop op a b =>
    let ra := eval sub env a
    match ra.out with
    | .ok va =>
      let rb := eval sub env b
      match rb.out with
      | .ok vb => { out := ofExcept (viaTable boolTable op (fun fn => applyBool fn va vb)), subs := ra.subs ++ rb.subs,
                    reads := ra.reads ++ rb.reads }
      | o => { out := o, subs := ra.subs ++ rb.subs, reads := ra.reads ++ rb.reads }
    | _ => ra
  | .ite c a b =>
    let rc := eval sub env c
    match rc.out with
    | .ok vc =>
      let rb := if truthy vc then eval sub env a else eval sub env b
      { out := rb.out, subs := rc.subs ++ rb.subs, reads := rc.reads ++ rb.reads }
    | _ => rc
  | .tnil => { out := .ok .tnil }
  | .tcons h t =>
    let rh := eval sub env h
    match rh.out with
    | .ok vh =>
      let rt := eval sub env t
      match rt.out with
      | .ok vt => { out := .ok (.tcons vh vt), subs := rh.subs ++ rt.subs, reads := rh.reads ++ rt.reads }
      | o => { out := o, subs := rh.subs ++ rt.subs, reads := rh.reads ++ rt.reads }
    | _ => rh
  | .attr e a =>
    let r := eval sub env e
    match r.out with
    | .ok v =>
      if truthy v = false then { r with out := if sub then .default else .crash }
      else access sub env v a r.subs r.reads
    | _ => r
  | .item e k =>
    let r := eval sub env e
    match r.out with
    | .ok v =>
      let rk := eval sub env k
      match rk.out with
      | .ok vk =>
        match v, vk with
        | .obj root p, .str key =>
          if root = "settings" then { out := .unmodelled, subs := r.subs ++ rk.subs, reads := r.reads ++ rk.reads }
          else access sub env (.obj root p) key (r.subs ++ rk.subs) (r.reads ++ rk.reads)
        | tv, .int i =>
          if isTuple tv ∧ 0 ≤ i then
            { out := (match tupleIndex tv i.toNat with | some x => .ok x | Option.none => .crash),
              subs := r.subs ++ rk.subs, reads := r.reads ++ rk.reads }
          else { out := .unmodelled, subs := r.subs ++ rk.subs, reads := r.reads ++ rk.reads }
        | _, _ => { out := .unmodelled, subs := r.subs ++ rk.subs, reads := r.reads ++ rk.reads }
      | o => { out := o, subs := r.subs ++ rk.subs, reads := r.reads ++ rk.reads }
    | _ => r

/-! ## Python's semantics for the same grammar -/

def pyAccess (env : Env) (v : Val) (a : String) : Except PyErr Val :=
  match v with
  | .obj r p => if p.length < depth r then .ok (.obj r (p ++ [a])) else .ok (env.read (r, p ++ [a]))
  | _ => .error .unmodelled

def pyItem (env : Env) (v vk : Val) : Except PyErr Val :=
  match v, vk with
  | .obj root p, .str key => if root = "settings" then .error .unmodelled else pyAccess env (.obj root p) key
  | tv, .int i =>
    if isTuple tv ∧ 0 ≤ i then (match tupleIndex tv i.toNat with | some x => .ok x | Option.none => .error .other)
    else .error .unmodelled
  | _, _ => .error .unmodelled

/-- Python with every `and` / `or` operand evaluated (`lazy = false`) or with Python's short-circuit (`lazy = true`) -/
def py (lazy : Bool) (env : Env) : Expr → Except PyErr Val
  | .const v => .ok v
  | .name n =>
    if n ∈ roots then .ok (.obj n [])
    else match findParam n env.params with
      | some v => .ok v
      | Option.none => .error .nameError
  | .unary op e =>
    match py lazy env e with
    | .ok v => liftOp (viaTable opTable op (fun fn => applyUn fn v))
    | .error x => .error x
  | .bin op a b =>
    match py lazy env a with
    | .ok va =>
      match py lazy env b with
      | .ok vb => liftOp (viaTable opTable op (fun fn => applyBin fn va vb))
      | .error x => .error x
    | .error x => .error x
  | .cmp op a b =>
    match py lazy env a with
    | .ok va =>
      match py lazy env b with
      | .ok vb => liftOp (viaTable cmpTable op (fun fn => applyCmp fn va vb))
      | .error x => .error x
    | .error x => .error x
  | .boolop op a b =>
    match py lazy env a with
    | .ok va =>
      if lazy && ((op = "And" && !truthy va) || (op = "Or" && truthy va)) then .ok va
      else match py lazy env b with
        | .ok vb => liftOp (viaTable boolTable op (fun fn => applyBool fn va vb))
        | .error x => .error x
    | .error x => .error x
  | .ite c a b =>
    match py lazy env c with
    | .ok vc => if truthy vc then py lazy env a else py lazy env b
    | .error x => .error x
  | .tnil => .ok .tnil
  | .tcons h t =>
    match py lazy env h with
    | .ok vh =>
      match py lazy env t with
      | .ok vt => .ok (.tcons vh vt)
      | .error x => .error x
    | .error x => .error x
  | .attr e a =>
    match py lazy env e with
    | .ok v => if truthy v = false then .error .attrError else pyAccess env v a
    | .error x => .error x
  | .item e k =>
    match py lazy env e with
    | .ok v =>
      match py lazy env k with
      | .ok vk => pyItem env v vk
      | .error x => .error x
    | .error x => .error x

/-- how a Python exception of the strict semantics shows up in MPF -/
def mapErr (sub : Bool) : PyErr → Out
  | .typeError => .default
  | .nameError => if sub then .crash else .default
  | .attrError => if sub then .default else .crash
  | .other => .crash
  | .unmodelled => .unmodelled

def ofPy (sub : Bool) (r : Except PyErr Val) : Out :=
  match r with
  | .ok v => .ok v
  | .error e => mapErr sub e

/-! ## line-protocol driver -/

partial def showVal : Val → String
  | .int i => "I:" ++ toString i
  | .flt m e => "F:" ++ toString m ++ ":" ++ toString e
  | .bool b => if b then "B:1" else "B:0"
  | .str s => "S:" ++ s
  | .none => "N"
  | .tnil => "T()"
  | .tcons h t => "T(" ++ showVal h ++ "," ++ showVal t ++ ")"
  | .obj r p => "O:" ++ ".".intercalate (r :: p)

def showLoc (l : Loc) : String := ".".intercalate (l.1 :: l.2)

def showSub : Sub → String
  | .root r => "root:" ++ r
  | .inner l => "inner:" ++ showLoc l
  | .loc l => "loc:" ++ showLoc l

def showOut : Out → String
  | .ok v => "ok " ++ showVal v
  | .default => "default"
  | .crash => "crash"
  | .unmodelled => "unmodelled"

def showRes (r : Res) : String :=
  showOut r.out ++ " |" ++ String.join (r.subs.map (fun s => " " ++ showSub s)) ++ " |" ++
    String.join (r.reads.map (fun l => " " ++ showLoc l))

def showPy (r : Except PyErr Val) : String :=
  match r with
  | .ok v => "ok " ++ showVal v
  | .error .typeError => "raise TypeError"
  | .error .nameError => "raise NameError"
  | .error .attrError => "raise AttributeError"
  | .error .other => "raise Other"
  | .error .unmodelled => "unmodelled"

def strTok (s : String) : String := if s = "-" then "" else s

/-- prefix-notation value: `i 5`, `f 3 1`, `b 1`, `s abc`, `n`, `t0`, `tc V V` -/
def parseVal : Nat → List String → Option (Val × List String)
  | 0, _ => Option.none
  | _ + 1, "i" :: x :: r => x.toInt?.map (fun i => (Val.int i, r))
  | _ + 1, "f" :: m :: e :: r => do let a ← m.toInt?; let b ← e.toNat?; pure (Val.flt a b, r)
  | _ + 1, "b" :: x :: r => if x = "1" then some (Val.bool true, r) else if x = "0" then some (Val.bool false, r) else Option.none
  | _ + 1, "s" :: x :: r => some (Val.str (strTok x), r)
  | _ + 1, "n" :: r => some (Val.none, r)
  | _ + 1, "t0" :: r => some (Val.tnil, r)
  | fuel + 1, "tc" :: r => do
    let (h, r1) ← parseVal fuel r
    let (t, r2) ← parseVal fuel r1
    pure (Val.tcons h t, r2)
  | _, _ => Option.none

/-- prefix-notation expression -/
def parseExpr : Nat → List String → Option (Expr × List String)
  | 0, _ => Option.none
  | fuel + 1, toks =>
    match toks with
    | "k" :: r => (parseVal (fuel + 1) r).map (fun x => (Expr.const x.1, x.2))
    | "v" :: n :: r => some (Expr.name n, r)
    | "u" :: op :: r => do let (e, r1) ← parseExpr fuel r; pure (Expr.unary op e, r1)
    | "o" :: op :: r => do
      let (a, r1) ← parseExpr fuel r; let (b, r2) ← parseExpr fuel r1; pure (Expr.bin op a b, r2)
    | "c" :: op :: r => do
      let (a, r1) ← parseExpr fuel r; let (b, r2) ← parseExpr fuel r1; pure (Expr.cmp op a b, r2)
    | "l" :: op :: r => do
      let (a, r1) ← parseExpr fuel r; let (b, r2) ← parseExpr fuel r1; pure (Expr.boolop op a b, r2)
    | "?" :: r => do
      let (c, r1) ← parseExpr fuel r; let (a, r2) ← parseExpr fuel r1; let (b, r3) ← parseExpr fuel r2
      pure (Expr.ite c a b, r3)
    | "t0" :: r => some (Expr.tnil, r)
    | "tc" :: r => do
      let (h, r1) ← parseExpr fuel r; let (t, r2) ← parseExpr fuel r1; pure (Expr.tcons h t, r2)
    | "a" :: an :: r => do let (e, r1) ← parseExpr fuel r; pure (Expr.attr e an, r1)
    | "x" :: r => do
      let (e, r1) ← parseExpr fuel r; let (k, r2) ← parseExpr fuel r1; pure (Expr.item e k, r2)
    | _ => Option.none

def parseAll (toks : List String) : Option Expr :=
  match parseExpr (toks.length + 1) toks with
  | some (e, []) => some e
  | _ => Option.none

def driverStep (env : Env) (line : String) : Env × String :=
  match line.splitOn " " with
  | ["clear"] => ({}, "ok")
  | "param" :: n :: rest =>
    match parseVal (rest.length + 1) rest with
    | some (v, []) => ({ env with params := (n, v) :: env.params }, "ok")
    | _ => (env, "bad-op")
  | "set" :: l :: rest =>
    match parseVal (rest.length + 1) rest, l.splitOn "." with
    | some (v, []), r :: p => ({ env with vars := ((r, p), v) :: env.vars }, "ok")
    | _, _ => (env, "bad-op")
  | "eval" :: s :: rest =>
    match parseAll rest with
    | some e => if s = "1" then (env, showRes (eval true env e)) else if s = "0" then (env, showRes (eval false env e))
                else (env, "bad-op")
    | Option.none => (env, "bad-op")
  | "py" :: s :: rest =>
    match parseAll rest with
    | some e => if s = "lazy" then (env, showPy (py true env e)) else if s = "strict" then (env, showPy (py false env e))
                else (env, "bad-op")
    | Option.none => (env, "bad-op")
  | _ => (env, "bad-op")

end MpfVerif.Template
