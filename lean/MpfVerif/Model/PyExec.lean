/-!
# A tiny deep embedding of the Python subset the translator emits (DESIGN.md section 2)

`translate/py2lean.py` turns a Python function into a `List St` literal; this file gives that data Python's meaning.
Values: None / bool / int / float (exact, in micro-units: `flt m` is `m / 10^6`) / NaN / str.
Comparisons follow Python: bool is an int, NaN compares false with everything, number vs None/str raises TypeError.
-/
namespace MpfVerif.Py

inductive PyVal
  | none | bool (b : Bool) | int (i : Int) | flt (micro : Int) | nan | str (s : String)
  deriving DecidableEq, Repr

namespace PyVal
def truthy : PyVal → Bool
  | .none => false | .bool b => b | .int i => i != 0 | .flt m => m != 0 | .nan => true | .str s => s != ""

/-- numeric view in micro units: `none` = not a number (TypeError), `some none` = NaN -/
def num : PyVal → Option (Option Int)
  | .bool b => some (some (if b then 1000000 else 0))
  | .int i => some (some (i * 1000000))
  | .flt m => some (some m)
  | .nan => some Option.none
  | _ => Option.none

/-- `isinstance(v, int)` (bool is a subclass of int) -/
def isInt : PyVal → Bool
  | .int _ => true | .bool _ => true | _ => false
end PyVal

abbrev Err := String

def cmpOp : String → Int → Int → Bool
  | ">", x, y => decide (x > y) | "<", x, y => decide (x < y)
  | ">=", x, y => decide (x ≥ y) | "<=", x, y => decide (x ≤ y)
  | "==", x, y => decide (x = y) | "!=", x, y => decide (x ≠ y)
  | _, _, _ => false

/-- Python comparison of two values (ordering comparisons; `==`/`!=` between numbers) -/
def pyCmp (op : String) (a b : PyVal) : Except Err Bool :=
  match a.num, b.num with
  | some (some x), some (some y) => pure (cmpOp op x y)
  | some _, some _ => pure (op == "!=")       -- NaN: every comparison false, `!=` true
  | _, _ => if op == "==" then pure (decide (a = b)) else if op == "!=" then pure (decide (a ≠ b))
            else throw "TypeError"

mutual
inductive Ex
  | lit (v : PyVal) | var (n : String) | cfg (k : String) | env (k : String)
  | ite (c : Cd) (a b : Ex)
inductive Cd
  | truthy (e : Ex) | cmp (op : String) (a b : Ex) | isNone (e : Ex) | notNone (e : Ex)
  | isInt (e : Ex) | and (a b : Cd) | or (a b : Cd) | not (a : Cd)
end

inductive St
  | assign (n : String) (e : Ex)
  | ifThen (c : Cd) (body : List St) (orelse : List St)
  | raise (e : Err)
  | ret (e : Ex)

abbrev Locals := String → PyVal

structure Ctx where
  cfg : String → PyVal
  env : String → PyVal

mutual
def evalE (c : Ctx) (l : Locals) : Ex → Except Err PyVal
  | .lit v => pure v
  | .var n => pure (l n)
  | .cfg k => pure (c.cfg k)
  | .env k => pure (c.env k)
  | .ite cd a b => do if (← evalC c l cd) then evalE c l a else evalE c l b
def evalC (c : Ctx) (l : Locals) : Cd → Except Err Bool
  | .truthy e => do return (← evalE c l e).truthy
  | .cmp op a b => do pyCmp op (← evalE c l a) (← evalE c l b)
  | .isNone e => do return decide ((← evalE c l e) = PyVal.none)
  | .notNone e => do return decide ((← evalE c l e) ≠ PyVal.none)
  | .isInt e => do return (← evalE c l e).isInt
  | .and a b => do if (← evalC c l a) then evalC c l b else pure false
  | .or a b => do if (← evalC c l a) then pure true else evalC c l b
  | .not a => do return !(← evalC c l a)
end

/-- outcome of running statements: fell through with new locals, or returned -/
inductive Out | next (l : Locals) | done (v : PyVal)

mutual
def execS (c : Ctx) (l : Locals) : St → Except Err Out
  | .assign n e => do let v ← evalE c l e; return .next (fun m => if m = n then v else l m)
  | .ifThen cd body orelse => do if (← evalC c l cd) then execL c l body else execL c l orelse
  | .raise e => throw e
  | .ret e => do return .done (← evalE c l e)
def execL (c : Ctx) (l : Locals) : List St → Except Err Out
  | [] => pure (.next l)
  | s :: rest => do
    match (← execS c l s) with
    | .next l' => execL c l' rest
    | .done v => pure (.done v)
end

/-- run a translated function: parameters bound by name, everything else `None`; falling off the end returns None -/
def call (c : Ctx) (prog : List St) (args : List (String × PyVal)) : Except Err PyVal :=
  let l : Locals := fun n => (args.lookup n).getD .none
  match execL c l prog with
  | .ok (.done v) => .ok v
  | .ok (.next _) => .ok .none
  | .error e => .error e

/-! ### line-protocol tokens: N T F i<int> f<micro> nan s<hex> -/

def parseIntStr (s : String) : Option Int := s.toInt?

def hexNib (c : Char) : Option Nat :=
  if '0' ≤ c ∧ c ≤ '9' then some (c.toNat - 48) else if 'a' ≤ c ∧ c ≤ 'f' then some (c.toNat - 87) else none

def unhexChars : List Char → Option (List Char)
  | [] => some []
  | [_] => none
  | a :: b :: r => do
    let x ← hexNib a; let y ← hexNib b; let t ← unhexChars r
    pure (Char.ofNat (x * 16 + y) :: t)

def parseVal (t : String) : Option PyVal :=
  if t = "N" then some .none else if t = "T" then some (.bool true) else if t = "F" then some (.bool false)
  else if t = "nan" then some .nan
  else match t.toList with
    | 'i' :: r => (parseIntStr (String.ofList r)).map .int
    | 'f' :: r => (parseIntStr (String.ofList r)).map .flt
    | 's' :: r => (unhexChars r).map (fun cs => .str (String.ofList cs))
    | _ => none

def hexOfNat (n : Nat) : Char := if n < 10 then Char.ofNat (48 + n) else Char.ofNat (87 + n)

def showVal : PyVal → String
  | .none => "N" | .bool true => "T" | .bool false => "F" | .int i => "i" ++ toString i
  | .flt m => "f" ++ toString m | .nan => "nan"
  | .str s => "s" ++ String.ofList (s.toList.flatMap (fun c => [hexOfNat (c.toNat / 16), hexOfNat (c.toNat % 16)]))

end MpfVerif.Py
