import MpfVerif.Model.PyEff
/-!
# A stateful layer of the deep embedding: methods that read and write object state (C20, credits mode)

`translate/credits_eff.py` turns the handlers of `mpf/modes/credits/code/credits.py` into `List SSt` literals.  On top of the
pure subset of `Model/PyExec.lean` (`Ex`, `Cd`) and the `Eff` records of `Model/PyEff.lean`:
  * a **store** `σ : String → PyVal` holds everything the methods read back: instance attributes (`self.x` ↦ key `x`),
    machine variables (`mv:<name>`) and settings (`set:<name>`).  Pure expressions read it through `Ex.env`, so a read
    after a write sees the write;
  * `store k e` writes it *and* appends the write to the effect log (`obj = "store"`, `meth = k`), so the log alone is a
    complete, ordered record of what the method did;
  * `eff` appends a call on a collaborator (events, delays, the coin-inhibit output) or on an *opaque* method of the same
    object (audits, display strings) to the log; its result is not used;
  * `call` runs another translated method (embedded as data), `forRange n body` is `for _ in range(n)`,
    `index x t e` is `x = self.<t>[e]` for a table the context supplies (`pricing_table`),
  * arithmetic `+ - * %` on ints, exact `/` (an error when the quotient is not a whole number — the code raises
    "Credits units need to be ints" there) and `int()`.
The log and the store survive an exception.  The interpreter is structurally recursive (kernel-reducible).
-/
namespace MpfVerif.Py

inductive SEx
  | pure (e : Ex)
  | bin (op : String) (a b : SEx)
  | toInt (a : SEx)

def asInt : PyVal → Option Int
  | .int i => some i | .bool true => some 1 | .bool false => some 0 | _ => none

/-- `+ - * % /` on ints (bool counts as int).  `%` is Python's (sign of the divisor; `Int.emod` for a positive one),
`/` is exact: a quotient that is not a whole number is an error here (outside the modelled configurations). -/
def binop (op : String) (a b : PyVal) : Except Err PyVal :=
  match asInt a, asInt b with
  | some x, some y =>
    if op = "+" then pure (.int (x + y))
    else if op = "-" then pure (.int (x - y))
    else if op = "*" then pure (.int (x * y))
    else if op = "%" then
      (if y = 0 then throw "ZeroDivisionError" else if y > 0 then pure (.int (x % y)) else pure (.int (x.fmod y)))
    else if op = "/" then
      (if y = 0 then throw "ZeroDivisionError" else if x % y = 0 then pure (.int (x / y)) else throw "inexact")
    else throw "bad-op"
  | _, _ => throw "TypeError"

def evalS (c : Ctx) (l : Locals) : SEx → Except Err PyVal
  | .pure e => evalE c l e
  | .bin op a b => do binop op (← evalS c l a) (← evalS c l b)
  | .toInt a => do
    match (← evalS c l a) with
    | .int i => pure (.int i)
    | .bool b => pure (.int (if b then 1 else 0))
    | .flt m => pure (.int (m.tdiv 1000000))
    | _ => throw "TypeError"

inductive SSt
  | assign (n : String) (e : SEx)
  | store (k : String) (e : SEx)
  | ifThen (c : Cd) (body : List SSt) (orelse : List SSt)
  | raise (e : Err)
  | ret (e : SEx)
  | call (target : Option String) (prog : List SSt) (args : List (String × SEx))
  | eff (obj meth : String) (args : List (String × SEx))
  | forRange (n : SEx) (body : List SSt)
  | index (target : String) (table : String) (e : SEx)

/-- configuration and the read-only tables of the object -/
structure SCtx where
  cfg : String → PyVal
  tab : String → Int → PyVal

/-- object state and the ordered record of what was done -/
structure SState where
  σ : String → PyVal
  log : List Eff

inductive SOut | next (l : Locals) | done (v : PyVal) | err (e : Err)

def SCtx.at (c : SCtx) (st : SState) : Ctx := { cfg := c.cfg, env := st.σ }

def evalSArgs (c : Ctx) (l : Locals) : List (String × SEx) → Except Err (List (String × PyVal))
  | [] => pure []
  | (k, e) :: r => do
    let v ← evalS c l e
    let vs ← evalSArgs c l r
    pure ((k, v) :: vs)

/-- `k` rounds of a loop body -/
def iter (f : Locals → SState → SState × SOut) : Nat → Locals → SState → SState × SOut
  | 0, l, st => (st, .next l)
  | k + 1, l, st =>
    match f l st with
    | (st', .next l') => iter f k l' st'
    | r => r

mutual
def execSS (c : SCtx) : SSt → Locals → SState → SState × SOut
  | .assign n e, l, st =>
    match evalS (c.at st) l e with
    | .ok v => (st, .next (fun m => if m = n then v else l m))
    | .error x => (st, .err x)
  | .store k e, l, st =>
    match evalS (c.at st) l e with
    | .ok v => ({ σ := fun m => if m = k then v else st.σ m, log := st.log ++ [⟨"store", k, [("value", v)]⟩] }, .next l)
    | .error x => (st, .err x)
  | .ifThen cd body orelse, l, st =>
    match evalC (c.at st) l cd with
    | .ok true => execSL c body l st
    | .ok false => execSL c orelse l st
    | .error x => (st, .err x)
  | .raise e, _, st => (st, .err e)
  | .ret e, l, st =>
    match evalS (c.at st) l e with
    | .ok v => (st, .done v)
    | .error x => (st, .err x)
  | .call t prog args, l, st =>
    match evalSArgs (c.at st) l args with
    | .error x => (st, .err x)
    | .ok vs =>
      match execSL c prog (argLocals vs) st with
      | (st', .done v) => (st', .next (bindTarget l t v))
      | (st', .next _) => (st', .next (bindTarget l t .none))
      | (st', .err x) => (st', .err x)
  | .eff obj meth args, l, st =>
    match evalSArgs (c.at st) l args with
    | .error x => (st, .err x)
    | .ok vs => ({ st with log := st.log ++ [⟨obj, meth, vs⟩] }, .next l)
  | .forRange n body, l, st =>
    match evalS (c.at st) l n with
    | .ok (.int k) => iter (execSL c body) k.toNat l st
    | .ok _ => (st, .err "TypeError")
    | .error x => (st, .err x)
  | .index t tb e, l, st =>
    match evalS (c.at st) l e with
    | .ok (.int k) => (st, .next (fun m => if m = t then c.tab tb k else l m))
    | .ok _ => (st, .err "KeyError")
    | .error x => (st, .err x)
def execSL (c : SCtx) : List SSt → Locals → SState → SState × SOut
  | [], l, st => (st, .next l)
  | s :: rest, l, st =>
    match execSS c s l st with
    | (st', .next l') => execSL c rest l' st'
    | r => r
end

/-- run a translated method: parameters bound by name; the final store, the log, and the result (None when it falls off
the end, `none` when it raised) -/
def callS (c : SCtx) (prog : List SSt) (args : List (String × PyVal)) (σ : String → PyVal) : SState × Option PyVal :=
  match execSL c prog (argLocals args) ⟨σ, []⟩ with
  | (st, .done v) => (st, some v)
  | (st, .next _) => (st, some .none)
  | (st, .err _) => (st, none)

end MpfVerif.Py
