import MpfVerif.Model.Bcp
/-!
# A deep embedding for the string code of the BCP codec (C19)

`translate/bcp_codec.py` turns the two pure functions `decode_command_string` / `encode_command_string` of
`mpf/core/bcp/bcp_socket_client.py` into `List St` literals (`Gen/BcpCodec.lean`).  This file is the fixed, hand-written
interpreter that gives that data Python's meaning; `Lemmas/BcpCodec.lean` proves that the hand model of `Model/Bcp.lean`
(`decode`, `encodeFlat`, `encodeJson`) *is* the interpreted program.

Conventions (the trusted reading of Python, see also the list of deviations at the end of this comment):
  * a Python `str` is its UTF-8 byte list (`Bytes`); **slices are byte-level** (`x[a:b]`, `x[n:]`, `x[:-1]` = `drop/take/dropLast`
    on bytes).  The source only slices at offsets that lie behind ASCII text (`"json="`, `"int:"`, `"float:"`, the trailing `&`).
  * a `float` is carried as its text (`Val.flt text`): `float(x)` keeps the text, `str(v)` of a float gives it back.
  * variables are `Nat` ids (the translator prints the Python names in a comment of the generated file).
  * the named primitives are the functions of the hand model: `quote(x, '')` ↦ `Bcp.quote`, `unquote` ↦ `Bcp.unquote`,
    `.replace('+', ' ')` ↦ `Bcp.plusToSpace`, `.lower()` ↦ `Bcp.toLower`, `.partition(c)` ↦ `Bcp.splitFirst c`,
    `.split(c)` ↦ `Bcp.splitAll c`, `int(x)` ↦ `Bcp.parseInt` (`none` = ValueError), `name in d` ↦ `Bcp.hasKey`,
    `urlsplit(s, allow_fragments=False)` ↦ `Bcp.splitFirst 63` (`.path`, `.query`),
    `urlunparse(('', '', p, '', q, ''))` ↦ `p` when `q` is empty, else `p ++ "?" ++ q`,
    `json.loads(x)` ↦ an abstract value carrying the text, `json.dumps(kwargs, cls=MpfJSONEncoder)` ↦ a parameter `dumps`.
  * an exception ends the run (`Out.err`): `Err.value` is Python's ValueError of `int()`, `Err.stuck` is anything this
    interpreter gives no meaning to (wrong type of an operand, unbound variable): the refinement theorems show it never occurs.

The interpreter is structurally recursive (loops recurse over the list that is iterated): `decide` can run it.

Known deviations from CPython (all of them are deviations of the *primitives*, shared with the hand model):
  * `urlsplit` also strips blanks/control characters, removes tab/CR/LF, and splits off a scheme (`a:b`) and a netloc (`//host`);
    `urlunparse` puts `//` in front of a path that starts with `//`.  Here: split at the first `?` only.
  * `unquote` decodes the bytes as UTF-8 with `errors='replace'`; here the bytes are kept.
  * `float(x)` raises ValueError for a text that is no float, `json.loads` raises for a text that is no JSON; here neither raises.
  * `int(x)` accepts `_` between digits and non-ASCII digits/blanks; `Bcp.parseInt` does not.
  * `.lower()` is ASCII lower-casing; `==` is defined between two `str` only (all the source needs).
  * values other than str/int/float/bool/None/dict/list (tuples, Decimal, objects with `__str__`) are outside `Arg`.
-/
namespace MpfVerif.PyStr
open MpfVerif.Bcp (Bytes Val)

/-- a value of the encoder's `**kwargs`: a scalar, or a dict/list (opaque here: only `json.dumps` looks inside) -/
inductive Arg
  | scalar (v : Val)
  | nested (id : Nat)
  deriving DecidableEq, Repr

/-- run-time values -/
inductive PV
  | v (x : Val)                          -- str (UTF-8 bytes) / int / float-as-text / bool / None
  | nested (id : Nat)                    -- a dict or list taken from the encoder's kwargs
  | strs (l : List Bytes)                -- list of str (`split`)
  | dict (d : List (Bytes × Val))        -- a dict built by the code, insertion order
  | args (d : List (Bytes × Arg))        -- the encoder's `kwargs`
  | json (text : Bytes)                  -- `json.loads(text)`, abstract
  | url (path query : Bytes)             -- `urlsplit(..)`
  | tup2 (a b : PV)
  | tup3 (a b c : PV)
  | undef                                -- unbound variable

/-- types `isinstance` can test; `nested` is the tuple `(dict, list)` -/
inductive Ty | bool | int | float | str | nested
  deriving DecidableEq, Repr

inductive Ex
  | lit (v : Val)
  | var (n : Nat)
  | newDict                              -- `dict()`
  | cat (a b : Ex)                       -- str + str; `'..{}..'.format(..)` and `x += e` become this
  | quote (e : Ex)                       -- `quote(e, '')`
  | unquote (e : Ex)
  | plusToSpace (e : Ex)                 -- `e.replace('+', ' ')`
  | lower (e : Ex)
  | startswith (e : Ex) (p : Bytes)
  | slice (lo hi : Nat) (e : Ex)         -- `e[lo:hi]`, byte-level
  | dropN (n : Nat) (e : Ex)             -- `e[n:]`
  | dropLast (e : Ex)                    -- `e[:-1]`
  | eq (a b : Ex)                        -- `==` between two str
  | not (e : Ex)
  | or (a b : Ex)
  | isIn (k d : Ex)                      -- `k in d` for a dict built by the code
  | partition (sep : Nat) (e : Ex)       -- `e.partition(chr(sep))`: a 3-tuple
  | split (sep : Nat) (e : Ex)           -- `e.split(chr(sep))`
  | strOf (e : Ex)                       -- `str(e)`
  | isInst (t : Ty) (e : Ex)
  | isNone (e : Ex)                      -- `e is None`
  | toInt (e : Ex)
  | toFloat (e : Ex)
  | urlsplit (e : Ex)                    -- `urlsplit(e, allow_fragments=False)`
  | path (e : Ex)
  | query (e : Ex)
  | urlunparse (p q : Ex)                -- `urlunparse(('', '', p, '', q, ''))`
  | jsonLoads (e : Ex)
  | jsonDumps (e : Ex)                   -- `json.dumps(e, cls=MpfJSONEncoder)`
  | tup2 (a b : Ex)

inductive St
  | assign (n : Nat) (e : Ex)
  | unpack3 (a b c : Nat) (e : Ex)       -- `a, b, c = e`
  | setItem (d : Nat) (k e : Ex)         -- `d[k] = e`
  | ite (c : Ex) (body orelse : List St)
  | forStr (x : Nat) (e : Ex) (body : List St)          -- `for x in <list of str>`
  | forItems (k v : Nat) (e : Ex) (body : List St)      -- `for k, v in e.items()`
  | cont
  | brk
  | ret (e : Ex)

inductive Err | value | stuck
  deriving DecidableEq, Repr

abbrev Res := Except Err PV

abbrev Store := Nat → PV

def Store.empty : Store := fun _ => .undef

def set (σ : Store) (n : Nat) (x : PV) : Store := fun m => if m = n then x else σ m

inductive Out
  | next (σ : Store)
  | cont (σ : Store)
  | brk (σ : Store)
  | ret (x : PV)
  | err (e : Err)

/-! ## primitives -/

def sv (b : Bytes) : PV := .v (.str b)
def bv (b : Bool) : PV := .v (.bool b)

def sNoneText : Bytes := [78, 111, 110, 101]   -- "None"

/-- `str(v)` of a scalar -/
def strText : Val → Bytes
  | .str s => s
  | .int i => Bcp.intText i
  | .flt t => t
  | .bool b => if b then Bcp.sTrue else Bcp.sFalse
  | .none => sNoneText

/-- truthiness; a float's is not determined by its text here -/
def truthy : PV → Option Bool
  | .v (.str b) => some (!b.isEmpty)
  | .v (.bool b) => some b
  | .v .none => some false
  | .v (.int i) => some (decide (i ≠ 0))
  | _ => none

/-- `isinstance(x, t)`; a bool IS an int -/
def instOf : Ty → PV → Option Bool
  | .bool, .v x => some (match x with | .bool _ => true | _ => false)
  | .int, .v x => some (match x with | .bool _ => true | .int _ => true | _ => false)
  | .float, .v x => some (match x with | .flt _ => true | _ => false)
  | .str, .v x => some (match x with | .str _ => true | _ => false)
  | .nested, .v _ => some false
  | .nested, .nested _ => some true
  | _, .nested _ => some false
  | _, _ => none

def argPV : Arg → PV
  | .scalar v => .v v
  | .nested i => .nested i

/-- `d[k] = v`: replaces the value of an existing key, appends a new one -/
def dictSet (k : Bytes) (v : Val) : List (Bytes × Val) → List (Bytes × Val)
  | [] => [(k, v)]
  | (k', v') :: r => if k = k' then (k', v) :: r else (k', v') :: dictSet k v r

def onStr (f : Bytes → Res) : Res → Res
  | .ok (.v (.str b)) => f b
  | .ok _ => .error .stuck
  | .error e => .error e

def onVal (f : PV → Res) : Res → Res
  | .ok x => f x
  | .error e => .error e

def defined : PV → Res
  | .undef => .error .stuck
  | x => .ok x

def ofOpt : Option Bool → Res
  | some b => .ok (bv b)
  | none => .error .stuck

/-! ## expressions -/

def eval (dumps : List (Bytes × Arg) → Bytes) (σ : Store) : Ex → Res
  | .lit v => .ok (.v v)
  | .var n => defined (σ n)
  | .newDict => .ok (.dict [])
  | .cat a b => onStr (fun x => onStr (fun y => .ok (sv (x ++ y))) (eval dumps σ b)) (eval dumps σ a)
  | .quote e => onStr (fun b => .ok (sv (Bcp.quote b))) (eval dumps σ e)
  | .unquote e => onStr (fun b => .ok (sv (Bcp.unquote b))) (eval dumps σ e)
  | .plusToSpace e => onStr (fun b => .ok (sv (Bcp.plusToSpace b))) (eval dumps σ e)
  | .lower e => onStr (fun b => .ok (sv (Bcp.toLower b))) (eval dumps σ e)
  | .startswith e p => onStr (fun b => .ok (bv (p.isPrefixOf b))) (eval dumps σ e)
  | .slice lo hi e => onStr (fun b => .ok (sv ((b.drop lo).take (hi - lo)))) (eval dumps σ e)
  | .dropN n e => onStr (fun b => .ok (sv (b.drop n))) (eval dumps σ e)
  | .dropLast e => onStr (fun b => .ok (sv b.dropLast)) (eval dumps σ e)
  | .eq a b => onStr (fun x => onStr (fun y => .ok (bv (decide (x = y)))) (eval dumps σ b)) (eval dumps σ a)
  | .not e => onVal (fun x => ofOpt ((truthy x).map (!·))) (eval dumps σ e)
  | .or a b => onVal (fun x => match truthy x with
      | some true => .ok x
      | some false => eval dumps σ b
      | none => .error .stuck) (eval dumps σ a)
  | .isIn k d => onStr (fun kb => onVal (fun dv => match dv with
      | .dict l => .ok (bv (Bcp.hasKey kb l))
      | _ => .error .stuck) (eval dumps σ d)) (eval dumps σ k)
  | .partition sep e => onStr (fun b =>
      .ok (.tup3 (sv (Bcp.splitFirst sep b).1) (sv (if (Bcp.splitFirst sep b).2.isSome then [sep] else []))
        (sv ((Bcp.splitFirst sep b).2.getD [])))) (eval dumps σ e)
  | .split sep e => onStr (fun b => .ok (.strs (Bcp.splitAll sep b))) (eval dumps σ e)
  | .strOf e => onVal (fun x => match x with
      | .v y => .ok (sv (strText y))
      | _ => .error .stuck) (eval dumps σ e)
  | .isInst t e => onVal (fun x => ofOpt (instOf t x)) (eval dumps σ e)
  | .isNone e => onVal (fun x => .ok (bv (match x with | .v .none => true | _ => false))) (eval dumps σ e)
  | .toInt e => onStr (fun b => match Bcp.parseInt b with
      | some i => .ok (.v (.int i))
      | none => .error .value) (eval dumps σ e)
  | .toFloat e => onStr (fun b => .ok (.v (.flt b))) (eval dumps σ e)
  | .urlsplit e => onStr (fun b => .ok (.url (Bcp.splitFirst 63 b).1 ((Bcp.splitFirst 63 b).2.getD []))) (eval dumps σ e)
  | .path e => onVal (fun x => match x with
      | .url p _ => .ok (sv p)
      | _ => .error .stuck) (eval dumps σ e)
  | .query e => onVal (fun x => match x with
      | .url _ q => .ok (sv q)
      | _ => .error .stuck) (eval dumps σ e)
  | .urlunparse p q => onStr (fun pb => onStr (fun qb => .ok (sv (if qb.isEmpty then pb else pb ++ 63 :: qb)))
      (eval dumps σ q)) (eval dumps σ p)
  | .jsonLoads e => onStr (fun b => .ok (.json b)) (eval dumps σ e)
  | .jsonDumps e => onVal (fun x => match x with
      | .args l => .ok (sv (dumps l))
      | _ => .error .stuck) (eval dumps σ e)
  | .tup2 a b => onVal (fun x => onVal (fun y => .ok (.tup2 x y)) (eval dumps σ b)) (eval dumps σ a)

/-! ## statements -/

/-- `for x in l: body` — one round per element; `continue` goes on, `break` leaves the loop -/
def iterStr (f : Store → Out) (x : Nat) : List Bytes → Store → Out
  | [], σ => .next σ
  | b :: r, σ =>
    match f (set σ x (sv b)) with
    | .next σ' => iterStr f x r σ'
    | .cont σ' => iterStr f x r σ'
    | .brk σ' => .next σ'
    | o => o

/-- `for k, v in d.items(): body` -/
def iterItems (f : Store → Out) (k v : Nat) : List (Bytes × Arg) → Store → Out
  | [], σ => .next σ
  | kv :: r, σ =>
    match f (set (set σ k (sv kv.1)) v (argPV kv.2)) with
    | .next σ' => iterItems f k v r σ'
    | .cont σ' => iterItems f k v r σ'
    | .brk σ' => .next σ'
    | o => o

mutual
def execS (dumps : List (Bytes × Arg) → Bytes) : St → Store → Out
  | .assign n e, σ =>
    match eval dumps σ e with
    | .ok x => .next (set σ n x)
    | .error er => .err er
  | .unpack3 a b c e, σ =>
    match eval dumps σ e with
    | .ok (.tup3 x y z) => .next (set (set (set σ a x) b y) c z)
    | .ok _ => .err .stuck
    | .error er => .err er
  | .setItem d k e, σ =>
    match eval dumps σ e with
    | .ok (.v x) =>
      match σ d, eval dumps σ k with
      | .dict l, .ok (.v (.str kb)) => .next (set σ d (.dict (dictSet kb x l)))
      | _, .error er => .err er
      | _, _ => .err .stuck
    | .ok _ => .err .stuck
    | .error er => .err er
  | .ite c body orelse, σ =>
    match eval dumps σ c with
    | .ok x =>
      match truthy x with
      | some true => execL dumps body σ
      | some false => execL dumps orelse σ
      | none => .err .stuck
    | .error er => .err er
  | .forStr x e body, σ =>
    match eval dumps σ e with
    | .ok (.strs l) => iterStr (execL dumps body) x l σ
    | .ok _ => .err .stuck
    | .error er => .err er
  | .forItems k v e body, σ =>
    match eval dumps σ e with
    | .ok (.args l) => iterItems (execL dumps body) k v l σ
    | .ok _ => .err .stuck
    | .error er => .err er
  | .cont, σ => .cont σ
  | .brk, σ => .brk σ
  | .ret e, σ =>
    match eval dumps σ e with
    | .ok x => .ret x
    | .error er => .err er
def execL (dumps : List (Bytes × Arg) → Bytes) : List St → Store → Out
  | [], σ => .next σ
  | s :: rest, σ =>
    match execS dumps s σ with
    | .next σ' => execL dumps rest σ'
    | o => o
end

/-! ## running the two translated functions (parameters have the ids 0, 1 in the order of the signature) -/

/-- `decode_command_string(line)`; `none` = stuck (never, by `decode_refines_source`) -/
def runDecode? (prog : List St) (line : Bytes) : Option Bcp.Decoded :=
  match execL (fun _ => []) prog (set Store.empty 0 (sv line)) with
  | .ret (.tup2 (.v (.str p)) (.dict kw)) => some (.flat p kw)
  | .ret (.tup2 (.v (.str p)) (.json t)) => some (.json p t)
  | .err .value => some .error
  | _ => none

def runDecode (prog : List St) (line : Bytes) : Bcp.Decoded := (runDecode? prog line).getD .error

/-- `encode_command_string(cmd, **args)`; `none` = an exception or stuck -/
def runEncode (dumps : List (Bytes × Arg) → Bytes) (prog : List St) (cmd : Bytes) (args : List (Bytes × Arg)) :
    Option Bytes :=
  match execL dumps prog (set (set Store.empty 0 (sv cmd)) 1 (.args args)) with
  | .ret (.v (.str b)) => some b
  | _ => none

/-! ## hand model of the whole encoder (`Model/Bcp.lean` has the two branches) -/

def isNested : Arg → Bool
  | .nested _ => true
  | .scalar _ => false

/-- some value is a dict/list, or some parameter is called `json` -/
def needsJson : List (Bytes × Arg) → Bool
  | [] => false
  | kv :: r => isNested kv.2 || decide (kv.1 = Bcp.sJson) || needsJson r

def scalarsOf : List (Bytes × Arg) → List (Bytes × Val)
  | [] => []
  | (k, .scalar v) :: r => (k, v) :: scalarsOf r
  | (_, .nested _) :: r => scalarsOf r

def encode (dumps : List (Bytes × Arg) → Bytes) (cmd : Bytes) (args : List (Bytes × Arg)) : Bytes :=
  if needsJson args then Bcp.encodeJson cmd (dumps args) else Bcp.encodeFlat cmd (scalarsOf args)

end MpfVerif.PyStr
