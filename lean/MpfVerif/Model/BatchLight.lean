/-!
# Batched light back end (C09) — model of `mpf/core/platform_batch_light_system.py` after the D18 repair

`PlatformBatchLight.set_fade` marks the light dirty; the sender task `_send_updates` *takes* the dirty set (swaps it out),
computes each light's brightness from its current fade (`get_fade_and_brightness`), collects `(light, brightness)` into a
list and awaits the platform's update callback (which yields: commands may arrive meanwhile); fades that are still
running are re-scheduled in `dirty_schedule`, from which the scheduler task moves them back into the dirty set.
Scheduler choices are inputs: `mark`, `schedfire`, `compute l`, `flush`, `delivered` may interleave in any order the
guards allow.  The poll sleep and the sequential grouping only decide *where* the real code flushes; here a flush is
possible whenever the list is non-empty (every real behaviour is one of the model's).  The per-light `_last_brightness`
cache returns exactly what the recomputation returns and is therefore not modelled.
Brightness is a fraction `(num, den)`; times are `Nat` (the correspondence uses 1 unit = 1/16 s); lights are `Nat`.
-/
namespace MpfVerif.Batch

abbrev B := Nat × Nat

/-- equality of brightness fractions -/
def eqB (a b : B) : Prop := a.1 * b.2 = b.1 * a.2

instance (a b : B) : Decidable (eqB a b) := by unfold eqB; exact inferInstance

structure Fade where
  sb : Nat := 0
  st : Nat := 0
  tb : Nat := 0
  tt : Option Nat := none
  deriving DecidableEq, Repr

def upd {α : Type} (f : Nat → α) (k : Nat) (v : α) : Nat → α := fun x => if x = k then v else f x

structure BSt where
  now : Nat := 0
  fade : Nat → Fade := fun _ => {}            -- `_current_fade` of each light
  ver : Nat → Nat := fun _ => 0               -- number of `set_fade` calls (ghost)
  dirty : List Nat := []                      -- `dirty_lights`
  sched : List (Nat × Nat) := []              -- `dirty_schedule` (time, light)
  changed : Bool := false                     -- `dirty_lights_changed`
  pending : List Nat := []                    -- the dirty set taken by the sender, not yet computed
  acc : List (Nat × B) := []                  -- `sequential_brightness_list`
  inflight : Option (List (Nat × B)) := none  -- the list handed to the awaited update callback
  hw : Nat → Option B := fun _ => none        -- what the platform has received
  last : Nat → Option (B × Nat) := fun _ => none   -- `last_state`
  maxFade : Nat := 0                          -- `get_max_fade_ms()` of the lights (0: the hardware cannot fade)
  cached : Nat → Bool := fun _ => false       -- `_last_brightness` is set: the light answered "done" since its last `set_fade`
  maxBatch : Nat := 2                         -- `max_batch_size`
  tol : Nat := 1                              -- `max_fade_tolerance`
  accFade : Nat := 0                          -- `common_fade_ms` of the list being collected
  inflightFade : Nat := 0                     -- … of the list handed to the callback
  taken : List Nat := []                      -- ghost: the dirty set as the sender took it (this round)
  roundDone : List (Nat × Bool) := []         -- ghost: lights computed in this round, in order, with "skipped"
  roundComp : List (Nat × Nat) := []          -- ghost: the lights queued in this round with their own fade duration
  roundSent : List (List (Nat × B)) := []     -- ghost: the lists handed to the callback in this round

def insertSet (l : Nat) : List Nat → List Nat
  | [] => [l]
  | x :: r => if l = x then x :: r else if l < x then l :: x :: r else x :: insertSet l r

/-- `get_fade_and_brightness(now)` with `max_fade_ms = m`: `(brightness, done)`.  A fade that ends within `m` is handed
over as its target (done); otherwise the hardware is told the brightness the fade has `m` from now -/
def brightnessAt (f : Fade) (now m : Nat) : B × Bool :=
  match f.tt with
  | some tt =>
    if now + m < tt then
      (((((f.sb : Int) * ((tt : Int) - f.st) + ((f.tb : Int) - f.sb) * ((now : Int) + m - f.st))).toNat, 255 * (tt - f.st)), false)
    else ((f.tb, 255), true)
  | none => ((f.tb, 255), true)

/-- the fade duration that goes with `brightnessAt`: `m` for an intermediate step, else the remaining time -/
def fadeAt (f : Fade) (now m : Nat) : Nat :=
  match f.tt with
  | some tt => if now + m < tt then m else tt - now
  | none => 0

/-- `set_fade` on light `l` = `mark_dirty` + remember the fade -/
def mark (s : BSt) (l : Nat) (f : Fade) : BSt :=
  { s with fade := upd s.fade l f, ver := upd s.ver l (s.ver l + 1), dirty := insertSet l s.dirty, changed := true,
           sched := s.sched.filter (fun e => decide (e.2 ≠ l)), cached := upd s.cached l false }

/-- the fade duration `get_fade_and_brightness` answers for light `l` as the code is: once a light has answered "done" its
target is cached (`_last_brightness`) and a repeated call answers `(target, 0 ms, done)` — also while the hardware fade
it handed over is still running (observed as D31, outside the property); a cached brightness of 0 is falsy in Python and
is recomputed.  The brightness itself is the same with and without the cache. -/
def fdOf (s : BSt) (l : Nat) : Nat :=
  if (s.cached l && decide ((s.fade l).tb ≠ 0)) = true then 0 else fadeAt (s.fade l) s.now s.maxFade

/-- one iteration of `_schedule_updates`: due lights become dirty again -/
def schedfire (s : BSt) : BSt :=
  { s with dirty := (s.sched.filter (fun e => decide (e.1 ≤ s.now))).foldl (fun d e => insertSet e.2 d) s.dirty,
           sched := s.sched.filter (fun e => !decide (e.1 ≤ s.now)), changed := true }

/-- the sender takes the dirty set when it has nothing left from the previous round -/
def take (s : BSt) : BSt :=
  if s.pending = [] ∧ s.acc = [] ∧ s.changed = true then
    { s with pending := s.dirty, dirty := [], changed := false, taken := s.dirty, roundDone := [], roundComp := [],
             roundSent := [] }
  else s

inductive CRes | skipped | queued (b : B) (done : Bool)

/-- the sender computes the next light (`none`: not enabled — a callback is awaited, or `l` is not next) -/
def compute (s0 : BSt) (l : Nat) : Option (BSt × CRes) :=
  if s0.inflight.isSome then none else
  let s := take s0
  match s.pending with
  | [] => none
  | x :: rest =>
    if x ≠ l then none else
    let (b, done) := brightnessAt (s.fade l) s.now s.maxFade
    let fd := fdOf s l
    let s1 := { s with pending := rest, cached := if done then upd s.cached l true else s.cached }
    let q : BSt := { s1 with last := upd s.last l (some (b, s.now + fd)), acc := s.acc ++ [(l, b)],
                             accFade := if s.acc = [] then fd else s.accFade,
                             roundDone := s.roundDone ++ [(l, false)], roundComp := s.roundComp ++ [(l, fd)] }
    if done then
      match s.last l with
      | some (b0, t0) =>
        if eqB b0 b ∧ t0 < s.now + fd ∧ s.acc = [] then some ({ s1 with roundDone := s.roundDone ++ [(l, true)] }, .skipped)
        else some (q, .queued b true)
      | none => some (q, .queued b true)
    else
      some ({ q with sched := s.sched ++ [(s.now + fd, l)] }, .queued b false)

/-- `await self.update_callback(list)` starts -/
def flush (s : BSt) : Option BSt :=
  if s.inflight.isSome ∨ s.acc = [] then none
  else some { s with inflight := some s.acc, acc := [], inflightFade := s.accFade, roundSent := s.roundSent ++ [s.acc] }

/-- the callback starts with everything but the light computed last: that light did not fit (batch size, fade
tolerance) and opens the next list -/
def flushKeep (s : BSt) : Option BSt :=
  if s.inflight.isSome then none else
  match s.acc.reverse with
  | x :: y :: r => some { s with inflight := some (y :: r).reverse, acc := [x], inflightFade := s.accFade,
                                 accFade := (s.roundComp.getLast?.map (·.2)).getD 0,
                                 roundSent := s.roundSent ++ [(y :: r).reverse] }
  | _ => none

def applyP (hw : Nat → Option B) : List (Nat × B) → Nat → Option B
  | [] => hw
  | x :: r => applyP (upd hw x.1 (some x.2)) r

/-- the callback returns: the platform has the brightnesses -/
def delivered (s : BSt) : Option BSt :=
  match s.inflight with
  | some p => some { s with hw := applyP s.hw p, inflight := none }
  | none => none

/-! ### the grouping of one round (`_send_updates` / `_send_update_batch`) as a pure function

`xs` = the lights queued in a round, in order, each with its own fade duration.  A list is closed when the next light is
not the successor of the previous one (`is_successor_of`: here the next number), when it is full, or when the next
light's fade differs from the list's common fade by the tolerance or more.  `cur` is the open list, newest first. -/
def group (mb tol : Nat) : List (Nat × Nat) → List (Nat × Nat) → Nat → List (List (Nat × Nat))
  | [], [], _ => []
  | [], y :: cur, _ => [(y :: cur).reverse]
  | x :: r, [], _ => group mb tol r [x] x.2
  | x :: r, y :: cur, common =>
    if x.1 = y.1 + 1 ∧ (common < x.2 + tol ∧ x.2 < common + tol) ∧ (y :: cur).length < mb
    then group mb tol r (x :: y :: cur) common
    else (y :: cur).reverse :: group mb tol r [x] x.2

/-- does the round so far (callbacks made + the open list) agree with the grouping function? -/
def roundAgrees (s : BSt) : Bool :=
  let want := (group s.maxBatch s.tol s.roundComp [] 0).map (fun g => g.map (·.1))
  let have_ := (s.roundSent ++ (if s.acc = [] then [] else [s.acc])).map (fun g => g.map (·.1))
  decide (want = have_)

inductive Op
  | adv (t : Nat)
  | mark (l : Nat) (f : Fade)
  | schedfire
  | compute (l : Nat)
  | flush
  | flushKeep
  | delivered

/-- one step; an operation whose guard is false changes nothing -/
def step (s : BSt) : Op → BSt
  | .adv t => { s with now := max s.now t }
  | .mark l f => mark s l f
  | .schedfire => schedfire s
  | .compute l => match compute s l with
    | some r => r.1
    | none => s
  | .flush => (flush s).getD s
  | .flushKeep => (flushKeep s).getD s
  | .delivered => (delivered s).getD s

def run (s : BSt) : List Op → BSt
  | [] => s
  | o :: r => run (step s o) r

/-! ## line-protocol driver (lines `B ...` of drv_c09) -/

def showB (b : B) : String := toString b.1 ++ "/" ++ toString b.2

def showP (p : List (Nat × B)) : String := String.join (p.map (fun x => " " ++ toString x.1 ++ ":" ++ showB x.2))

def showSet (l : List Nat) : String := String.join (l.map (fun x => " " ++ toString x))

def driverStep (s : BSt) (ws : List String) : BSt × String :=
  match ws.map (fun w => (w, w.toNat?)) with
  | [("reset", _)] => ({}, "ok")
  | [("reset", _), (_, some m), (_, some mb), (_, some tol)] => ({ maxFade := m, maxBatch := mb, tol := tol }, "ok")
  | [("roundok", _)] => (s, if roundAgrees s then "ok" else
      "grouping-differs want" ++ String.join ((group s.maxBatch s.tol s.roundComp [] 0).map (fun g => " [" ++ showSet (g.map (·.1)) ++ " ]")))
  | [("adv", _), (_, some t)] => if s.now ≤ t then ({ s with now := t }, "ok") else (s, "bad-op")
  | [("mark", _), (_, some l), (_, some sb), (_, some st), (_, some tb), (tt, ttn)] =>
    if tt = "-" then (mark s l ⟨sb, st, tb, none⟩, "ok")
    else match ttn with
      | some t => (mark s l ⟨sb, st, tb, some t⟩, "ok")
      | none => (s, "bad-op")
  | [("schedfire", _)] => (schedfire s, "ok")
  | [("compute", _), (_, some l)] =>
    match compute s l with
    | none => (s, "not-enabled")
    | some (s', .skipped) => (s', "skip")
    | some (s', .queued b d) => (s', "q " ++ showB b ++ (if d then " 1 " else " 0 ") ++
        toString ((s'.roundComp.getLast?.map (·.2)).getD 0))
  | [("flush", _)] =>
    match flush s with
    | none => (s, "not-enabled")
    | some s' => (s', "f " ++ toString s'.inflightFade ++ showP (s'.inflight.getD []))
  | [("flushkeep", _)] =>
    match flushKeep s with
    | none => (s, "not-enabled")
    | some s' => (s', "f " ++ toString s'.inflightFade ++ showP (s'.inflight.getD []))
  | [("delivered", _)] =>
    match delivered s with
    | none => (s, "not-enabled")
    | some s' => (s', "ok")
  | [("state", _), (_, some n)] =>
    (s, "d" ++ showSet s.dirty ++ " | s" ++ showSet (s.sched.map (·.2)) ++ " | h" ++
      String.join ((List.range n).map (fun l => " " ++ (match s.hw l with | some b => showB b | none => "-"))))
  | _ => (s, "bad-op")

end MpfVerif.Batch
