/-!
# Light priority stack and back ends (C09) — model of `mpf/devices/light.py` (Light), the software fade of
`mpf/platforms/interfaces/light_platform_interface.py` (LightPlatformDirectFade/SoftwareFade, as used by DriverLight)
and the stored fade of `mpf/platforms/virtual.py` (VirtualLight).

Colours are triples of `Nat` (0..255), times are `Nat` ticks (1 tick = 1/8 s in the correspondence), keys are `Nat`
(the harness maps its string keys order-preservingly), priorities are `Nat`.  `destT = 0` is Python's "no fade";
`destC = none` is a transparent entry (a fade-out left by `remove_from_stack_by_key(key, fade)`).
Colour correction is applied by the implementation pointwise to the colours of an emitted hardware target; the model
emits uncorrected targets (the harness applies the light's own correction functions to the model's output).
-/
namespace MpfVerif.Light

abbrev RGB := Nat × Nat × Nat

def off : RGB := (0, 0, 0)

structure Entry where
  prio : Nat
  key : Nat
  startT : Nat
  startC : RGB
  destT : Nat
  destC : Option RGB
  deriving DecidableEq, Repr

/-- `LightStackEntry.__gt__` on (priority, key) -/
def abv (p k p' k' : Nat) : Prop := p' < p ∨ (p = p' ∧ k' < k)

instance (p k p' k' : Nat) : Decidable (abv p k p' k') := by unfold abv; exact inferInstance

/-- `RGBColor.blend` on one component with fraction `k / n`: `start + int((end - start) * fraction)` (truncation
toward zero of the signed difference) -/
def blend1 (s e k n : Nat) : Nat := if s ≤ e then s + (e - s) * k / n else s - (s - e) * k / n

def blend (s e : RGB) (k n : Nat) : RGB := (blend1 s.1 e.1 k n, blend1 s.2.1 e.2.1 k n, blend1 s.2.2 e.2.2 k n)

/-- `_get_color_and_fade(stack, 0)[0]` at time `now` (the logical colour) -/
def getColor (now : Nat) : List Entry → RGB
  | [] => off
  | e :: rest =>
    if e.destT = 0 ∨ e.destT ≤ now then
      match e.destC with
      | none => getColor now rest
      | some c => c
    else
      let dc := match e.destC with
        | none => getColor now rest
        | some c => c
      if now ≤ e.startT then e.startC else blend e.startC dc (now - e.startT) (e.destT - e.startT)

/-- what `_get_color_and_target_time` returns: `(c, -1, c, -1)` or a fade -/
inductive Target
  | static (c : RGB)
  | fade (sc : RGB) (st : Nat) (tc : RGB) (tt : Nat)
  deriving DecidableEq, Repr

def Target.tc : Target → RGB
  | .static c => c
  | .fade _ _ c _ => c

def Target.sc : Target → RGB
  | .static c => c
  | .fade c _ _ _ => c

/-- `last[3] < 0 or last[3] < now` -/
def Target.finished (now : Nat) : Target → Bool
  | .static _ => true
  | .fade _ _ _ tt => decide (tt < now)

def targetOf : List Entry → Target
  | [] => .static off
  | e :: rest =>
    if e.destT = 0 then
      match e.destC with
      | none => targetOf rest
      | some c => .static c
    else
      match e.destC with
      | some c => .fade e.startC e.startT c e.destT
      | none =>
        match targetOf rest with
        | .static lc => .fade e.startC e.startT lc e.destT
        | .fade _ _ lc lt =>
          -- `RGBColor.blend(start, None, ratio)` returns `start`
          if e.startT < lt ∧ lt < e.destT then .fade e.startC e.startT e.startC lt
          else .fade e.startC e.startT lc e.destT

structure LSt where
  now : Nat := 0
  stack : List Entry := []
  last : Option Target := none           -- `_last_fade_target`
  timers : List (Nat × Nat) := []        -- (key, due) of the `remove_fade_<key>` delays
  deriving DecidableEq, Repr

/-- `_schedule_update`: the emitted hardware target (to every channel), if not suppressed -/
def schedule (s : LSt) : LSt × List Target :=
  let t := targetOf s.stack
  match s.last with
  | none => ({ s with last := some t }, [t])
  | some l =>
    if l = t then (s, [])
    else if t.tc = l.tc ∧ l.finished s.now = true then (s, [])
    else ({ s with last := some t }, [t])

/-- `_get_priority_from_key` (after the D25 repair: a transparent entry is not a setting of the key) -/
def prioFromKey (k : Nat) : List Entry → Nat
  | [] => 0
  | e :: r => if e.key = k ∧ e.destC.isSome = true then e.prio else prioFromKey k r

def removeKey (k : Nat) (s : List Entry) : List Entry := s.filter (fun e => decide (e.key ≠ k))

/-- `stack.append(e); stack.sort(reverse=True)` on a sorted stack with distinct (priority, key) -/
def insertE (e : Entry) : List Entry → List Entry
  | [] => [e]
  | x :: r => if abv e.prio e.key x.prio x.key then e :: x :: r else x :: insertE e r

/-- `get_color_below(priority, key)` (after the D21 repair): colour of the stack from the first entry that does not
sort above (priority, key) -/
def colorBelow (now p k : Nat) (s : List Entry) : RGB :=
  getColor now (s.dropWhile (fun e => decide (abv e.prio e.key p k)))

def topChanges (p : Nat) : List Entry → Bool
  | [] => true
  | e :: _ => decide (e.prio ≤ p) || e.destC.isNone

/-- the stack after `_add_to_stack` -/
def addStack (now : Nat) (c : RGB) (fade p k st : Nat) (s : List Entry) : List Entry :=
  if s ≠ [] ∧ p < prioFromKey k s then s
  else
    let e : Entry := if fade = 0 then ⟨p, k, st, off, 0, some c⟩
      else ⟨p, k, st, colorBelow now p k s, st + fade, some c⟩
    insertE e (removeKey k s)

def stepColor (s : LSt) (c : RGB) (fade p k st : Nat) : LSt × List Target :=
  let s' := { s with stack := addStack s.now c fade p k st s.stack }
  if topChanges p s.stack then schedule s' else (s', [])

/-- the loop of `remove_from_stack_by_key`: `(color_changes, stack[i:])` for the first entry with the key -/
def scanKey (k : Nat) : List Entry → Bool → Option (Bool × List Entry)
  | [], _ => none
  | e :: r, ch => if e.key = k then some (ch, e :: r) else scanKey k r (ch && e.destC.isNone)

def stepRemove (s : LSt) (k fade : Nat) : LSt × List Target :=
  match scanKey k s.stack true with
  | none => (s, [])
  | some (_, []) => (s, [])
  | some (ch, e :: tl) =>
    let fade' := if e.destC.isNone then 0 else fade
    let s' : LSt :=
      if fade' = 0 then { s with stack := removeKey k s.stack }
      else { s with
        stack := insertE ⟨e.prio, k, s.now, getColor s.now (e :: tl), s.now + fade', none⟩ (removeKey k s.stack),
        timers := (k, s.now + fade') :: s.timers.filter (fun t => decide (t.1 ≠ k)) }
    if ch then schedule s' else (s', [])

/-- the loop of `_remove_fade_out` -/
def scanGhost (k : Nat) : List Entry → Bool → Option Bool
  | [], _ => none
  | e :: r, ch => if e.key = k ∧ e.destC.isNone = true then some ch else scanGhost k r (ch && e.destC.isNone)

def dueTimer (k now : Nat) (ts : List (Nat × Nat)) : Bool := ts.any (fun t => t.1 == k && decide (t.2 ≤ now))

/-- the `remove_fade_<key>` delay fires (`none`: no such delay is due) -/
def stepFire (s : LSt) (k : Nat) : Option (LSt × List Target) :=
  if dueTimer k s.now s.timers then
    let s1 := { s with timers := s.timers.filter (fun t => decide (t.1 ≠ k)) }
    match scanGhost k s1.stack true with
    | none => some (s1, [])
    | some ch =>
      let s2 := { s1 with stack := s1.stack.filter (fun e => decide (e.key ≠ k) || e.destC.isSome) }
      if ch then some (schedule s2) else some (s2, [])
  else none

def stepClear (s : LSt) : LSt × List Target := schedule { s with stack := [] }

inductive Op
  | adv (t : Nat)
  | color (c : RGB) (fade p k st : Nat)
  | remove (k fade : Nat)
  | clear
  | fire (k : Nat)
  deriving DecidableEq, Repr

/-- one operation on the light; a `fire` that is not enabled and an `adv` into the past change nothing -/
def step (s : LSt) : Op → LSt × List Target
  | .adv t => ({ s with now := max s.now t }, [])
  | .color c fade p k st => stepColor s c fade p k st
  | .remove k fade => stepRemove s k fade
  | .clear => stepClear s
  | .fire k => (stepFire s k).getD (s, [])

def run (s : LSt) : List Op → LSt
  | [] => s
  | o :: r => run (step s o).1 r

/-! ## software fade of one channel (`LightPlatformDirectFade.set_fade/_fade` with `max_fade_ms = 0`) -/

structure Task where
  id : Nat
  sb : Nat
  st : Nat
  tb : Nat
  tt : Nat
  due : Nat
  deriving DecidableEq, Repr

/-- one `set_fade` command: brightness components (0..255), `tt = none` for "no fade" (−1) -/
structure Cmd where
  sb : Nat
  st : Nat
  tb : Nat
  tt : Option Nat
  deriving DecidableEq, Repr

structure Chan where
  tasks : List Task := []        -- live stepping tasks (not finished, not cancelled)
  cur : Option Nat := none       -- `self.task` (may be a finished one)
  nextId : Nat := 0
  lastB : Nat × Nat := (0, 1)    -- last commanded brightness as a fraction num / den
  cmd : Option Cmd := none       -- the latest command
  maxFade : Nat := 0             -- `get_max_fade_ms()` in ticks: 0 = software fade, > 0 = the hardware fades itself
  lastF : Nat := 0               -- the fade duration handed to the hardware together with `lastB` (unit 1/8000 ms)
  deriving DecidableEq, Repr

/-- `if self.task: self.task.cancel()` -/
def Chan.cancelled (c : Chan) : List Task :=
  match c.cur with
  | some id => c.tasks.filter (fun t => decide (t.id ≠ id))
  | none => c.tasks

/-- `set_fade` as the code is (after the D17 repair: the running task is cancelled by every command).  The code computes
`fade_ms = (target_time - current_time) / 1000.0` — seconds divided by 1000, not milliseconds (observed as D30, outside the
property) — and starts the stepping task only when that number exceeds `max_fade_ms`: with `maxFade` in ticks of 1/8 s this
is `T - now > 1000000 * maxFade` (for a software fade, `maxFade = 0`: whenever the fade has time left).  Otherwise the
hardware is handed `(target, max(fade_ms, 0))` at once.  `lastF` is the fade duration handed over, in units of 1/8000 ms
(so the value the code passes here is `T - now`, and a true tick is 1000000 units). -/
def Chan.setFade (c : Chan) (now : Nat) (m : Cmd) : Chan × Bool :=
  let tasks := c.cancelled
  match m.tt with
  | some T =>
    if now + 1000000 * c.maxFade < T then
      ({ c with tasks := tasks ++ [⟨c.nextId, m.sb, m.st, m.tb, T, now⟩], cur := some c.nextId,
                nextId := c.nextId + 1, cmd := some m }, true)
    else ({ c with tasks := tasks, cur := none, lastB := (m.tb, 255), lastF := T - now, cmd := some m }, false)
  | none => ({ c with tasks := tasks, cur := none, lastB := (m.tb, 255), lastF := 0, cmd := some m }, false)

def firstDue (now : Nat) : List Task → Option Task
  | [] => none
  | t :: r => if t.due ≤ now then some t else firstDue now r

def clampI (x hi : Int) : Nat := if x < 0 then 0 else if hi < x then hi.toNat else x.toNat

/-- numerator (over `255 * (tt - st)`) of the brightness on the line `(st, sb) — (tt, tb)` at instant `at`, clamped -/
def lineNum (sb st tb tt at_ : Nat) : Nat :=
  clampI ((sb : Int) * ((tt : Int) - st) + ((tb : Int) - sb) * ((at_ : Int) - st)) (255 * (tt - st) : Nat)

/-- one iteration of `_fade` of the first due task: `(channel, num, den, finished)`; the fade duration handed to the
hardware with this brightness is `lastF` of the new channel state: the hardware is told to reach, `max_fade` from now,
the brightness the logical fade has *then*; the last command carries the target and the remaining time -/
def Chan.stepTask (c : Chan) (now interval : Nat) : Option (Chan × Nat × Nat × Bool) :=
  match firstDue now c.tasks with
  | none => none
  | some t =>
    if now + c.maxFade < t.tt then
      let den : Nat := 255 * (t.tt - t.st)
      let num := lineNum t.sb t.st t.tb t.tt (now + c.maxFade)
      some ({ c with tasks := c.tasks.map (fun x => if x.id = t.id then { x with due := now + interval } else x),
                     lastB := (num, den), lastF := 1000000 * c.maxFade }, num, den, false)
    else
      some ({ c with tasks := c.tasks.filter (fun x => decide (x.id ≠ t.id)), lastB := (t.tb, 255),
                     lastF := 1000000 * (t.tt - now) }, t.tb, 255, true)

/-! ## a light with its channels -/

structure DSt where
  l : LSt := {}
  nchan : Nat := 3
  interval : Nat := 1
  chans : List Chan := []
  corr : List Nat := []          -- colour correction lookup (3 × 256 values, red then green then blue); [] = identity
  style : Nat := 0               -- `rgbw_white_behavior` of a 4-channel light: 0 min_rgb, 1 duck_rgb, 2 white_only
  bright : Nat := 4              -- global brightness factor in quarters (`machine.brightness` = bright / 4)
  onC : RGB := (255, 255, 255)   -- `default_on_color`
  deriving Repr

/-- `color_correct`: per-component table lookup -/
def corrC (tab : List Nat) (c : RGB) : RGB :=
  (tab.getD c.1 c.1, tab.getD (256 + c.2.1) c.2.1, tab.getD (512 + c.2.2) c.2.2)

/-- `gamma_correct`: `int(x * factor)` per component with `factor = q / 4` (exact in binary floating point) -/
def gammaC (q : Nat) (c : RGB) : RGB := if q = 4 then c else (c.1 * q / 4, c.2.1 * q / 4, c.2.2 * q / 4)

/-- `default_on_color * (brightness / 255)` of `Light.on(brightness)` -/
def mulC (c : RGB) (b : Nat) : RGB := (min (c.1 * b / 255) 255, min (c.2.1 * b / 255) 255, min (c.2.2 * b / 255) 255)

def minC (c : RGB) : Nat := min c.1 (min c.2.1 c.2.2)

/-- the four channels `(red, green, blue, white)` of an RGBW light for the (corrected) colour `c`, per
`rgbw_white_behavior`: `min_rgb` — white duplicates the common part; `duck_rgb` — the common part moves to white;
`white_only` — only pure greys use the white channel -/
def rgbw (style : Nat) (c : RGB) : Nat × Nat × Nat × Nat :=
  let m := minC c
  if style = 1 then (c.1 - m, c.2.1 - m, c.2.2 - m, m)
  else if style = 2 then (if c.1 = c.2.1 ∧ c.2.1 = c.2.2 then (0, 0, 0, c.1) else (c.1, c.2.1, c.2.2, 0))
  else (c.1, c.2.1, c.2.2, m)

def chanVal (nchan i style : Nat) (c : RGB) : Nat :=
  if nchan = 1 then minC c
  else if nchan = 4 then
    let q := rgbw style c
    if i = 0 then q.1 else if i = 1 then q.2.1 else if i = 2 then q.2.2.1 else q.2.2.2
  else if i = 0 then c.1 else if i = 1 then c.2.1 else c.2.2

/-- what `_schedule_update` does to a colour before it is split into channels: brightness factor, then the profile -/
def outC (tab : List Nat) (q : Nat) (c : RGB) : RGB := corrC tab (gammaC q c)

def cmdOf (tab : List Nat) (q nchan i style : Nat) : Target → Cmd
  | .static c => ⟨chanVal nchan i style (outC tab q c), 0, chanVal nchan i style (outC tab q c), none⟩
  | .fade sc st tc tt => ⟨chanVal nchan i style (outC tab q sc), st, chanVal nchan i style (outC tab q tc), some tt⟩

/-- send one emitted target to every channel; answers which channels started a task -/
def sendAll (tab : List Nat) (q now nchan style : Nat) (t : Target) : Nat → List Chan → List Chan × List Bool
  | _, [] => ([], [])
  | i, c :: r =>
    let (c', b) := c.setFade now (cmdOf tab q nchan i style t)
    let (r', bs) := sendAll tab q now nchan style t (i + 1) r
    (c' :: r', b :: bs)

def DSt.apply (d : DSt) (res : LSt × List Target) : DSt × String :=
  match res.2 with
  | [] => ({ d with l := res.1 }, "upd -")
  | t :: _ =>
    let (cs, bs) := sendAll d.corr d.bright res.1.now d.nchan d.style t 0 d.chans
    let show3 (c : RGB) : String := toString c.1 ++ " " ++ toString c.2.1 ++ " " ++ toString c.2.2
    let ts := match t with
      | .static c => show3 c ++ " -1 " ++ show3 c ++ " -1"
      | .fade sc st tc tt => show3 sc ++ " " ++ toString st ++ " " ++ show3 tc ++ " " ++ toString tt
    -- the brightness pair (start, target; 0..255) handed to every hardware channel, after brightness factor,
    -- correction profile and channel mapping
    let per := String.join ((List.range d.nchan).map (fun i =>
      let m := cmdOf d.corr d.bright d.nchan i d.style t
      " " ++ toString m.sb ++ ":" ++ toString m.tb))
    ({ d with l := res.1, chans := cs },
     "upd " ++ ts ++ " " ++ String.join (bs.map (fun b => if b then "t" else "i")) ++ " |" ++ per)

/-! ## line-protocol driver -/

def showEntry (e : Entry) : String :=
  let c3 (c : RGB) : String := toString c.1 ++ "," ++ toString c.2.1 ++ "," ++ toString c.2.2
  toString e.prio ++ ":" ++ toString e.key ++ ":" ++ toString e.startT ++ ":" ++
    (if e.destT = 0 then "-" else c3 e.startC) ++ ":" ++ toString e.destT ++ ":" ++
    (match e.destC with | none => "-" | some c => c3 c)

def modAt (cs : List Chan) (i : Nat) (c : Chan) : List Chan := cs.set i c

def driverStep (d : DSt) (line : String) : DSt × String :=
  match (line.splitOn " ").map (fun w => (w, w.toNat?)) with
  | [("init", _), (_, some n), (_, some iv)] =>
    if n = 1 ∨ n = 3 then ({ l := {}, nchan := n, interval := iv, chans := List.replicate n {}, corr := [] }, "ok") else (d, "bad-op")
  | [("init", _), (_, some n), (_, some iv), (_, some mf), (_, some style), (_, some q), (_, some r), (_, some g), (_, some b)] =>
    -- channels, task interval, hardware max fade, rgbw style, brightness quarters, default_on_color
    if (n = 1 ∨ n = 3 ∨ n = 4) ∧ style < 3 ∧ 1 ≤ q ∧ q ≤ 4 then
      ({ l := {}, nchan := n, interval := iv, chans := List.replicate n { maxFade := mf }, corr := [], style := style,
         bright := q, onC := (r, g, b) }, "ok")
    else (d, "bad-op")
  | [("on", _), (_, some br), (_, some fade), (_, some p), (_, some k), (_, some st)] =>
    d.apply (stepColor d.l (mulC d.onC br) fade p k st)
  | [("off", _), (_, some fade), (_, some p), (_, some k), (_, some st)] =>
    d.apply (stepColor d.l off fade p k st)
  | [("adv", _), (_, some t)] =>
    if d.l.now ≤ t then ({ d with l := { d.l with now := t } }, "ok") else (d, "bad-op")
  | [("color", _), (_, some r), (_, some g), (_, some b), (_, some fade), (_, some p), (_, some k), (_, some st)] =>
    d.apply (stepColor d.l (r, g, b) fade p k st)
  | [("remove", _), (_, some k), (_, some fade)] => d.apply (stepRemove d.l k fade)
  | [("clear", _)] => d.apply (stepClear d.l)
  | [("fire", _), (_, some k)] =>
    match stepFire d.l k with
    | none => (d, "not-enabled")
    | some res => d.apply res
  | [("step", _), (_, some i)] =>
    match d.chans[i]? with
    | none => (d, "bad-op")
    | some c =>
      match c.stepTask d.l.now d.interval with
      | none => (d, "not-enabled")
      | some (c', num, den, fin) =>
        ({ d with chans := modAt d.chans i c' }, "b " ++ toString num ++ " " ++ toString den ++ (if fin then " 1" else " 0"))
  | [("get", _)] =>
    let c := getColor d.l.now d.l.stack
    (d, "c " ++ toString c.1 ++ " " ++ toString c.2.1 ++ " " ++ toString c.2.2)
  | [("stack", _)] => (d, "s" ++ String.join (d.l.stack.map (fun e => " " ++ showEntry e)))
  | [("overdue", _)] =>
    -- fade-out delays whose deadline has passed and which have not fired
    (d, "t" ++ String.join ((d.l.timers.filter (fun t => decide (t.2 ≤ d.l.now))).map (fun t => " " ++ toString t.1)))
  | [("hw", _)] =>
    (d, "h" ++ String.join (d.chans.map (fun c => " " ++ toString c.lastB.1 ++ "/" ++ toString c.lastB.2 ++ "/" ++
      toString c.tasks.length ++ "/" ++ toString c.lastF)))
  | ("corr", _) :: rest =>
    if rest.length = 768 ∧ rest.all (fun w => w.2.isSome) then ({ d with corr := rest.map (fun w => w.2.getD 0) }, "ok")
    else (d, "bad-op")
  | _ => (d, "bad-op")

def init : DSt := {}

end MpfVerif.Light
