/-!
# Player state (C11) — model of `mpf/core/player.py` + the per-player state of persisting game-mode devices

`players : List Vars`, one variable dictionary per player (`Player.vars`).  A game-mode device that persists keeps its
state in the current player's dictionary under its own key (`<counter>_state` object of a logic block, `shot_<name>`
profile state, `shot_<name>_enabled` persisted enable flag, the entry of `player.achievements`, `<mode>_<timer>_tick`);
the device itself only holds a *pointer* (`dev`: whose dictionary) that is set when the mode starts with a ball and
dropped when the mode stops at ball end.  A device is abstract here (`Dev`): its key, the state a player starts
with (`fresh`), what it makes of the stored state when the mode starts (`load`: the identity for logic blocks, shots
and enable flags; started→stopped for an achievement without `restart_on_next_ball_when_started`; the start value for a
timer, whose ticks live in a player variable but restart with every ball) and its reaction to its control events
(`act`).  `setVar` = `Player.__setattr__` (value stored, one `player_<name>` event with value / prev_value / change /
player_num when the value changed or the variable is new).  Values are immutable here, so two players can never
share a mutable state object by construction — on the implementation that is sampled by the correspondence run.

Game flow: `startGame`, `addPlayer`, `drain` (ball end: extra ball → same player again; else next player / next
ball / game over), `endGame`; `dev d code` sends control event `code` to device `d`, `swap d1 d2` is a two-shot
shot-group rotation.

Time: `wait n` lets `n` time units pass.  What a device keeps in the device object itself rather than in the player
(`Loc`: for a timer whether it runs, the time to its next tick, the time to the end of a timed pause) is created when
the mode starts (`loc0`) and only ever used while the mode runs (`tick`, `act`); while no mode runs time changes nothing.
The game mode starts with every ball (`autoStart`) or only by request (`modeStart`).  List-valued progress (an accrual)
is `Val.ablk`, an immutable copy per player.  `setP` / `addP` are `variable_player` entries with an explicit `player:`,
`setMachine` / `addMachine` the machine-scope ones (`St.machine`, owned by nobody).
-/
namespace MpfVerif.Player

inductive Val
  | int (i : Int) | str (s : String) | bool (b : Bool)
  | blk (value : Int) (enabled completed : Bool)     -- a LogicBlockState object (counter, sequence)
  | ablk (value : List Bool) (enabled completed : Bool)   -- a LogicBlockState object whose value is a list (accrual):
                                                     -- an immutable copy here, one list object per player there
  deriving DecidableEq, Repr

abbrev Vars := List (String × Val)

def get (m : Vars) (k : String) : Option Val := m.lookup k

/-- dict assignment: replace in place, or append a new key -/
def put : Vars → String → Val → Vars
  | [], k, v => [(k, v)]
  | (k', v') :: r, k, v => if k' = k then (k, v) :: r else (k', v') :: put r k v

structure Ev where
  name : String
  value : Val
  prev : Val
  change : Val
  num : Nat
  deriving DecidableEq, Repr

def isScalar : Val → Bool
  | .int _ => true | .str _ => true | _ => false

def truthy : Val → Bool
  | .int i => i != 0 | .str s => s != "" | .bool b => b | .blk .. => true | .ablk .. => true

/-- `value - prev_value`, or `prev_value != value` when that raises TypeError -/
def changeOf (v prev : Val) : Val :=
  match v, prev with
  | .int a, .int b => .int (a - b)
  | _, _ => .bool (decide (prev ≠ v))

/-- `Player.__setattr__(name, value)` for player number `num` (events enabled) -/
def setVar (m : Vars) (num : Nat) (k : String) (v : Val) : Vars × List Ev :=
  let prev := (get m k).getD (.int 0)
  let isNew := (get m k).isNone
  let ch := changeOf v prev
  (put m k v, if (truthy ch || isNew) && isScalar v then [⟨k, v, prev, ch, num⟩] else [])

/-- what a device keeps in the device object itself (not in the player): for a timer whether it runs, the time units
until its next tick and until a timed pause ends (0 = no resume pending).  Created by `loc0` when the mode starts and
meaningless once the mode has stopped. -/
structure Loc where
  run : Bool := false
  next : Nat := 0
  pause : Nat := 0
  deriving DecidableEq, Repr

/-- a persisting game-mode device, abstractly -/
structure Dev where
  key : String                 -- the player variable its state lives under
  fresh : Val                  -- state of a player who never had it
  load : Val → Val             -- what the device makes of the stored state when the mode (re)starts
  act : Nat → Loc → Val → Loc × Val     -- reaction to control event number `code`
  tick : Loc → Val → Loc × Val := fun l v => (l, v)    -- one time unit passes while the mode runs
  loc0 : Loc := {}             -- the device-local state when the mode starts
  announce : Bool := false     -- the device writes its state through `Player.__setattr__` on every load / control
                               -- event / tick (a timer's `ticks` setter), so every change posts `player_<key>`

structure Cfg where
  initVars : List (String × Val) := []     -- player_vars section: (name, initial value)
  ballsPerGame : Nat := 3
  maxPlayers : Nat := 4
  devs : List Dev := []
  autoStart : Bool := true                 -- the game mode has `ball_started` among its start events

structure St where
  players : List Vars := []
  cur : Nat := 0                 -- index of the current player (meaningful while `players ≠ []`)
  dev : Option Nat := none       -- the game mode is running and its devices point into this player's dictionary
  locs : List Loc := []          -- device-local state, one entry per device (meaningful while `dev ≠ none`)
  machine : Vars := []           -- machine variables (not owned by any player)
  hold : Bool := false           -- a stop of the game mode was requested and its `mode_<n>_stopping` queue event is held
                                 -- by some handler (an outro): the mode is still active, its devices still bound
  ending : Bool := false         -- a ball end was requested behind the held stop: `ModeController._ball_ending` waits
                                 -- for the mode's stop to finish before the ball ends
  deriving Repr

inductive Op
  | startGame | addPlayer
  | set (k : String) (v : Val)       -- player[k] = v on the current player (also variable_player action: set)
  | add (k : String) (d : Int)       -- variable_player action: add (int)
  | setP (p : Nat) (k : String) (v : Val)   -- variable_player `action: set` with an explicit `player:` (p = index)
  | addP (p : Nat) (k : String) (d : Int)   -- variable_player `action: add` with an explicit `player:`
  | setMachine (k : String) (v : Val)       -- variable_player `action: set_machine`
  | addMachine (k : String) (d : Int)       -- variable_player `action: add_machine`
  | wait (n : Nat)                   -- `n` time units pass (timers of the running game mode tick / resume from pauses)
  | dev (d : Nat) (code : Nat)       -- control event `code` for device number `d`
  | swap (d1 d2 : Nat)               -- shot group rotation over two shots: their states change places
  | drain | endGame
  | modeStop                         -- the game mode is stopped by a stop event in the middle of a ball
  | modeStart                        -- a start request for the game mode while a player is up (any time between turn
                                     -- start and turn end, the ball itself may be over): binds to the current player
  | drainPre                         -- a drain during which a start request arrives after the ball ended but before the
                                     -- turn ended: the mode restarts bound to the player who is still up, and stops
                                     -- again when that turn ends
  | modeStopHold                     -- a stop request for the game mode with a handler holding `mode_<n>_stopping`
  | release                          -- the held `mode_<n>_stopping` queue event is released: the stop finishes, and a
                                     -- ball end that was waiting behind it takes place
  deriving DecidableEq, Repr

/-- `Player.__init__`: index, number, the configured initial values, score — no events yet -/
def newVars (c : Cfg) (idx : Nat) : Vars :=
  [("index", .int idx), ("number", .int (idx + 1))] ++ c.initVars ++ [("score", .int 0)]

/-- `send_all_variable_events` -/
def broadcast (m : Vars) (num : Nat) : List Ev :=
  m.filterMap (fun kv => match kv.2 with
    | .int i => some ⟨kv.1, .int i, .int i, .int 0, num⟩
    | .str s => some ⟨kv.1, .str s, .str s, .bool false, num⟩
    | _ => none)

def modify (ps : List Vars) (i : Nat) (f : Vars → Vars) : List Vars :=
  match ps, i with
  | [], _ => []
  | m :: r, 0 => f m :: r
  | m :: r, i + 1 => m :: modify r i f

def varsOf (s : St) (i : Nat) : Vars := (s.players[i]?).getD []

/-- set a variable of player `i`, collecting the event -/
def setOn (s : St) (i : Nat) (k : String) (v : Val) : St × List Ev :=
  let r := setVar (varsOf s i) (i + 1) k v
  ({ s with players := modify s.players i (fun _ => r.1) }, r.2)

/-- every device takes the stored state (through `load`), or creates a fresh one -/
def loadAll : List Dev → Vars → Vars
  | [], m => m
  | d :: r, m => loadAll r (put m d.key (match get m d.key with | some v => d.load v | none => d.fresh))

/-- the `player_<key>` event of a device that writes `v` under its key through `Player.__setattr__` -/
def devEv (d : Dev) (m : Vars) (num : Nat) (v : Val) : List Ev := if d.announce then (setVar m num d.key v).2 else []

/-- the events of `loadAll` (player number `num`), in device order -/
def loadEvs : List Dev → Nat → Vars → List Ev
  | [], _, _ => []
  | d :: r, num, m =>
    let v := match get m d.key with | some v => d.load v | none => d.fresh
    devEv d m num v ++ loadEvs r num (put m d.key v)

def intVar (m : Vars) (k : String) : Int := match get m k with | some (.int b) => b | _ => 0

/-- the game mode starts for player `i` -/
def modeStart (c : Cfg) (s : St) (i : Nat) : St :=
  { s with dev := some i, players := modify s.players i (loadAll c.devs), locs := c.devs.map (·.loc0) }

/-- the ball starts: the game mode starts with it when `ball_started` is among its start events -/
def ballStart (c : Cfg) (s : St) (i : Nat) : St := if c.autoStart then modeStart c s i else s

def modeStartEvs (c : Cfg) (s : St) (i : Nat) : List Ev := loadEvs c.devs (i + 1) (varsOf s i)

def ballStartEvs (c : Cfg) (s : St) (i : Nat) : List Ev := if c.autoStart then modeStartEvs c s i else []

/-- a player's turn starts: `ball += 1`, then the ball (and with it the game mode) starts -/
def turnStart (c : Cfg) (s : St) (i : Nat) : St × List Ev :=
  let r := setOn { s with cur := i } i "ball" (.int (intVar (varsOf s i) "ball" + 1))
  (ballStart c r.1 i, r.2 ++ ballStartEvs c r.1 i)

def setAt : List Loc → Nat → Loc → List Loc
  | [], _, _ => []
  | _ :: r, 0, l => l :: r
  | x :: r, i + 1, l => x :: setAt r i l

/-- one time unit passes for every device of the running mode (in device order) -/
def tickDevs : List Dev → List Loc → Vars → List Loc × Vars
  | [], _, m => ([], m)
  | d :: ds, ls, m =>
    match get m d.key with
    | some v =>
      let r := d.tick (ls.headD {}) v
      let rest := tickDevs ds ls.tail (put m d.key r.2)
      (r.1 :: rest.1, rest.2)
    | none =>
      let rest := tickDevs ds ls.tail m
      (ls.headD {} :: rest.1, rest.2)

def elapse (devs : List Dev) : Nat → List Loc → Vars → List Loc × Vars
  | 0, ls, m => (ls, m)
  | n + 1, ls, m => let r := tickDevs devs ls m; elapse devs n r.1 r.2

/-- the events of `tickDevs` / `elapse` (same traversal) -/
def tickEvs : List Dev → Nat → List Loc → Vars → List Ev
  | [], _, _, _ => []
  | d :: ds, num, ls, m =>
    match get m d.key with
    | some v =>
      let r := d.tick (ls.headD {}) v
      devEv d m num r.2 ++ tickEvs ds num ls.tail (put m d.key r.2)
    | none => tickEvs ds num ls.tail m

def elapseEvs (devs : List Dev) (num : Nat) : Nat → List Loc → Vars → List Ev
  | 0, _, _ => []
  | n + 1, ls, m => let r := tickDevs devs ls m; tickEvs devs num ls m ++ elapseEvs devs num n r.1 r.2

/-- the player a `variable_player` entry with `player: p+1` writes to: that player, or - as the code has it - the
current player when there is no such player (IndexError is only logged) -/
def targetOf (s : St) (p : Nat) : Nat := if p < s.players.length then p else s.cur

/-- the ball ends (the game mode is not in a held stop): the mode stops, the pointer is dropped; extra ball → same player
again; else next player / next ball / game over -/
def drainStep (c : Cfg) (s : St) : St × List Ev :=
    if s.players = [] then (s, []) else
    let s0 := { s with dev := none }             -- ball ending: the mode stops, the pointer is dropped
    let me := varsOf s0 s0.cur
    if intVar me "extra_balls" ≠ 0 then
      let r := setOn s0 s0.cur "extra_balls" (.int (intVar me "extra_balls" - 1))
      (ballStart c r.1 s0.cur, r.2 ++ ballStartEvs c r.1 s0.cur)   -- shoot again: same player, `ball` not incremented
    else if intVar me "ball" ≥ c.ballsPerGame ∧ s0.cur + 1 = s0.players.length then
      ({ s with players := [], cur := 0, dev := none }, [])
    else turnStart c s0 (if s0.cur + 1 < s0.players.length then s0.cur + 1 else 0)

def step (c : Cfg) (s : St) : Op → St × List Ev
  | .startGame =>
    if s.players ≠ [] then (s, []) else
    let m := newVars c 0
    let r := turnStart c { s with players := [m], cur := 0, dev := none, hold := false, ending := false } 0
    (r.1, broadcast m 1 ++ r.2)
  | .addPlayer =>
    let n := s.players.length
    if n = 0 ∨ n ≥ c.maxPlayers ∨ intVar (varsOf s s.cur) "ball" > 1 then (s, []) else
    let m := newVars c n
    ({ s with players := s.players ++ [m] }, broadcast m (n + 1))
  | .set k v => if s.players = [] then (s, []) else setOn s s.cur k v
  | .add k d =>
    if s.players = [] then (s, []) else
    match (get (varsOf s s.cur) k).getD (.int 0) with
    | .int a => setOn s s.cur k (.int (a + d))
    | _ => (s, [])
  | .setP p k v => if s.players = [] then (s, []) else setOn s (targetOf s p) k v
  | .addP p k d =>
    if s.players = [] then (s, []) else
    match (get (varsOf s (targetOf s p)) k).getD (.int 0) with
    | .int a => setOn s (targetOf s p) k (.int (a + d))
    | _ => (s, [])
  | .setMachine k v => if s.players = [] then (s, []) else ({ s with machine := put s.machine k v }, [])
  | .addMachine k d =>
    if s.players = [] then (s, []) else
    match (get s.machine k).getD (.int 0) with
    | .int a => ({ s with machine := put s.machine k (.int (a + d)) }, [])
    | _ => (s, [])
  | .wait n =>
    match s.dev with
    | none => (s, [])                                -- no game mode runs: nothing of any player changes with time
    | some p =>
      let r := elapse c.devs n s.locs (varsOf s p)
      ({ s with players := modify s.players p (fun _ => r.2), locs := r.1 },
       elapseEvs c.devs (p + 1) n s.locs (varsOf s p))
  | .dev d code =>
    match s.dev with
    | none => (s, [])
    | some p =>
      match c.devs[d]? with
      | none => (s, [])
      | some dv =>
        match get (varsOf s p) dv.key with
        | none => (s, [])
        | some v =>
          let r := dv.act code (s.locs.getD d {}) v
          ({ s with players := modify s.players p (fun m => put m dv.key r.2), locs := setAt s.locs d r.1 },
           devEv dv (varsOf s p) (p + 1) r.2)
  | .swap d1 d2 =>
    match s.dev with
    | none => (s, [])
    | some p => ({ s with players := modify s.players p (fun m =>
        match c.devs[d1]?, c.devs[d2]? with
        | some a, some b =>
          (match get m a.key, get m b.key with
           | some va, some vb => put (put m a.key vb) b.key va
           | _, _ => m)
        | _, _ => m) }, [])
  | .drain =>
    -- behind a held stop `_ball_ending` registers a callback with the stopping mode and waits: nothing else happens
    if s.hold then ({ s with ending := true }, []) else drainStep c s
  | .endGame => ({ s with players := [], cur := 0, dev := none, hold := false, ending := false }, [])
  | .modeStop => if s.hold then (s, []) else ({ s with dev := none }, [])     -- `Mode.stop` while stopping: nothing
  | .modeStopHold =>
    match s.dev with
    | none => (s, [])                              -- not active: `Mode.stop` returns at once
    | some _ => ({ s with hold := true }, [])      -- stopping, but everything of the mode is still in place
  | .release =>
    if s.hold then
      let s1 := { s with hold := false, ending := false, dev := none }     -- `_stopped` / `_finish_stop`: devices removed
      if s.ending then drainStep c s1 else (s1, [])                       -- then the callbacks: the ball end goes on
    else (s, [])
  | .modeStart =>
    if s.players = [] then (s, [])                 -- no game: refused
    else match s.dev with
      | some _ => (s, [])                          -- already active
      | none => (modeStart c s s.cur, modeStartEvs c s s.cur)
  | .drainPre =>
    if s.hold then ({ s with ending := true }, []) else
    if s.players = [] then (s, []) else
    let ev0 := modeStartEvs c s s.cur
    let s0 := modeStart c { s with dev := none } s.cur     -- stopped at ball end, restarted for the same player
    let me := varsOf s0 s0.cur
    if intVar me "extra_balls" ≠ 0 then
      let r := setOn s0 s0.cur "extra_balls" (.int (intVar me "extra_balls" - 1))     -- still running: no reload
      (r.1, ev0 ++ r.2)
    else if intVar me "ball" ≥ c.ballsPerGame ∧ s0.cur + 1 = s0.players.length then
      ({ s with players := [], cur := 0, dev := none }, ev0)
    else
      let r := turnStart c { s0 with dev := none } (if s0.cur + 1 < s0.players.length then s0.cur + 1 else 0)
      (r.1, ev0 ++ r.2)

def run (c : Cfg) : St → List Op → St
  | s, [] => s
  | s, op :: rest => run c (step c s op).1 rest

/-- what device `d` presents: the state it points at -/
def view (s : St) (d : Dev) : Option Val :=
  match s.dev with
  | none => none
  | some p => get (varsOf s p) d.key

/-! ## driver -/

def hexNib (c : Char) : Option Nat :=
  if '0' ≤ c ∧ c ≤ '9' then some (c.toNat - 48) else if 'a' ≤ c ∧ c ≤ 'f' then some (c.toNat - 87) else none

def unhex : List Char → Option (List Char)
  | [] => some []
  | [_] => none
  | a :: b :: r => do
    let x ← hexNib a; let y ← hexNib b; let t ← unhex r
    pure (Char.ofNat (x * 16 + y) :: t)

def hexOfNat (n : Nat) : Char := if n < 10 then Char.ofNat (48 + n) else Char.ofNat (87 + n)

def hexStr (s : String) : String :=
  String.ofList (s.toList.flatMap (fun c => [hexOfNat (c.toNat / 16), hexOfNat (c.toNat % 16)]))

/-- value tokens: i<int>  s<hex>  T / F  b<value>/<enabled>/<completed>  a<bits>/<enabled>/<completed> -/
def showVal : Val → String
  | .int i => s!"i{i}"
  | .str s => "s" ++ hexStr s
  | .bool true => "T" | .bool false => "F"
  | .blk v e co => s!"b{v}/{if e then 1 else 0}/{if co then 1 else 0}"
  | .ablk v e co => s!"a{String.ofList (v.map (fun b => if b then '1' else '0'))}/{if e then 1 else 0}/{if co then 1 else 0}"

def parseVal (t : String) : Option Val :=
  match t.toList with
  | 'i' :: r => (String.ofList r).toInt?.map .int
  | 's' :: r => (unhex r).map (fun cs => .str (String.ofList cs))
  | _ => none

def insertKV (kv : String × Val) : Vars → Vars
  | [] => [kv]
  | x :: r => if kv.1 < x.1 then kv :: x :: r else x :: insertKV kv r

def sortVars (m : Vars) : Vars := m.foldr insertKV []

def showVars (m : Vars) : String := ",".intercalate ((sortVars m).map (fun kv => kv.1 ++ "=" ++ showVal kv.2))

def showEv (e : Ev) : String := s!"{e.name}:{showVal e.value}:{showVal e.prev}:{showVal e.change}:{e.num}"

def showOut (c : Cfg) (r0 : St × List Ev) : String :=
  let isDev := fun (e : Ev) => c.devs.any (fun d => d.announce && d.key == e.name)
  let r := (r0.1, r0.2.filter (fun e => !isDev e))
  let dv := r0.2.filter isDev
  let s := r.1
  let g := if s.players = [] then "-" else toString (s.cur + 1)
  let up := match s.dev with | some p => toString (p + 1) | none => "-"
  let rn := match s.dev with
    | some _ => String.ofList (s.locs.map (fun (l : Loc) => if l.run then '1' else '0'))
    | none => "-"
  let mv := match get s.machine "mvar" with | some v => showVal v | none => "-"
  s!"cur={g} mode={up} run={rn} mv={mv} ev=[{" ".intercalate (r.2.map showEv)}] dv=[{" ".intercalate (dv.map showEv)}] pl=[{"|".intercalate (s.players.map showVars)}]"

def parseInit : List String → Option (List (String × Val))
  | [] => some []
  | t :: r => do
    match t.splitOn "=" with
    | [k, v] => pure ((k, ← parseVal v) :: (← parseInit r))
    | _ => none

/-- `Counter.count` (`reset_on_complete: false`, `disable_on_complete: true`) -/
def countBlk (goal : Int) : Val → Val
  | .blk v true co =>
    if v + 1 ≥ goal then (if co then .blk (v + 1) true co else .blk (v + 1) false true) else .blk (v + 1) true co
  | x => x

/-- the achievement state machine (`restart_after_stop_possible: true`, enable events configured) -/
def achAct (code : Nat) (v : Val) : Val :=
  match code, v with
  | 0, .str "disabled" => .str "enabled" | 0, .str "started" => .str "enabled"
  | 1, .str "enabled" => .str "started" | 1, .str "stopped" => .str "started"
  | 2, .str "started" => .str "completed"
  | 3, .str "started" => .str "stopped"
  | 4, .str "enabled" => .str "disabled" | 4, .str "stopped" => .str "disabled"
  | 5, _ => .str "disabled"
  | _, x => x

/-- `LogicBlock.reset` / `restart` (codes `r` / `r+1` of a block with `r` steps): completion cleared, value back to the
start value (a new list for an accrual); `restart` also enables -/
def blkReset (start : Val) (enable : Bool) : Val → Val
  | .blk _ e _ => match start with
    | .blk v0 _ _ => .blk v0 (e || enable) false
    | x => x
  | .ablk _ e _ => match start with
    | .ablk v0 _ _ => .ablk v0 (e || enable) false
    | x => x
  | x => x

def setBit : List Bool → Nat → List Bool
  | [], _ => []
  | _ :: r, 0 => true :: r
  | x :: r, i + 1 => x :: setBit r i

/-- `Accrual.hit(step)` (`reset_on_complete: false`, `disable_on_complete: true`) -/
def accHit (step : Nat) : Val → Val
  | .ablk v true co =>
    let v' := setBit v step
    if v'.all id then (if co then .ablk v' true co else .ablk v' false true) else .ablk v' true co
  | x => x

/-- `Sequence.hit(step)` with `n` steps -/
def seqHit (n : Nat) (step : Nat) : Val → Val
  | .blk v true co =>
    if v = step then
      (if v + 1 ≥ n then (if co then .blk (v + 1) true co else .blk (v + 1) false true) else .blk (v + 1) true co)
    else .blk v true co
  | x => x

/-! ### the timer (`mpf/devices/timer.py`, direction up): ticks in the player variable, run / next tick / pause locally -/

structure TimerCfg where
  start : Int
  startRunning : Bool
  endValue : Option Int      -- `end_value`
  interval : Nat             -- tick interval in time units
  pauseUnits : Nat           -- length of the timed pause of control event 5

def tmStopped : Loc := { run := false, next := 0, pause := 0 }

/-- `_check_for_done`: at or past the end value the timer completes and stops (`restart_on_complete: false`) -/
def tmChk (t : TimerCfg) (l : Loc) (v : Int) : Loc × Val :=
  match t.endValue with
  | some e => if v ≥ e then (tmStopped, .int v) else (l, .int v)
  | none => (l, .int v)

/-- `Timer.start` -/
def tmStart (t : TimerCfg) (l : Loc) (v : Int) : Loc :=
  if l.run then l else
  match t.endValue with
  | some e => if v ≥ e then tmStopped else { run := true, next := t.interval, pause := 0 }
  | none => { run := true, next := t.interval, pause := 0 }

/-- control events: 0 add 2, 1 jump 7, 2 subtract 1, 3 start, 4 stop, 5 pause (timed), 6 pause (until started),
7 reset, 8 restart -/
def tmAct (t : TimerCfg) (code : Nat) (l : Loc) : Val → Loc × Val
  | .int v =>
    match code with
    | 0 => tmChk t l (v + 2)
    | 1 => tmChk t { l with next := t.interval } 7
    | 2 => tmChk t l (v - 1)
    | 3 => (tmStart t l v, .int v)
    | 4 => (tmStopped, .int v)
    | 5 => ({ run := false, next := 0, pause := t.pauseUnits }, .int v)
    | 6 => ({ run := false, next := 0, pause := l.pause }, .int v)
    | 7 => tmChk t { l with next := t.interval } t.start
    | 8 =>
      let r := tmChk t { l with next := t.interval } t.start
      (tmStart t r.1 t.start, r.2)
    | _ => (l, .int v)
  | x => (l, x)

/-- one time unit: a pending resume comes closer and fires `start`; a running timer comes closer to its next tick -/
def tmTick (t : TimerCfg) (l : Loc) : Val → Loc × Val
  | .int v =>
    if l.pause > 0 then
      if l.pause = 1 then (tmStart t { l with pause := 0 } v, .int v) else ({ l with pause := l.pause - 1 }, .int v)
    else if l.run then
      if l.next ≤ 1 then tmChk t { l with next := t.interval } (v + 1) else ({ l with next := l.next - 1 }, .int v)
    else (l, .int v)
  | x => (l, x)

def timerDev (key : String) (t : TimerCfg) : Dev :=
  { key := key, fresh := .int t.start, load := fun _ => .int t.start, act := tmAct t, tick := tmTick t,
    loc0 := if t.startRunning then tmStart t {} t.start else {}, announce := true }

/-- a device without local state -/
def plainDev (key : String) (fresh : Val) (load : Val → Val) (act : Nat → Val → Val) : Dev :=
  { key := key, fresh := fresh, load := load, act := fun code l v => (l, act code v) }

/-- the device kinds of the correspondence run -/
def mkDev : List String → Option Dev
  | ["counter", key, goal] => do
    let g ← goal.toInt?
    pure (plainDev key (.blk 0 true false) id fun code v => if code = 0 then countBlk g v else v)
  | ["shot", key, n] => do
    let k ← n.toNat?
    pure (plainDev key (.int 0) id fun code v => match code, v with
      | 0, .int s => if s + 1 < k then .int (s + 1) else .int s
      | 1, _ => .int 0
      | _, x => x)
  | ["flag", key] => some (plainDev key (.bool false) id
      fun code v => if code = 0 then .bool true else if code = 1 then .bool false else v)
  | ["ach", key, restart] =>
    some (plainDev key (.str "disabled") (fun v => if restart = "0" ∧ v = .str "started" then .str "stopped" else v) achAct)
  | ["accrual", key, n] => do
    let k ← n.toNat?
    let start := Val.ablk (List.replicate k false) true false
    pure (plainDev key start id fun code v =>
      if code < k then accHit code v else if code = k then blkReset start false v
      else if code = k + 1 then blkReset start true v else v)
  | ["sequence", key, n] => do
    let k ← n.toNat?
    let start := Val.blk 0 true false
    pure (plainDev key start id fun code v =>
      if code < k then seqHit k code v else if code = k then blkReset start false v
      else if code = k + 1 then blkReset start true v else v)
  | ["timer", key, start, run, endv, interval, pause] => do
    let st ← start.toInt?
    let e ← endv.toInt?
    let iv ← interval.toNat?
    let pu ← pause.toNat?
    pure (timerDev key ⟨st, run = "1", if e < 0 then none else some e, iv, pu⟩)
  | _ => none

def parseOp : List String → Option Op
  | ["start"] => some .startGame
  | ["addplayer"] => some .addPlayer
  | ["set", k, v] => (parseVal v).map (.set k)
  | ["add", k, d] => d.toInt?.map (.add k)
  | ["dev", d, code] => do pure (.dev (← d.toNat?) (← code.toNat?))
  | ["setp", p, k, v] => do pure (.setP (← p.toNat?) k (← parseVal v))
  | ["addp", p, k, d] => do pure (.addP (← p.toNat?) k (← d.toInt?))
  | ["setmachine", k, v] => (parseVal v).map (.setMachine k)
  | ["addmachine", k, d] => d.toInt?.map (.addMachine k)
  | ["wait", n] => n.toNat?.map .wait
  | ["swap", a, b] => do pure (.swap (← a.toNat?) (← b.toNat?))
  | ["drain"] => some .drain
  | ["endgame"] => some .endGame
  | ["modestop"] => some .modeStop
  | ["modestart"] => some .modeStart
  | ["drainpre"] => some .drainPre
  | ["modestophold"] => some .modeStopHold
  | ["release"] => some .release
  | _ => none

/-- the harness lets one time unit pass after every request -/
def stepW (c : Cfg) (s : St) (ops : List Op) : St × List Ev :=
  match ops with
  | [] => step c s (.wait 1)
  | op :: rest => let r := step c s op; let r2 := stepW c r.1 rest; (r2.1, r.2 ++ r2.2)

def driverStep (cs : Cfg × St) (line : String) : (Cfg × St) × String :=
  match line.splitOn " " with
  | "cfg" :: bpg :: mp :: auto :: rest =>
    match bpg.toNat?, mp.toNat?, parseInit rest with
    | some b, some m, some iv =>
      (({ initVars := iv, ballsPerGame := b, maxPlayers := m, autoStart := auto = "1" }, {}), "ok")
    | _, _, _ => (cs, "bad-op")
  | "device" :: rest =>
    match mkDev rest with
    | some d => (({ cs.1 with devs := cs.1.devs ++ [d] }, cs.2), "ok")
    | none => (cs, "bad-op")
  | ["drainpost"] =>                      -- a drain during which a start request arrives when the next player is up
    let r := stepW cs.1 cs.2 [.drain, .modeStart]; ((cs.1, r.1), showOut cs.1 r)
  | ["drainposthold"] =>                  -- ... and the queue event at which it arrived is held for one time unit
    let r := stepW cs.1 cs.2 [.drain, .modeStart, .wait 1]; ((cs.1, r.1), showOut cs.1 r)
  | toks =>
    match parseOp toks with
    | some op => let r := stepW cs.1 cs.2 [op]; ((cs.1, r.1), showOut cs.1 r)
    | none => (cs, "bad-op")

def driverInit : Cfg × St := ({}, {})

end MpfVerif.Player
