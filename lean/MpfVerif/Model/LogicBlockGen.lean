import MpfVerif.Model.LogicBlock
import MpfVerif.Gen.LogicBlockOps
/-!
# What a run of the *generated* logic-block methods means for the hand model's state (C18)

`Gen/LogicBlockOps.lean` is `mpf/devices/logic_blocks.py` (the short methods of `LogicBlock` and `Counter`) as data for the
stateful interpreter `Model/PyStore.lean`.  `sigma c s` is the object state the methods read (the player-state record
`enabled / completed / value` behind the properties, `ignore_hits`, `hit_value`), `sctx c` the configuration values (a template
appears twice: `k` is the template object - only tested for None / truthiness - and `k()` what it evaluates to now; times are
in ms, 125 per tick), `applyEff` the hand-written meaning of one logged action for `LogicBlock.St` and the list of posted
events: a store write, a posted event (`logicblock_(name)_updated`, `(name)_timeout`, the configured hit / completion event
lists), a delay (`timeout`, `ignore_hits_within_window`, following `mpf/core/delays.py`: `reset` = remove + add).  Anything
`applyEff` has no meaning for raises the `unknown` flag - it can never be ignored silently.  `ignore_hits = True` without
the delay that ends the window is remembered in `ign` (the hand model cannot express a window that never closes).
-/
namespace MpfVerif.LogicBlock
open MpfVerif.Py

def msOf (ticks : Nat) : Int := (ticks : Int) * 125

def sigma (c : Cfg) (s : St) : String → PyVal := fun k =>
  if k = "enabled" then .bool s.enabled
  else if k = "completed" then .bool s.completed
  else if k = "value" then .int s.value
  else if k = "ignore_hits" then .bool s.windowUntil.isSome
  else if k = "hit_value" then .int (hv c)
  else .none

def sctx (c : Cfg) : SCtx where
  cfg := fun k =>
    if k = "logic_block_timeout" then .int (msOf c.timeout)
    else if k = "multiple_hit_window" then .int (msOf c.window)
    else if k = "reset_on_complete" then .bool c.resetOnComplete
    else if k = "disable_on_complete" then .bool c.disableOnComplete
    else if k = "direction" then .str (if c.down then "down" else "up")
    else if k = "count_complete_value" then (if c.goal.isSome then .str "template" else .none)
    else if k = "count_complete_value()" then .int (c.goal.getD 0)
    else if k = "starting_count()" then .int c.start
    else if k = "events_when_complete" then .str "list"
    else if k = "events_when_hit" then .str "list"
    else .none
  tab := fun _ _ => .none

def intOf : PyVal → Int
  | .int i => i | .bool true => 1 | _ => 0

structure G where
  s : St
  obs : List Obs := []
  ign : Bool := false
  unknown : Bool := false

def ticksOf (v : PyVal) : Nat := (intOf v).toNat / 125

/-- the meaning of one logged action -/
def applyEff (g : G) (e : Eff) : G :=
  let s := g.s
  if e.obj = "store" then
    if e.meth = "enabled" then { g with s := { s with enabled := e.arg "value" == .bool true } }
    else if e.meth = "completed" then { g with s := { s with completed := e.arg "value" == .bool true } }
    else if e.meth = "value" then { g with s := { s with value := intOf (e.arg "value") } }
    else if e.meth = "ignore_hits" then
      (if e.arg "value" == .bool true then { g with ign := true } else { g with s := { s with windowUntil := none }, ign := false })
    else { g with unknown := true }
  else if e.obj = "events" then
    if e.meth = "post" then
      if e.arg "event" == .str "logicblock_(name)_updated" then
        { g with obs := g.obs ++ [Obs.updated (intOf (e.arg "value")) s.flags (e.arg "enabled" == .bool true)] }
      else if e.arg "event" == .str "(name)_timeout" then { g with obs := g.obs ++ [Obs.timeout] }
      else { g with unknown := true }
    else if e.meth = "post_list" then
      if e.arg "list" == .str "events_when_hit" then
        { g with obs := g.obs ++ [Obs.hit (intOf (e.arg "count"))
            (if e.arg "hits" == .none then none else some (intOf (e.arg "hits"), intOf (e.arg "remaining")))] }
      else if e.arg "list" == .str "events_when_complete" then { g with obs := g.obs ++ [Obs.complete] }
      else { g with unknown := true }
    else { g with unknown := true }
  else if e.obj = "delay" then
    if e.meth = "reset" then
      if e.arg "name" == .str "timeout" && e.arg "callback" == .str "cb:_logic_block_timeout" then
        { g with s := { s with timeoutDue := some (s.now + ticksOf (e.arg "ms")) } }
      else { g with unknown := true }
    else if e.meth = "add" then
      if e.arg "name" == .str "ignore_hits_within_window" && e.arg "callback" == .str "cb:stop_ignoring_hits" && g.ign then
        { g with s := { s with windowUntil := some (s.now + ticksOf (e.arg "ms")) }, ign := false }
      else { g with unknown := true }
    else if e.meth = "remove" then
      if e.arg "name" == .str "timeout" then { g with s := { s with timeoutDue := none } }
      else { g with unknown := true }
    else { g with unknown := true }
  else { g with unknown := true }

/-- run a generated method in state `s`: the state and the posted events its logged actions lead to, whether an
`ignore_hits` without its delay is left over, whether every action had a meaning, and the result (`none` = it raised) -/
def genRun (c : Cfg) (s : St) (prog : List SSt) (args : List (String × PyVal)) : (St × List Obs) × Bool × Bool × Option PyVal :=
  let r := callS (sctx c) prog args (sigma c s)
  let g := r.1.log.foldl applyEff { s := s }
  ((g.s, g.obs), g.ign, g.unknown, r.2)

end MpfVerif.LogicBlock
