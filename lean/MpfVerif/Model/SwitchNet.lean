import MpfVerif.Model.Switch
/-!
# Several switches, re-entrant dispatch — the second model of `mpf/core/switch_controller.py` for C03

`Model/Switch.lean` is one switch whose callbacks touch the handlers of that switch only.  Here the controller's state is the
whole family (`registered_switches`, `_active_timed_switches`, `_timed_switch_handler_delay` and the switch attributes for every
switch, plus `monitors`), and what a callback or a monitor does when it is invoked is a list of `NAct`s on *any* switch:
register a handler, remove one, or **report a switch change** (`process_switch` called from inside a handler — of the same switch
or of another one —, from inside a hold-time handler while its deadline bucket is being processed, or from a monitor).  The
dispatch code is therefore re-entered; the definitions below follow the Python frame by frame:

* `walk` = `_call_handlers`: over a copy of the registrations; an entry whose registration object has left the live list
  (`entry.cancelled`) is skipped — registrations carry a unique `id` because the flag sits on the object, not on its value;
  a hold-time entry is armed only while the change being walked is still the switch's latest one (`_change_serial`);
* `procKeysN`/`procEntriesN` = the two loops of `_process_active_timed_switches`; `epoch` counts the real changes of a switch
  and stands for the identity of its dict `_active_timed_switches[switch]` — a change reported by a callback of the bucket
  deletes that dict (`_cancel_timed_handlers`), and the loops then abandon what they were walking;
* `monitors` = `for monitor in self.monitors: monitor(...)` after the handlers.

The recursion (report → handler → report → …) is bounded by `fuel` (every call consumes one unit; running out is observable
as `NObs.overflow`, never silent) — the theorems hold for every amount of fuel.  Independently the callbacks of the harness
stop reporting beyond nesting depth `maxDepth`, which keeps real runs finite; the model has the same rule.
-/
namespace MpfVerif.SwitchNet
open MpfVerif.Switch

/-- a `RegisteredSwitch` object: `id` is its identity -/
structure NReg where
  id : Nat
  cb : Nat
  ms : Nat
deriving DecidableEq, Repr

structure NSw where
  invert : Bool := false
  state : Bool := false
  hw : Bool := false
  lastChange : Option Nat := none
  reg0 : List NReg := []
  reg1 : List NReg := []
  timed : List (Nat × List TEntry) := []
  wake : Option Nat := none
  /-- number of real changes so far: `_change_serial[switch]`, also the identity of the dict `_active_timed_switches[switch]` -/
  epoch : Nat := 0
deriving Repr

/-- one thing a callback (or monitor) does when it runs -/
inductive NAct
  | add (sw : Nat) (st : Bool) (ms cb : Nat)
  | remove (sw : Nat) (st : Bool) (ms cb : Nat)
  | report (sw : Nat) (logical v : Bool)
deriving DecidableEq, Repr

abbrev NProg := Nat → List NAct

structure Net where
  sws : List NSw := []
  now : Nat := 0
  nextId : Nat := 0
  /-- `SwitchController.monitors` (ids; a monitor's behaviour is `P id`) -/
  mons : List Nat := []
  maxDepth : Nat := 2
deriving Repr

inductive NObs
  | call (sw cb : Nat) (st : Bool) (ms t : Nat)
  | mon (m sw : Nat) (st : Bool)
  /-- `process_switch` was called for switch `sw` with a value standing for logical state `st` (top level or nested) -/
  | rep (sw : Nat) (st : Bool)
  | overflow
deriving DecidableEq, Repr

def NSw.reg (s : NSw) (st : Bool) : List NReg := if st then s.reg1 else s.reg0

def NSw.setReg (s : NSw) (st : Bool) (l : List NReg) : NSw := if st then { s with reg1 := l } else { s with reg0 := l }

/-- `_add_timed_switch_handler` -/
def addTimedN (s : NSw) (key : Nat) (e : TEntry) : NSw :=
  let timed := insertTimed key e s.timed
  let next := (minKey timed).getD key
  let wake := match s.wake with
    | none => some next
    | some w => if next < w then some next else some w
  { s with timed := timed, wake := wake }

/-- `add_switch_handler_obj` -/
def addHN (s : NSw) (now id : Nat) (st : Bool) (ms cb : Nat) : NSw :=
  let s1 := s.setReg st (s.reg st ++ [⟨id, cb, ms⟩])
  match s.lastChange with
  | some lc => if ms ≠ 0 ∧ now < lc + ms ∧ st = s.state then addTimedN s1 (lc + ms) ⟨cb, st, ms⟩ else s1
  | none => s1

/-- `remove_switch_handler_obj` -/
def removeHN (s : NSw) (st : Bool) (ms cb : Nat) : NSw :=
  let s1 := s.setReg st ((s.reg st).filter (fun r => !(r.ms == ms && r.cb == cb)))
  { s1 with timed := s1.timed.map (fun kv => (kv.1, kv.2.filter (fun e => !isMatch st ms cb e))) }

/-- `process_switch_obj` up to and including `_cancel_timed_handlers` -/
def changedN (s : NSw) (st : Bool) (now : Nat) : NSw :=
  { s with state := st, hw := (st != s.invert), lastChange := some now, timed := [], wake := none, epoch := s.epoch + 1 }

def modAt : List NSw → Nat → (NSw → NSw) → List NSw
  | [], _, _ => []
  | s :: r, 0, f => f s :: r
  | s :: r, i + 1, f => s :: modAt r i f

def Net.upd (n : Net) (i : Nat) (f : NSw → NSw) : Net := { n with sws := modAt n.sws i f }

mutual
/-- the body of a callback / monitor: its actions in order (`d` = how deeply nested in handlers it runs) -/
def runActs : Nat → NProg → Nat → List NAct → Net → Net × List NObs
  | 0, _, _, _, n => (n, [.overflow])
  | _ + 1, _, _, [], n => (n, [])
  | f + 1, P, d, a :: r, n =>
    let x := runAct f P d a n
    let y := runActs f P d r x.1
    (y.1, x.2 ++ y.2)
def runAct : Nat → NProg → Nat → NAct → Net → Net × List NObs
  | 0, _, _, _, n => (n, [.overflow])
  | _ + 1, _, _, .add i st ms cb, n =>
    ({ n.upd i (fun s => addHN s n.now n.nextId st ms cb) with nextId := n.nextId + 1 }, [])
  | _ + 1, _, _, .remove i st ms cb, n => (n.upd i (fun s => removeHN s st ms cb), [])
  | f + 1, P, d, .report i l v, n =>
    if n.maxDepth < d then (n, []) else
    match n.sws[i]? with
    | none => (n, [])
    | some s =>
      let st := logicalOf s.invert l v
      if st = s.state then (n, [.rep i st])           -- duplicate: nothing at all
      else
        let x := walk f P (d + 1) i st (s.epoch + 1) (s.reg st) (n.upd i (fun s => changedN s st n.now))
        let y := monitors f P (d + 1) i st x.1.mons x.1
        (y.1, .rep i st :: (x.2 ++ y.2))
/-- `_call_handlers(switch i, st)` over the copied registrations -/
def walk : Nat → NProg → Nat → Nat → Bool → Nat → List NReg → Net → Net × List NObs
  | 0, _, _, _, _, _, _, n => (n, [.overflow])
  | _ + 1, _, _, _, _, _, [], n => (n, [])
  | f + 1, P, d, i, st, ep, r :: rest, n =>
    match n.sws[i]? with
    | none => (n, [])
    | some s =>
      if !((s.reg st).any (fun x => x.id == r.id)) then walk f P d i st ep rest n       -- `entry.cancelled`
      else if r.ms = 0 then
        let x := runActs f P d (P r.cb) n
        let y := walk f P d i st ep rest x.1
        (y.1, .call i r.cb st 0 n.now :: (x.2 ++ y.2))
      else if s.epoch = ep then
        walk f P d i st ep rest (n.upd i (fun s => addTimedN s (s.lastChange.getD 0 + r.ms) ⟨r.cb, st, r.ms⟩))
      else walk f P d i st ep rest n     -- a callback of this walk reported the next change of this switch: the hold times of this change are void
def monitors : Nat → NProg → Nat → Nat → Bool → List Nat → Net → Net × List NObs
  | 0, _, _, _, _, _, n => (n, [.overflow])
  | _ + 1, _, _, _, _, [], n => (n, [])
  | f + 1, P, d, i, st, m :: rest, n =>
    let x := runActs f P d (P m) n
    let y := monitors f P d i st rest x.1
    (y.1, .mon m i st :: (x.2 ++ y.2))
end

/-- inner loop of `_process_active_timed_switches` for the expired deadline `k` of switch `i`; `ep` = the dict being walked -/
def procEntriesN (f : Nat) (P : NProg) (i k ep : Nat) : List TEntry → Net → Net × List NObs
  | [], n => (n, [])
  | e :: rest, n =>
    match n.sws[i]? with
    | none => (n, [])
    | some s =>
      if s.epoch ≠ ep then (n, [])                       -- the switch changed: everything that was pending is void
      else if e ∈ lookupT k s.timed then
        let x := runActs f P 1 (P e.cb) n
        let y := procEntriesN f P i k ep rest x.1
        (y.1, .call i e.cb e.st e.ms n.now :: (x.2 ++ y.2))
      else procEntriesN f P i k ep rest n

def procKeysN (f : Nat) (P : NProg) (i ep : Nat) : List Nat → Net → Net × List NObs
  | [], n => (n, [])
  | k :: ks, n =>
    match n.sws[i]? with
    | none => (n, [])
    | some s =>
      if s.epoch ≠ ep then (n, [])
      else if k ≤ n.now then
        let a := procEntriesN f P i k ep (lookupT k s.timed) n
        let n2 := a.1.upd i (fun s => if s.epoch = ep then { s with timed := eraseT k s.timed } else s)
        let b := procKeysN f P i ep ks n2
        (b.1, a.2 ++ b.2)
      else procKeysN f P i ep ks n

inductive NOp
  | act (a : NAct)            -- from outside every handler: a platform report, a registration, a removal
  | to (t : Nat)
  | wake (i : Nat)
  | monitor (m : Nat) (on : Bool)
deriving DecidableEq, Repr

def stepN (fuel : Nat) (P : NProg) (n : Net) : NOp → Option (Net × List NObs)
  | .act a => some (runAct (fuel + 1) P 0 a n)
  | .to t => if n.now ≤ t ∧ n.sws.all (fun s => decide (t ≤ s.wake.getD t)) then some ({ n with now := t }, []) else none
  | .wake i =>
    match n.sws[i]? with
    | none => none
    | some s =>
      match s.wake with
      | none => none
      | some w =>
        if w ≤ n.now then
          let x := procKeysN fuel P i s.epoch (s.timed.map (·.1)) (n.upd i (fun s => { s with wake := none }))
          some (x.1.upd i (fun s => { s with wake := minKey s.timed }), x.2)
        else none
  | .monitor m on =>
    some ({ n with mons := if on then (if m ∈ n.mons then n.mons else n.mons ++ [m]) else n.mons.filter (fun x => x != m) }, [])

def runN (fuel : Nat) (P : NProg) : Net → List NOp → Option (Net × List NObs)
  | n, [] => some (n, [])
  | n, op :: ops =>
    match stepN fuel P n op with
    | none => none
    | some r1 =>
      match runN fuel P r1.1 ops with
      | none => none
      | some r2 => some (r2.1, r1.2 ++ r2.2)

/-! ## `wait_for_switch` / `wait_for_any_switch` futures

A future is a set of ordinary handlers (one per switch of the list, all with the same callback id `f`) whose callback is
`_wait_handler`: `if not _future.done(): _future.set_result(kwargs)`.  `Fut` is the future seen from the handler calls. -/

structure Fut where
  /-- `(switch, instant)` of the call that resolved it -/
  result : Option (Nat × Nat) := none
  /-- how often `set_result` ran -/
  sets : Nat := 0
deriving DecidableEq, Repr

/-- `_wait_handler` called for switch `sw` at `t` -/
def Fut.onCall (f : Fut) (sw t : Nat) : Fut :=
  match f.result with
  | some _ => f
  | none => { result := some (sw, t), sets := f.sets + 1 }

/-- the future with handler id `id` along a trace of the controller -/
def futAlong (id : Nat) (f : Fut) : List NObs → Fut
  | [] => f
  | .call sw cb _ _ t :: r => futAlong id (if cb = id then f.onCall sw t else f) r
  | _ :: r => futAlong id f r

/-- the first call of handler `id` in a trace -/
def firstCall (id : Nat) : List NObs → Option (Nat × Nat)
  | [] => none
  | .call sw cb _ _ t :: r => if cb = id then some (sw, t) else firstCall id r
  | _ :: r => firstCall id r

/-! ## line protocol (lines that start with `n`): `n new <maxDepth>`, `n sw <invert> <state> <hw>`,
`n prog <cb> (a|r <sw> <st> <ms> <cb> | p <sw> l|r <v>)*`, `n report <i> l|r <v>`, `n add <i> <st> <ms> <cb>`, `n rm …`,
`n wake <i>`, `n to <t>`, `n mon <m> 0|1`, `n pending <i>` -/

def showNObs : NObs → String
  | .call sw cb st ms t => s!"c {sw} {cb} {showB st} {ms} {t}"
  | .mon m sw st => s!"m {m} {sw} {showB st}"
  | .rep sw st => s!"r {sw} {showB st}"
  | .overflow => "overflow"

def showNAll (os : List NObs) : String := if os.isEmpty then "ok" else " ".intercalate (os.map showNObs)

def parseNActs : List String → Option (List NAct)
  | [] => some []
  | "p" :: sw :: k :: v :: rest => do
    let l ← if k == "l" then some true else if k == "r" then some false else none
    let tl ← parseNActs rest
    some (.report (← sw.toNat?) l (← b01 v) :: tl)
  | k :: sw :: st :: ms :: cb :: rest => do
    let sw ← sw.toNat?
    let st ← b01 st
    let ms ← ms.toNat?
    let cb ← cb.toNat?
    let tl ← parseNActs rest
    if k == "a" then some (.add sw st ms cb :: tl) else if k == "r" then some (.remove sw st ms cb :: tl) else none
  | _ => none

def nprogOf (l : List (Nat × List NAct)) : NProg := fun cb =>
  match l.find? (fun kv => kv.1 == cb) with
  | some kv => kv.2
  | none => []

def showNPending (s : NSw) : String :=
  "T " ++ " ".intercalate (s.timed.map (fun kv => s!"{kv.1}:" ++ ",".intercalate (kv.2.map (fun e => s!"{e.cb}/{showB e.st}/{e.ms}"))))
    ++ " W " ++ (match s.wake with | none => "-" | some w => toString w)
    ++ " S " ++ showB s.state ++ showB s.hw
    ++ " R " ++ ",".intercalate (s.reg0.map (fun r => s!"{r.cb}/0/{r.ms}") ++ s.reg1.map (fun r => s!"{r.cb}/1/{r.ms}"))

structure NDrv where
  net : Net := {}
  progs : List (Nat × List NAct) := []

def driverFuel : Nat := 20000

def nDriverStep (d : NDrv) (toks : List String) : NDrv × String :=
  let run (op : NOp) : NDrv × String :=
    match stepN driverFuel (nprogOf d.progs) d.net op with
    | some r => ({ d with net := r.1 }, showNAll r.2)
    | none => (d, "not-enabled")
  match toks with
  | ["new", md] =>
    match md.toNat? with
    | some md => ({ net := { maxDepth := md } }, "ok")
    | none => (d, "bad-op")
  | ["sw", inv, st, hw] =>
    match b01 inv, b01 st, b01 hw with
    | some i, some v, some h => ({ d with net := { d.net with sws := d.net.sws ++ [{ invert := i, state := v, hw := h }] } }, "ok")
    | _, _, _ => (d, "bad-op")
  | "prog" :: cb :: rest =>
    match cb.toNat?, parseNActs rest with
    | some cb, some acts => ({ d with progs := (cb, acts) :: d.progs }, "ok")
    | _, _ => (d, "bad-op")
  | ["report", i, k, v] =>
    match i.toNat?, (if k == "l" then some true else if k == "r" then some false else none), b01 v with
    | some i, some l, some v => if i < d.net.sws.length then run (.act (.report i l v)) else (d, "bad-op")
    | _, _, _ => (d, "bad-op")
  | ["add", i, st, ms, cb] =>
    match i.toNat?, b01 st, ms.toNat?, cb.toNat? with
    | some i, some st, some ms, some cb => if i < d.net.sws.length then run (.act (.add i st ms cb)) else (d, "bad-op")
    | _, _, _, _ => (d, "bad-op")
  | ["rm", i, st, ms, cb] =>
    match i.toNat?, b01 st, ms.toNat?, cb.toNat? with
    | some i, some st, some ms, some cb => if i < d.net.sws.length then run (.act (.remove i st ms cb)) else (d, "bad-op")
    | _, _, _, _ => (d, "bad-op")
  | ["wake", i] =>
    match i.toNat? with
    | some i => run (.wake i)
    | none => (d, "bad-op")
  | ["to", t] =>
    match t.toNat? with
    | some t => run (.to t)
    | none => (d, "bad-op")
  | ["mon", m, on] =>
    match m.toNat?, b01 on with
    | some m, some on => run (.monitor m on)
    | _, _ => (d, "bad-op")
  | ["pending", i] =>
    match i.toNat? with
    | some i => match d.net.sws[i]? with
      | some s => (d, showNPending s)
      | none => (d, "bad-op")
    | none => (d, "bad-op")
  | _ => (d, "bad-op")

/-- both models behind one driver: lines starting with `n` go to the net model -/
def bothStep (d : Drv × NDrv) (line : String) : (Drv × NDrv) × String :=
  match (line.splitOn " ").filter (fun x => x != "") with
  | "n" :: rest => let r := nDriverStep d.2 rest; ((d.1, r.1), r.2)
  | _ => let r := driverStep d.1 line; ((r.1, d.2), r.2)

end MpfVerif.SwitchNet
