import MpfVerif.Gen.Crc8
/-!
# Serial framing (C14) — byte-level models of the three incremental decoders

Bytes are `Nat` (< 256 where it matters).
* `delimStep d` — FAST `parse_incoming_raw_bytes` (`d = 13`, `\r`) and PKONE `_parse_msg` (`d = 69`, `E`): the carried
  state is the text after the last delimiter, every delimiter closes one frame (possibly empty).
* OPP `_parse_msg` twice: `parseChunk` is a transcription of the Python loop (`part_msg`, `_lost_synch`, the
  `while strlen > 2` threshold, 7/11-byte frames, EOM); `aStep` is the byte-at-a-time automaton it is proved to simulate.
* `crc8` — `OppRs232Intf.calc_crc8_part_msg` over the generated table `Gen.crc8Table`; `processFrame` —
  `read_gen2_inp_resp` / `read_matrix_inp_resp` (CRC check, unknown card, changed bits → switch events, `old_state`).
* `fastDispatch` — `_dispatch_incoming_msg` for the run-time report set (`-L:` / `/L:` / `SA:` / ignored / unknown).
The only import is the generated table (plain data, no further imports).
-/
namespace MpfVerif.Framing

abbrev Bytes := List Nat

/-! ## generic byte-at-a-time run -/

def feed {σ α : Type} (step : σ → Nat → σ × List α) : σ → Bytes → σ × List α
  | s, [] => (s, [])
  | s, b :: r =>
    let (s1, o1) := step s b
    let (s2, o2) := feed step s1 r
    (s2, o1 ++ o2)

def feedChunks {σ α : Type} (step : σ → Nat → σ × List α) : σ → List Bytes → σ × List α
  | s, [] => (s, [])
  | s, c :: r =>
    let (s1, o1) := feed step s c
    let (s2, o2) := feedChunks step s1 r
    (s2, o1 ++ o2)

/-! ## delimiter framing (FAST `\r`, PKONE `E`) -/

/-- state = bytes received since the last delimiter (`received_msg`) -/
def delimStep (d : Nat) (buf : Bytes) (b : Nat) : Bytes × List Bytes :=
  if b = d then ([], [buf]) else (buf ++ [b], [])

def CR : Nat := 13
def PKE : Nat := 69

/-- what PKONE `_parse_msg` does with one frame: empty frames are dropped, a frame that is not UTF-8 is skipped with a
warning, everything else goes to the ignore list / `process_received_message`.  There is no raising outcome. -/
inductive PObs
  | empty | skipped | msg (f : Bytes)
  deriving DecidableEq, Repr

def pkDeliver (f : Bytes) : PObs :=
  if f.isEmpty then .empty else if f.any (fun b => 128 ≤ b) then .skipped else .msg f

/-- `_parse_msg(chunk)`: carried bytes and what happened to each completed frame -/
def pkRun (buf : Bytes) (chunk : Bytes) : Bytes × List PObs :=
  ((feed (delimStep 69) buf chunk).1, (feed (delimStep 69) buf chunk).2.map pkDeliver)

/-! ## OPP: transcription of `_parse_msg` -/

/-- `(b & 0xe0) == 0x20` for a byte -/
def isAddr (b : Nat) : Bool := 32 ≤ b && b ≤ 63

def EOM : Nat := 255
def CMD_INP : Nat := 8      -- READ_GEN2_INP_CMD
def CMD_MTX : Nat := 25     -- READ_MATRIX_INP

structure PSt where
  buf : Bytes := []       -- part_msg
  lost : Bool := false    -- _lost_synch
  deriving DecidableEq, Repr

/-- the inner `while strlen > 0` loop of the lost-synch branch: drop bytes up to the next card address -/
def dropToAddr : Bytes → Bytes
  | [] => []
  | b :: r => if isAddr b then b :: r else dropToAddr r

/-- one iteration of the outer `while strlen > 2` loop; `none` = the loop ends (condition false or `break`) -/
def iter (s : PSt) : Option (PSt × List Bytes) :=
  if s.buf.length ≤ 2 then none
  else if s.lost then
    let r := dropToAddr s.buf
    some ({ buf := r, lost := r.isEmpty }, [])
  else match s.buf with
    | a :: c :: rest =>
      if isAddr a then
        if c = CMD_INP then
          (if 7 ≤ s.buf.length then some ({ buf := s.buf.drop 7, lost := false }, [s.buf.take 7]) else none)
        else if c = CMD_MTX then
          (if 11 ≤ s.buf.length then some ({ buf := s.buf.drop 11, lost := false }, [s.buf.take 11]) else none)
        else some ({ buf := rest, lost := true }, [])
      else if a = EOM then some ({ buf := c :: rest, lost := false }, [])
      else some ({ buf := c :: rest, lost := true }, [])
    | _ => none

def parseLoop : Nat → PSt → PSt × List Bytes
  | 0, s => (s, [])
  | f + 1, s =>
    match iter s with
    | none => (s, [])
    | some (s1, o1) =>
      let (s2, o2) := parseLoop f s1
      (s2, o1 ++ o2)

/-- `_parse_msg(chunk)`: append, then loop (the fuel is never exhausted: `parseLoop_done`) -/
def parseChunk (s : PSt) (c : Bytes) : PSt × List Bytes :=
  parseLoop (2 * (s.buf ++ c).length + 2) { s with buf := s.buf ++ c }

def parseChunks : PSt → List Bytes → PSt × List Bytes
  | s, [] => (s, [])
  | s, c :: r =>
    let (s1, o1) := parseChunk s c
    let (s2, o2) := parseChunks s1 r
    (s2, o1 ++ o2)

/-! ## OPP: the byte-at-a-time automaton -/

inductive AMode
  | idle
  | lost
  | hdr (a : Nat)                       -- a card address was read
  | body (acc : Bytes) (need : Nat)     -- inside a frame: bytes so far (arrival order), bytes still missing
  deriving DecidableEq, Repr

def aStep (m : AMode) (b : Nat) : AMode × List Bytes :=
  match m with
  | .idle => if isAddr b then (.hdr b, []) else if b = EOM then (.idle, []) else (.lost, [])
  | .lost => if isAddr b then (.hdr b, []) else (.lost, [])
  | .hdr a =>
    if b = CMD_INP then (.body [a, b] 5, [])
    else if b = CMD_MTX then (.body [a, b] 9, [])
    else (.lost, [])
  | .body acc need => if need ≤ 1 then (.idle, [acc ++ [b]]) else (.body (acc ++ [b]) (need - 1), [])

def modeOf (lost : Bool) : AMode := if lost then .lost else .idle

/-- the automaton state a transcription state stands for: run the carried bytes -/
def absSt (s : PSt) : AMode := (feed aStep (modeOf s.lost) s.buf).1

/-! ## CRC-8 and the input-report handlers of `opp.py` -/

def crcStep (c b : Nat) : Nat := Gen.crc8Table.getD (c ^^^ b) 0

/-- `calc_crc8_part_msg` / `calc_crc8_whole_msg` -/
def crc8 (m : Bytes) : Nat := m.foldl crcStep 255

/-- last byte equals the CRC of the bytes before it -/
def crcOk (f : Bytes) : Bool := crc8 f.dropLast == f.getLastD 0

def byteBits (b : Nat) : List Bool :=
  [b % 2 == 1, b / 2 % 2 == 1, b / 4 % 2 == 1, b / 8 % 2 == 1,
   b / 16 % 2 == 1, b / 32 % 2 == 1, b / 64 % 2 == 1, b / 128 % 2 == 1]

/-- bit list (index 0 first) of a big-endian byte string -/
def beBits : Bytes → List Bool
  | [] => []
  | b :: r => beBits r ++ byteBits b

structure Card where
  addr : Nat
  old : List Bool      -- old_state, bit 0 first (raw input level; a switch is active when its bit is 0)
  sw : List Bool       -- state last reported to the switch controller per input
  deriving DecidableEq, Repr

/-- switch states after a report: changed inputs are reported with state = not bit -/
def updSw : List Bool → List Bool → List Bool → List Bool
  | o :: os, n :: ns, s :: ss => (if o != n then !n else s) :: updSw os ns ss
  | _, _, _ => []

/-- `process_switch_by_num` calls of one report: (input index, state) for the changed bits in index order -/
def changes : Nat → List Bool → List Bool → List (Nat × Bool)
  | i, o :: os, n :: ns => (if o != n then [(i, !n)] else []) ++ changes (i + 1) os ns
  | _, _, _ => []

abbrev Ev := Nat × Nat × Bool     -- card address, input index, state

def updCards (base : Nat) (a : Nat) (new : List Bool) : List Card → List Card × List Ev
  | [] => ([], [])
  | c :: r =>
    if c.addr = a then
      ({ c with old := new, sw := updSw c.old new c.sw } :: r, (changes base c.old new).map (fun e => (a, e.1, e.2)))
    else
      let (r', ev) := updCards base a new r
      (c :: r', ev)

structure Plat where
  inp : List Card := []     -- inp_addr_dict
  mtx : List Card := []     -- matrix_inp_addr_dict
  badCrc : Nat := 0
  deriving DecidableEq, Repr

/-- `process_received_message` on a frame delivered by `_parse_msg` -/
def processFrame (p : Plat) (f : Bytes) : Plat × List Ev :=
  match f with
  | [a, c, m2, m3, m4, m5, _] =>
    if c = CMD_INP then
      if crcOk f then
        let (cs, ev) := updCards 0 a (beBits [m2, m3, m4, m5]) p.inp
        ({ p with inp := cs }, ev)
      else ({ p with badCrc := p.badCrc + 1 }, [])
    else (p, [])
  | [a, c, m2, m3, m4, m5, m6, m7, m8, m9, _] =>
    if c = CMD_MTX then
      if crcOk f then
        let (cs, ev) := updCards 32 a (beBits [m2, m3, m4, m5, m6, m7, m8, m9]) p.mtx
        ({ p with mtx := cs }, ev)
      else ({ p with badCrc := p.badCrc + 1 }, [])
    else (p, [])
  | _ => (p, [])

def processFrames : Plat → List Bytes → Plat × List Ev
  | p, [] => (p, [])
  | p, f :: r =>
    let (p1, e1) := processFrame p f
    let (p2, e2) := processFrames p1 r
    (p2, e1 ++ e2)

/-! ## FAST dispatch of one frame (run-time report set) -/

def unhexB (b : Nat) : Option Nat :=
  if 48 ≤ b ∧ b ≤ 57 then some (b - 48)
  else if 65 ≤ b ∧ b ≤ 70 then some (b - 55)
  else if 97 ≤ b ∧ b ≤ 102 then some (b - 87)
  else none

/-- strict hexadecimal number: non-empty, hex digits only -/
def hexNum : Nat → Bytes → Option Nat
  | acc, [] => some acc
  | acc, b :: r => match unhexB b with
    | some v => hexNum (acc * 16 + v) r
    | none => none

def parseHex (t : Bytes) : Option Nat := if t.isEmpty then none else hexNum 0 t

/-- `bytearray.fromhex` on a digit string without blanks -/
def hexBytes : Bytes → Option Bytes
  | [] => some []
  | [_] => none
  | a :: b :: r =>
    match unhexB a, unhexB b, hexBytes r with
    | some x, some y, some t => some ((x * 16 + y) :: t)
    | _, _, _ => none

def splitAll (sep : Nat) : Bytes → List Bytes
  | [] => [[]]
  | b :: r => if b = sep then [] :: splitAll sep r else
      match splitAll sep r with
      | [] => [[b]]
      | h :: t => (b :: h) :: t

inductive FObs
  | ignored                      -- in IGNORED_MESSAGES
  | closed (n : Nat)             -- `-L:` switch closed
  | opened (n : Nat)             -- `/L:` switch open
  | report (bits : List Bool)    -- `SA:` all switch states
  | skipped                      -- a message processor raised ValueError: frame skipped with a warning
  | undecodable                  -- not UTF-8: UnicodeDecodeError leaves the parser (known finding)
  | noproc                       -- no processor for this header
  deriving DecidableEq, Repr

def sWDP : Bytes := [87, 68, 58, 80]   -- "WD:P"
def sTLP : Bytes := [84, 76, 58, 80]   -- "TL:P"
def hClosed : Bytes := [45, 76, 58]    -- "-L:"
def hOpen : Bytes := [47, 76, 58]      -- "/L:"
def hSA : Bytes := [83, 65, 58]        -- "SA:"

/-- bit `i` of byte `offset` is switch `offset*8+i` -/
def saBits : Bytes → List Bool
  | [] => []
  | b :: r => byteBits b ++ saBits r

def fastDispatch (f : Bytes) : FObs :=
  if f.any (fun b => 128 ≤ b) then .undecodable
  else if f = sWDP ∨ f = sTLP then .ignored
  else
    let h := f.take 3
    let rest := f.drop 3
    if h = hClosed then (match parseHex rest with | some n => .closed n | none => .skipped)
    else if h = hOpen then (match parseHex rest with | some n => .opened n | none => .skipped)
    else if h = hSA then
      (match splitAll 44 rest with
       | [c, d] =>
         (match parseHex c, hexBytes d with
          | some k, some bs => if bs.length = k then .report (saBits bs) else .skipped   -- announced byte count
          | _, _ => .skipped)
       | _ => .skipped)
    else .noproc

structure FSw where
  table : List Bool := []     -- switch controller: state by switch number
  hw : List Bool := []        -- platform.hw_switch_data of the last SA report
  deriving DecidableEq, Repr

def setAt : List Bool → Nat → Bool → List Bool
  | [], _, _ => []
  | _ :: r, 0, v => v :: r
  | x :: r, n + 1, v => x :: setAt r n v

def fastApply (s : FSw) : FObs → FSw
  | .closed n => { s with table := setAt s.table n true }
  | .opened n => { s with table := setAt s.table n false }
  | .report bits => { s with hw := bits }
  | _ => s

/-- frames are dispatched in order; empty frames are dropped before dispatch -/
def fastFrames (s : FSw) : List Bytes → FSw × List FObs
  | [] => (s, [])
  | f :: r =>
    if f.isEmpty then fastFrames s r else
    let o := fastDispatch f
    let (s', os) := fastFrames (fastApply s o) r
    (s', o :: os)

/-! ## FAST switch states on the real platform: `SA:` snapshots and `-L:`/`/L:` events together

`cfg n`: a switch with hardware number `n` is configured on this platform; `inv n`: it is normally closed (`invert`).
An event reports the *logical* state of one switch (`process_switch_by_num(..., logical=True)`); a snapshot carries one raw
bit per switch number and sets every configured switch it lists to `invert xor bit`
(`_process_sa` → `platform.hw_switch_data` → `update_switches_from_hw_data`). -/

structure PSw where
  cfg : List Bool := []
  inv : List Bool := []
  logical : List Bool := []    -- switch_controller.is_active by hardware number (unconfigured numbers stay false)
  hw : List Bool := []         -- platform.hw_switch_data (the last snapshot)
  deriving DecidableEq, Repr

/-- a report that can change switch states -/
inductive SOp
  | snap (bits : List Bool)
  | ev (n : Nat) (active : Bool)
  deriving DecidableEq, Repr

/-- what a snapshot says about switch `n` (`cur` if it says nothing: not configured or not listed) -/
def snapAt (cfg inv bits : List Bool) (n : Nat) (cur : Bool) : Bool :=
  match cfg[n]?, inv[n]?, bits[n]? with
  | some true, some i, some b => i != b
  | _, _, _ => cur

def snapUpd : List Bool → List Bool → List Bool → List Bool → List Bool   -- cfg inv bits logical
  | c :: cs, i :: is, b :: bs, l :: ls => (if c then i != b else l) :: snapUpd cs is bs ls
  | _, _, _, ls => ls

def swApply (s : PSw) : SOp → PSw
  | .snap bits => { s with logical := snapUpd s.cfg s.inv bits s.logical, hw := bits }
  | .ev n a => if s.cfg[n]? = some true then { s with logical := setAt s.logical n a } else s

def swRun : PSw → List SOp → PSw
  | s, [] => s
  | s, o :: r => swRun (swApply s o) r

/-- what one report says about switch `n`, given what was known before -/
def sayAt (s : PSw) (n : Nat) (cur : Bool) : SOp → Bool
  | .snap bits => snapAt s.cfg s.inv bits n cur
  | .ev m a => if m = n ∧ s.cfg[n]? = some true then a else cur

def toSOp : FObs → Option SOp
  | .closed n => some (.ev n true)
  | .opened n => some (.ev n false)
  | .report bits => some (.snap bits)
  | _ => none

def swFrames (s : PSw) : List Bytes → PSw × List FObs
  | [] => (s, [])
  | f :: r =>
    if f.isEmpty then swFrames s r else
    let o := fastDispatch f
    let s1 := match toSOp o with | some op => swApply s op | none => s
    let (s', os) := swFrames s1 r
    (s', o :: os)

/-! ## FAST command writer (`_socket_writer`, `pause_sending`, `_dispatch_incoming_msg`) as the code is -/

structure WMsg where
  id : Nat
  confirm : Option Bytes      -- pause_sending_until header, `none` for send_and_forget
  deriving DecidableEq, Repr

structure WSt where
  queue : List WMsg := []          -- send_queue, head = next
  flag : Bool := false             -- pause_sending_flag
  until_ : Option Bytes := none    -- pause_sending_until
  log : List Nat := []             -- ids written to the port, oldest first
  deriving DecidableEq, Repr

inductive WOp
  | enq (m : WMsg)        -- send_with_confirmation / send_and_forget
  | step                  -- one iteration of the writer loop (enabled when the queue is non-empty)
  | recv (hdr : Bytes)    -- a message with this 3-byte header is dispatched
  deriving DecidableEq, Repr

def isPrefix : Bytes → Bytes → Bool
  | [], _ => true
  | _ :: _, [] => false
  | a :: r, b :: t => a == b && isPrefix r t

/-- `await pause_sending_flag.wait()` returns at once when the flag is set, so a step never blocks -/
def wStep (s : WSt) : WOp → WSt
  | .enq m => { s with queue := s.queue ++ [m] }
  | .step =>
    match s.queue with
    | [] => s
    | m :: q =>
      match m.confirm with
      | some h => { queue := q, flag := true, until_ := some h, log := s.log ++ [m.id] }
      | none => { s with queue := q, log := s.log ++ [m.id] }
  | .recv hdr =>
    match s.until_ with
    | some u => if s.flag && isPrefix hdr u then { s with flag := false, until_ := none } else s
    | none => s

def wRun : WSt → List WOp → WSt
  | s, [] => s
  | s, o :: r => wRun (wStep s o) r

/-- the flow-control monitor: a writer step that puts bytes on the port while a confirmation is outstanding -/
def violates (s : WSt) : WOp → Bool
  | .step => s.flag && !s.queue.isEmpty
  | _ => false

def countViol : WSt → List WOp → Nat
  | _, [] => 0
  | s, o :: r => (if violates s o then 1 else 0) + countViol (wStep s o) r

/-- sender-side discipline: a command is handed over only when nothing is queued and no confirmation is outstanding -/
def disciplined : WSt → List WOp → Bool
  | _, [] => true
  | s, o :: r =>
    (match o with
     | .enq _ => !s.flag && s.queue.isEmpty
     | _ => true) && disciplined (wStep s o) r

/-! ## `send_and_wait_for_response_processed` as the code is

The time-out of `asyncio.wait_for` guards `send_and_wait_for_response`, which returns as soon as the command has been
handed to the send queue (after waiting for `no_response_waiting`); the response itself is awaited afterwards with
`done_waiting.wait()` and no time-out. -/

inductive RPhase
  | gate        -- inside the retry loop, waiting for no_response_waiting
  | waitDone    -- after the loop: `await done_waiting.wait()`
  | finished
  deriving DecidableEq, Repr

structure RSt where
  noResp : Bool := true      -- no_response_waiting
  done : Bool := false       -- done_waiting
  written : Nat := 0         -- times the command was handed to the writer
  retries : Nat := 0
  maxRetries : Nat := 0
  phase : RPhase := .gate
  deriving DecidableEq, Repr

inductive ROp
  | timeout     -- `timeout` seconds pass
  | response    -- a response with a registered header is processed and calls done_processing_msg_response()
  deriving DecidableEq, Repr

/-- run the coroutine as far as it gets without waiting -/
def rAdvance (s : RSt) : RSt :=
  let s1 := if s.phase = .gate ∧ s.noResp then { s with noResp := false, written := s.written + 1, phase := .waitDone } else s
  if s1.phase = .waitDone ∧ s1.done then { s1 with phase := .finished } else s1

def rStep (s : RSt) : ROp → RSt
  | .timeout =>
    if s.phase = .gate ∧ ¬ s.noResp then
      rAdvance (if s.retries + 1 > s.maxRetries then { s with retries := s.retries + 1, phase := .waitDone }
                else { s with retries := s.retries + 1 })
    else s
  | .response => rAdvance { s with noResp := true, done := true }

def rRun : RSt → List ROp → RSt
  | s, [] => s
  | s, o :: r => rRun (rStep s o) r

/-! ## line-protocol driver -/

def hexVal (c : Char) : Option Nat :=
  if '0' ≤ c ∧ c ≤ '9' then some (c.toNat - 48)
  else if 'a' ≤ c ∧ c ≤ 'f' then some (c.toNat - 87)
  else none

def unhexStr : List Char → Option Bytes
  | [] => some []
  | [_] => none
  | a :: b :: r => do
    let x ← hexVal a; let y ← hexVal b; let t ← unhexStr r
    pure ((x * 16 + y) :: t)

def ofHex (s : String) : Option Bytes := if s = "-" then some [] else unhexStr s.toList

def hexChar (n : Nat) : Char := if n < 10 then Char.ofNat (48 + n) else Char.ofNat (87 + n)

def toHex (b : Bytes) : String :=
  if b.isEmpty then "-" else String.ofList (b.flatMap (fun x => [hexChar (x / 16), hexChar (x % 16)]))

def bitsStr (l : List Bool) : String :=
  if l.isEmpty then "-" else String.ofList (l.map (fun b => if b then '1' else '0'))

def showFObs : FObs → String
  | .ignored => "ign"
  | .closed n => "c" ++ toString n
  | .opened n => "o" ++ toString n
  | .report bits => "sa" ++ bitsStr bits
  | .skipped => "bad"
  | .undecodable => "und"
  | .noproc => "unk"

def showEv (e : Ev) : String := "s" ++ toString e.1 ++ "." ++ toString e.2.1 ++ "=" ++ (if e.2.2 then "1" else "0")

def showCards (cs : List Card) : String :=
  String.join (cs.map (fun c => " " ++ toString c.addr ++ ":" ++ bitsStr c.old ++ ":" ++ bitsStr c.sw))

def showMode : AMode → String
  | .idle => "idle"
  | .lost => "lost"
  | .hdr a => "hdr" ++ toString a
  | .body acc n => "body" ++ toHex acc ++ "+" ++ toString n

structure DSt where
  fast : Bytes := []
  fsw : FSw := {}
  pk : Bytes := []
  opp : PSt := {}
  auto : AMode := .idle
  plat : Plat := {}
  w : WSt := {}
  r : RSt := {}
  psw : PSw := {}
  pbuf : Bytes := []

def words (l : List String) : String := " ".intercalate l

def showW (w : WSt) : String :=
  "log=" ++ (if w.log.isEmpty then "-" else ",".intercalate (w.log.map toString)) ++
  " q=" ++ toString w.queue.length ++ " flag=" ++ (if w.flag then "1" else "0") ++
  " until=" ++ (match w.until_ with | some u => toHex u | none => "none")

def showR (r : RSt) : String :=
  "written=" ++ toString r.written ++ " fin=" ++ (if r.phase = .finished then "1" else "0") ++
  " gate=" ++ (if r.noResp then "1" else "0")

def driverStep (s : DSt) (line : String) : DSt × String :=
  match line.splitOn " " with
  | ["reset"] => ({}, "ok")
  | ["fastinit", n] =>
    match n.toNat? with
    | some k => ({ s with fsw := { table := List.replicate k false, hw := [] }, fast := [] }, "ok")
    | none => (s, "bad-op")
  | ["fast", c] =>
    match ofHex c with
    | some b =>
      let (buf, frames) := feed (delimStep CR) s.fast b
      let (sw, obs) := fastFrames s.fsw frames
      ({ s with fast := buf, fsw := sw },
        words (obs.map showFObs ++ ["buf=" ++ toHex buf, "t=" ++ bitsStr sw.table, "hw=" ++ bitsStr sw.hw]))
    | none => (s, "bad-op")
  | ["pk", c] =>
    match ofHex c with
    | some b =>
      let (buf, frames) := feed (delimStep PKE) s.pk b
      ({ s with pk := buf }, words (frames.map (fun f => match pkDeliver f with
          | .empty => "e" | .skipped => "und" | .msg g => "m" ++ toHex g) ++ ["buf=" ++ toHex buf]))
    | none => (s, "bad-op")
  | ["card", kind, a] =>
    match a.toNat? with
    | some ad =>
      if kind = "i" then
        ({ s with plat := { s.plat with inp := s.plat.inp ++ [{ addr := ad, old := List.replicate 32 true, sw := List.replicate 32 false }] } }, "ok")
      else if kind = "m" then
        ({ s with plat := { s.plat with mtx := s.plat.mtx ++ [{ addr := ad, old := List.replicate 64 true, sw := List.replicate 64 false }] } }, "ok")
      else (s, "bad-op")
    | none => (s, "bad-op")
  | ["opp", c] =>
    match ofHex c with
    | some b =>
      let (ps, frames) := parseChunk s.opp b
      let (am, aframes) := feed aStep s.auto b
      let (pl, evs) := processFrames s.plat frames
      ({ s with opp := ps, auto := am, plat := pl },
        words (frames.map (fun f => "f" ++ toHex f) ++ ["|"] ++ aframes.map (fun f => "a" ++ toHex f) ++ ["|"] ++
               evs.map showEv ++
               ["buf=" ++ toHex ps.buf, "lost=" ++ (if ps.lost then "1" else "0"), "crc=" ++ toString pl.badCrc,
                "norm=" ++ (if absSt ps = am then "1" else "0")]))
    | none => (s, "bad-op")
  | ["oppstate"] => (s, "inp" ++ showCards s.plat.inp ++ " mtx" ++ showCards s.plat.mtx ++ " auto=" ++ showMode s.auto)
  | ["crc", c] =>
    match ofHex c with
    | some b => (s, toString (crc8 b))
    | none => (s, "bad-op")
  | ["wq", "c", i, h] =>
    match i.toNat?, ofHex h with
    | some k, some hb => let w := wStep s.w (.enq { id := k, confirm := some hb }); ({ s with w := w }, showW w)
    | _, _ => (s, "bad-op")
  | ["wq", "f", i] =>
    match i.toNat? with
    | some k => let w := wStep s.w (.enq { id := k, confirm := none }); ({ s with w := w }, showW w)
    | none => (s, "bad-op")
  | ["wstep"] =>
    if s.w.queue.isEmpty then (s, "not-enabled") else
    let w := wStep s.w .step; ({ s with w := w }, showW w)
  | ["wrecv", h] =>
    match ofHex h with
    | some hb => let w := wStep s.w (.recv hb); ({ s with w := w }, showW w)
    | none => (s, "bad-op")
  | ["swinit", c, i, l, h] =>
    let bits := fun (t : String) => if t = "-" then [] else t.toList.map (fun ch => ch == '1')
    ({ s with psw := { cfg := bits c, inv := bits i, logical := bits l, hw := bits h }, pbuf := [] }, "ok")
  | ["fastsw", c] =>
    match ofHex c with
    | some b =>
      let (buf, frames) := feed (delimStep CR) s.pbuf b
      let (sw, obs) := swFrames s.psw frames
      ({ s with pbuf := buf, psw := sw },
        words (obs.map (fun o => match o with | .report _ => "sa" | x => showFObs x) ++
               ["buf=" ++ toHex buf, "l=" ++ bitsStr sw.logical, "hw=" ++ bitsStr sw.hw]))
    | none => (s, "bad-op")
  | ["rstart", g, m] =>
    match m.toNat? with
    | some k => let r := rAdvance { noResp := g = "1", maxRetries := k }; ({ s with r := r }, showR r)
    | none => (s, "bad-op")
  | ["rtimeout"] => let r := rStep s.r .timeout; ({ s with r := r }, showR r)
  | ["rresponse"] => let r := rStep s.r .response; ({ s with r := r }, showR r)
  | _ => (s, "bad-op")

end MpfVerif.Framing
