/-!
# Credits mode (C20) — model of `mpf/modes/credits/code/credits.py` in integer *credit units*

Money is counted in whole money units (`one` of them make one currency unit; the correspondence run uses cents).
`creditUnit` / `upg` (credit units per game) = `_calculate_credit_units`, `tierUnits` / `cum` / `table` =
`_calculate_pricing_tiers`, `addUnits` = `_add_credit_units` (cap at `max_credits`, pricing-tier bonus),
`playerAdded` = `_player_added`, `clearFrac` = `_clear_fractional_credits`, `clearAll` = `clear_all_credits`,
the two expiration delays are absolute deadlines in seconds, `enableCredit` / `enableFree` the play-mode switches.
The start gate (`_request_to_start_game`, `_player_add_request`) sits in front of the player-add rules of `game.py`
(`max_players`, only during ball 1), with just enough of the ball rotation to know when ball 2 of player 1 starts.

One harness step = `act` (the request itself) followed by `tick 1` (one second of virtual time).
Well-formedness `WF` (every price and coin value is a whole multiple of the computed credit unit, no tier is a bad
deal) is what makes the float arithmetic of the implementation exact; configurations outside it are not modelled.
-/
namespace MpfVerif.Credits

structure Cfg where
  one : Nat := 100                     -- money units per currency unit
  maxCredits : Nat := 0                -- max_credits (0 = unlimited)
  fracExp : Nat := 0                   -- fractional_credit_expiration_time in s (0 = off)
  allExp : Nat := 0                    -- credit_expiration_time in s (0 = off)
  ballsPerGame : Nat := 3
  maxPlayers : Nat := 4
  freePlay : Bool := false             -- `free_play` setting at boot
  coins : List Nat := []               -- value of each coin switch, in money units
  tiers : List (Nat × Nat) := []       -- pricing_tiers: (price in money units, credits)
  events : List Nat := []              -- credits given by each credit event
  service : Bool := true               -- a `service_credits_switch` is configured
  persist : Nat := 0                   -- persist_credits_while_off_time in s (0 = credit_units is not persisted)
  inhibit : Bool := false              -- a `coin_inhibit_disable_output` is configured
  deriving Repr

/-- price of tier 0, or one currency unit without pricing tiers -/
def pricePerGame (c : Cfg) : Nat :=
  match c.tiers with
  | [] => c.one
  | (p, _) :: _ => p

def listMin : List Nat → Nat
  | [] => 0
  | [a] => a
  | a :: r => min a (listMin r)

def minCurrency (c : Cfg) : Nat :=
  match c.coins with
  | [] => pricePerGame c
  | cs => listMin cs

/-- `_calculate_credit_units`: the credit unit in money units -/
def creditUnit (c : Cfg) : Nat :=
  let m := minCurrency c
  let p := pricePerGame c
  if m = p then m
  else if m < p then (if p - m > m then m else p - m)
  else (if m - p > p then p else m - p)

/-- credit units per game -/
def upg (c : Cfg) : Nat := pricePerGame c / creditUnit c

/-- the accepted tiers as (credit units, bonus), and the wrap-around value; a tier cheaper than the previous one is
skipped -/
def tierScan (c : Cfg) : List (Nat × Nat) → Nat → List (Nat × Int) → Nat × List (Nat × Int)
  | [], wrap, acc => (wrap, acc)
  | (p, cr) :: rest, wrap, acc =>
    let cu := p / creditUnit c
    if wrap > cu then tierScan c rest wrap acc
    else tierScan c rest cu (acc ++ [(cu, (upg c * cr : Int) - cu)])

def tierUnits (c : Cfg) : List (Nat × Int) :=
  match c.tiers with
  | [] => []
  | ts => (tierScan c ts 0 []).2

def wrap (c : Cfg) : Nat :=
  match c.tiers with
  | [] => 1
  | ts => (tierScan c ts 0 []).1

/-- greedy: largest tier first, as often as it fits (`while units - accounted >= tier_credit_units`) -/
def greedy : List (Nat × Int) → Nat → Int → Int
  | [], _, b => b
  | (tu, tb) :: rest, left, b =>
    if tu = 0 then greedy rest left b
    else greedy rest (left % tu) (b + (left / tu : Nat) * tb)

/-- total bonus after `u` credit units -/
def cum (c : Cfg) (u : Nat) : Int := greedy (tierUnits c).reverse u 0

/-- `pricing_table[u]`: the bonus granted when the `u`-th unit arrives -/
def table (c : Cfg) (u : Nat) : Int :=
  match u with
  | 0 => cum c 0
  | k + 1 => cum c (k + 1) - cum c k

def maxUnits (c : Cfg) : Int := (c.maxCredits * upg c : Nat)

def allDvd (d : Nat) : List Nat → Bool
  | [] => true
  | a :: r => a % d == 0 && allDvd d r

def tableNonneg (c : Cfg) (n : Nat) : Bool := (List.range (n + 1)).all (fun k => decide (0 ≤ table c k))

/-- the arithmetic of the implementation is exact and no unit ever carries a negative bonus -/
def WF (c : Cfg) : Bool :=
  decide (0 < creditUnit c) && decide (0 < upg c) && pricePerGame c % creditUnit c == 0 &&
  allDvd (creditUnit c) c.coins && allDvd (creditUnit c) (c.tiers.map (·.1)) &&
  decide (0 < wrap c) && tableNonneg c (wrap c)

structure Game where
  players : Nat
  cur : Nat       -- index of the current player (0-based)
  ball : Nat      -- ball number of the current player
  deriving DecidableEq, Repr

structure St where
  units : Int := 0                -- machine variable credit_units
  tier : Nat := 0                 -- credit_units_for_pricing_tiers
  resetThisGame : Bool := false
  freePlay : Bool := false
  shown : Option Int := none      -- the balance the credits_value / credits_string variables were rendered from
  game : Option Game := none
  now : Nat := 0
  fracDue : Option Nat := none
  allDue : Option Nat := none
  coinCount : Nat := 0            -- "1 Total Coins money"
  earn : Nat := 0                 -- "2 Total Earnings money" in money units
  awards : Nat := 0               -- "award Awards"
  service : Nat := 0              -- "service_credit Awards"
  paid : Nat := 0                 -- "3 Total Paid Games"
  inhibit : Option Bool := none   -- last command to the coin-inhibit-disable output (some true = enabled = coins allowed)
  stamp : Nat := 0                -- time of the last write of credit_units (its on-disk expiry runs from here)
  persisted : Bool := false       -- credit_units is written to disk
  expSecs : Nat := 0              -- ... and expires this many seconds after `stamp` (0 = never)
  nAdded : Nat := 0               -- `credits_added` events posted
  nMax : Nat := 0                 -- `max_credits_reached` events posted
  nNotEnough : Nat := 0           -- `not_enough_credits` events posted
  -- ghost ledger (not in the implementation)
  inUnits : Int := 0              -- credit units bought with accepted coins
  bonus : Int := 0                -- pricing-tier bonus granted
  granted : Int := 0              -- units from service credits and credit events
  deducted : Int := 0             -- units taken for started players
  lost : Int := 0                 -- units dropped by the cap, an expiration or a reset
  deriving Repr

inductive Op
  | coin (i : Nat) | service | event (j : Nat)
  | start | drain | endGame
  | adv (n : Nat)
  | fpOn | fpOff | toggle
  | reset | slam | earnReset
  | reboot (off : Nat)            -- power off, `off` seconds without power, power on
  | coinToggle (i : Nat)          -- a coin drops while a `toggle_credit_play` event is in the queue: coin first, then toggle
  deriving DecidableEq, Repr

def players (s : St) : Nat := match s.game with | none => 0 | some g => g.players

/-- `_update_credit_strings` -/
def updStrings (s : St) : St := { s with shown := if s.freePlay then s.shown else some s.units }

/-- `_control_coin_inhibit`: the output is enabled (coins physically accepted) in credit play while the balance *in credit
units* is below `max_credits` *in credits* — the code as it is -/
def controlInhibit (c : Cfg) (s : St) : St :=
  { s with inhibit := if c.inhibit then some (!s.freePlay && decide (s.units < (c.maxCredits : Int))) else s.inhibit }

/-- the `for _ in range(credit_units)` loop of `_add_credit_units`: (tier counter, bonus so far) -/
def tierLoop (c : Cfg) : Nat → Nat → Int → Nat × Int
  | 0, t, b => (t, b)
  | n + 1, t, b => tierLoop c n ((t + 1) % wrap c) (b + table c (t + 1))

/-- the balance `_add_credit_units` stores: `prev` before, `total` = prev + added + bonus, `mx` = cap in units (0 = none);
after the cap repair the capped total is what is stored -/
def newUnits (prev total mx : Int) : Int :=
  if mx ≤ 0 ∨ mx > prev then (if mx ≠ 0 ∧ total > mx then mx else total)
  else (if mx ≠ 0 ∧ total > mx then mx else prev)

/-- `_add_credit_units(n, price_tiering)` -/
def addUnits (c : Cfg) (s : St) (n : Nat) (tiering : Bool) : St :=
  let tb := if tiering then tierLoop c n (s.tier % wrap c) 0 else (s.tier % wrap c, 0)
  let total : Int := n + s.units + tb.2
  let mx := maxUnits c
  let u := newUnits s.units total mx
  controlInhibit c
  { s with tier := tb.1, bonus := s.bonus + tb.2, units := u, lost := s.lost + (total - u),
           stamp := if (mx ≠ 0 ∧ total > mx) ∨ (mx ≤ 0 ∨ mx > s.units) then s.now else s.stamp,
           nMax := if mx ≠ 0 ∧ total > mx then s.nMax + 1 else s.nMax,
           nAdded := if mx ≤ 0 ∨ mx > s.units then s.nAdded + 1 else s.nAdded,
           shown := if s.freePlay then s.shown
                    else if mx ≤ 0 ∨ mx > s.units then some u
                    else if mx ≠ 0 ∧ total > mx then some s.units   -- strings are refreshed before the variable is set
                    else s.shown }

/-- `_reset_timeouts` -/
def resetTimeouts (c : Cfg) (s : St) : St :=
  { s with fracDue := if c.fracExp ≠ 0 then some (s.now + c.fracExp) else s.fracDue,
           allDue := if c.allExp ≠ 0 then some (s.now + c.allExp) else s.allDue }

/-- `_clear_fractional_credits` -/
def clearFrac (c : Cfg) (s : St) : St :=
  updStrings { s with units := s.units - s.units % (upg c : Int), lost := s.lost + s.units % (upg c : Int),
                      stamp := s.now }

/-- `clear_all_credits` -/
def clearAll (s : St) : St :=
  updStrings { s with units := 0, tier := 0, lost := s.lost + s.units, stamp := s.now }

/-- the balance after `_player_added` -/
def deductUnits (c : Cfg) (u : Int) : Int := if u - upg c < 0 then 0 else u - upg c

/-- `_player_added` in credit play -/
def playerAdded (c : Cfg) (s : St) : St :=
  controlInhibit c (updStrings { s with units := deductUnits c s.units, paid := s.paid + 1,
                                        deducted := s.deducted + (s.units - deductUnits c s.units), stamp := s.now })

def enough (c : Cfg) (s : St) : Bool := s.freePlay || decide (s.units ≥ upg c)

/-- a player joins (the request was approved) -/
def joinPlayer (c : Cfg) (s : St) (g : Game) : St :=
  if s.freePlay then { s with game := some g } else playerAdded c { s with game := some g }

/-- `enable_credit_play`: the balance is kept, written again (with its on-disk expiry when one is configured) -/
def enableCredit (c : Cfg) (s : St) : St :=
  controlInhibit c { s with freePlay := false, shown := some s.units, stamp := s.now,
                            persisted := s.persisted || decide (c.persist ≠ 0),
                            expSecs := if c.persist ≠ 0 then c.persist else s.expSecs }

/-- `enable_free_play` -/
def enableFree (c : Cfg) (s : St) : St := controlInhibit c { s with freePlay := true }

/-- `_game_ended` (only registered in credit play) and the game object going away -/
def gameOver (c : Cfg) (s : St) : St :=
  if s.freePlay then { s with game := none }
  else { (resetTimeouts c s) with game := none, resetThisGame := false }

/-- `_ball_starting(player, ball)` -/
def ballStarting (s : St) (player ball : Nat) : St :=
  if !s.freePlay && player == 1 && ball == 2 && !s.resetThisGame then { s with tier := 0, resetThisGame := true }
  else s

/-- `_game_started` (only registered in credit play): the expiration delays are removed, the tier count restarts and
the once-per-game flag of the ball-2 restart is cleared -/
def gameStarted (s : St) : St :=
  if s.freePlay then s else { s with fracDue := none, allDue := none, tier := 0, resetThisGame := false }

/-- a start request refused by `_request_to_start_game` / `_player_add_request`: `not_enough_credits` is posted -/
def notEnough (s : St) : St := { s with nNotEnough := s.nNotEnough + 1 }

/-- `mode_start` at power-up, and the second until the first request can arrive -/
def boot (c : Cfg) (s : St) : St :=
  let s1 := if s.freePlay then enableFree c s else enableCredit c s
  { s1 with now := s1.now + 1 }

/-- power cycle: the game, the delays, the tier counter and the display variables are gone; the `free_play` setting and the
earnings are on disk; `credit_units` is on disk when `persist_credits_while_off_time` was configured while credit play was
enabled, and is dropped at load when its expiry (last write + that time) lies before the moment of loading; a loaded
variable has no expiry until `enable_credit_play` configures one again.  Then `mode_start`. -/
def reboot (c : Cfg) (s : St) (off : Nat) : St :=
  let now' := s.now + off
  let keep := s.persisted && (s.expSecs == 0 || decide (now' ≤ s.stamp + s.expSecs))
  let u : Int := if keep then s.units else 0
  let s0 : St := { s with units := u, lost := s.lost + (s.units - u), tier := 0, resetThisGame := false, shown := none,
                          game := none, now := now', fracDue := none, allDue := none, inhibit := none,
                          persisted := keep, expSecs := 0 }
  boot c s0

/-- `_credit_switch_callback` of coin switch `i` (only registered in credit play) -/
def coinHit (c : Cfg) (s : St) (i : Nat) : St :=
  if s.freePlay then s else
  match c.coins[i]? with
  | none => s
  | some v =>
    let s1 := addUnits c s (v / creditUnit c) true
    resetTimeouts c { s1 with coinCount := s1.coinCount + 1, earn := s1.earn + v,
                              inUnits := s1.inUnits + (v / creditUnit c : Nat) }

/-- `toggle_credit_play` -/
def togglePlay (c : Cfg) (s : St) : St := if s.freePlay then enableCredit c s else enableFree c s

/-- the request itself -/
def act (c : Cfg) (s : St) : Op → St
  | .coin i => coinHit c s i
  | .coinToggle i => togglePlay c (coinHit c s i)
  | .service =>
    if s.freePlay || !c.service then s else
    let s1 := addUnits c s (upg c) false
    { s1 with service := s1.service + 1, granted := s1.granted + upg c }
  | .event j =>
    if s.freePlay then s else
    match c.events[j]? with
    | none => s
    | some k =>
      let s1 := addUnits c s (k * upg c) false
      resetTimeouts c { s1 with awards := s1.awards + k, granted := s1.granted + (k * upg c : Nat) }
  | .start =>
    match s.game with
    | none =>
      if enough c s then
        ballStarting (joinPlayer c (gameStarted s) ⟨1, 0, 1⟩) 1 1
      else notEnough s
    | some g =>
      if g.players < c.maxPlayers ∧ g.ball ≤ 1 then
        (if enough c s then joinPlayer c s { g with players := g.players + 1 } else notEnough s)
      else s
  | .drain =>
    match s.game with
    | none => s
    | some g =>
      if g.cur + 1 < g.players then
        ballStarting { s with game := some { g with cur := g.cur + 1 } } (g.cur + 2) g.ball
      else if g.ball ≥ c.ballsPerGame then gameOver c s
      else ballStarting { s with game := some { g with cur := 0, ball := g.ball + 1 } } 1 (g.ball + 1)
  | .endGame =>
    match s.game with
    | none => s
    | some _ => gameOver c s
  | .adv _ => s
  | .fpOn => enableFree c s
  | .fpOff => enableCredit c s
  | .toggle => togglePlay c s
  | .reset => clearAll s
  | .slam => clearAll s
  | .earnReset => { s with coinCount := 0, earn := 0, awards := 0, service := 0, paid := 0 }
  | .reboot off => reboot c s off

def fireFrac (c : Cfg) (s : St) : St :=
  match s.fracDue with
  | some d =>
    -- the delay fires at its own time `d` (not at the end of the advance): that is when `credit_units` is written
    if d ≤ s.now then { (clearFrac c { s with fracDue := none }) with stamp := max s.stamp d } else s
  | none => s

def fireAll (s : St) : St :=
  match s.allDue with
  | some d => if d ≤ s.now then { (clearAll { s with allDue := none }) with stamp := max s.stamp d } else s
  | none => s

/-- `dt` seconds pass; both expirations may fire (they commute) -/
def tick (c : Cfg) (s : St) (dt : Nat) : St := fireAll (fireFrac c { s with now := s.now + dt })

def dtOf : Op → Nat
  | .adv n => n
  | _ => 1

def step (c : Cfg) (s : St) (op : Op) : St := tick c (act c s op) (dtOf op)

def run (c : Cfg) : St → List Op → St
  | s, [] => s
  | s, op :: rest => run c (step c s op) rest

/-- first power-up: nothing on disk, `mode_start` with the configured `free_play` -/
def init (c : Cfg) : St :=
  boot c { freePlay := c.freePlay }

/-! ## driver -/

def showFrac (c : Cfg) (u : Int) : String :=
  let d : Int := upg c
  let whole := if d > 0 then u / d else 0
  let num := if d > 0 then u % d else 0
  if num ≠ 0 then (if whole ≠ 0 then s!"{whole} {num}/{d}" else s!"{num}/{d}") else s!"{whole}"

def showDue (s : St) : Option Nat → String
  | none => "-"
  | some d => toString (d - s.now)

def showSt (c : Cfg) (s : St) : String :=
  let g := match s.game with
    | none => "-"
    | some g => s!"{g.players}/{g.cur + 1}/{g.ball}"
  let v := match s.shown with | none => "-" | some u => showFrac c u
  let str := if s.freePlay then "FREE PLAY" else match s.shown with | none => "-" | some u => "CREDITS " ++ showFrac c u
  s!"u={s.units} t={s.tier} r={if s.resetThisGame then 1 else 0} fp={if s.freePlay then 1 else 0} g={g} " ++
  s!"fd={showDue s s.fracDue} ad={showDue s s.allDue} a={s.coinCount}/{s.earn}/{s.awards}/{s.service}/{s.paid} " ++
  s!"ev={s.nAdded}/{s.nMax}/{s.nNotEnough} ci={match s.inhibit with | none => "-" | some true => "1" | some false => "0"} " ++
  s!"v={v};{str}"

def parseNats (s : String) : Option (List Nat) :=
  if s = "" then some [] else (s.splitOn ",").mapM (·.toNat?)

def parsePair (s : String) : Option (Nat × Nat) :=
  match s.splitOn "/" with
  | [a, b] => do pure (← a.toNat?, ← b.toNat?)
  | _ => none

def parsePairs (s : String) : Option (List (Nat × Nat)) :=
  if s = "" then some [] else (s.splitOn ",").mapM parsePair

def parseCfg : List String → Option Cfg
  | [one, mx, fe, ae, bpg, mp, fp, sv, pe, ih, cs, ts, es] => do
    let fpb ← if fp = "1" then some true else if fp = "0" then some false else none
    let svb ← if sv = "1" then some true else if sv = "0" then some false else none
    let ihb ← if ih = "1" then some true else if ih = "0" then some false else none
    let cs' ← if cs.startsWith "c:" then parseNats (cs.drop 2).toString else none
    let ts' ← if ts.startsWith "t:" then parsePairs (ts.drop 2).toString else none
    let es' ← if es.startsWith "e:" then parseNats (es.drop 2).toString else none
    pure { one := ← one.toNat?, maxCredits := ← mx.toNat?, fracExp := ← fe.toNat?, allExp := ← ae.toNat?,
           ballsPerGame := ← bpg.toNat?, maxPlayers := ← mp.toNat?, freePlay := fpb, coins := cs', tiers := ts',
           events := es', service := svb, persist := ← pe.toNat?, inhibit := ihb }
  | _ => none

def parseOp : List String → Option Op
  | ["coin", i] => i.toNat?.map .coin
  | ["service"] => some .service
  | ["event", j] => j.toNat?.map .event
  | ["start"] => some .start
  | ["drain"] => some .drain
  | ["endgame"] => some .endGame
  | ["adv", n] => n.toNat?.map .adv
  | ["fpon"] => some .fpOn
  | ["fpoff"] => some .fpOff
  | ["toggle"] => some .toggle
  | ["reset"] => some .reset
  | ["slam"] => some .slam
  | ["earnreset"] => some .earnReset
  | ["reboot", n] => n.toNat?.map .reboot
  | ["cointog", i] => i.toNat?.map .coinToggle
  | _ => none

def showTable (c : Cfg) : String :=
  ",".intercalate ((List.range (wrap c + 1)).map (fun u => toString (table c u)))

def driverStep (cs : Cfg × St) (line : String) : (Cfg × St) × String :=
  match line.splitOn " " with
  | "cfg" :: rest =>
    match parseCfg rest with
    | some c =>
      ((c, init c), s!"ok wf={if WF c then 1 else 0} unit={creditUnit c} upg={upg c} wrap={wrap c} table={showTable c} "
        ++ showSt c (init c))
    | none => (cs, "bad-op")
  | toks =>
    match parseOp toks with
    | some op => let s' := step cs.1 cs.2 op; ((cs.1, s'), showSt cs.1 s')
    | none => (cs, "bad-op")

def driverInit : Cfg × St := ({}, {})

end MpfVerif.Credits
