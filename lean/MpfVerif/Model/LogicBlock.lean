/-!
# Logic blocks (C18) — model of `mpf/devices/logic_blocks.py` (Counter / Accrual / Sequence, `persist_state: false`)

Time is in ticks of 1/8 s (the dyadic grid of the correspondence run); the two delays of a block
(`ignore_hits_within_window`, `timeout`) are kept as absolute deadlines.  One `tick` advances the clock by one tick
and then runs what became due (both callbacks commute: the window callback posts nothing and `reset` does not touch
`ignore_hits`).  Every function returns the new state and the events posted, in posting order.

* `count`  = `Counter.count`            * `hitStep` = `Accrual.hit` / `Sequence.hit`
* `adjust` = `event_add/subtract/jump`  * `complete`, `reset`, `enable`, `disable`, `restart` = the `LogicBlock` methods
* `unload` / `load` = the mode of a mode-owned block stops / starts (fresh state, delays cleared on removal)
-/
namespace MpfVerif.LogicBlock

inductive Kind | counter | accrual | sequence
  deriving DecidableEq, Repr

structure Cfg where
  kind : Kind := .counter
  start : Int := 0              -- starting_count (counter)
  interval : Int := 1           -- count_interval as configured
  down : Bool := false          -- direction: down
  goal : Option Int := none     -- count_complete_value
  resetOnComplete : Bool := true
  disableOnComplete : Bool := true
  window : Nat := 0             -- multiple_hit_window in ticks, 0 = off
  timeout : Nat := 0            -- logic_block_timeout in ticks, 0 = off
  steps : Nat := 0              -- number of steps (accrual / sequence)
  startEnabled : Bool := false  -- no enable_events configured
  deriving DecidableEq, Repr

/-- an event posted by the block (the `logicblock_<name>_…` events and `<name>_timeout`) with its arguments -/
inductive Obs
  | updated (value : Int) (flags : List Bool) (enabled : Bool)
  | hit (count : Int) (extra : Option (Int × Int))   -- counter: count, (hits, remaining) when a goal is configured
  | hitStep (step : Int)                             -- accrual / sequence: step
  | complete
  | timeout
  deriving DecidableEq, Repr

structure St where
  now : Nat := 0
  loaded : Bool := true
  enabled : Bool := false
  completed : Bool := false
  value : Int := 0                    -- counter value / sequence step
  flags : List Bool := []             -- accrual value
  windowUntil : Option Nat := none    -- `ignore_hits` is true iff this is `some d`; the delay fires at `d`
  timeoutDue : Option Nat := none     -- deadline of the `timeout` delay
  deriving DecidableEq, Repr

inductive Op
  | count | hit (k : Nat) | enable | disable | reset | restart
  | add (n : Int) | sub (n : Int) | set (n : Int)
  | tick | unload | load
  deriving DecidableEq, Repr

/-- `Counter._initialize`: the sign of the interval follows the direction -/
def hv (c : Cfg) : Int :=
  if c.down then (if c.interval > 0 then -c.interval else c.interval)
  else (if c.interval < 0 then -c.interval else c.interval)

def startVal (c : Cfg) : Int := match c.kind with | .counter => c.start | _ => 0
def startFlags (c : Cfg) : List Bool := match c.kind with | .accrual => List.replicate c.steps false | _ => []

def upd (s : St) : Obs := .updated s.value s.flags s.enabled

/-- `_logic_block_timer_start` -/
def timerStart (c : Cfg) (s : St) : St :=
  if c.timeout = 0 then s else { s with timeoutDue := some (s.now + c.timeout) }

def reset (c : Cfg) (s : St) : St × List Obs :=
  let s1 := { s with completed := false, value := startVal c, flags := startFlags c }
  (timerStart c s1, [upd s1])

def enable (c : Cfg) (s : St) : St × List Obs :=
  let s1 := { s with enabled := true }
  (timerStart c s1, [upd s1])

def disable (s : St) : St × List Obs :=
  let s1 := { s with enabled := false, timeoutDue := none }
  (s1, [upd s1])

def restart (c : Cfg) (s : St) : St × List Obs :=
  let r := reset c s
  let e := enable c r.1
  (e.1, r.2 ++ e.2)

/-- the optional parts of `complete` -/
def afterComplete (c : Cfg) (s : St) : St × List Obs :=
  let r := if c.resetOnComplete then reset c s else (s, [])
  let d := if c.disableOnComplete then disable r.1 else (r.1, [])
  (d.1, r.2 ++ d.2)

def complete (c : Cfg) (s : St) : St × List Obs :=
  if s.completed then (s, []) else
  let a := afterComplete c { s with completed := true, timeoutDue := none }
  (a.1, Obs.complete :: a.2)

/-- `check_complete` on a counter value -/
def goalReached (c : Cfg) (v : Int) : Bool :=
  match c.goal with
  | none => false
  | some g => if c.down then decide (v ≤ g) else decide (g ≤ v)

def hitArgs (c : Cfg) (v : Int) : Option (Int × Int) :=
  match c.goal with
  | none => none
  | some g => if c.down then some (c.start - v, v - g) else some (v - c.start, g - v)

def startWindow (c : Cfg) (s : St) : St :=
  if c.window = 0 then s else { s with windowUntil := some (s.now + c.window) }

/-- `Counter.count` -/
def count (c : Cfg) (s : St) : St × List Obs :=
  if s.enabled = false then (s, []) else
  if s.windowUntil.isSome then (s, []) else
  let s1 := { s with value := s.value + hv c }
  let k := if goalReached c s1.value then complete c s1 else (s1, [])
  (startWindow c k.1, upd s1 :: Obs.hit s1.value (hitArgs c s1.value) :: k.2)

/-- `event_add` / `event_subtract` / `event_jump` with the new value already computed (no `enabled` guard) -/
def adjust (c : Cfg) (s : St) (v : Int) : St × List Obs :=
  let s1 := { s with value := v }
  let k := if goalReached c v then complete c s1 else (s1, [])
  (k.1, upd s1 :: k.2)

def setFlag : List Bool → Nat → List Bool
  | [], _ => []
  | _ :: r, 0 => true :: r
  | b :: r, k + 1 => b :: setFlag r k

def getFlag : List Bool → Nat → Bool
  | [], _ => true
  | b :: _, 0 => b
  | _ :: r, k + 1 => getFlag r k

def allTrue : List Bool → Bool
  | [] => true
  | b :: r => b && allTrue r

/-- `Accrual.hit(step)` -/
def accrualHit (c : Cfg) (s : St) (k : Nat) : St × List Obs :=
  if s.enabled = false then (s, []) else
  let h := if getFlag s.flags k then (s, []) else
    let s1 := { s with flags := setFlag s.flags k }
    (s1, [upd s1, Obs.hitStep k])
  let k2 := if allTrue h.1.flags then complete c h.1 else (h.1, [])
  (k2.1, h.2 ++ k2.2)

/-- `Sequence.hit(step)` -/
def sequenceHit (c : Cfg) (s : St) (k : Nat) : St × List Obs :=
  if s.enabled = false then (s, []) else
  if (k : Int) ≠ s.value then (s, []) else
  let s1 := { s with value := s.value + 1 }
  let k2 := if decide ((c.steps : Int) ≤ s1.value) then complete c s1 else (s1, [])
  (k2.1, upd s1 :: Obs.hitStep s1.value :: k2.2)

/-- one tick of the clock, then the delays that became due -/
def tick (c : Cfg) (s : St) : St × List Obs :=
  let s0 := { s with now := s.now + 1 }
  let s1 := if s0.windowUntil = some s0.now then { s0 with windowUntil := none } else s0
  if s1.timeoutDue = some s1.now then
    let r := reset c { s1 with timeoutDue := none }
    (r.1, Obs.timeout :: r.2)
  else (s1, [])

/-- the mode stops: state dropped, delays cleared, `ignore_hits` cleared -/
def unload (s : St) : St :=
  { now := s.now, loaded := false }

/-- the mode starts: fresh state, `event_enable` (if no enable_events) and `post_update_event` on `mode_<m>_starting` -/
def load (c : Cfg) (s : St) : St × List Obs :=
  let s0 : St := { now := s.now, loaded := true, value := startVal c, flags := startFlags c }
  let e := if c.startEnabled then enable c s0 else (s0, [])
  (e.1, e.2 ++ [upd e.1])

def init (c : Cfg) : St :=
  { value := startVal c, flags := startFlags c, enabled := c.startEnabled }

/-- an op while the owning mode is not running: only the clock moves; `load` starts the mode -/
def stepUnloaded (c : Cfg) (s : St) : Op → St × List Obs
  | .tick => ({ s with now := s.now + 1 }, [])
  | .load => load c s
  | _ => (s, [])

def stepLoaded (c : Cfg) (s : St) : Op → St × List Obs
  | .count => (match c.kind with | .counter => count c s | _ => (s, []))
  | .hit k => (match c.kind with | .accrual => accrualHit c s k | .sequence => sequenceHit c s k | .counter => (s, []))
  | .enable => enable c s
  | .disable => disable s
  | .reset => reset c s
  | .restart => restart c s
  | .add n => (match c.kind with | .counter => adjust c s (s.value + n) | _ => (s, []))
  | .sub n => (match c.kind with | .counter => adjust c s (s.value - n) | _ => (s, []))
  | .set n => (match c.kind with | .counter => adjust c s n | _ => (s, []))
  | .tick => tick c s
  | .unload => (unload s, [])
  | .load => (s, [])

def step (c : Cfg) (s : St) (op : Op) : St × List Obs :=
  if s.loaded = false then stepUnloaded c s op else stepLoaded c s op

/-- run an op list, collecting the events of every step (`trace`: one entry per op) -/
def run (c : Cfg) : St → List Op → St × List (Op × List Obs)
  | s, [] => (s, [])
  | s, op :: r =>
    let a := step c s op
    let b := run c a.1 r
    (b.1, (op, a.2) :: b.2)

/-! ## line-protocol driver -/

def showBool (b : Bool) : String := if b then "1" else "0"
def showFlags (f : List Bool) : String := String.join (f.map showBool)

def showVal (c : Cfg) (v : Int) (f : List Bool) : String :=
  match c.kind with | .accrual => showFlags f | _ => toString v

def showObs (c : Cfg) : Obs → String
  | .updated v f e => "U:" ++ showVal c v f ++ ":" ++ showBool e
  | .hit n none => "H:" ++ toString n
  | .hit n (some (h, r)) => "H:" ++ toString n ++ ":" ++ toString h ++ ":" ++ toString r
  | .hitStep k => "S:" ++ toString k
  | .complete => "C"
  | .timeout => "T"

def showSt (c : Cfg) (s : St) : String :=
  if s.loaded then "v=" ++ showVal c s.value s.flags ++ " e=" ++ showBool s.enabled ++ " c=" ++ showBool s.completed
  else "unloaded"

def showStep (c : Cfg) (r : St × List Obs) : String :=
  showSt c r.1 ++ " |" ++ String.join (r.2.map (fun o => " " ++ showObs c o))

/-- `n` ticks, events concatenated -/
def ticks (c : Cfg) : Nat → St → St × List Obs
  | 0, s => (s, [])
  | n + 1, s =>
    let a := step c s .tick
    let b := ticks c n a.1
    (b.1, a.2 ++ b.2)

def parseBool (s : String) : Option Bool := if s = "1" then some true else if s = "0" then some false else none

def parseKind (s : String) : Option Kind :=
  if s = "counter" then some .counter else if s = "accrual" then some .accrual
  else if s = "sequence" then some .sequence else none

def parseGoal (s : String) : Option (Option Int) := if s = "-" then some none else s.toInt?.map some

def parseCfg : List String → Option Cfg
  | [k, st, iv, dn, g, roc, doc, w, t, n, se] => do
    let kind ← parseKind k
    let start ← st.toInt?
    let interval ← iv.toInt?
    let down ← parseBool dn
    let goal ← parseGoal g
    let r ← parseBool roc
    let d ← parseBool doc
    let window ← w.toNat?
    let timeout ← t.toNat?
    let steps ← n.toNat?
    let se ← parseBool se
    pure { kind := kind, start := start, interval := interval, down := down, goal := goal, resetOnComplete := r,
           disableOnComplete := d, window := window, timeout := timeout, steps := steps, startEnabled := se }
  | _ => none

def applicable (c : Cfg) : Op → Bool
  | .count | .add _ | .sub _ | .set _ => c.kind = .counter
  | .hit k => c.kind ≠ .counter && k < c.steps
  | _ => true

def parseOp : List String → Option Op
  | ["count"] => some .count
  | ["hit", k] => k.toNat?.map Op.hit
  | ["enable"] => some .enable
  | ["disable"] => some .disable
  | ["reset"] => some .reset
  | ["restart"] => some .restart
  | ["add", n] => n.toInt?.map Op.add
  | ["sub", n] => n.toInt?.map Op.sub
  | ["set", n] => n.toInt?.map Op.set
  | ["unload"] => some .unload
  | ["load"] => some .load
  | _ => none

def driverStep (cs : Cfg × St) (line : String) : (Cfg × St) × String :=
  match line.splitOn " " with
  | "cfg" :: rest =>
    match parseCfg rest with
    | some c => ((c, init c), "ok " ++ showSt c (init c))
    | none => (cs, "bad-op")
  | ["adv", n] =>
    match n.toNat? with
    | some k => let r := ticks cs.1 k cs.2; ((cs.1, r.1), showStep cs.1 r)
    | none => (cs, "bad-op")
  | toks =>
    match parseOp toks with
    | some op =>
      if applicable cs.1 op then let r := step cs.1 cs.2 op; ((cs.1, r.1), showStep cs.1 r) else (cs, "bad-op")
    | none => (cs, "bad-op")

def driverInit : Cfg × St := ({}, {})

end MpfVerif.LogicBlock
