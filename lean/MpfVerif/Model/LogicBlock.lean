/-!
# Logic blocks (C18) — model of `mpf/devices/logic_blocks.py` (Counter / Accrual / Sequence)

Time is in ticks of 1/8 s (the dyadic grid of the correspondence run); the two delays of a block
(`ignore_hits_within_window`, `timeout`) are kept as absolute deadlines.  The scheduler is NOT modelled as a policy:
`clock` moves time by one tick and is refused while anything is due at the current instant; every due callback is
run by its own op (`fireW`, `fireT`, and `fireD` for a delayed control event), in whatever order the op sequence
says - the theorems quantify over all op sequences, hence over all orders of same-instant callbacks; the
correspondence run replays the order the real loop chose.  Every function returns the new state and the events
posted, in posting order.

The second half (`Sys`, `XOp`, `xstep`) wraps the block with its environment: the current values of the templates
`starting_count` / `count_complete_value` (`setStart` / `setGoal`: a machine or player variable changed - the block
reads them at reset / mode start and at every hit / add / subtract / jump), the delayed control events
(`{event: delay}` form: `dpost` schedules, `fireD` runs; the calls of a mode-owned block die with the mode), and
`persist_state` (one stored state per player: `stopMode` / `startMode p`).

* `count`  = `Counter.count`            * `hitStep` = `Accrual.hit` / `Sequence.hit`
* `adjust` = `event_add/subtract/jump`  * `complete`, `reset`, `enable`, `disable`, `restart` = the `LogicBlock` methods
* `unload` / `load` = the mode of a mode-owned block stops / starts (fresh state, delays cleared on removal)
-/
namespace MpfVerif.LogicBlock

inductive Kind | counter | accrual | sequence
  deriving DecidableEq, Repr

structure Cfg where
  kind : Kind := .counter
  start : Int := 0              -- starting_count (counter)
  interval : Int := 1           -- count_interval as configured
  down : Bool := false          -- direction: down
  goal : Option Int := none     -- count_complete_value
  resetOnComplete : Bool := true
  disableOnComplete : Bool := true
  window : Nat := 0             -- multiple_hit_window in ticks, 0 = off
  timeout : Nat := 0            -- logic_block_timeout in ticks, 0 = off
  steps : Nat := 0              -- number of steps (accrual / sequence)
  startEnabled : Bool := false  -- no enable_events configured
  deriving DecidableEq, Repr

/-- an event posted by the block (the `logicblock_<name>_…` events and `<name>_timeout`) with its arguments -/
inductive Obs
  | updated (value : Int) (flags : List Bool) (enabled : Bool)
  | hit (count : Int) (extra : Option (Int × Int))   -- counter: count, (hits, remaining) when a goal is configured
  | hitStep (step : Int)                             -- accrual / sequence: step
  | complete
  | timeout
  | refused                                          -- the op was not possible now (timer not due / clock blocked)
  deriving DecidableEq, Repr

structure St where
  now : Nat := 0
  loaded : Bool := true
  enabled : Bool := false
  completed : Bool := false
  value : Int := 0                    -- counter value / sequence step
  flags : List Bool := []             -- accrual value
  windowUntil : Option Nat := none    -- `ignore_hits` is true iff this is `some d`; the delay fires at `d`
  timeoutDue : Option Nat := none     -- deadline of the `timeout` delay
  deriving DecidableEq, Repr

inductive Op
  | count | hit (k : Nat) | enable | disable | reset | restart
  | add (n : Int) | sub (n : Int) | set (n : Int)
  | clock | fireW | fireT | advr (k : Nat) | unload | load
  deriving DecidableEq, Repr

/-- `Counter._initialize`: the sign of the interval follows the direction -/
def hv (c : Cfg) : Int :=
  if c.down then (if c.interval > 0 then -c.interval else c.interval)
  else (if c.interval < 0 then -c.interval else c.interval)

def startVal (c : Cfg) : Int := match c.kind with | .counter => c.start | _ => 0
def startFlags (c : Cfg) : List Bool := match c.kind with | .accrual => List.replicate c.steps false | _ => []

def upd (s : St) : Obs := .updated s.value s.flags s.enabled

/-- `_logic_block_timer_start` -/
def timerStart (c : Cfg) (s : St) : St :=
  if c.timeout = 0 then s else { s with timeoutDue := some (s.now + c.timeout) }

def reset (c : Cfg) (s : St) : St × List Obs :=
  let s1 := { s with completed := false, value := startVal c, flags := startFlags c }
  (timerStart c s1, [upd s1])

def enable (c : Cfg) (s : St) : St × List Obs :=
  let s1 := { s with enabled := true }
  (timerStart c s1, [upd s1])

def disable (s : St) : St × List Obs :=
  let s1 := { s with enabled := false, timeoutDue := none }
  (s1, [upd s1])

def restart (c : Cfg) (s : St) : St × List Obs :=
  let r := reset c s
  let e := enable c r.1
  (e.1, r.2 ++ e.2)

/-- the optional parts of `complete` -/
def afterComplete (c : Cfg) (s : St) : St × List Obs :=
  let r := if c.resetOnComplete then reset c s else (s, [])
  let d := if c.disableOnComplete then disable r.1 else (r.1, [])
  (d.1, r.2 ++ d.2)

def complete (c : Cfg) (s : St) : St × List Obs :=
  if s.completed then (s, []) else
  let a := afterComplete c { s with completed := true, timeoutDue := none }
  (a.1, Obs.complete :: a.2)

/-- `check_complete` on a counter value -/
def goalReached (c : Cfg) (v : Int) : Bool :=
  match c.goal with
  | none => false
  | some g => if c.down then decide (v ≤ g) else decide (g ≤ v)

def hitArgs (c : Cfg) (v : Int) : Option (Int × Int) :=
  match c.goal with
  | none => none
  | some g => if c.down then some (c.start - v, v - g) else some (v - c.start, g - v)

def startWindow (c : Cfg) (s : St) : St :=
  if c.window = 0 then s else { s with windowUntil := some (s.now + c.window) }

/-- `Counter.count` -/
def count (c : Cfg) (s : St) : St × List Obs :=
  if s.enabled = false then (s, []) else
  if s.windowUntil.isSome then (s, []) else
  let s1 := { s with value := s.value + hv c }
  let k := if goalReached c s1.value then complete c s1 else (s1, [])
  (startWindow c k.1, upd s1 :: Obs.hit s1.value (hitArgs c s1.value) :: k.2)

/-- `event_add` / `event_subtract` / `event_jump` with the new value already computed (no `enabled` guard) -/
def adjust (c : Cfg) (s : St) (v : Int) : St × List Obs :=
  let s1 := { s with value := v }
  let k := if goalReached c v then complete c s1 else (s1, [])
  (k.1, upd s1 :: k.2)

def setFlag : List Bool → Nat → List Bool
  | [], _ => []
  | _ :: r, 0 => true :: r
  | b :: r, k + 1 => b :: setFlag r k

def getFlag : List Bool → Nat → Bool
  | [], _ => true
  | b :: _, 0 => b
  | _ :: r, k + 1 => getFlag r k

def allTrue : List Bool → Bool
  | [] => true
  | b :: r => b && allTrue r

/-- `Accrual.hit(step)` -/
def accrualHit (c : Cfg) (s : St) (k : Nat) : St × List Obs :=
  if s.enabled = false then (s, []) else
  let h := if getFlag s.flags k then (s, []) else
    let s1 := { s with flags := setFlag s.flags k }
    (s1, [upd s1, Obs.hitStep k])
  let k2 := if allTrue h.1.flags then complete c h.1 else (h.1, [])
  (k2.1, h.2 ++ k2.2)

/-- `Sequence.hit(step)` -/
def sequenceHit (c : Cfg) (s : St) (k : Nat) : St × List Obs :=
  if s.enabled = false then (s, []) else
  if (k : Int) ≠ s.value then (s, []) else
  let s1 := { s with value := s.value + 1 }
  let k2 := if decide ((c.steps : Int) ≤ s1.value) then complete c s1 else (s1, [])
  (k2.1, upd s1 :: Obs.hitStep s1.value :: k2.2)

/-- one tick of the clock; refused while a delay of the block is due and has not run -/
def clock (s : St) : St × List Obs :=
  if s.windowUntil = some s.now ∨ s.timeoutDue = some s.now then (s, [Obs.refused])
  else ({ s with now := s.now + 1 }, [])

/-- the `ignore_hits_within_window` delay runs (`stop_ignoring_hits`) -/
def fireW (s : St) : St × List Obs :=
  if s.windowUntil = some s.now then ({ s with windowUntil := none }, []) else (s, [Obs.refused])

/-- the `timeout` delay runs (`_logic_block_timeout`) -/
def fireT (c : Cfg) (s : St) : St × List Obs :=
  if s.timeoutDue = some s.now then
    let r := reset c { s with timeoutDue := none }
    (r.1, Obs.timeout :: r.2)
  else (s, [Obs.refused])

/-- the mode stops: state dropped, delays cleared, `ignore_hits` cleared -/
def unload (s : St) : St :=
  { now := s.now, loaded := false }

/-- the mode starts: fresh state, `event_enable` (if no enable_events) and `post_update_event` on `mode_<m>_starting` -/
def load (c : Cfg) (s : St) : St × List Obs :=
  let s0 : St := { now := s.now, loaded := true, value := startVal c, flags := startFlags c }
  let e := if c.startEnabled then enable c s0 else (s0, [])
  (e.1, e.2 ++ [upd e.1])

def init (c : Cfg) : St :=
  { value := startVal c, flags := startFlags c, enabled := c.startEnabled }

/-- an op while the owning mode is not running: only the clock moves; `load` starts the mode -/
def stepUnloaded (c : Cfg) (s : St) : Op → St × List Obs
  | .clock => ({ s with now := s.now + 1 }, [])
  | .load => load c s
  | .fireW => (s, [Obs.refused])
  | .fireT => (s, [Obs.refused])
  | _ => (s, [])

def stepLoaded (c : Cfg) (s : St) : Op → St × List Obs
  | .count => (match c.kind with | .counter => count c s | _ => (s, []))
  | .hit k => (match c.kind with | .accrual => accrualHit c s k | .sequence => sequenceHit c s k | .counter => (s, []))
  | .enable => enable c s
  | .disable => disable s
  | .reset => reset c s
  | .restart => restart c s
  | .add n => (match c.kind with | .counter => adjust c s (s.value + n) | _ => (s, []))
  | .sub n => (match c.kind with | .counter => adjust c s (s.value - n) | _ => (s, []))
  | .set n => (match c.kind with | .counter => adjust c s n | _ => (s, []))
  | .clock => clock s
  | .fireW => fireW s
  | .fireT => fireT c s
  | .advr k => (match c.kind with
      | .accrual => if getFlag s.flags k then (s, []) else accrualHit c s k
      | _ => (s, []))
  | .unload => (unload s, [])
  | .load => (s, [])

def step (c : Cfg) (s : St) (op : Op) : St × List Obs :=
  if s.loaded = false then stepUnloaded c s op else stepLoaded c s op

/-- run an op list, collecting the events of every step (`trace`: one entry per op) -/
def run (c : Cfg) : St → List Op → St × List (Op × List Obs)
  | s, [] => (s, [])
  | s, op :: r =>
    let a := step c s op
    let b := run c a.1 r
    (b.1, (op, a.2) :: b.2)

/-! ## the block in its environment: templates, delayed control events, per-player persistence -/

/-- what `persist_state` keeps in the player variable `<name>_state` -/
structure Snap where
  enabled : Bool
  completed : Bool
  value : Int
  flags : List Bool
  deriving DecidableEq, Repr

/-- a control event that may be configured with a delay (`{event: ms}`) -/
inductive Act | count | enable | disable | reset | restart | advr
  deriving DecidableEq, Repr

/-- the method a (delayed) control event calls; `k` is the random choice of `advance_random` made when it runs -/
def actOp (a : Act) (k : Nat) : Op :=
  match a with
  | .count => .count | .enable => .enable | .disable => .disable | .reset => .reset | .restart => .restart
  | .advr => .advr k

structure Sys where
  c : Cfg := {}
  s : St := {}
  persist : Bool := false
  cur : Nat := 0                          -- the player who is up
  saved : List (Nat × Snap) := []         -- player variable `<name>_state` per player (newest entry first)
  pending : List (Nat × Act) := []        -- delayed control calls: (due, what), in scheduling order
  deriving DecidableEq, Repr

inductive XOp
  | core (o : Op)
  | dpost (a : Act) (d : Nat)             -- the event of a `{event: d}` entry is posted
  | fireD (a : Act) (k : Nat)             -- a delayed call for `a` that is due runs
  | setStart (n : Int)                    -- the variable behind `starting_count` changes
  | setGoal (g : Option Int)              -- the variable behind `count_complete_value` changes
  | stopMode
  | startMode (p : Nat)
  | newGame                               -- the game is over and a new one begins: the players (and their variables) are gone
  | ctlNone                               -- add / subtract / jump whose value template evaluated to None: ignored
  deriving DecidableEq, Repr

def lookupSnap (p : Nat) : List (Nat × Snap) → Option Snap
  | [] => none
  | x :: r => if x.1 = p then some x.2 else lookupSnap p r

def snapOf (s : St) : Snap := ⟨s.enabled, s.completed, s.value, s.flags⟩

def dueNow (now : Nat) (pending : List (Nat × Act)) : Bool := pending.any (fun x => x.1 == now)

/-- remove the first pending call `(now, a)`; `none` when there is none -/
def takeDue (now : Nat) (a : Act) : List (Nat × Act) → Option (List (Nat × Act))
  | [] => none
  | x :: r => if x.1 = now ∧ x.2 = a then some r else (takeDue now a r).map (fun r' => x :: r')

/-- the mode (re)starts for player `p`: stored state of that player, or a fresh block -/
def startMode (y : Sys) (p : Nat) : Sys × List Obs :=
  if y.s.loaded then (y, []) else
  match (if y.persist then lookupSnap p y.saved else none) with
  | some x =>
    let s1 : St := { now := y.s.now, loaded := true, enabled := x.enabled, completed := x.completed,
                     value := x.value, flags := x.flags }
    ({ y with s := s1, cur := p }, [upd s1])
  | none => let r := load y.c y.s; ({ y with s := r.1, cur := p }, r.2)

/-- the mode stops: the state stays with the player (if persisted), the mode's delays are cleared -/
def stopMode (y : Sys) : Sys :=
  if y.s.loaded = false then y else
  { y with s := unload y.s, pending := [],
           saved := if y.persist then (y.cur, snapOf y.s) :: y.saved else y.saved }

def xstep (y : Sys) : XOp → Sys × List Obs
  | .core .unload => (stopMode y, [])
  | .core .load => startMode y y.cur
  | .core .clock =>
    if dueNow y.s.now y.pending then (y, [Obs.refused])
    else let r := step y.c y.s .clock; ({ y with s := r.1 }, r.2)
  | .core o => let r := step y.c y.s o; ({ y with s := r.1 }, r.2)
  | .dpost a d => if y.s.loaded then ({ y with pending := y.pending ++ [(y.s.now + d, a)] }, []) else (y, [])
  | .fireD a k =>
    match takeDue y.s.now a y.pending with
    | some rest => let r := step y.c y.s (actOp a k); ({ y with s := r.1, pending := rest }, r.2)
    | none => (y, [Obs.refused])
  | .setStart n => ({ y with c := { y.c with start := n } }, [])
  | .setGoal g => ({ y with c := { y.c with goal := g } }, [])
  | .stopMode => (stopMode y, [])
  | .startMode p => startMode y p
  | .newGame => if y.s.loaded then (y, []) else ({ y with saved := [], cur := 0 }, [])
  | .ctlNone => (y, [])

/-- run an op list, one trace entry per op -/
def xrun : Sys → List XOp → Sys × List (XOp × List Obs)
  | y, [] => (y, [])
  | y, op :: r =>
    let a := xstep y op
    let b := xrun a.1 r
    (b.1, (op, a.2) :: b.2)

/-- `boot = true`: a machine-wide block (exists from boot on); `false`: owned by a mode that is not running yet -/
def xinit (c : Cfg) (persist : Bool) (boot : Bool) : Sys :=
  { c := c, s := if boot then init c else unload (init c), persist := persist }

/-! ## line-protocol driver -/

def showBool (b : Bool) : String := if b then "1" else "0"
def showFlags (f : List Bool) : String := String.join (f.map showBool)

def showVal (c : Cfg) (v : Int) (f : List Bool) : String :=
  match c.kind with | .accrual => showFlags f | _ => toString v

def showObs (c : Cfg) : Obs → String
  | .updated v f e => "U:" ++ showVal c v f ++ ":" ++ showBool e
  | .hit n none => "H:" ++ toString n
  | .hit n (some (h, r)) => "H:" ++ toString n ++ ":" ++ toString h ++ ":" ++ toString r
  | .hitStep k => "S:" ++ toString k
  | .complete => "C"
  | .timeout => "T"
  | .refused => "not-enabled"

def showSnap (c : Cfg) (x : Snap) : String :=
  showVal c x.value x.flags ++ "," ++ showBool x.enabled ++ "," ++ showBool x.completed

def showSaved (y : Sys) (p : Nat) : String :=
  if y.s.loaded && p == y.cur then showSnap y.c (snapOf y.s)
  else match lookupSnap p y.saved with | some x => showSnap y.c x | none => "-"

def showSt (c : Cfg) (s : St) : String :=
  if s.loaded then "v=" ++ showVal c s.value s.flags ++ " e=" ++ showBool s.enabled ++ " c=" ++ showBool s.completed
  else "unloaded"

def showSys (y : Sys) : String :=
  showSt y.c y.s ++ (if y.persist then " s=" ++ String.intercalate "/" ([0, 1, 2, 3].map (showSaved y)) else "")

def showStep (r : Sys × List Obs) : String :=
  showSys r.1 ++ " |" ++ String.join (r.2.map (fun o => " " ++ showObs r.1.c o))

def parseBool (s : String) : Option Bool := if s = "1" then some true else if s = "0" then some false else none

def parseKind (s : String) : Option Kind :=
  if s = "counter" then some .counter else if s = "accrual" then some .accrual
  else if s = "sequence" then some .sequence else none

def parseGoal (s : String) : Option (Option Int) := if s = "-" then some none else s.toInt?.map some

def parseCfg : List String → Option (Cfg × Bool × Bool)
  | [k, st, iv, dn, g, roc, doc, w, t, n, se, ps, bt] => do
    let kind ← parseKind k
    let start ← st.toInt?
    let interval ← iv.toInt?
    let down ← parseBool dn
    let goal ← parseGoal g
    let r ← parseBool roc
    let d ← parseBool doc
    let window ← w.toNat?
    let timeout ← t.toNat?
    let steps ← n.toNat?
    let se ← parseBool se
    let ps ← parseBool ps
    let bt ← parseBool bt
    pure ({ kind := kind, start := start, interval := interval, down := down, goal := goal, resetOnComplete := r,
            disableOnComplete := d, window := window, timeout := timeout, steps := steps, startEnabled := se }, ps, bt)
  | _ => none

def parseAct (s : String) : Option Act :=
  if s = "count" then some .count else if s = "enable" then some .enable else if s = "disable" then some .disable
  else if s = "reset" then some .reset else if s = "restart" then some .restart
  else if s = "advr" then some .advr else none

/-- the op applies to this kind of block (anything else is a harness error: `bad-op`) -/
def applicable (c : Cfg) : Op → Bool
  | .count | .add _ | .sub _ | .set _ => c.kind = .counter
  | .hit k => c.kind ≠ .counter && k < c.steps
  | .advr k => c.kind = .accrual && k < c.steps
  | _ => true

def applicableAct (c : Cfg) : Act → Bool
  | .count => c.kind = .counter
  | .advr => c.kind = .accrual
  | _ => true

/-- the random choice reported by the harness is one `event_advance_random` can make in this state -/
def advrOk (s : St) (k : Option Nat) : Bool :=
  match k with
  | some k => s.loaded && s.enabled && !getFlag s.flags k
  | none => !s.loaded || !s.enabled || allTrue s.flags

def parseOp : List String → Option Op
  | ["count"] => some .count
  | ["hit", k] => k.toNat?.map Op.hit
  | ["enable"] => some .enable
  | ["disable"] => some .disable
  | ["reset"] => some .reset
  | ["restart"] => some .restart
  | ["add", n] => n.toInt?.map Op.add
  | ["sub", n] => n.toInt?.map Op.sub
  | ["set", n] => n.toInt?.map Op.set
  | ["clock"] => some .clock
  | ["fireW"] => some .fireW
  | ["fireT"] => some .fireT
  | ["unload"] => some .unload
  | ["load"] => some .load
  | _ => none

def parseChoice (s : String) : Option (Option Nat) := if s = "-" then some none else s.toNat?.map some

def doX (y : Sys) (x : XOp) : Sys × String := let r := xstep y x; (r.1, showStep r)

def driverStep (y : Sys) (line : String) : Sys × String :=
  match line.splitOn " " with
  | "cfg" :: rest =>
    match parseCfg rest with
    | some (c, ps, bt) => (xinit c ps bt, "ok " ++ showSys (xinit c ps bt))
    | none => (y, "bad-op")
  | ["advr", k] =>
    match parseChoice k with
    | some ch =>
      if y.c.kind = .accrual && (ch.getD 0 < y.c.steps) then
        (if advrOk y.s ch then doX y (.core (.advr (ch.getD 0))) else (y, "not-enabled"))
      else (y, "bad-op")
    | none => (y, "bad-op")
  | ["dpost", a, d] =>
    match parseAct a, d.toNat? with
    | some a, some d => if applicableAct y.c a && 0 < d then doX y (.dpost a d) else (y, "bad-op")
    | _, _ => (y, "bad-op")
  | ["fireD", a] =>
    match parseAct a with
    | some a => if applicableAct y.c a && a ≠ .advr then doX y (.fireD a 0) else (y, "bad-op")
    | none => (y, "bad-op")
  | ["fireD", "advr", k] =>
    match parseChoice k with
    | some ch =>
      if y.c.kind = .accrual && (ch.getD 0 < y.c.steps) then
        (if advrOk y.s ch then doX y (.fireD .advr (ch.getD 0)) else (y, "not-enabled"))
      else (y, "bad-op")
    | none => (y, "bad-op")
  | ["setstart", n] =>
    match n.toInt? with
    | some n => doX y (.setStart n)
    | none => (y, "bad-op")
  | ["setgoal", g] =>
    match parseGoal g with
    | some g => doX y (.setGoal g)
    | none => (y, "bad-op")
  | ["stopmode"] => doX y .stopMode
  | ["newgame"] => if y.s.loaded then (y, "bad-op") else doX y .newGame
  | ["ctlnone"] => if y.c.kind = .counter then doX y .ctlNone else (y, "bad-op")
  | ["startmode", p] =>
    match p.toNat? with
    | some p => doX y (.startMode p)
    | none => (y, "bad-op")
  | toks =>
    match parseOp toks with
    | some op => if applicable y.c op then doX y (.core op) else (y, "bad-op")
    | none => (y, "bad-op")

def driverInit : Sys := {}

end MpfVerif.LogicBlock
