import MpfVerif.Model.Delay
import MpfVerif.Gen.DelayOps
/-!
# What a run of the *generated* DelayManager methods means for the hand model's state (C13)

`Gen/DelayOps.lean` is `mpf/core/delays.py` as data for `Model/PyEffD.lean`: the dict `self.delays` is interpreter state,
`clock.schedule_once / clock.unschedule`, calling the stored callback, `uuid.uuid4()` and `events.process_event_queue()`
are logged effects.  This file says how the two sides are compared:

* `heapOf` — the hand model's `delays` list as the interpreter's dict (name ↦ (handle id, callback, kwargs));
* `applyEff` — the (hand-written) meaning of one logged call for the loop's live handles: `unschedule(h)` removes handle
  `h` if it is live (cancelling twice is a no-op, as in asyncio), `schedule_once(partial(_process_delay_callback, name,
  callback, **kwargs), timeout)` creates a live handle due `timeout` from now (a negative timeout is due now) whose id is
  the next free one, calling a callback is recorded; a call the model has no meaning for sets `unknown`;
* `gen` / `hand` — the observable result of one operation on both sides.

Time: the hand model's unit is 1 µs here (`usOf`): an int `ms` is `ms * 1000`, a float `ms` (micro-units of a ms) is
`m / 1000`; the `timeout` handed to the clock is seconds in micro-units, i.e. the same number.
-/
namespace MpfVerif.Delay
open MpfVerif.Py

/-- values of the source as model values -/
def natOf : PyVal → Nat
  | .int i => i.toNat | _ => 0
def intOf : PyVal → Int
  | .int i => i | _ => 0

/-- the clamped delay (in µs) the loop sees for `add(ms, …)`: `ms` an int or a float; anything else is not a delay -/
def usOf : PyVal → Option Nat
  | .int i => some (i * 1000).toNat
  | .flt m => some (m / 1000).toNat
  | _ => none

/-- `timeout` as handed to `clock.schedule_once` (seconds, micro-units) in µs; negative = now -/
def timeoutUs : PyVal → Option Nat
  | .flt t => some t.toNat
  | _ => none

/-- how names / dict keys are represented: any injective map into truthy values (`unnm` is its left inverse) -/
structure Names where
  nm : Nat → PyVal
  unnm : PyVal → Nat
  inv : ∀ n, unnm (nm n) = n
  truthy : ∀ n, (nm n).truthy = true

def encEntry (N : Names) (e : Entry) : PyVal × List PyVal := (N.nm e.name, [.int e.hid, .int e.cb, .int e.arg])

/-- the hand model's dict as the interpreter's dict -/
def heapOf (N : Names) (ds : List Entry) : Dict := ds.map (encEntry N)

/-- what the effects of a run add up to: the loop's live handles, the next handle id, the ghost observations, the callbacks
called (id, kwargs) -/
structure GSt where
  live : List Handle
  nextId : Nat
  obs : List Obs
  calls : List (Nat × Int)
  unknown : Bool := false
  deriving Repr

def applyEff (N : Names) (now : Nat) (g : GSt) (e : Eff) : GSt :=
  if e.obj = "clock" then
    if e.meth = "unschedule" then
      let hid := natOf (e.arg "event")
      if g.live.any (fun h => h.hid == hid) then
        { g with live := g.live.filter (fun h => h.hid != hid), obs := g.obs ++ [.cancel hid] }
      else g
    else if e.meth = "schedule_once" then
      if e.arg "callback.func" == .str "cb:_process_delay_callback" then
        match timeoutUs (e.arg "timeout") with
        | some d =>
          let h : Handle := ⟨g.nextId, N.unnm (e.arg "callback.0"), natOf (e.arg "callback.1"),
                             intOf (e.arg "callback.kwargs"), now + d⟩
          { g with live := g.live ++ [h], nextId := g.nextId + 1, obs := g.obs ++ [.sched h] }
        | none => { g with unknown := true }
      else { g with unknown := true }
    else { g with unknown := true }
  else if e.obj = "callback" then
    if e.meth = "call" then { g with calls := g.calls ++ [(natOf (e.arg "func"), intOf (e.arg "kwargs"))] }
    else { g with unknown := true }
  else if e.obj = "uuid" then g          -- the oracle supplies the fresh name; no state
  else if e.obj = "events" then g        -- process_event_queue: outside the delay model
  else { g with unknown := true }

/-- observable result of one operation: the dict, the live handles, the next id, ghost observations, callbacks called -/
structure Res where
  dict : Dict
  live : List Handle
  nextId : Nat
  obs : List Obs
  calls : List (Nat × Int)
  unknown : Bool

/-- … of a run of a generated method started in the state `s` -/
def gen (N : Names) (s : St) (r : Dict × List Eff × Except Err PyVal) : Res :=
  let g := r.2.1.foldl (applyEff N s.now) ⟨s.live, s.nextId, [], [], false⟩
  ⟨r.1, g.live, g.nextId, g.obs, g.calls, g.unknown⟩

/-- the ghost part of the hand model's observations (`sched`, `cancel`) and the callbacks it called -/
def ghost : List Obs → List Obs
  | [] => []
  | .sched h :: r => .sched h :: ghost r
  | .cancel i :: r => .cancel i :: ghost r
  | _ :: r => ghost r

def callsOf : List Obs → List (Nat × Int)
  | [] => []
  | .ranNow e _ :: r => (e.cb, e.arg) :: callsOf r
  | .fired h _ :: r => (h.cb, h.arg) :: callsOf r
  | _ :: r => callsOf r

/-- … of one command of the hand model -/
def hand (N : Names) (r : St × List Obs × List Cmd) : Res :=
  ⟨heapOf N r.1.delays, r.1.live, r.1.nextId, ghost r.2.1, callsOf r.2.1, false⟩

/-- the program a called callback puts on the agenda, for a `run_now` (inside `try … except KeyError`) -/
def pushedRunNow (P : Nat → List Cmd) (calls : List (Nat × Int)) : List Cmd :=
  calls.flatMap (fun c => P c.1 ++ [.endTry])

end MpfVerif.Delay
