import MpfVerif.Model.Template
/-!
# Conditional event handlers (C16, last clause) — model of `EventManager._run_handlers` / `_run_handlers_sequential`
  restricted to what a condition can observe, and of the conditional entries of `variable_player` / `event_player`

A handler registered as `event{condition}` carries a `BoolTemplate`; the dispatcher walks the handlers of the event in list
order (priority descending, `insertH`) and, at the handler's turn, evaluates the condition over the *merged* kwargs (posted
kwargs, updated by the dicts earlier handlers of a relay post returned, overridden by the handler's own kwargs) and the
*current* machine / player / settings / device values.  A handler that runs may change those values (`Act.set`, `Act.add`),
post events (`Act.fire`, queued: no effect on the values during this dispatch), return a dict (relay) or `False` (boolean:
the dispatch stops).  A `variable_player` handler is a list of steps each with its own optional condition (`var{condition}`),
an `event_player` handler a list of conditional `fire` steps.

`World` is everything the rest of the dispatch can depend on; `dispatch` is a left fold of `stepH`, so the world a handler
is decided on is by construction the world its predecessors left — the theorems in `Props/C16` say what that means.
-/
namespace MpfVerif.CondDispatch
open MpfVerif.Template

inductive Act
  | set (l : Loc) (v : Val)
  | add (l : Loc) (n : Int)
  | fire (t : String)
  deriving Repr

structure Step where
  cond : Option Expr := Option.none
  act : Act
  deriving Repr

structure Handler where
  id : Nat
  prio : Int := 1
  cond : Option Expr := Option.none
  kw : List (String × Val) := []
  steps : List Step := []
  ret : List (String × Val) := []
  retFalse : Bool := false
  deriving Repr

inductive Kind | post | relay | boolean | queue
  deriving DecidableEq, Repr

/-- `BoolTemplate.evaluate`: `bool(value)`; the default `False` for `None`, a `TemplateEvalError` or a `ValueError`; any
other exception leaves the dispatcher as an `AssertionError` -/
inductive Verdict | yes | no | crash | unmodelled
  deriving DecidableEq, Repr

def verdict (env : Env) : Option Expr → Verdict
  | Option.none => .yes
  | some e =>
    match (eval false env e).out with
    | .ok v => if truthy v then .yes else .no
    | .default => .no
    | .crash => .crash
    | .unmodelled => .unmodelled

inductive Status | running | stopped | crash | unmodelled
  deriving DecidableEq, Repr

structure World where
  env : Env := {}
  kw : List (String × Val) := []
  ran : List Nat := []
  fired : List String := []
  st : Status := .running

/-- what a handler's action does to the values a later condition can read -/
def applyAct (w : World) : Act → World
  | .set l v => { w with env := { w.env with vars := (l, v) :: w.env.vars } }
  | .add l n =>
    match w.env.look l with
    | some .none => { w with env := { w.env with vars := (l, .int n) :: w.env.vars } }
    | some old =>
      (match applyBin "add" old (.int n) with
       | .ok v => { w with env := { w.env with vars := (l, v) :: w.env.vars } }
       | .error _ => { w with st := .unmodelled })
    | Option.none => { w with st := .unmodelled }
  | .fire t => { w with fired := w.fired ++ [t] }

/-- the environment a condition of handler kwargs `hk` is evaluated on: current values, merged kwargs (handler's win) -/
def condEnv (w : World) (hk : List (String × Val)) : Env := { w.env with params := hk ++ w.kw }

def stepS (hk : List (String × Val)) (w : World) (s : Step) : World :=
  if w.st ≠ .running then w
  else match verdict (condEnv w hk) s.cond with
    | .yes => applyAct w s.act
    | .no => w
    | .crash => { w with st := .crash }
    | .unmodelled => { w with st := .unmodelled }

/-- one turn of `_run_handlers` -/
def stepH (k : Kind) (w : World) (h : Handler) : World :=
  if w.st ≠ .running then w
  else match verdict (condEnv w h.kw) h.cond with
    | .no => w
    | .crash => { w with st := .crash }
    | .unmodelled => { w with st := .unmodelled }
    | .yes =>
      let w1 := h.steps.foldl (stepS h.kw) { w with ran := w.ran ++ [h.id] }
      if w1.st ≠ .running then w1
      else if k = .boolean ∧ h.retFalse then { w1 with st := .stopped }
      else if k = .relay then { w1 with kw := h.ret ++ w1.kw }
      else w1

def dispatch (k : Kind) (w : World) (hs : List Handler) : World := hs.foldl (stepH k) w

/-- `add_handler`: append, then a stable sort by priority descending = insert behind every handler of priority `≥` -/
def insertH (h : Handler) : List Handler → List Handler
  | [] => [h]
  | x :: xs => if x.prio ≥ h.prio then x :: insertH h xs else h :: x :: xs

/-! ## line-protocol driver -/

structure DState where
  env : Env := {}
  kw : List (String × Val) := []
  hs : List Handler := []

def updH (id : Nat) (f : Handler → Handler) : List Handler → List Handler
  | [] => []
  | h :: r => if h.id = id then f h :: r else h :: updH id f r

def parseCond (toks : List String) : Option (Option Expr) :=
  match toks with
  | [] => some Option.none
  | _ => (parseAll toks).map some

def parseKind : String → Option Kind
  | "post" => some .post
  | "relay" => some .relay
  | "boolean" => some .boolean
  | "queue" => some .queue
  | _ => Option.none

def showStatus : Status → String
  | .running => "ok"
  | .stopped => "ok"
  | .crash => "crash"
  | .unmodelled => "unmodelled"

def showWorld (w : World) (locs : List String) : String :=
  showStatus w.st ++ " | ran" ++ String.join (w.ran.map (fun i => " " ++ toString i)) ++ " | fired" ++
    String.join (w.fired.map (fun t => " " ++ t)) ++ " | vals" ++
    String.join (locs.map (fun l => match parseLoc l with
      | some loc => (match w.env.look loc with | some v => " " ++ showVal v | Option.none => " ABSENT")
      | Option.none => " ?")) ++ " | kw" ++
    String.join (["x", "y", "z"].map (fun n => match findParam n w.kw with | some v => " " ++ n ++ "=" ++ showVal v | Option.none => ""))

def driverStep (s : DState) (line : String) : DState × String :=
  match line.splitOn " " with
  | ["hclear"] => ({ s with hs := [], kw := [] }, "ok")
  | "kw" :: n :: rest =>
    match parseVal (rest.length + 1) rest with
    | some (v, []) => ({ s with kw := (n, v) :: s.kw }, "ok")
    | _ => (s, "bad-op")
  | "hreg" :: id :: prio :: rest =>
    match id.toNat?, prio.toInt?, parseCond rest with
    | some i, some p, some c => ({ s with hs := insertH { id := i, prio := p, cond := c } s.hs }, "ok")
    | _, _, _ => (s, "bad-op")
  | "hkw" :: id :: n :: rest =>
    match id.toNat?, parseVal (rest.length + 1) rest with
    | some i, some (v, []) => ({ s with hs := updH i (fun h => { h with kw := (n, v) :: h.kw }) s.hs }, "ok")
    | _, _ => (s, "bad-op")
  | "hret" :: id :: n :: rest =>
    match id.toNat?, parseVal (rest.length + 1) rest with
    | some i, some (v, []) => ({ s with hs := updH i (fun h => { h with ret := (n, v) :: h.ret }) s.hs }, "ok")
    | _, _ => (s, "bad-op")
  | ["hfalse", id] =>
    match id.toNat? with
    | some i => ({ s with hs := updH i (fun h => { h with retFalse := true }) s.hs }, "ok")
    | Option.none => (s, "bad-op")
  | "hset" :: id :: l :: rest =>
    match id.toNat?, parseLoc l, parseVal (rest.length + 1) rest with
    | some i, some loc, some (v, r) =>
      (match parseCond r with
       | some c => ({ s with hs := updH i (fun h => { h with steps := h.steps ++ [{ cond := c, act := .set loc v }] }) s.hs }, "ok")
       | Option.none => (s, "bad-op"))
    | _, _, _ => (s, "bad-op")
  | "hadd" :: id :: l :: n :: rest =>
    match id.toNat?, parseLoc l, n.toInt?, parseCond rest with
    | some i, some loc, some k, some c =>
      ({ s with hs := updH i (fun h => { h with steps := h.steps ++ [{ cond := c, act := .add loc k }] }) s.hs }, "ok")
    | _, _, _, _ => (s, "bad-op")
  | "hfire" :: id :: t :: rest =>
    match id.toNat?, parseCond rest with
    | some i, some c => ({ s with hs := updH i (fun h => { h with steps := h.steps ++ [{ cond := c, act := .fire t }] }) s.hs }, "ok")
    | _, _ => (s, "bad-op")
  | ["order"] => (s, "order" ++ String.join (s.hs.map (fun h => " " ++ toString h.id)))
  | "dispatch" :: k :: locs =>
    match parseKind k with
    | some kind => (s, showWorld (dispatch kind { env := s.env, kw := s.kw } s.hs) locs)
    | Option.none => (s, "bad-op")
  | _ =>
    let r := Template.driverStep s.env line
    ({ s with env := r.1 }, r.2)

end MpfVerif.CondDispatch
