/-!
# Show tokens (C17) — model of `Show.get_show_steps_with_token` (`mpf/assets/show.py`)

A show step is a nested dict; a string in it (a dict key or a scalar value) may contain *tokens* `(name)`
(`_check_token`: `re.findall(r"\(([^)]+)\)", s)`).  Playing the show with `show_tokens = {name: value}` copies the steps and
replaces the tokens: first in the values (`_replace_token_values`: one token after the other, `str.replace`), then in the
keys (`_replace_token_keys`: by the recorded path, with the bookkeeping of keys renamed before — fix 4ec5a75).

Model: a string is a list of segments (`scan`), the nested dict is flattened into entries `(path of keys, value)`.
`subst` is the simultaneous substitution; `substSeq` replaces one token after the other like the code.
Outside the model (the driver answers `bad-op`): token names that contain `(`; replacement values with parentheses are
excluded by the harness (stated assumption): with them `str.replace` could re-scan a replacement.
-/
namespace MpfVerif.ShowToken

inductive Seg
  | lit (s : List Char)
  | tok (n : List Char)
  deriving DecidableEq, Repr

/-- scanner state: literal text collected so far (reversed), and - inside a parenthesis - the name so far (reversed) -/
def scanAux : List Char → List Char → Option (List Char) → Option (List Seg)
  | [], acc, none => some (if acc.isEmpty then [] else [.lit acc.reverse])
  | [], acc, some nm => some [.lit (acc.reverse ++ '(' :: nm.reverse)]          -- unterminated: literal text
  | c :: cs, acc, none => if c = '(' then scanAux cs acc (some []) else scanAux cs (c :: acc) none
  | c :: cs, acc, some nm =>
    if c = ')' then
      if nm.isEmpty then scanAux cs (')' :: '(' :: acc) none                      -- `()` is no token
      else (scanAux cs [] none).map (fun r => (if acc.isEmpty then [] else [Seg.lit acc.reverse]) ++ Seg.tok nm.reverse :: r)
    else if c = '(' then none                                                     -- a name with `(`: outside the model
    else scanAux cs acc (some (c :: nm))

def scan (s : List Char) : Option (List Seg) := scanAux s [] none

def renderSeg : Seg → List Char
  | .lit s => s
  | .tok n => '(' :: n ++ [')']

def render (l : List Seg) : List Char := (l.map renderSeg).flatten

structure Entry where
  path : List (List Seg)
  val : List Seg
  deriving DecidableEq, Repr

abbrev Toks := List (List Char × List Char)

def lookup : Toks → List Char → Option (List Char)
  | [], _ => none
  | (n, r) :: rest, m => if n = m then some r else lookup rest m

/-- simultaneous substitution -/
def substSeg (toks : Toks) : Seg → Seg
  | .lit s => .lit s
  | .tok n => match lookup toks n with
    | some r => .lit r
    | none => .tok n

def substSegs (toks : Toks) (l : List Seg) : List Seg := l.map (substSeg toks)

def substEntry (toks : Toks) (e : Entry) : Entry := { path := e.path.map (substSegs toks), val := substSegs toks e.val }

def subst (toks : Toks) (sh : List Entry) : List Entry := sh.map (substEntry toks)

/-- one token, as one round of the loops in `_replace_token_values` / `_replace_token_keys` -/
def subst1Seg (n r : List Char) : Seg → Seg
  | .lit s => .lit s
  | .tok m => if n = m then .lit r else .tok m

def vals1 (n r : List Char) (sh : List Entry) : List Entry := sh.map (fun e => { e with val := e.val.map (subst1Seg n r) })
def keys1 (n r : List Char) (sh : List Entry) : List Entry :=
  sh.map (fun e => { e with path := e.path.map (fun k => k.map (subst1Seg n r)) })

/-- the code's order: all tokens through the values, one after the other, then all tokens through the keys -/
def substSeq (toks : Toks) (sh : List Entry) : List Entry :=
  toks.foldl (fun sh nr => keys1 nr.1 nr.2 sh) (toks.foldl (fun sh nr => vals1 nr.1 nr.2 sh) sh)

def segToks : Seg → List (List Char)
  | .lit _ => []
  | .tok n => [n]

def segsToks (l : List Seg) : List (List Char) := (l.map segToks).flatten

def entryToks (e : Entry) : List (List Char) := (e.path.map segsToks).flatten ++ segsToks e.val

/-- `Show.tokens` -/
def tokensOf (sh : List Entry) : List (List Char) := (sh.map entryToks).flatten

/-! ## line protocol: `tok <k> n1 v1 … nk vk <m> <d> key1 … keyd value …` (every string prefixed with `.`, no blanks) -/

def unstr (w : String) : Option (List Char) :=
  match w.toList with
  | '.' :: r => some r
  | _ => none

def takeStrs : Nat → List String → Option (List (List Char) × List String)
  | 0, ws => some ([], ws)
  | n + 1, w :: ws => do
    let s ← unstr w
    let (r, rest) ← takeStrs n ws
    pure (s :: r, rest)
  | _ + 1, [] => none

def pairs : List (List Char) → Toks
  | a :: b :: r => (a, b) :: pairs r
  | _ => []

/-- `fuel` bounds the number of entries -/
def takeEntries : Nat → Nat → List String → Option (List Entry)
  | 0, _, [] => some []
  | 0, _, _ :: _ => none
  | _ + 1, _, [] => none
  | m + 1, fuel, d :: ws => do
    let d ← d.toNat?
    let (ks, rest) ← takeStrs d ws
    let (v, rest) ← takeStrs 1 rest
    let ks ← ks.mapM scan
    let v ← (v.mapM scan)
    let r ← takeEntries m fuel rest
    pure ({ path := ks, val := v.headD [] } :: r)

def showEntry (e : Entry) : String :=
  toString e.path.length ++ String.join (e.path.map (fun k => " ." ++ String.ofList (render k))) ++ " ." ++ String.ofList (render e.val)

def tokLine (ws : List String) : String :=
  match ws with
  | k :: ws =>
    match k.toNat? with
    | none => "bad-op"
    | some k =>
      match takeStrs (2 * k) ws with
      | some (kv, m :: rest) =>
        match m.toNat? with
        | none => "bad-op"
        | some m =>
          match takeEntries m m rest with
          | none => "bad-op"
          | some sh =>
            let toks := pairs kv
            let out := subst toks sh
            "t " ++ toString (tokensOf out).length ++ String.join (out.map (fun e => " " ++ showEntry e))
      | _ => "bad-op"
  | [] => "bad-op"

end MpfVerif.ShowToken
