/-!
# Mode lifecycle (C07) — model of `Mode.start/_started/_mode_started_callback/stop/_stopped/_mode_stopped_callback`
(`mpf/core/mode.py`, after the D12 repairs and with `_finish_stop`: the cleanup of a stop runs once, in
`_mode_stopped_callback` or at the beginning of the next accepted `start`, whichever comes first) and `ModeController.set_mode_state` (`mpf/core/mode_controller.py`)

* the event bus is not re-modelled: *when* the callback of `mode_<n>_starting` / `mode_<n>_started` / `mode_<n>_stopping` /
  `mode_<n>_stopped` runs is a scheduler choice and therefore an input op (`started`, `startedCb`, `stopped`,
  `stoppedCb`); `step` answers `none` when that step could not happen in this state;
* the three registries (event handlers, switch handlers, delays) are lists of entries tagged with the owning mode and the
  mechanism that removes them: `own` = keys in `mode.event_handlers` (stop events, device control events, handlers added
  by mode code; removed by `_remove_mode_event_handlers`), `cfg` = config-player handlers (removed by the mode's
  `stop_methods` in `_stopped`), `dev` = handlers mode devices register when they are enabled on `mode_<n>_started`
  (removed with the device in `_remove_mode_devices`), `turn` = the one-shot handler on `mode_<n>_started` that
  `ModeController._player_turn_ended` registers for a game mode that is still starting when the player's turn ends
  (`_stop_mode_started_at_turn_end`: it removes itself when the started event is handled and requests a stop);
* config players (`mpf/core/config_player.py`): an entry of a mode's `light_player:` / `show_player:` / `coil_player:` … is a
  `cfg` handler; *when* it is called is an input (`cfgPlay`) — also AFTER the handler has been removed, because the
  dispatcher of a queue event (`EventManager._run_handlers_sequential`) works on a snapshot of the handler list taken before
  it waited for a higher-priority handler; `config_play_callback` plays only `if mode.active`; what a play records under the
  mode's context (light stack entry, show instance, enabled coil: registry `fx`) is cleared by the player's `mode_stop`
  (`clear_context`), one of the mode's `stop_methods`, in `_stopped`;
* mode devices own delay managers and periodic tasks (timer ticks and timed pauses, logic-block timeouts, sequence-shot
  timeouts, shot delay switches, ball-save timers: registry `tm`); a device schedules (`addTm`), cancels (`remTm`) and
  lets them elapse (`fireTm`) while it is loaded in its mode, i.e. between the accepted `start` (`_add_mode_devices`) and
  the cleanup of the stop (`_remove_mode_devices` → `device_removed_from_mode`), which cancels whatever is pending;
* user code of a mode (`addH`, `addSw`, `addDl`, a delay firing) may run at any time; a control event of a mode device
  (`count_events: ev`, `enable_events: {ev: 2s}` → `Mode._direct_control_event_handler` / `Mode._control_event_handler` →
  `self.delay.add(..., mode=self)`) is `ctlCall`: *when* the handler is called is an input - also after it has been
  removed, from the snapshot of a queue event (see config players) -, it acts only while the mode is starting or active;
  the delayed call is an owned delay (`fireDl` when it elapses), whichever `DelayManager` the implementation used.
-/
namespace MpfVerif.Mode

inductive Cls | own | cfg | dev | turn
  deriving DecidableEq, Repr

structure Ent where
  owner : Nat
  cls : Cls
  id : Nat
  deriving DecidableEq, Repr

structure Cfg where
  prio : Int := 0
  useWait : Bool := false
  nOwn : Nat := 0
  nCfg : Nat := 0
  nDev : Nat := 0
  deriving DecidableEq, Repr

structure MState where
  active : Bool := false
  starting : Bool := false
  stopping : Bool := false
  prio : Int := 0
  waitQ : Bool := false            -- `_mode_start_wait_queue` is held
  pStartedCb : Nat := 0            -- `mode_<n>_started` posted, `_mode_started_callback` not yet run
  pStoppedCb : Nat := 0            -- `mode_<n>_stopped` posted, `_mode_stopped_callback` not yet run
  stopMethods : Bool := false
  cleanupPending : Bool := false   -- `_stop_cleanup_pending`: `_stopped` has run, `_finish_stop` not yet
  deriving DecidableEq, Repr

inductive Ev | ws | sg | sd | wp | pg | pd
  deriving DecidableEq, Repr

inductive Op
  | start (m : Nat) (prio : Option Int) (queue gameOk : Bool)
  | started (m : Nat)
  | startedCb (m : Nat)
  | stop (m : Nat)
  | stopped (m : Nat)
  | stoppedCb (m : Nat)
  | addH (m id : Nat)
  | addSw (m id : Nat)
  | addDl (m id : Nat)
  | fireDl (m id : Nat)
  | turnEnd (m : Nat)        -- `_player_turn_ended` finds game mode m (auto_stop_on_ball_end) still starting
  | cfgPlay (m id : Nat)     -- `config_play_callback` of an entry of mode m's config player `id` is called (ids < 100 record something under the context)
  | cfgSub (m id : Nat) (on : Bool)  -- a conditional entry (`"{condition}":` = template subscription) of config player `id` is (re-)evaluated: played when true, removed when false
  | addTm (m id : Nat)       -- a device of mode m schedules a delay on its own manager / a periodic task
  | fireTm (m id : Nat)      -- such a delay elapses
  | remTm (m id : Nat)       -- the device cancels it (`DelayManager.remove`, `clock.unschedule`; nothing happens when it is gone)
  | ctlCall (m : Nat) (dl : Option Nat)  -- a device control event handler of mode m (`_setup_device_control_events`) is called - also from the snapshot of a queue event's handler list taken before the mode stopped; `some id` = the dict form with a delay (`_control_event_handler` schedules the call as delay `id`)
  deriving DecidableEq, Repr

structure St where
  cfg : Nat → Cfg
  modes : Nat → MState
  act : List Nat := []
  bus : List Ent := []
  sw : List Ent := []
  dl : List Ent := []
  fx : List Ent := []              -- what config players recorded under a mode's context
  tm : List Ent := []              -- delays / periodic tasks owned by mode devices
  log : List (Nat × Ev) := []

def upd (f : Nat → MState) (m : Nat) (x : MState) : Nat → MState := fun i => if i = m then x else f i

def init (cfg : Nat → Cfg) : St := { cfg := cfg, modes := fun _ => {} }

/-- `sort(key=lambda x: (x.priority, x.name), reverse=True)`: is `a` strictly before `b`? (names are the ids) -/
def before (modes : Nat → MState) (a b : Nat) : Bool :=
  (modes a).prio > (modes b).prio || ((modes a).prio == (modes b).prio && a > b)

/-- `active_modes.append(mode); active_modes.sort(...)` on a list that is sorted already -/
def ins (modes : Nat → MState) (m : Nat) : List Nat → List Nat
  | [] => [m]
  | y :: ys => if before modes m y then m :: y :: ys else y :: ins modes m ys

def mkEnts (owner : Nat) (cls : Cls) : Nat → List Ent
  | 0 => []
  | n + 1 => mkEnts owner cls n ++ [⟨owner, cls, n⟩]

def ownedBy (m : Nat) (e : Ent) : Bool := e.owner == m

/-- what a control event handler schedules on the mode's delay manager: nothing (direct form) or one delayed call -/
def ctlEnt (m : Nat) : Option Nat → List Ent
  | none => []
  | some id => [⟨m, .own, id⟩]

/-- the mode's config players are loaded (`stop_methods`): from the accepted `start` until `_stopped` -/
def up (ms : MState) : Bool := ms.starting || ms.active

/-- the mode's devices are loaded: from the accepted `start` until the cleanup of the stop has run -/
def alive (ms : MState) : Bool := ms.starting || ms.active || ms.cleanupPending

/-- `_finish_stop`: `_remove_mode_event_handlers`, `_remove_mode_switch_handlers`, `delay.clear()`, `_remove_mode_devices`
(only once per stop) -/
def cleanup (st : St) (m : Nat) : St :=
  if (st.modes m).cleanupPending then
    { st with
      modes := upd st.modes m { (st.modes m) with cleanupPending := false },
      bus := st.bus.filter (fun e => !(ownedBy m e && (e.cls == .own || e.cls == .dev))),
      sw := st.sw.filter (fun e => !ownedBy m e),
      dl := st.dl.filter (fun e => !ownedBy m e),
      tm := st.tm.filter (fun e => !ownedBy m e) }
  else st

/-- the body of an accepted `Mode.start` -/
def startCore (st : St) (m : Nat) (prio : Option Int) (queue : Bool) : St :=
  let ms := st.modes m
  let c := st.cfg m
  { st with
    modes := upd st.modes m { ms with starting := true, prio := prio.getD c.prio,
                                      waitQ := ms.waitQ || (c.useWait && queue), stopMethods := true },
    bus := st.bus ++ mkEnts m .own c.nOwn ++ mkEnts m .cfg c.nCfg,
    log := st.log ++ [(m, .ws), (m, .sg)] }

/-- `_mode_stopped_callback` has been called (its cleanup is `cleanup`) -/
def cbCore (st : St) (m : Nat) : St :=
  { st with modes := upd st.modes m { (st.modes m) with pStoppedCb := (st.modes m).pStoppedCb - 1 } }

/-- one step; `none` = that step is not enabled in this state.  Requests that the guards of `start`/`stop` turn down are
enabled and change nothing. -/
def step (st : St) : Op → Option St
  | .start m prio queue gameOk =>
    let ms := st.modes m
    if !gameOk || ms.active || ms.starting then some st
    else some (startCore (cleanup st m) m prio queue)   -- a restart from a `mode_<n>_stopped` handler finishes the stop first
  | .started m =>
    let ms := st.modes m
    if !ms.starting then none
    else
      let modes' := upd st.modes m { ms with active := true, starting := false, pStartedCb := ms.pStartedCb + 1 }
      some { st with
        modes := modes',
        act := if ms.active then st.act else ins modes' m st.act,
        -- handlers of mode_<n>_started run in this drain, before any callback: devices enable (dev entries), the one-shot
        -- turn-end handler removes itself (its mode.stop() is the next `stop` of the schedule)
        bus := st.bus.filter (fun e => !(ownedBy m e && e.cls == .turn)) ++ mkEnts m .dev (st.cfg m).nDev,
        log := st.log ++ [(m, .sd)] }
  | .startedCb m =>
    let ms := st.modes m
    if ms.pStartedCb = 0 then none
    else some { st with modes := upd st.modes m { ms with pStartedCb := ms.pStartedCb - 1 } }
  | .stop m =>
    let ms := st.modes m
    if !ms.active || ms.stopping then some st
    else some { st with
      modes := upd st.modes m { ms with stopping := true },
      sw := st.sw.filter (fun e => !ownedBy m e),
      dl := st.dl.filter (fun e => !ownedBy m e),
      log := st.log ++ [(m, .wp), (m, .pg)] }
  | .stopped m =>
    let ms := st.modes m
    if !ms.stopping then none
    else some { st with
      modes := upd st.modes m { ms with prio := 0, active := false, stopping := false, waitQ := false,
                                        stopMethods := false, pStoppedCb := ms.pStoppedCb + 1,
                                        cleanupPending := true },
      act := if ms.active then st.act.filter (fun x => x != m) else st.act,
      bus := st.bus.filter (fun e => !(ownedBy m e && e.cls == .cfg)),
      fx := st.fx.filter (fun e => !ownedBy m e),
      log := st.log ++ [(m, .pd)] }
  | .stoppedCb m =>
    let ms := st.modes m
    if ms.pStoppedCb = 0 then none
    else some (cbCore (cleanup st m) m)
  | .addH m id => some { st with bus := st.bus ++ [⟨m, .own, 1000 + id⟩] }
  | .addSw m id => some { st with sw := st.sw ++ [⟨m, .own, id⟩] }
  | .addDl m id => some { st with dl := st.dl ++ [⟨m, .own, id⟩] }
  | .turnEnd m =>
    if (st.modes m).starting then some { st with bus := st.bus ++ [⟨m, .turn, 0⟩] } else none
  | .fireDl m id =>
    if st.dl.contains ⟨m, .own, id⟩ then some { st with dl := st.dl.filter (fun e => e != ⟨m, .own, id⟩) } else none
  | .cfgPlay m id =>
    -- `if not mode.active: return`; a second play of the same entry replaces what the first recorded
    if (st.modes m).active && decide (id < 100) && !st.fx.contains ⟨m, .cfg, id⟩ then
      some { st with fx := st.fx ++ [⟨m, .cfg, id⟩] }
    else some st
  | .cfgSub m id on =>
    -- subscriptions are made in `start()` (`mode_start` of the player: the entry is evaluated and played at once, while the
    -- mode is still starting) and cancelled by `unload_player_events` in `_stopped`
    if !up (st.modes m) then none
    else if decide (id ≥ 100) then some st
    else if on then (if st.fx.contains ⟨m, .cfg, id⟩ then some st else some { st with fx := st.fx ++ [⟨m, .cfg, id⟩] })
    else some { st with fx := st.fx.filter (fun e => e != ⟨m, .cfg, id⟩) }
  | .addTm m id =>
    if alive (st.modes m) then some { st with tm := st.tm ++ [⟨m, .dev, id⟩] } else none
  | .fireTm m id =>
    if st.tm.contains ⟨m, .dev, id⟩ then some { st with tm := st.tm.filter (fun e => e != ⟨m, .dev, id⟩) } else none
  | .remTm m id => some { st with tm := st.tm.filter (fun e => e != ⟨m, .dev, id⟩) }
  | .ctlCall m dl =>
    -- `if not self._active and not self._starting: return` in `_direct_control_event_handler` / `_control_event_handler`:
    -- the call reaches the device (whose own effects are further ops) / schedules the delayed call only while the mode runs
    if up (st.modes m) then some { st with dl := st.dl ++ ctlEnt m dl } else some st

/-- a schedule; steps that are not enabled are skipped -/
def run (st : St) : List Op → St
  | [] => st
  | op :: r => run ((step st op).getD st) r

/-! ## driver -/

structure DState where
  cfgs : List (Nat × Cfg) := []
  st : St := init (fun _ => {})

def cfgOf : List (Nat × Cfg) → Nat → Cfg
  | [], _ => {}
  | (i, c) :: r, m => if i = m then c else cfgOf r m

def dinit : DState := {}

def showEv : Ev → String
  | .ws => "ws" | .sg => "sg" | .sd => "sd" | .wp => "wp" | .pg => "pg" | .pd => "pd"

def b01 (b : Bool) : String := if b then "1" else "0"

def cnt (l : List Ent) (m : Nat) (c : Cls) (user : Bool) : Nat :=
  (l.filter (fun e => e.owner == m && e.cls == c && (decide (e.id ≥ 1000) == user))).length

def showIds (l : List Ent) : String :=
  ",".intercalate (l.map (fun e => toString e.owner ++ "." ++ toString e.id))

def showMode (st : St) (m : Nat) : String :=
  let ms := st.modes m
  toString m ++ ":" ++ b01 ms.active ++ b01 ms.starting ++ b01 ms.stopping ++ "," ++ toString ms.prio ++ "," ++
    toString (cnt st.bus m .own false) ++ "," ++ toString (cnt st.bus m .cfg false) ++ "," ++
    toString (cnt st.bus m .dev false) ++ "," ++ toString (cnt st.bus m .turn false) ++ "," ++
    showIds ((st.bus.filter (fun e => e.owner == m && e.id ≥ 1000)).map (fun e => { e with id := e.id - 1000 }))

def showState (d : DState) : String :=
  " ".intercalate ((d.cfgs.map (·.1)).reverse.map (showMode d.st)) ++ " | act=" ++
    ",".intercalate (d.st.act.map toString) ++ " | sw=" ++ showIds d.st.sw ++ " | dl=" ++ showIds d.st.dl ++
    " | fx=" ++ showIds (((d.cfgs.map (·.1)).reverse.map (fun m =>
      ((List.range 200).filter (fun i => d.st.fx.contains ⟨m, .cfg, i⟩)).map (fun i => (⟨m, .cfg, i⟩ : Ent)))).flatten) ++
    " | tm=" ++ showIds d.st.tm

def answer (d : DState) (r : Option St) (quiet : Bool) : DState × String :=
  match r with
  | none => (d, "not-enabled")
  | some st' =>
    let evs := st'.log.drop d.st.log.length
    ({ d with st := st' }, if evs.isEmpty then (if quiet then "ok" else "ignored") else
      " ".intercalate (evs.map (fun e => showEv e.2 ++ toString e.1)))

def parseBool (s : String) : Option Bool := if s = "1" then some true else if s = "0" then some false else none

def driverStep (d : DState) (line : String) : DState × String :=
  match line.splitOn " " with
  | ["reset"] => (dinit, "ok")
  | ["mode", id, prio, w, a, b, c] =>
    match id.toNat?, prio.toInt?, parseBool w, a.toNat?, b.toNat?, c.toNat? with
    | some i, some p, some w', some a', some b', some c' =>
      let cfgs := (i, { prio := p, useWait := w', nOwn := a', nCfg := b', nDev := c' : Cfg }) :: d.cfgs
      ({ cfgs := cfgs, st := { d.st with cfg := cfgOf cfgs } }, "ok")
    | _, _, _, _, _, _ => (d, "bad-op")
  | ["start", m, prio, q, g] =>
    match m.toNat?, parseBool q, parseBool g with
    | some m', some q', some g' =>
      if prio = "-" then answer d (step d.st (.start m' none q' g')) false else
      match prio.toInt? with
      | some p => answer d (step d.st (.start m' (some p) q' g')) false
      | none => (d, "bad-op")
    | _, _, _ => (d, "bad-op")
  | ["ctlcall", m, id] =>
    match m.toNat?, (if id = "-" then some none else id.toNat?.map some : Option (Option Nat)) with
    | some m', some dl =>
      match step d.st (.ctlCall m' dl) with
      | none => (d, "not-enabled")
      | some st' => ({ d with st := st' }, if up (d.st.modes m') then "acted" else "ignored")
    | _, _ => (d, "bad-op")
  | [op, m] =>
    match m.toNat? with
    | none => (d, "bad-op")
    | some m' =>
      if op = "started" then answer d (step d.st (.started m')) true
      else if op = "startedcb" then answer d (step d.st (.startedCb m')) true
      else if op = "stop" then answer d (step d.st (.stop m')) false
      else if op = "stopped" then answer d (step d.st (.stopped m')) true
      else if op = "stoppedcb" then answer d (step d.st (.stoppedCb m')) true
      else if op = "turnend" then answer d (step d.st (.turnEnd m')) true
      else (d, "bad-op")
  | [op, m, id] =>
    match m.toNat?, id.toNat? with
    | some m', some i =>
      if op = "addh" then answer d (step d.st (.addH m' i)) true
      else if op = "addsw" then answer d (step d.st (.addSw m' i)) true
      else if op = "adddl" then answer d (step d.st (.addDl m' i)) true
      else if op = "firedl" then answer d (step d.st (.fireDl m' i)) true
      else if op = "addtm" then answer d (step d.st (.addTm m' i)) true
      else if op = "firetm" then answer d (step d.st (.fireTm m' i)) true
      else if op = "remtm" then answer d (step d.st (.remTm m' i)) true
      else if op = "cfgplay" then
        match step d.st (.cfgPlay m' i) with
        | none => (d, "not-enabled")
        | some st' => ({ d with st := st' }, if (d.st.modes m').active then "played" else "skipped")
      else (d, "bad-op")
    | _, _ => (d, "bad-op")
  | ["cfgsub", m, id, v] =>
    match m.toNat?, id.toNat?, parseBool v with
    | some m', some i, some v' => answer d (step d.st (.cfgSub m' i v')) true
    | _, _, _ => (d, "bad-op")
  | ["state"] => (d, showState d)
  | _ => (d, "bad-op")

end MpfVerif.Mode
