/-!
# Queue events (C02) — model of `_process_queue_event`, `_run_handlers_sequential`, `QueuedEvent`, `add_async_handler`
in `mpf/core/events.py` (as it is after the D24 and D4 repairs)

* every handler invocation gets a fresh `QueuedEvent` cell (addressed by its index in `cells`); a cell inherited through
  the posted kwargs (`passed`, the `Mode.start` pattern) is only handed on to the completion callback;
* a dispatch task runs handlers of its snapshot one after the other; after a handler it tests `cell.waiter`, creates a
  fresh `asyncio.Event` in `cell.event` and sleeps on it; `clear` resets `waiter` and sets the cell's *current* event;
* scheduler choices are inputs: `resume sn` (one step of a task, up to its next await), `dispatch` / `callbacks` (the two
  halves of `process_event_queue`), `clear c` (a timer / a finished coroutine clears a wait).  `none` = not enabled.
-/
namespace MpfVerif.QueueEvent

structure Cell where
  waiter : Bool := false
  event : Option Nat := none
  deriving DecidableEq, Repr

structure Handler where
  key : Nat
  prio : Int
  pid : Nat
  deriving DecidableEq, Repr

inductive Act
  | wait                                        -- queue.wait() on the handler's own cell
  | clearOwn                                    -- queue.clear() on the handler's own cell
  | postQueue (ev cb : Nat) (pass : Bool)       -- post_queue(ev, cb [, queue=own cell])
  | add (ev : Nat) (h : Handler)
  | remove (ev key : Nat)
  | clearPassed                                 -- (callback) clear the cell that came with the post
  | replace (ev : Nat) (h : Handler)            -- replace_handler(ev, callback h.pid, h.prio): drop its entries, add
  | removeFn (pid : Nat)                        -- remove_handler(method)
  | removeEvFn (ev pid : Nat)                   -- remove_handler_by_event(ev, handler)
  deriving DecidableEq, Repr

structure Prog where
  acts : List Act
  async : Bool := false        -- registered with add_async_handler: wait, run the coroutine, clear when it is done
  deriving DecidableEq, Repr

structure Posted where
  ev : Nat
  cb : Nat
  passed : Option Nat
  sn : Nat
  deriving DecidableEq, Repr

inductive Obs
  | call (key ev sn cell : Nat)
  | acall (key ev sn cell : Nat)
  | cb (pid sn : Nat)
  | error (what : Nat)          -- 1 = "Double lock", 2 = "Not locked"
  deriving DecidableEq, Repr

structure Task where
  sn : Nat
  ev : Nat
  cb : Nat
  passed : Option Nat
  rest : Option (List Handler) := none      -- none: not started yet; some l: handlers still to run
  awaiting : Option (Nat × Nat) := none     -- (cell, asyncio.Event) the task sleeps on
  done : Bool := false
  deriving DecidableEq, Repr

abbrev Reg := List (Nat × List Handler)

structure St where
  reg : Reg := []
  cells : List Cell := []
  setEvts : List Nat := []
  nextEvt : Nat := 0
  nextSn : Nat := 0
  pending : List Posted := []
  cbq : List (Nat × Nat × Option Nat) := []
  tasks : List Task := []
  log : List Obs := []
  deriving DecidableEq, Repr

def regGet : Reg → Nat → List Handler
  | [], _ => []
  | (e, hs) :: r, ev => if e = ev then hs else regGet r ev

def regSet : Reg → Nat → List Handler → Reg
  | [], ev, hs => [(ev, hs)]
  | (e, old) :: r, ev, hs => if e = ev then (ev, hs) :: r else (e, old) :: regSet r ev hs

def insDesc (h : Handler) : List Handler → List Handler
  | [] => [h]
  | y :: ys => if h.prio ≥ y.prio then h :: y :: ys else y :: insDesc h ys

def sortDesc : List Handler → List Handler
  | [] => []
  | h :: r => insDesc h (sortDesc r)

def setCell : List Cell → Nat → Cell → List Cell
  | [], _, _ => []
  | _ :: r, 0, c => c :: r
  | x :: r, n + 1, c => x :: setCell r n c

def getCell (cells : List Cell) (i : Nat) : Cell := cells.getD i {}

/-- `QueuedEvent.clear` -/
def clearCell (st : St) (c : Nat) : St :=
  let cell := getCell st.cells c
  if !cell.waiter then { st with log := st.log ++ [Obs.error 2] }
  else
    let st1 := { st with cells := setCell st.cells c { cell with waiter := false } }
    match cell.event with
    | some e => { st1 with setEvts := e :: st1.setEvts }
    | none => st1

/-- `QueuedEvent.wait` -/
def waitCell (st : St) (c : Nat) : St :=
  let cell := getCell st.cells c
  if cell.waiter then { st with log := st.log ++ [Obs.error 1] }
  else { st with cells := setCell st.cells c { cell with waiter := true } }

/-- one action; `own` = the running handler's cell, `passed` = the cell that came with the post (callbacks) -/
def runAct (own passed : Option Nat) (st : St) : Act → St
  | .wait => match own with | some c => waitCell st c | none => st
  | .clearOwn => match own with | some c => clearCell st c | none => st
  | .clearPassed => match passed with | some c => clearCell st c | none => st
  | .postQueue ev cb pass =>
    { st with nextSn := st.nextSn + 1,
              pending := st.pending ++ [⟨ev, cb, if pass then own else none, st.nextSn⟩] }
  | .add ev h => { st with reg := regSet st.reg ev (sortDesc (regGet st.reg ev ++ [h])) }
  | .remove ev key => { st with reg := regSet st.reg ev ((regGet st.reg ev).filter (fun h => h.key != key)) }
  | .replace ev h =>
    { st with reg := regSet st.reg ev (sortDesc ((regGet st.reg ev).filter (fun x => x.pid != h.pid) ++ [h])) }
  | .removeFn pid => { st with reg := st.reg.map (fun p => (p.1, p.2.filter (fun x => x.pid != pid))) }
  | .removeEvFn ev pid => { st with reg := regSet st.reg ev ((regGet st.reg ev).filter (fun x => x.pid != pid)) }

def runActs (own passed : Option Nat) (st : St) : List Act → St
  | [] => st
  | a :: r => runActs own passed (runAct own passed st a) r

/-- `callback(**kwargs)` of a queue event -/
def runCallback (progs : Nat → Prog) (st : St) (pid sn : Nat) (passed : Option Nat) : St :=
  runActs none passed { st with log := st.log ++ [Obs.cb pid sn] } (progs pid).acts

/-- the body of `_run_handlers_sequential` from the current handler on, up to the next await or the end -/
def runTask (progs : Nat → Prog) (t : Task) : List Handler → St → St × Task
  | [], st => (runCallback progs st t.cb t.sn t.passed, { t with rest := some [], awaiting := none, done := true })
  | h :: hs, st =>
    let c := st.cells.length
    let p := progs h.pid
    let st0 := { st with cells := st.cells ++ [{}],
                         log := st.log ++ [if p.async then Obs.acall h.key t.ev t.sn c else Obs.call h.key t.ev t.sn c] }
    let st1 := if p.async then waitCell st0 c else runActs (some c) none st0 p.acts
    if (getCell st1.cells c).waiter then
      -- queue.event = asyncio.Event(); await queue.event.wait()
      let e := st1.nextEvt
      ({ st1 with cells := setCell st1.cells c { getCell st1.cells c with event := some e }, nextEvt := e + 1 },
       { t with rest := some hs, awaiting := some (c, e) })
    else runTask progs t hs st1

/-- one scheduler step of a dispatch task; `none` = the task cannot run now -/
def stepTask (progs : Nat → Prog) (st : St) (t : Task) : Option (St × Task) :=
  if t.done then none else
  match t.rest with
  | none =>
    -- first step: "all handlers may have been removed in the meantime" (the callback is still called)
    some (runTask progs t (regGet st.reg t.ev) st)
  | some hs =>
    match t.awaiting with
    | some (_, e) => if st.setEvts.contains e then some (runTask progs { t with awaiting := none } hs st) else none
    | none => none

def replaceTask (ts : List Task) (t : Task) : List Task := ts.map (fun x => if x.sn = t.sn then t else x)

def findTask (ts : List Task) (sn : Nat) : Option Task := ts.find? (fun t => t.sn = sn)

def resume (progs : Nat → Prog) (st : St) (sn : Nat) : Option St :=
  match findTask st.tasks sn with
  | none => none
  | some t => match stepTask progs st t with
    | none => none
    | some (st', t') => some { st' with tasks := replaceTask st'.tasks t' }

/-- first half of `process_event_queue`: every waiting queue event is dispatched (`_process_queue_event`) -/
def dispatchAll (st : St) : List Posted → St
  | [] => st
  | p :: r =>
    if (regGet st.reg p.ev).isEmpty then dispatchAll { st with cbq := st.cbq ++ [(p.cb, p.sn, p.passed)] } r
    else dispatchAll { st with tasks := st.tasks ++ [{ sn := p.sn, ev := p.ev, cb := p.cb, passed := p.passed }] } r

def dispatch (st : St) : St := dispatchAll { st with pending := [] } st.pending

def popLast {α : Type} : List α → Option (List α × α)
  | [] => none
  | [x] => some ([], x)
  | x :: y :: r => match popLast (y :: r) with
    | some (l, z) => some (x :: l, z)
    | none => none

/-- second half: callbacks last-first, dispatching whatever they post before the next callback -/
def callbacks (progs : Nat → Prog) : Nat → St → Option St
  | 0, _ => none
  | n + 1, st =>
    let st := dispatch st
    match popLast st.cbq with
    | none => some st
    | some (rest, (pid, sn, passed)) => callbacks progs n (runCallback progs { st with cbq := rest } pid sn passed)

/-! ## driver -/

def parseAct (toks : List String) : Option Act :=
  match toks with
  | ["W"] => some .wait
  | ["C"] => some .clearOwn
  | ["CP"] => some .clearPassed
  | ["Q", ev, cb, pass] => do pure (.postQueue (← ev.toNat?) (← cb.toNat?) (pass == "1"))
  | ["A", ev, key, prio, pid] => do pure (.add (← ev.toNat?) ⟨← key.toNat?, ← prio.toInt?, ← pid.toNat?⟩)
  | ["R", ev, key] => do pure (.remove (← ev.toNat?) (← key.toNat?))
  | ["H", ev, key, prio, pid] => do pure (.replace (← ev.toNat?) ⟨← key.toNat?, ← prio.toInt?, ← pid.toNat?⟩)
  | ["M", pid] => do pure (.removeFn (← pid.toNat?))
  | ["E", ev, pid] => do pure (.removeEvFn (← ev.toNat?) (← pid.toNat?))
  | _ => none

def splitBar : List String → List (List String)
  | [] => [[]]
  | t :: r => if t = "|" then [] :: splitBar r else
    match splitBar r with
    | [] => [[t]]
    | h :: tl => (t :: h) :: tl

def parseActs (toks : List String) : Option (List Act) :=
  if toks.isEmpty then some [] else
  (splitBar toks).foldr (fun a acc => do let rest ← acc; let x ← parseAct a; pure (x :: rest)) (some [])

def showObs : Obs → String
  | .call key ev sn cell => "c" ++ toString key ++ "." ++ toString ev ++ "." ++ toString sn ++ "." ++ toString cell
  | .acall _ ev sn cell => "a" ++ toString ev ++ "." ++ toString sn ++ "." ++ toString cell
  | .cb pid sn => "b" ++ toString pid ++ "." ++ toString sn
  | .error w => "E" ++ toString w

structure DState where
  progs : List (Nat × Prog) := []
  st : St := {}

def lookupProg (t : List (Nat × Prog)) (pid : Nat) : Prog :=
  match t with
  | [] => ⟨[], false⟩
  | (p, pr) :: r => if p = pid then pr else lookupProg r pid

def init : DState := {}

def answer (d : DState) (st' : St) : DState × String :=
  let obs := st'.log.drop d.st.log.length
  ({ d with st := st' }, if obs.isEmpty then "ok" else " ".intercalate (obs.map showObs))

def driverStep (d : DState) (line : String) : DState × String :=
  match line.splitOn " " with
  | ["reset"] => (init, "ok")
  | "prog" :: pid :: kind :: acts =>
    match pid.toNat?, parseActs acts with
    | some p, some a => if kind = "s" ∨ kind = "a" then ({ d with progs := (p, ⟨a, kind = "a"⟩) :: d.progs }, "ok") else (d, "bad-op")
    | _, _ => (d, "bad-op")
  | "top" :: acts =>
    match parseActs acts with
    | some a => answer d (runActs none none d.st a)
    | none => (d, "bad-op")
  | ["dispatch"] => answer d (dispatch d.st)
  | ["callbacks"] =>
    match callbacks (lookupProg d.progs) 10000 d.st with
    | some st' => answer d st'
    | none => (d, "diverged")
  | ["clear", c] =>
    match c.toNat? with
    | some c' => answer d (clearCell d.st c')
    | none => (d, "bad-op")
  | ["resume", sn] =>
    match sn.toNat? with
    | some s => match resume (lookupProg d.progs) d.st s with
      | some st' => answer d st'
      | none => (d, "not-enabled")
    | none => (d, "bad-op")
  | ["quiescent"] =>
    -- tasks not finished, waits outstanding, callbacks/events left
    (d, "tasks=" ++ toString (d.st.tasks.filter (fun t => !t.done)).length ++ " waits=" ++
        toString (d.st.cells.filter (fun c => c.waiter)).length ++ " left=" ++ toString (d.st.pending.length + d.st.cbq.length))
  | _ => (d, "bad-op")

end MpfVerif.QueueEvent
