/-!
# Queue events (C02) — model of `_process_queue_event`, `_run_handlers_sequential`, `QueuedEvent`, `add_async_handler`
in `mpf/core/events.py` (as it is after the D24, D4 and wait-handler repairs)

* every handler invocation gets a fresh `QueuedEvent` cell (addressed by its index in `cells`); a cell inherited through
  the posted kwargs (`passed`, the `Mode.start` pattern) is only handed on to the completion callback;
* a dispatch task runs handlers of its snapshot one after the other; after a handler it tests `cell.waiter`, creates a
  fresh `asyncio.Event` in `cell.event` and sleeps on it; `clear` resets `waiter` and sets the cell's *current* event;
* handlers carry kwargs and an optional `k==v` condition: a handler is called with the posted kwargs (never the posted
  `queue`) overridden by its own, and skipped when its condition fails on those; the callback gets the posted kwargs;
* a coroutine handler (`add_async_handler`) registers a wait; `_async_handler_done` clears it when the coroutine returned
  **or its task ended cancelled**, and leaves it when the coroutine raised (`asyncDone`);
* `wait_for_event` / `wait_for_any_event`: ordinary registry entries whose program removes all entries of the future and
  resolves it unless it is done (`resolveWait`); `cancelWait` = `future.cancel()`, the removal of its entries is a later
  scheduler step (a `top` op with the removals, logged from `_remove_wait_handlers`);
* `EventManager.stop()` (`stopAll`): later posts are refused, every existing unfinished task is cancelled for good; events
  that were already waiting in the event queue are still dispatched into new tasks (as the implementation does);
* scheduler choices are inputs: `resume sn` (one step of a task, up to its next await), `dispatch` / `callbacks` (the two
  halves of `process_event_queue`), `clear c` (a timer / a finished coroutine clears a wait).  `none` = not enabled.
-/
namespace MpfVerif.QueueEvent

structure Cell where
  waiter : Bool := false
  event : Option Nat := none
  deriving DecidableEq, Repr

/-- kwargs: a Python dict with int values, in insertion order -/
abbrev Kw := List (Nat × Int)

/-- `d[k] = v` -/
def kwSet : Kw → Nat → Int → Kw
  | [], k, v => [(k, v)]
  | (k', v') :: r, k, v => if k' = k then (k, v) :: r else (k', v') :: kwSet r k v

/-- `dict(list(d.items()) + list(u.items()))` -/
def kwUpdate (d : Kw) : Kw → Kw
  | [] => d
  | (k, v) :: r => kwUpdate (kwSet d k v) r

def kwGet : Kw → Nat → Option Int
  | [], _ => none
  | (k', v) :: r, k => if k' = k then some v else kwGet r k

/-- `rh.kwargs == kwargs` on dicts without duplicate keys -/
def kwSame (a b : Kw) : Bool := a.length == b.length && a.all (fun p => kwGet b p.1 == some p.2)

structure Handler where
  key : Nat
  prio : Int
  pid : Nat
  kw : Kw := []                        -- kwargs given to add_handler
  cond : Option (Nat × Int) := none    -- `event{k==v}`: called only if the merged kwargs have k = v
  deriving DecidableEq, Repr

/-- `handler.condition is None or handler.condition.evaluate(merged_kwargs)` for conditions of the form `k==v` -/
def condHolds (c : Option (Nat × Int)) (merged : Kw) : Bool :=
  match c with
  | none => true
  | some (k, v) => kwGet merged k == some v

/-- how the task of a coroutine handler ended -/
inductive Outcome | ok | cancelled | raised
  deriving DecidableEq, Repr

inductive Act
  | wait                                        -- queue.wait() on the handler's own cell
  | clearOwn                                    -- queue.clear() on the handler's own cell
  | postQueue (ev cb : Nat) (pass : Bool) (kw : Kw)  -- post_queue(ev, cb [, queue=own cell], **kw); cb 0 = post_queue_async
  | add (ev : Nat) (h : Handler)
  | remove (ev key : Nat)
  | clearPassed                                 -- (callback) clear the cell that came with the post
  | replace (ev : Nat) (h : Handler)            -- replace_handler(ev, callback h.pid, h.prio): drop its entries, add
  | removeFn (pid : Nat)                        -- remove_handler(method)
  | removeEvFn (ev pid : Nat)                   -- remove_handler_by_event(ev, handler)
  | cancelCoro (key : Nat)                      -- task.cancel() on a coroutine handler's task: nothing happens *now*
  | resolveWait (wid : Nat)                     -- tail of `_wait_handler`: set the future's result unless it is done
  | cancelWait (wid : Nat)                      -- future.cancel() of a wait_for_event / wait_for_any_event future
  | stop                                        -- EventManager.stop()
  deriving DecidableEq, Repr

structure Prog where
  acts : List Act
  async : Bool := false        -- registered with add_async_handler: wait, run the coroutine, clear when it is done
  deriving DecidableEq, Repr

structure Posted where
  ev : Nat
  cb : Nat
  passed : Option Nat
  sn : Nat
  kw : Kw := []
  deriving DecidableEq, Repr

inductive Obs
  | call (key ev sn cell : Nat) (kw : Kw)      -- kw = the merged kwargs the handler is called with
  | acall (key ev sn cell : Nat) (kw : Kw)
  | cb (pid sn : Nat) (kw : Kw)                -- kw = the kwargs as posted
  | error (what : Nat)          -- 1 = "Double lock", 2 = "Not locked"
  | wres (wid : Nat)            -- the future of wait_for_event / wait_for_any_event got its result
  deriving DecidableEq, Repr

structure Task where
  sn : Nat
  ev : Nat
  cb : Nat
  passed : Option Nat
  kw : Kw := []
  cancelled : Bool := false                 -- EventManager.stop() cancelled the task
  rest : Option (List Handler) := none      -- none: not started yet; some l: handlers still to run
  awaiting : Option (Nat × Nat) := none     -- (cell, asyncio.Event) the task sleeps on
  done : Bool := false
  deriving DecidableEq, Repr

abbrev Reg := List (Nat × List Handler)

structure St where
  reg : Reg := []
  cells : List Cell := []
  setEvts : List Nat := []
  nextEvt : Nat := 0
  nextSn : Nat := 0
  pending : List Posted := []
  cbq : List (Nat × Nat × Option Nat × Kw) := []
  tasks : List Task := []
  log : List Obs := []
  stopped : Bool := false
  wresolved : List Nat := []
  wcancelled : List Nat := []
  deriving DecidableEq, Repr

def regGet : Reg → Nat → List Handler
  | [], _ => []
  | (e, hs) :: r, ev => if e = ev then hs else regGet r ev

def regSet : Reg → Nat → List Handler → Reg
  | [], ev, hs => [(ev, hs)]
  | (e, old) :: r, ev, hs => if e = ev then (ev, hs) :: r else (e, old) :: regSet r ev hs

def insDesc (h : Handler) : List Handler → List Handler
  | [] => [h]
  | y :: ys => if h.prio ≥ y.prio then h :: y :: ys else y :: insDesc h ys

def sortDesc : List Handler → List Handler
  | [] => []
  | h :: r => insDesc h (sortDesc r)

def setCell : List Cell → Nat → Cell → List Cell
  | [], _, _ => []
  | _ :: r, 0, c => c :: r
  | x :: r, n + 1, c => x :: setCell r n c

def getCell (cells : List Cell) (i : Nat) : Cell := cells.getD i {}

/-- `QueuedEvent.clear` -/
def clearCell (st : St) (c : Nat) : St :=
  let cell := getCell st.cells c
  if !cell.waiter then { st with log := st.log ++ [Obs.error 2] }
  else
    let st1 := { st with cells := setCell st.cells c { cell with waiter := false } }
    match cell.event with
    | some e => { st1 with setEvts := e :: st1.setEvts }
    | none => st1

/-- `QueuedEvent.wait` -/
def waitCell (st : St) (c : Nat) : St :=
  let cell := getCell st.cells c
  if cell.waiter then { st with log := st.log ++ [Obs.error 1] }
  else { st with cells := setCell st.cells c { cell with waiter := true } }

/-- `_async_handler_done(queue, future)`: `future.result()` re-raises what the coroutine raised (the wait stays);
a coroutine that returned or whose task was cancelled clears the wait of its handler -/
def asyncDone (st : St) (c : Nat) : Outcome → St
  | .raised => st
  | _ => clearCell st c

/-- entries `replace_handler(event, handler, priority, **kwargs)` removes -/
def replaceMatches (h x : Handler) : Bool :=
  if h.kw.isEmpty then x.pid == h.pid else x.pid == h.pid && kwSame x.kw h.kw

/-- `EventManager.stop()`: no further posts are accepted, every dispatch task that exists now is cancelled -/
def stopAll (st : St) : St :=
  { st with stopped := true, tasks := st.tasks.map (fun t => if t.done then t else { t with cancelled := true }) }

/-- one action; `own` = the running handler's cell, `passed` = the cell that came with the post (callbacks) -/
def runAct (own passed : Option Nat) (st : St) : Act → St
  | .wait => match own with | some c => waitCell st c | none => st
  | .clearOwn => match own with | some c => clearCell st c | none => st
  | .clearPassed => match passed with | some c => clearCell st c | none => st
  | .postQueue ev cb pass kw =>
    if st.stopped then { st with nextSn := st.nextSn + 1 }       -- `_post`: "Event after stop", dropped
    else { st with nextSn := st.nextSn + 1,
                   pending := st.pending ++ [⟨ev, cb, if pass then own else none, st.nextSn, kw⟩] }
  | .add ev h => { st with reg := regSet st.reg ev (sortDesc (regGet st.reg ev ++ [h])) }
  | .remove ev key => { st with reg := regSet st.reg ev ((regGet st.reg ev).filter (fun h => h.key != key)) }
  | .replace ev h =>
    { st with reg := regSet st.reg ev (sortDesc ((regGet st.reg ev).filter (fun x => !replaceMatches h x) ++ [h])) }
  | .removeFn pid => { st with reg := st.reg.map (fun p => (p.1, p.2.filter (fun x => x.pid != pid))) }
  | .removeEvFn ev pid => { st with reg := regSet st.reg ev ((regGet st.reg ev).filter (fun x => x.pid != pid)) }
  | .cancelCoro _ => st
  | .resolveWait wid =>
    if st.wcancelled.contains wid || st.wresolved.contains wid then st     -- `if _future.done(): return`
    else { st with wresolved := wid :: st.wresolved, log := st.log ++ [Obs.wres wid] }
  | .cancelWait wid =>
    if st.wresolved.contains wid || st.wcancelled.contains wid then st else { st with wcancelled := wid :: st.wcancelled }
  | .stop => stopAll st

def runActs (own passed : Option Nat) (st : St) : List Act → St
  | [] => st
  | a :: r => runActs own passed (runAct own passed st a) r

/-- `callback(**kwargs)` of a queue event -/
def runCallback (progs : Nat → Prog) (st : St) (pid sn : Nat) (passed : Option Nat) (kw : Kw) : St :=
  runActs none passed { st with log := st.log ++ [Obs.cb pid sn kw] } (progs pid).acts

/-- the body of `_run_handlers_sequential` from the current handler on, up to the next await or the end -/
def runTask (progs : Nat → Prog) (t : Task) : List Handler → St → St × Task
  | [], st => (runCallback progs st t.cb t.sn t.passed t.kw, { t with rest := some [], awaiting := none, done := true })
  | h :: hs, st =>
    -- merged_kwargs = posted kwargs (without `queue`) overridden by the handler's kwargs; condition on the merged ones
    if !condHolds h.cond (kwUpdate t.kw h.kw) then runTask progs t hs st else
    let c := st.cells.length
    let p := progs h.pid
    let st0 := { st with cells := st.cells ++ [{}],
                         log := st.log ++ [if p.async then Obs.acall h.key t.ev t.sn c (kwUpdate t.kw h.kw)
                                           else Obs.call h.key t.ev t.sn c (kwUpdate t.kw h.kw)] }
    let st1 := if p.async then waitCell st0 c else runActs (some c) none st0 p.acts
    if (getCell st1.cells c).waiter then
      -- queue.event = asyncio.Event(); await queue.event.wait()
      let e := st1.nextEvt
      ({ st1 with cells := setCell st1.cells c { getCell st1.cells c with event := some e }, nextEvt := e + 1 },
       { t with rest := some hs, awaiting := some (c, e) })
    else runTask progs t hs st1

/-- one scheduler step of a dispatch task; `none` = the task cannot run now -/
def stepTask (progs : Nat → Prog) (st : St) (t : Task) : Option (St × Task) :=
  if t.done || t.cancelled then none else
  match t.rest with
  | none =>
    -- first step: "all handlers may have been removed in the meantime" (the callback is still called)
    some (runTask progs t (regGet st.reg t.ev) st)
  | some hs =>
    match t.awaiting with
    | some (_, e) => if st.setEvts.contains e then some (runTask progs { t with awaiting := none } hs st) else none
    | none => none

def replaceTask (ts : List Task) (t : Task) : List Task := ts.map (fun x => if x.sn = t.sn then t else x)

def findTask (ts : List Task) (sn : Nat) : Option Task := ts.find? (fun t => t.sn = sn)

def resume (progs : Nat → Prog) (st : St) (sn : Nat) : Option St :=
  match findTask st.tasks sn with
  | none => none
  | some t => match stepTask progs st t with
    | none => none
    | some (st', t') => some { st' with tasks := replaceTask st'.tasks t' }

/-- first half of `process_event_queue`: every waiting queue event is dispatched (`_process_queue_event`) -/
def dispatchAll (st : St) : List Posted → St
  | [] => st
  | p :: r =>
    if (regGet st.reg p.ev).isEmpty then dispatchAll { st with cbq := st.cbq ++ [(p.cb, p.sn, p.passed, p.kw)] } r
    else dispatchAll { st with tasks := st.tasks ++ [{ sn := p.sn, ev := p.ev, cb := p.cb, passed := p.passed, kw := p.kw }] } r

def dispatch (st : St) : St := dispatchAll { st with pending := [] } st.pending

/-- `_process_queue_event` for one waiting queue event (a plain event's handler may run between two of them) -/
def dispatchOne (st : St) (sn : Nat) : Option St :=
  match st.pending.find? (fun p => p.sn = sn) with
  | none => none
  | some p => some (dispatchAll { st with pending := st.pending.filter (fun q => q.sn != sn) } [p])

def popLast {α : Type} : List α → Option (List α × α)
  | [] => none
  | [x] => some ([], x)
  | x :: y :: r => match popLast (y :: r) with
    | some (l, z) => some (x :: l, z)
    | none => none

/-- second half: callbacks last-first, dispatching whatever they post before the next callback -/
def callbacks (progs : Nat → Prog) : Nat → St → Option St
  | 0, _ => none
  | n + 1, st =>
    let st := dispatch st
    match popLast st.cbq with
    | none => some st
    | some (rest, (pid, sn, passed, kw)) => callbacks progs n (runCallback progs { st with cbq := rest } pid sn passed kw)

/-! ## operations: everything the scheduler / the outside world can do, one at a time -/

inductive Op
  | top (acts : List Act)            -- code outside any queue-event handler (boot, a plain event's handler, a timer)
  | dispatch
  | dispatch1 (sn : Nat)             -- the event loop reaches the queue event with this serial
  | callbacks (fuel : Nat)
  | clear (c : Nat)                  -- a timer clears a wait
  | adone (c : Nat) (o : Outcome)    -- `_async_handler_done` of the coroutine handler holding cell c
  | resume (sn : Nat)
  deriving DecidableEq, Repr

/-- `none` = the model says this step cannot happen now -/
def applyOp (progs : Nat → Prog) (st : St) : Op → Option St
  | .top acts => some (runActs none none st acts)
  | .dispatch => some (dispatch st)
  | .dispatch1 sn => dispatchOne st sn
  | .callbacks fuel => callbacks progs fuel st
  | .clear c => some (clearCell st c)
  | .adone c o => some (asyncDone st c o)
  | .resume sn => resume progs st sn

/-- a whole schedule; steps that are not enabled are refused (the state stays) -/
def runOps (progs : Nat → Prog) (st : St) : List Op → St
  | [] => st
  | o :: r => runOps progs ((applyOp progs st o).getD st) r

/-! ## driver -/

def parseKw1 (s : String) : Option (Nat × Int) :=
  match s.splitOn "=" with
  | [k, v] => do pure (← k.toNat?, ← v.toInt?)
  | _ => none

/-- `-` = empty, else `k=v,k=v` -/
def parseKw (s : String) : Option Kw :=
  if s = "-" then some [] else
  (s.splitOn ",").foldr (fun a acc => do let rest ← acc; let x ← parseKw1 a; pure (x :: rest)) (some [])

def parseCond (s : String) : Option (Option (Nat × Int)) :=
  if s = "-" then some none else (parseKw1 s).map some

def parseAct (toks : List String) : Option Act :=
  match toks with
  | ["W"] => some .wait
  | ["C"] => some .clearOwn
  | ["CP"] => some .clearPassed
  | ["Q", ev, cb, pass, kw] => do pure (.postQueue (← ev.toNat?) (← cb.toNat?) (pass == "1") (← parseKw kw))
  | ["A", ev, key, prio, pid, kw, cond] =>
    do pure (.add (← ev.toNat?) ⟨← key.toNat?, ← prio.toInt?, ← pid.toNat?, ← parseKw kw, ← parseCond cond⟩)
  | ["R", ev, key] => do pure (.remove (← ev.toNat?) (← key.toNat?))
  | ["H", ev, key, prio, pid, kw] =>
    do pure (.replace (← ev.toNat?) ⟨← key.toNat?, ← prio.toInt?, ← pid.toNat?, ← parseKw kw, none⟩)
  | ["M", pid] => do pure (.removeFn (← pid.toNat?))
  | ["E", ev, pid] => do pure (.removeEvFn (← ev.toNat?) (← pid.toNat?))
  | ["X", key] => do pure (.cancelCoro (← key.toNat?))
  | ["WR", wid] => do pure (.resolveWait (← wid.toNat?))
  | ["WC", wid] => do pure (.cancelWait (← wid.toNat?))
  | ["STOP"] => some .stop
  | _ => none

def splitBar : List String → List (List String)
  | [] => [[]]
  | t :: r => if t = "|" then [] :: splitBar r else
    match splitBar r with
    | [] => [[t]]
    | h :: tl => (t :: h) :: tl

def parseActs (toks : List String) : Option (List Act) :=
  if toks.isEmpty then some [] else
  (splitBar toks).foldr (fun a acc => do let rest ← acc; let x ← parseAct a; pure (x :: rest)) (some [])

def showKw (kw : Kw) : String := "{" ++ ",".intercalate (kw.map (fun p => toString p.1 ++ "=" ++ toString p.2)) ++ "}"

def showObs : Obs → String
  | .call key ev sn cell kw => "c" ++ toString key ++ "." ++ toString ev ++ "." ++ toString sn ++ "." ++ toString cell ++ showKw kw
  | .acall _ ev sn cell kw => "a" ++ toString ev ++ "." ++ toString sn ++ "." ++ toString cell ++ showKw kw
  | .cb pid sn kw => "b" ++ toString pid ++ "." ++ toString sn ++ showKw kw
  | .error w => "E" ++ toString w
  | .wres wid => "w" ++ toString wid

structure DState where
  progs : List (Nat × Prog) := []
  st : St := {}

def lookupProg (t : List (Nat × Prog)) (pid : Nat) : Prog :=
  match t with
  | [] => ⟨[], false⟩
  | (p, pr) :: r => if p = pid then pr else lookupProg r pid

def init : DState := {}

def answer (d : DState) (st' : St) : DState × String :=
  let obs := st'.log.drop d.st.log.length
  ({ d with st := st' }, if obs.isEmpty then "ok" else " ".intercalate (obs.map showObs))

def parseOutcome : String → Option Outcome
  | "ok" => some .ok | "cancelled" => some .cancelled | "raised" => some .raised | _ => none

def parseOp (toks : List String) : Option Op :=
  match toks with
  | "top" :: acts => (parseActs acts).map .top
  | ["dispatch"] => some .dispatch
  | ["dispatch1", sn] => sn.toNat?.map .dispatch1
  | ["callbacks"] => some (.callbacks 10000)
  | ["clear", c] => c.toNat?.map .clear
  | ["adone", c, o] => do pure (.adone (← c.toNat?) (← parseOutcome o))
  | ["resume", sn] => sn.toNat?.map .resume
  | _ => none

def driverStep (d : DState) (line : String) : DState × String :=
  match line.splitOn " " with
  | ["reset"] => (init, "ok")
  | "prog" :: pid :: kind :: acts =>
    match pid.toNat?, parseActs acts with
    | some p, some a => if kind = "s" ∨ kind = "a" then ({ d with progs := (p, ⟨a, kind = "a"⟩) :: d.progs }, "ok") else (d, "bad-op")
    | _, _ => (d, "bad-op")
  | ["quiescent"] =>
    -- tasks neither finished nor cancelled, waits outstanding, callbacks/events left
    (d, "tasks=" ++ toString (d.st.tasks.filter (fun t => !t.done && !t.cancelled)).length ++ " waits=" ++
        toString (d.st.cells.filter (fun c => c.waiter)).length ++ " left=" ++ toString (d.st.pending.length + d.st.cbq.length))
  | toks =>
    match parseOp toks with
    | none => (d, "bad-op")
    | some op =>
      match applyOp (lookupProg d.progs) d.st op with
      | some st' => answer d st'
      | none => (d, match op with | .callbacks _ => "diverged" | _ => "not-enabled")

end MpfVerif.QueueEvent
