import MpfVerif.Model.Delay
import MpfVerif.Gen.ClockOps
/-!
# What a run of the *generated* PeriodicTask / ClockBase methods means for the hand model's periodic tasks (C13)

`Gen/ClockOps.lean` is `mpf/core/clock.py` as data for `Model/PyEffD.lean`: the attributes of one PeriodicTask
(`__slots__`) are the interpreter's dict, `loop.time / loop.call_at / loop.call_later`, `callable(x)`, `event.cancel()` and
the call of the stored callback are logged effects.

* `taskHeap p` — a `Per` of the hand model as the attributes of the Python object (times and intervals are floats; the
  unit of the hand model's `Nat` times is 1 µs here, as in `Model/DelayGen.lean`);
* `execCb` — `execDL` in which a **top-level callback call may change the object**: after the statement
  `self._callback()` the attributes are what `k` makes of them (the callback may have called `cancel()` on its own task —
  or anything else; `k` is arbitrary in the theorems).  With `k = id` it is `execDL` (`execCb_id`);
* `callAt when` — the effect `loop.call_at(when, self._run)`: the one thing a PeriodicTask ever asks of the loop.  The hand
  model has no handle objects for periodic tasks: a task that is not cancelled can be run by the loop (`pfire`) from
  `Per.due = last + interval` on — `handSchedule` says that as an effect list.
-/
namespace MpfVerif.Delay
open MpfVerif.Py

def taskHeap (p : Per) : Dict :=
  [(.str "_canceled", [.bool p.canceled]), (.str "_interval", [.flt p.interval]), (.str "_callback", [.int p.cb]),
   (.str "_loop", [.str "loop"]), (.str "_last_call", [.flt p.last])]

def isCallbackCall : Py.DSt → Bool
  | .eff _ obj meth _ => obj == "callback" && meth == "call"
  | _ => false

/-- `execDL`, except that the callee of a top-level callback call may have changed the object's attributes (`k`) -/
def execCb (c : Ctx) (ora : DOracle) (k : Dict → Dict) : List Py.DSt → Dict → Locals → DRes
  | [], H, l => (H, [], .ok (.next l))
  | s :: rest, H, l =>
    match execDS c ora H l s with
    | (H', log, .ok (.next l')) =>
      match execCb c ora k rest (if isCallbackCall s then k H' else H') l' with
      | (H2, log2, r) => (H2, log ++ log2, r)
    | (H', log, .ok (.done v)) => (H', log, .ok (.done v))
    | (H', log, .error x) => (H', log, .error x)

/-- run a translated method whose callback may change the object -/
def callCb (c : Ctx) (ora : DOracle) (k : Dict → Dict) (H : Dict) (prog : List Py.DSt) (args : List (String × PyVal)) :
    Dict × List Eff × Except Err PyVal :=
  resOf (execCb c ora k prog H (argLocals args))

def callAt (when : Nat) : Eff := ⟨"loop", "call_at", [("when", .flt when), ("callback", .str "cb:_run")]⟩
def timeEff : Eff := ⟨"loop", "time", []⟩
def tickEff (cb : Nat) : Eff := ⟨"callback", "call", [("func", .int cb)]⟩
def callableEff (v : PyVal) : Eff := ⟨"builtins", "callable", [("0", v)]⟩
def callLater (timeout cb : PyVal) : Eff := ⟨"loop", "call_later", [("delay", timeout), ("callback", cb)]⟩
def cancelEff (ev : PyVal) : Eff := ⟨"event", "cancel", [("self", ev)]⟩

/-- what the hand model says the loop holds for a task: one pending `_run` due at `last + interval`, unless cancelled -/
def handSchedule (p : Per) : List Eff := if p.canceled then [] else [callAt p.due]

/-- `PeriodicTask._run` on the hand model's record: `_last_call += interval`, one more callback made -/
def bumpPer (p : Per) : Per := { p with last := p.last + p.interval, count := p.count + 1 }

/-- the task `schedule_interval(cb, iv)` creates at `now` (what `doPStart` appends) -/
def newPer (pid iv cb now : Nat) : Per := ⟨pid, cb, iv, now, 0, now, false⟩

end MpfVerif.Delay
