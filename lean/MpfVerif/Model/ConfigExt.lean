import MpfVerif.Model.Config
import MpfVerif.Gen.ColorNames
/-!
# Config validation (C12), extension: the non-scalar validators and recursive section validation

On top of `Model/Config.lean` (scalar validators): `*_or_token`, `event_handler` / `event_posted` strings, `int_from_hex`,
`color` (names from the generated table `Gen/ColorNames.lean`, hex, `r,g,b` lists), `gain`, the `template_*` builders'
accept / reject behaviour, `machine(<collection>)` device references, the `dict` and `list` validators, and
`_validate_config` itself over *trees*: `subconfig(...)` (with base specs), nested list-of-dict sections, the item
types `single | list | set | dict | event_handler`, unknown keys at every depth, defaults at every depth.

Recursion through the spec goes by section *name* (as in the source: `build_spec` looks the name up), so it is not
structural: every recursive function takes a fuel argument (depth bound); out of fuel = `unmodelled`, never a verdict.
Inputs that the model takes from the environment (`Env`): the device names per machine collection and whether Python's
own parser accepts a template text (`ast.parse`, modelled not verified).
-/
namespace MpfVerif.ConfigExt
open MpfVerif.Config

/-- template classes: Float/Int/Bool/String templates and the text template -/
inductive TK | float | int | bool | str | text
  deriving DecidableEq, Repr

/-- the six `template_*` validators -/
inductive TV | float | int | bool | secs | ms | str
  deriving DecidableEq, Repr

/-- a YAML tree as it goes in, a validated config tree as it comes out -/
inductive T
  | s (y : Y)                                   -- scalar
  | l (xs : List T)                             -- list (sets come out as lists, compared unordered)
  | d (kvs : List (Y × T))                      -- dict with scalar keys
  | color (r g b : Int)                         -- a 3-component colour
  | tmpl (k : TK) (native : Bool) (v : Y)       -- NativeTypeTemplate holding `v` / a template of class `k` with source `v`
  | token (s : String)                          -- RuntimeToken
  | dev (coll name : String)                    -- the device object `machine.<coll>[name]`
  deriving Repr

inductive RT
  | ok (t : T) | reject | raise | unmodelled
  deriving Repr

structure Env where
  devs : List (String × List String) := []
  synOk : Bool := true                  -- does Python's parser accept the template text … in general
  synBad : List String := []            -- … and the texts of this input that it refuses
  deriving Repr

/-- extended validators -/
inductive XV
  | base (v : V)
  | evstr
  | orToken (inner : XV)
  | intFromHex
  | color
  | gain
  | tmpl (k : TV)
  | machine (coll : String)
  | subconfig (names : List String)
  | dict
  | list
  | other                      -- a validator the model does not cover (kivycolor): never a verdict
  deriving Repr

def rtOfR : R → RT
  | .ok v => .ok (.s v) | .reject => .reject | .raise => .raise | .unmodelled => .unmodelled

/-! ## extended scalar validators -/

def isHexDig (c : Char) : Bool := isDig c || ('a' ≤ c && c ≤ 'f') || ('A' ≤ c && c ≤ 'F')

def hexDigVal (c : Char) : Nat :=
  if isDig c then c.toNat - 48 else if 'a' ≤ c && c ≤ 'f' then c.toNat - 87 else c.toNat - 55

def hexVal : Nat → List Char → Option Nat
  | acc, [] => some acc
  | acc, c :: r => if isHexDig c then hexVal (acc * 16 + hexDigVal c) r else Option.none

/-- Python `int(s, 16)` on ASCII text: sign, optional `0x`, hex digits with single underscores between digits -/
def pyIntHex (s : String) : P Int :=
  let l := s.toList
  if l.any (fun c => c.toNat ≥ 128) then .unknown
  else
    let (neg, d0) := splitSign (strip l)
    let (pref, d1) : Bool × List Char := match d0 with
      | '0' :: 'x' :: r => (true, r)
      | '0' :: 'X' :: r => (true, r)
      | r => (false, r)
    match dropUnderscores isHexDig pref d1 with
    | Option.none => .err
    | some d =>
      if d.isEmpty then .err
      else match hexVal 0 d with
        | some n => .val (if neg then - (Int.ofNat n) else Int.ofNat n)
        | Option.none => .err

/-- `str(item)` where the model knows it (not for floats) -/
def strOrNone : Y → Option String
  | .none => some "None"
  | x => pyStr x

/-- `Util.hex_string_to_int(item)`: `int(str(item), 16)`, values above 255 are silently clamped to 255 -/
def vIntFromHex (y : Y) : RT :=
  match strOrNone y with
  | Option.none => .reject                      -- str(float) always contains `.`, `e`, `inf` or `nan`: not hex … except e.g. 1e5
  | some s => match pyIntHex s with
    | .val i => .ok (.s (.int (if i > 255 then 255 else i)))
    | .err => .reject
    | .unknown => .unmodelled

def colorLookup (s : String) : Option (Nat × Nat × Nat) := MpfVerif.Gen.ColorNames.table.lookup s

/-- the three `int(color[i])` of the list form, left to right: a missing piece is an IndexError (rejected), the piece
`none` became None (TypeError: escapes), anything else goes through `int()` -/
def colorPieces : Nat → List (List Char) → List Int → RT
  | 0, _, acc => (match acc.reverse with | [r, g, b] => .ok (.color r g b) | _ => .unmodelled)
  | _ + 1, [], _ => .reject
  | n + 1, p :: rest, acc =>
    if p == "none".toList then .raise
    else match pyInt (String.ofList p) with
      | .val i => colorPieces n rest (i :: acc)
      | .err => .reject
      | .unknown => .unmodelled

/-- `_validate_type_color` on a YAML scalar -/
def vColor (y : Y) : RT :=
  match strOrNone y with
  | Option.none => .reject                      -- a float: one piece, `int("2.5")` fails
  | some s =>
    match colorLookup s with
    | some (r, g, b) => .ok (.color r g b)
    | Option.none =>
      let l := s.toList
      if l.all isHexDig && 6 ≤ l.length && l.length ≤ 8 then
        (match hexVal 0 (l.take 2), hexVal 0 ((l.drop 2).take 2), hexVal 0 ((l.drop 4).take 2) with
         | some r, some g, some b => .ok (.color r g b)
         | _, _, _ => .unmodelled)
      else if l.isEmpty then .reject
      else if l.any (fun c => c.toNat ≥ 128) then .unmodelled
      else colorPieces 3 (splitOnComma l) []

/-- clamp a float into [0,1] the way `min(max(x, 0.0), 1.0)` does: NaN stays NaN -/
def clamp01 : Y → RT
  | .rat n d => if n < 0 then .ok (.s (.rat 0 1)) else if (n : Int) > d then .ok (.s (.rat 1 1)) else .ok (.s (.rat n d))
  | .nan => .ok (.s .nan)
  | .inf neg => .ok (.s (if neg then .rat 0 1 else .rat 1 1))
  | _ => .unmodelled

def startsWith (l p : List Char) : Bool := p.isPrefixOf l

/-- `Util.string_to_gain(str(item).lower())`; decibel values below 0 need `pow` and are not decided -/
def vGain (y : Y) : RT :=
  match y with
  | .none => .ok (.s .none)
  | .rat n d => clamp01 (.rat n d)
  | .nan => clamp01 .nan
  | .inf neg => clamp01 (.inf neg)
  | x =>
    match pyStr x with
    | Option.none => .unmodelled
    | some s0 =>
      let l := lower s0.toList
      if l.any (fun c => c.toNat ≥ 128) then .unmodelled
      else if startsWith l "-inf".toList then .ok (.s (.rat 0 1))
      else if endsWith l "db".toList then
        (match pyFloat (String.ofList (l.filter (fun c => !c.isAlpha))) with
         | .val (.rat n d) => if n ≥ 0 && n ≤ 1000 * (d : Int) then .ok (.s (.rat 1 1)) else .unmodelled
         | .val _ => .unmodelled
         | .err => .reject                     -- ValueError escapes string_to_gain
         | .unknown => .unmodelled)
      else match pyFloat (String.ofList l) with
        | .val v => clamp01 v
        | .err => .ok (.s (.rat 1 1))          -- anything unparsable is silently gain 1.0
        | .unknown => .unmodelled

/-- the text of an expression template, parsed by Python (`env.synOk`) -/
def exprTmpl (env : Env) (k : TK) (src : String) : RT :=
  if env.synOk && !env.synBad.contains src then .ok (.tmpl k false (.str src)) else .reject

def tmplFloat (env : Env) (y : Y) : RT :=
  match y with
  | .str s => (match floatOfP (pyFloat s) with
      | .ok v => .ok (.tmpl .float true v) | .reject => exprTmpl env .float s | _ => .unmodelled)
  | .none => .unmodelled
  | x => (match floatConv x with | .ok .none => .unmodelled | .ok v => .ok (.tmpl .float true v) | _ => .unmodelled)

def tmplInt (env : Env) (y : Y) : RT :=
  match y with
  | .str s => (match pyInt s with
      | .val i => .ok (.tmpl .int true (.int i)) | .err => exprTmpl env .int s | .unknown => .unmodelled)
  | .int i => .ok (.tmpl .int true (.int i))
  | .bool b => .ok (.tmpl .int true (.int (if b then 1 else 0)))
  | _ => .reject

def isStrOrInt : Y → Bool
  | .str _ => true | .int _ => true | .bool _ => true | _ => false

def tmplBool (env : Env) (y : Y) : RT :=
  match y with
  | .bool b => .ok (.tmpl .bool true (.bool b))
  | .str s => exprTmpl env .bool s
  | _ => .reject

/-- `string_to_secs` first; what it refuses goes to the float template builder as it is -/
def tmplSecs (env : Env) (y : Y) : RT :=
  if !isStrOrInt y then .reject else
  match vSecs y with
  | .ok (.rat n d) => .ok (.tmpl .float true (.rat n d))
  | .ok _ => .unmodelled
  | .reject => tmplFloat env y
  | .raise => .raise
  | .unmodelled => .unmodelled

def tmplMs (env : Env) (y : Y) : RT :=
  if !isStrOrInt y then .reject else
  match vMs y with
  | .ok (.int i) => .ok (.tmpl .int true (.int i))
  | .ok _ => .unmodelled
  | .reject => tmplInt env y
  | .raise => .raise
  | .unmodelled => .unmodelled

def tmplStr (env : Env) (y : Y) : RT :=
  match pyStr y with
  | Option.none => .unmodelled
  | some s =>
    let l := s.toList
    if l.any (· == '{') then .ok (.tmpl .text false (.str s))
    else if l.head? == some '(' && l.getLast? == some ')' then exprTmpl env .str s
    else .ok (.tmpl .str true (.str s))

/-- `_validate_type_template_*` -/
def vTmpl (env : Env) (k : TV) (y : Y) : RT :=
  match y with
  | .none => .ok (.s .none)
  | x =>
    match k with
    | .float => tmplFloat env x
    | .int => if isStrOrInt x then tmplInt env x else .reject
    | .bool => tmplBool env x
    | .secs => tmplSecs env x
    | .ms => tmplMs env x
    | .str => tmplStr env x

/-- `_validate_type_machine`: None passes, a non-string or empty name is rejected, the device must exist -/
def vMachine (env : Env) (coll : String) (y : Y) : RT :=
  match y with
  | .none => .ok (.s .none)
  | .str s =>
    if s.isEmpty then .reject
    else if ((env.devs.lookup coll).getD []).contains s then .ok (.dev coll s) else .reject
  | _ => .reject

/-- does the validator turn `(text)` into a runtime token first? -/
def tokenText (y : Y) : Option String :=
  match y with
  | .str s =>
    let l := s.toList
    if l.head? == some '(' && l.getLast? == some ')' && l.length ≥ 2 then some (String.ofList ((l.drop 1).dropLast)) else Option.none
  | _ => Option.none

/-- the validators whose item is a scalar (`item` already went through `preNone`) -/
def vScalarX (env : Env) : XV → Y → RT
  | .base v, y => rtOfR (match v with
      | .int r => vInt r y | .float r => vFloat r y | .num r => vNum r y | .bool => vBool y
      | .str => vStr false y | .lstr => vStr true y | .ms => vMs y | .secs => vSecs y
      | .enum vals => vEnum vals y | .pow2 => vPow2 y | .boolInt => vBoolInt y)
  | .evstr, y => rtOfR (vStr false y)
  | .orToken inner, y => (match tokenText y with | some t => .ok (.token t) | Option.none => vScalarX env inner y)
  | .intFromHex, y => vIntFromHex y
  | .color, y => vColor y
  | .gain, y => vGain y
  | .tmpl k, y => vTmpl env k y
  | .machine c, y => vMachine env c y
  | .subconfig _, _ => .unmodelled
  | .dict, _ => .unmodelled
  | .list, _ => .unmodelled
  | .other, _ => .unmodelled

/-! ## the declared type of an extended validator -/

def inUnit (n : Int) (d : Nat) : Bool := 0 ≤ n && n ≤ (d : Int)

def isFloatY : Y → Bool | .rat _ _ => true | .nan => true | .inf _ => true | _ => false
def isIntY : Y → Bool | .int _ => true | _ => false
def isBoolY : Y → Bool | .bool _ => true | _ => false
def isStrY : Y → Bool | .str _ => true | _ => false

/-- the template object matches the validator: a constant of the right type or an expression template of the right class -/
def tmplClassOk (k : TV) (c : TK) (native : Bool) (v : Y) : Bool :=
  match k with
  | .float => c == .float && (!native || isFloatY v)
  | .secs => c == .float && (!native || isFloatY v)
  | .int => c == .int && (!native || isIntY v)
  | .ms => c == .int && (!native || isIntY v)
  | .bool => c == .bool && (!native || isBoolY v)
  | .str => (c == .str || c == .text) && isStrY v

def HasTypeX (env : Env) : XV → T → Bool
  | _, .s .none => true
  | .base .pow2, .s y => (match intConv y with | .ok (.int i) => isPow2 i | _ => false)   -- the item itself comes back (D29)
  | .base v, .s y => HasType v y
  | .evstr, .s (.str _) => true
  | .orToken _, .token _ => true
  | .orToken inner, t => HasTypeX env inner t
  | .intFromHex, .s (.int i) => i ≤ 255
  | .color, .color _ _ _ => true
  | .gain, .s (.rat n d) => inUnit n d
  | .gain, .s .nan => true                     -- see `gain_nan_witness`
  | .tmpl k, .tmpl c native v => tmplClassOk k c native v
  | .machine c, .dev c' n => c == c' && ((env.devs.lookup c).getD []).contains n
  | _, _ => false

/-! ## `validate_item` on trees, item types, sections -/

inductive IT | single | list | set | dict | eventHandler
  deriving DecidableEq, Repr

structure Key where
  key : String
  kind : Nat := 0               -- 0 = validated item, 1 = `ignore`, 2 = nested section `<sec>:<key>` (a list of dicts)
  it : IT := .single
  vd : XV := .base .str
  vvd : Option XV := Option.none
  brace : Bool := true
  dflt : Option String := some "None"   -- none = required
  deriving Repr

structure Sec where
  name : String
  allowOthers : Bool := false
  keys : List Key
  deriving Repr

def preNoneT : T → T
  | .s y => .s (preNone y)
  | t => t

/-- a list / dict handed to a validator that expects a scalar: `str()` of it is what most validators see -/
def valContainer : XV → RT
  | .other => .unmodelled
  | .base .lstr => .unmodelled
  | .gain => .ok (.s (.rat 1 1))
  | .tmpl .str => .unmodelled
  | _ => .reject

def valDictV : T → RT
  | .s .none => .ok (.d [])
  | .s (.str s) => if s.isEmpty then .ok (.d []) else .reject
  | .s (.bool b) => if b then .reject else .ok (.d [])
  | .s (.int i) => if i == 0 then .ok (.d []) else .reject
  | .s (.rat n _) => if n == 0 then .ok (.d []) else .reject
  | .s _ => .reject
  | .l xs => if xs.isEmpty then .ok (.d []) else .reject
  | .d kvs => .ok (.d kvs)
  | _ => .unmodelled

def valListV : T → RT
  | .s .none => .ok (.l [])
  | .s (.str s) =>
    let l := s.toList
    if l.isEmpty then .ok (.l [])
    else if l.any (fun c => c.toNat ≥ 128) then .unmodelled
    else .ok (.l ((splitOnComma l).map (fun x => if x == "none".toList then T.s .none else T.s (.str (String.ofList (strip x))))))
  | .s y => .ok (.l [.s y])
  | .l xs => .ok (.l xs)
  | .d _ => .reject
  | _ => .unmodelled

def valScalarT (env : Env) (v : XV) : T → RT
  | .s y => vScalarX env v y
  | .l _ => valContainer v
  | .d _ => valContainer v
  | _ => .unmodelled

/-- `validate_item`: "none" (any case) is None; then the validator -/
def valOne (sub : List String → T → RT) (env : Env) (vd : XV) (item : T) : RT :=
  match vd with
  | .subconfig names => (match preNoneT item with | .s .none => .ok (.d []) | t => sub names t)
  | .dict => valDictV (preNoneT item)
  | .list => valListV (preNoneT item)
  | v => valScalarT env v (preNoneT item)

/-- `Util.string_to_list` / `string_to_event_list` on a tree: `none` = AssertionError, `some none` = not decided -/
def toListT (brace : Bool) : T → Option (Option (List T))
  | .l xs => some (some xs)
  | .d _ => Option.none
  | .s .none => some (some [])
  | .s (.str s) =>
    let l := s.toList
    if l.isEmpty then some (some [])
    else if l.any (fun c => c.toNat ≥ 128) then some Option.none
    else if brace && l.any (· == '{') then some Option.none
    else some (some ((splitOnComma l).map (fun x =>
      if x == "none".toList then T.s .none else T.s (.str (String.ofList (strip x))))))
  | .s y => some (some [.s y])
  | _ => some Option.none

def isBlank : T → Bool
  | .s (.str s) => s == "" || s == " "
  | _ => false

/-- validate list elements one by one (`chk`: the list path rejects blank elements) -/
def valElems (f : T → RT) (chk : Bool) : List T → RT
  | [] => .ok (.l [])
  | x :: rest =>
    if chk && isBlank x then .reject else
    match f x with
    | .ok v => (match valElems f chk rest with
        | .ok (.l vs) => .ok (.l (v :: vs))
        | .ok _ => .unmodelled
        | .reject => .reject | .raise => .raise | .unmodelled => .unmodelled)
    | .reject => .reject | .raise => .raise | .unmodelled => .unmodelled

/-- validate dict entries: keys by `fk`, values by `fv`; two keys that validate to the same key are not decided -/
def valPairs (fk fv : T → RT) : List (Y × T) → RT
  | [] => .ok (.d [])
  | (k, v) :: rest =>
    match fk (.s k), fv v with
    | .ok (.s k'), .ok v' =>
      (match valPairs fk fv rest with
       | .ok (.d kvs) => if kvs.any (fun p => p.1 == k') then .unmodelled else .ok (.d ((k', v') :: kvs))
       | .ok _ => .unmodelled
       | .reject => .reject | .raise => .raise | .unmodelled => .unmodelled)
    | .ok _, .ok _ => .unmodelled
    | .unmodelled, _ => .unmodelled
    | _, .unmodelled => .unmodelled
    | .raise, _ => .raise
    | _, .raise => .raise
    | _, _ => .reject

def scalarsOnly : List T → Option (List Y)
  | [] => some []
  | .s y :: r => (scalarsOnly r).map (y :: ·)
  | _ :: _ => Option.none

/-- `Util.event_config_to_dict` -/
def eventDict : T → Option (Option (List (Y × T)))      -- none = TypeError (rejected), some none = not decided
  | .d kvs => some (some kvs)
  | .s (.str s) =>
    if s == "None" then some (some [])
    else (match toListT true (.s (.str s)) with
      | some (some xs) => (match scalarsOnly xs with
          | some ys => if ys.eraseDups.length == ys.length then some (some (ys.map (fun y => (y, T.s (.int 0))))) else some Option.none
          | Option.none => some Option.none)
      | _ => some Option.none)
  | .l xs => (match scalarsOnly xs with
      | some ys => if ys.eraseDups.length == ys.length then some (some (ys.map (fun y => (y, T.s (.int 0))))) else some Option.none
      | Option.none => Option.none)
  | .s _ => some (some [])
  | _ => some Option.none

/-- `validate_config_item` for a present item -/
def valItem (sub : List String → T → RT) (env : Env) (k : Key) (item : T) : RT :=
  match k.it with
  | .single => valOne sub env k.vd item
  | .list =>
    (match toListT k.brace item with
     | some (some xs) => valElems (valOne sub env k.vd) true xs
     | some Option.none => .unmodelled
     | Option.none => .reject)
  | .set =>
    (match toListT false item with
     | some (some xs) =>
       (match scalarsOnly xs with
        | Option.none => .raise                 -- unhashable element
        | some ys => valElems (valOne sub env k.vd) false (ys.eraseDups.map T.s))
     | some Option.none => .unmodelled
     | Option.none => .reject)
  | .dict =>
    (match k.vvd with
     | Option.none => .reject
     | some vv =>
       match item with
       | .s .none => .ok (.d [])
       | .s (.str s) => if s == "None" then .ok (.d []) else .reject
       | .d kvs => valPairs (valOne sub env k.vd) (valOne sub env vv) kvs
       | .s _ => .reject
       | .l _ => .reject
       | _ => .unmodelled)
  | .eventHandler =>
    (match k.vvd with
     | Option.none => .reject
     | some vv =>
       match eventDict item with
       | some (some kvs) => valPairs (valOne sub env k.vd) (valOne sub env vv) kvs
       | some Option.none => .unmodelled
       | Option.none => .reject)

def defaultT (d : String) : T := if lowerS d == "none" then .s .none else .s (.str d)

/-- is a source key acceptable to `check_for_invalid_sections`?  Keys starting with `_` pass (as in the source) -/
def knownKey (sec : Sec) (k : Y) : Bool :=
  match k with
  | .str s => sec.keys.any (fun ks => ks.key == s) || s.toList.head? == some '_'
  | _ => false

def lookupStr (key : String) : List (Y × T) → Option T
  | [] => Option.none
  | (k, v) :: r => if k == .str key then some v else lookupStr key r

/-- is the spec key skipped by `_validate_config` (`ignore`, `_private`)? -/
def skipped (k : Key) : Bool := k.kind == 1 || k.key.toList.head? == some '_'

/-- one spec key: the provided value validated, else the default, else rejected (required); nested sections are
lists of dicts validated against `<sec>:<key>` -/
def valKeyHere (sub : List String → T → RT) (env : Env) (secName : String) (src : List (Y × T)) (k : Key) : RT :=
  if k.kind == 2 then
    (match lookupStr k.key src with
      | Option.none => .ok (.l [])
      | some (.l xs) => valElems (sub [secName ++ ":" ++ k.key]) false xs
      | some (.d kvs) => if kvs.isEmpty then .ok (.l []) else .reject
      | some (.s (.str s)) => if s.isEmpty then .ok (.l []) else .reject
      | some _ => .reject)
  else
    (match lookupStr k.key src with
      | some v => valItem sub env k v
      | Option.none => (match k.dflt with
          | some d => valItem sub env k (defaultT d)
          | Option.none => .reject))

/-- the spec keys, in spec order -/
def valKeys (sub : List String → T → RT) (env : Env) (secName : String) (src : List (Y × T)) : List Key → RT
  | [] => .ok (.d [])
  | k :: rest =>
    if skipped k then valKeys sub env secName src rest
    else match valKeyHere sub env secName src k with
      | .ok v =>
        (match valKeys sub env secName src rest with
         | .ok (.d kvs) => .ok (.d ((.str k.key, v) :: kvs))
         | .ok _ => .unmodelled
         | .reject => .reject | .raise => .raise | .unmodelled => .unmodelled)
      | .unmodelled => .unmodelled
      | .reject => (match valKeys sub env secName src rest with | .unmodelled => .unmodelled | _ => .reject)
      | .raise => (match valKeys sub env secName src rest with | .unmodelled => .unmodelled | _ => .raise)

/-- `build_spec`: the section and its base specs merged, the keys of earlier names win -/
def mergeSecs : List Sec → Option Sec
  | [] => Option.none
  | [s] => some s
  | s :: rest => (mergeSecs rest).map (fun b =>
      { name := s.name, allowOthers := s.allowOthers || b.allowOthers,
        keys := s.keys ++ b.keys.filter (fun k => !(s.keys.any (fun k2 => k2.key == k.key))) })

def findSec (specs : List Sec) (n : String) : Option Sec := specs.find? (fun s => s.name == n)

def buildSpec (specs : List Sec) (names : List String) : Option Sec :=
  (names.mapM (findSec specs)).bind mergeSecs

/-- source keys that are kept although the spec does not name them (`__allow_others__`, `_private`) or that the spec
ignores: they stay in the returned config unvalidated -/
def extras (sec : Sec) (src : List (Y × T)) : List (Y × T) :=
  src.filter (fun p => match p.1 with
    | .str s => !(sec.keys.any (fun k => k.key == s && k.kind != 1 && s.toList.head? != some '_'))
    | _ => true)

/-- the section a validation is about: the first name (`config_spec`), the others are base specs -/
def primary : List String → String
  | n :: _ => n
  | [] => ""

/-- `_validate_config` -/
def valSec (specs : List Sec) (env : Env) : Nat → List String → T → RT
  | 0, _, _ => .unmodelled
  | fuel + 1, names, src =>
    match buildSpec specs names with
    | Option.none => .raise
    | some sec =>
      match src with
      | .d kvs =>
        if !sec.allowOthers && kvs.any (fun p => !knownKey sec p.1) then .reject
        else (match valKeys (valSec specs env fuel) env (primary names) kvs sec.keys with
          | .ok (.d out) => .ok (.d (out ++ extras sec kvs))
          | .ok _ => .unmodelled
          | .reject => .reject | .raise => .raise | .unmodelled => .unmodelled)
      | _ => .reject

/-! ## well-typedness of a returned tree, at every depth -/

def allT (p : T → Bool) : T → Bool
  | .l xs => xs.all p
  | _ => false

def wtOne (wsub : List String → T → Bool) (env : Env) (vd : XV) (t : T) : Bool :=
  match vd with
  | .subconfig names => (match t with | .d [] => true | x => wsub names x)
  | .dict => (match t with | .d _ => true | _ => false)
  | .list => (match t with | .l _ => true | _ => false)
  | v => HasTypeX env v t

def wtItem (wsub : List String → T → Bool) (env : Env) (k : Key) (t : T) : Bool :=
  match k.it with
  | .single => wtOne wsub env k.vd t
  | .list => allT (wtOne wsub env k.vd) t
  | .set => allT (wtOne wsub env k.vd) t
  | .dict => (match k.vvd, t with
      | some vv, .d kvs => kvs.all (fun p => wtOne wsub env k.vd (.s p.1) && wtOne wsub env vv p.2)
      | _, _ => false)
  | .eventHandler => (match k.vvd, t with
      | some vv, .d kvs => kvs.all (fun p => wtOne wsub env k.vd (.s p.1) && wtOne wsub env vv p.2)
      | _, _ => false)

/-- the returned config lists every non-ignored spec key, in spec order, each with a well-typed value; what follows
are the kept extra keys -/
def wtKeys (wsub : List String → T → Bool) (env : Env) (secName : String) : List Key → List (Y × T) → Bool
  | [], _ => true
  | k :: rest, out =>
    if skipped k then wtKeys wsub env secName rest out
    else match out with
      | [] => false
      | (kk, v) :: out' =>
        kk == .str k.key
        && (if k.kind == 2 then allT (wsub [secName ++ ":" ++ k.key]) v else wtItem wsub env k v)
        && wtKeys wsub env secName rest out'

/-- a returned section: a dict, complete and typed at every depth, and with no key the spec does not know
(unless the section allows others / the key is `_private`) -/
def wtSec (specs : List Sec) (env : Env) : Nat → List String → T → Bool
  | 0, _, _ => false
  | fuel + 1, names, t =>
    match buildSpec specs names, t with
    | some sec, .d out =>
      wtKeys (wtSec specs env fuel) env (primary names) sec.keys out
      && (sec.allowOthers || out.all (fun p => knownKey sec p.1))
    | _, _ => false

end MpfVerif.ConfigExt
