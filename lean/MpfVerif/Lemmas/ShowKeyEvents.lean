import MpfVerif.Lemmas.ShowKey
/-! C17: the event ledger of every instance of a key (projection of the key's trace on the instance). -/
namespace MpfVerif.ShowKey
open MpfVerif.Show

/-- what instance `k` did: the projection of the key's trace -/
def proj (k : Nat) : List TObs → List Obs
  | [] => []
  | o :: r => if o.1 = k then o.2 :: proj k r else proj k r

theorem proj_append (k : Nat) (a b : List TObs) : proj k (a ++ b) = proj k a ++ proj k b := by
  induction a with
  | nil => rfl
  | cons o r ih => simp only [List.cons_append, proj]; split <;> simp [ih]

theorem proj_tag_same (k : Nat) (o : List Obs) : proj k (tag k o) = o := by
  induction o with
  | nil => rfl
  | cons x r ih => simp only [tag, List.map_cons, proj, if_true]; unfold tag at ih; rw [ih]

theorem proj_tag_other (j k : Nat) (h : j ≠ k) (o : List Obs) : proj k (tag j o) = [] := by
  induction o with
  | nil => rfl
  | cons x r ih => simp only [tag, List.map_cons, proj, if_neg h]; unfold tag at ih; exact ih

/-- every tag in the trace is below `n` -/
def Below (n : Nat) (o : List TObs) : Prop := ∀ x ∈ o, x.1 < n

theorem below_tag (k n : Nat) (h : k < n) (o : List Obs) : Below n (tag k o) := by
  intro x hx; simp only [tag, List.mem_map] at hx; obtain ⟨_, _, rfl⟩ := hx; exact h

theorem below_append (n : Nat) (a b : List TObs) (ha : Below n a) (hb : Below n b) : Below n (a ++ b) := by
  intro x hx; rcases List.mem_append.mp hx with h | h
  · exact ha x h
  · exact hb x h

theorem below_mono (n m : Nat) (h : n ≤ m) (o : List TObs) (ho : Below n o) : Below m o :=
  fun x hx => Nat.lt_of_lt_of_le (ho x hx) h

theorem proj_below (n k : Nat) (h : n ≤ k) : ∀ (o : List TObs), Below n o → proj k o = [] := by
  intro o
  induction o with
  | nil => intro _; rfl
  | cons x r ih =>
    intro hb
    have hx := hb x List.mem_cons_self
    simp only [proj, if_neg (show ¬ x.1 = k by omega)]
    exact ih (fun y hy => hb y (List.mem_cons_of_mem _ hy))

/-- every instance's ledger holds of its projection of the trace -/
def Led (tr : List TObs) : List Inst → Prop
  | [] => True
  | x :: rest => (∃ n0, Ledger n0 x.rs (proj rest.length tr)) ∧ Led tr rest

/-- output of instances at or above position `l.length` does not touch the ledgers of `l` -/
theorem led_append_high (o : List TObs) : ∀ (l : List Inst) (tr : List TObs), (∀ k, k < l.length → proj k o = []) →
    Led tr l → Led (tr ++ o) l := by
  intro l
  induction l with
  | nil => intro _ _ _; trivial
  | cons x rest ih =>
    intro tr ho h
    refine ⟨?_, ih tr (fun k hk => ho k (by simp; omega)) h.2⟩
    obtain ⟨n0, hl⟩ := h.1
    refine ⟨n0, ?_⟩
    rw [proj_append, ho rest.length (by simp), List.append_nil]
    exact hl

theorem stop_ledger (n0 : Option Nat) (s : RS) (tr : List Obs) (h : Ledger n0 s tr) :
    Ledger n0 (stop s).1 (tr ++ (stop s).2) := by
  by_cases hs : s.stopped = true
  · have : stop s = (s, []) := by unfold stop; simp [hs]
    rw [this]; exact ledger_nil n0 s _ tr rfl rfl rfl id h
  · have hs' : s.stopped = false := by simpa using hs
    have f := stop_facts s hs'
    obtain ⟨a, b, c, d, e⟩ := h
    have hb : cntE .stopped tr = 0 := by rw [b]; simp [hs]
    have hout : ∀ e, cntE e (stop s).2 = if e = Ev.stopped then 1 else 0 := by
      intro e; rw [f.2.2, cntE_append]
      have h1 : cntE e (if s.dirty = true then [Obs.clr] else []) = 0 := by split <;> simp [cntE]
      rw [h1]; by_cases he : e = Ev.stopped <;> simp [cntE, he, eq_comm]
    have g := stop_ghost s
    refine ⟨by rw [cntE_append, a, hout, g.1]; rfl, by rw [cntE_append, hb, hout]; simp [f.1],
      by rw [cntE_append, cntE_append, hout, hout]; simp; omega, ?_, by rw [g.1, g.2]; exact e⟩
    unfold LoopAcc at d ⊢
    rw [f.2.1, cntE_append, hout]
    simpa using d

theorem stopFrom_length : ∀ (l : List Inst), (stopFrom l).1.length = l.length := by
  intro l
  induction l with
  | nil => rfl
  | cons x rest ih =>
    unfold stopFrom
    split
    · rfl
    · split
      · simp [ih]
      · rfl

theorem stopFrom_led : ∀ (l : List Inst) (tr : List TObs), Led tr l →
    Led (tr ++ (stopFrom l).2) (stopFrom l).1 ∧ Below l.length (stopFrom l).2 := by
  intro l
  induction l with
  | nil => intro tr _; exact ⟨trivial, by intro x hx; simp [stopFrom] at hx⟩
  | cons x rest ih =>
    intro tr h
    obtain ⟨n0, hl⟩ := h.1
    unfold stopFrom
    split
    · exact ⟨by rw [List.append_nil]; exact h, by intro y hy; simp at hy⟩
    · have hsl := stop_ledger n0 x.rs _ hl
      split
      · have hi := ih tr h.2
        dsimp only
        refine ⟨⟨⟨n0, ?_⟩, ?_⟩, ?_⟩
        · rw [stopFrom_length, proj_append, proj_append, proj_below _ _ (Nat.le_refl _) _ hi.2, proj_tag_same, List.nil_append]
          exact hsl
        · rw [← List.append_assoc]
          apply led_append_high _ _ _ _ hi.1
          intro k hk
          rw [stopFrom_length] at hk
          exact proj_tag_other _ _ (by omega) _
        · exact below_append _ _ _ (below_mono _ _ (by simp) _ hi.2) (below_tag _ _ (by simp) _)
      · dsimp only
        refine ⟨⟨⟨n0, ?_⟩, ?_⟩, below_tag _ _ (by simp) _⟩
        · rw [proj_append, proj_tag_same]; exact hsl
        · apply led_append_high _ _ _ _ h.2
          intro k hk
          exact proj_tag_other _ _ (by omega) _

theorem settle_length (x : Inst) (rest : List Inst) (r : RS × List Obs) : (settle x rest r).1.length = rest.length + 1 := by
  unfold settle; split
  · simp [stopFrom_length]
  · rfl

theorem settle_led (x : Inst) (rest : List Inst) (r : RS × List Obs) (tr : List TObs) (h : Led tr (x :: rest))
    (hr : ∀ n0, Ledger n0 x.rs (proj rest.length tr) → Ledger n0 r.1 (proj rest.length tr ++ r.2)) :
    Led (tr ++ (settle x rest r).2) (settle x rest r).1 ∧ Below (rest.length + 1) (settle x rest r).2 := by
  obtain ⟨n0, hl⟩ := h.1
  have hrl := hr n0 hl
  unfold settle
  split
  · have hi := stopFrom_led rest tr h.2
    dsimp only
    refine ⟨⟨⟨n0, ?_⟩, ?_⟩, ?_⟩
    · rw [stopFrom_length, proj_append, proj_append, proj_below _ _ (Nat.le_refl _) _ hi.2, proj_tag_same, List.nil_append]
      exact hrl
    · rw [← List.append_assoc]
      apply led_append_high _ _ _ _ hi.1
      intro k hk
      rw [stopFrom_length] at hk
      exact proj_tag_other _ _ (by omega) _
    · exact below_append _ _ _ (below_mono _ _ (by simp) _ hi.2) (below_tag _ _ (by simp) _)
  · dsimp only
    refine ⟨⟨⟨n0, ?_⟩, ?_⟩, below_tag _ _ (by simp) _⟩
    · rw [proj_append, proj_tag_same]; exact hrl
    · apply led_append_high _ _ _ _ h.2
      intro k hk
      exact proj_tag_other _ _ (by omega) _

theorem stepAt_length (i : Nat) (op : Show.Op) : ∀ (l : List Inst), (stepAt i op l).1.length = l.length := by
  intro l
  induction l with
  | nil => rfl
  | cons x rest ih =>
    unfold stepAt
    split
    · exact settle_length _ _ _
    · simp [ih]

theorem stepAt_led (i : Nat) (op : Show.Op) (hop : op.isPlay = false) : ∀ (l : List Inst) (tr : List TObs), Led tr l →
    Led (tr ++ (stepAt i op l).2) (stepAt i op l).1 ∧ Below l.length (stepAt i op l).2 := by
  intro l
  induction l with
  | nil => intro tr _; exact ⟨trivial, by intro x hx; simp [stepAt] at hx⟩
  | cons x rest ih =>
    intro tr h
    unfold stepAt
    split
    · exact settle_led x rest _ tr h (fun n0 hl => step_ledger n0 x.rs op _ hop hl)
    · have hi := ih tr h.2
      dsimp only
      refine ⟨⟨?_, hi.1⟩, below_mono _ _ (by simp) _ hi.2⟩
      obtain ⟨n0, hl⟩ := h.1
      refine ⟨n0, ?_⟩
      rw [stepAt_length, proj_append, proj_below _ _ (Nat.le_refl _) _ hi.2, List.append_nil]
      exact hl

/-- the invariant: the ledgers, and no tag in the trace names an instance that does not exist yet -/
def LedInv (s : KS) (tr : List TObs) : Prop := Led tr s.insts ∧ Below s.insts.length tr

theorem playNew_led (c : Option (Nat × Option Nat × Nat)) (s : KS) (durs : List Nat) (num den : Nat) (loops : Option Nat)
    (start : Int) (running manual : Bool) (sync t : Nat) (tr : List TObs) (h : LedInv s tr) :
    LedInv (playNew c s durs num den loops start running manual sync t).1
      (tr ++ (playNew c s durs num den loops start running manual sync t).2) := by
  obtain ⟨hl, hb⟩ := h
  have hf := play_ledger durs num den loops start running manual sync t
  simp only [playNew]
  cases hls : s.insts with
  | nil =>
    rw [hls] at hl hb
    refine ⟨⟨⟨loops, ?_⟩, trivial⟩, below_append _ _ _ (below_mono _ _ (by simp) _ hb) (below_tag _ _ (by simp) _)⟩
    rw [proj_append, proj_below _ _ (Nat.le_refl _) _ hb, proj_tag_same]
    exact hf
  | cons x rest =>
    rw [hls] at hl hb
    have hnew : ∀ (o : List TObs), Below (x :: rest).length o →
        ∃ n0, Ledger n0 (Show.step {} (.play durs num den loops start running manual sync t)).1
          (proj (x :: rest).length ((tr ++ o) ++ tag (x :: rest).length
            (Show.step {} (.play durs num den loops start running manual sync t)).2)) := by
      intro o ho
      refine ⟨loops, ?_⟩
      rw [proj_append, proj_append, proj_below _ _ (Nat.le_refl _) _ hb, proj_below _ _ (Nat.le_refl _) _ ho, proj_tag_same]
      exact hf
    have hold : ∀ (l' : List Inst) (tr' : List TObs), l'.length = (x :: rest).length → Led tr' l' →
        Led (tr' ++ tag (x :: rest).length (Show.step {} (.play durs num den loops start running manual sync t)).2) l' := by
      intro l' tr' hlen h'
      apply led_append_high _ _ _ _ h'
      intro k hk
      exact proj_tag_other _ _ (by omega) _
    simp only
    split
    · have := hnew [] (by intro y hy; simp at hy)
      rw [List.append_nil] at this
      exact ⟨⟨this, hold _ _ rfl hl⟩, below_append _ _ _ (below_mono _ _ (by simp) _ hb) (below_tag _ _ (by simp) _)⟩
    · split
      · have := hnew [] (by intro y hy; simp at hy)
        rw [List.append_nil] at this
        exact ⟨⟨this, hold _ _ rfl hl⟩, below_append _ _ _ (below_mono _ _ (by simp) _ hb) (below_tag _ _ (by simp) _)⟩
      · have hs := stopFrom_led (x :: rest) tr hl
        have hlen := stopFrom_length (x :: rest)
        dsimp only
        rw [← List.append_assoc]
        refine ⟨⟨?_, hold _ _ hlen hs.1⟩, ?_⟩
        · rw [hlen]; exact hnew _ hs.2
        · simp only [List.length_cons, hlen]
          exact below_append _ _ _ (below_append _ _ _ (below_mono _ _ (by simp) _ hb) (below_mono _ _ (by simp) _ hs.2))
            (below_tag _ _ (by simp) _)

theorem reqStep_led (s : KS) (op : Show.Op) (tr : List TObs) (h : LedInv s tr) :
    LedInv (reqStep s op).1 (tr ++ (reqStep s op).2) := by
  obtain ⟨hl, hb⟩ := h
  simp only [reqStep]
  split
  · rename_i hr
    have := stepAt_led (s.insts.length - 1) op (isReq_notPlay op hr) s.insts tr hl
    exact ⟨this.1, by rw [stepAt_length]; exact below_append _ _ _ hb this.2⟩
  · exact ⟨by rw [List.append_nil]; exact hl, by rw [List.append_nil]; exact hb⟩

theorem step_led (s : KS) (o : KOp) (tr : List TObs) (h : LedInv s tr) : LedInv (step s o).1 (tr ++ (step s o).2) := by
  cases o with
  | play durs num den loops start running manual sync t => exact playNew_led _ s _ _ _ _ _ _ _ _ _ tr h
  | req op => exact reqStep_led s op tr h
  | fire i t =>
    obtain ⟨hl, hb⟩ := h
    simp only [step]
    have := stepAt_led i (.fire t) rfl s.insts tr hl
    exact ⟨this.1, by rw [stepAt_length]; exact below_append _ _ _ hb this.2⟩
  | playc cid durs num den loops start running manual sync t =>
    simp only [step]
    split
    · exact playNew_led _ s _ _ _ _ _ _ _ _ _ tr h
    · split
      · rw [List.append_nil]; exact h
      · exact reqStep_led s _ tr h
      · exact playNew_led _ s _ _ _ _ _ _ _ _ _ tr h

theorem run_led (ops : List KOp) : ∀ (s : KS) (tr : List TObs), LedInv s tr → LedInv (run s ops).1 (tr ++ (run s ops).2) := by
  induction ops with
  | nil => intro s tr h; simpa [run] using h
  | cons o r ih =>
    intro s tr h
    simp only [run]
    rw [← List.append_assoc]
    exact ih _ _ (step_led s o tr h)

/-- the ledger of the instance at any position -/
theorem led_suffix (tr : List TObs) (pre : List Inst) : ∀ l, Led tr (pre ++ l) → Led tr l := by
  induction pre with
  | nil => intro l h; exact h
  | cons y r ih => intro l h; exact ih l h.2

end MpfVerif.ShowKey
