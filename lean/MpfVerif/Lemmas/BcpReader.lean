import MpfVerif.Lemmas.Bcp
/-! Helper lemmas for the C19 receiver model. -/
namespace MpfVerif.Bcp

theorem feed_append (s : RSt) (a b : Bytes) :
    feed s (a ++ b) = ((feed (feed s a).1 b).1, (feed s a).2 ++ (feed (feed s a).1 b).2) := by
  induction a generalizing s with
  | nil => simp [feed]
  | cons x xs ih =>
    simp only [List.cons_append, feed]
    rw [ih]
    simp [List.append_assoc]

theorem feedChunks_eq_feed (s : RSt) (cs : List Bytes) : feedChunks s cs = feed s cs.flatten := by
  induction cs generalizing s with
  | nil => simp [feedChunks, feed]
  | cons c r ih =>
    simp only [feedChunks, List.flatten_cons]
    rw [feed_append, ih]

theorem feed_cons (s : RSt) (b : Nat) (r : Bytes) :
    feed s (b :: r) = ((feed (stepByte s b).1 r).1, (stepByte s b).2 ++ (feed (stepByte s b).1 r).2) := rfl

/-- bytes of a line accumulate until the newline -/
theorem feed_line_bytes (buf l : Bytes) (h : 10 ∉ l) :
    feed { buf := buf, mode := .line } l = ({ buf := buf ++ l, mode := .line }, []) := by
  induction l generalizing buf with
  | nil => simp [feed]
  | cons x xs ih =>
    have hx : x ≠ 10 := fun he => h (by rw [he]; exact List.mem_cons_self)
    simp only [feed, stepByte, hx, if_false]
    rw [ih _ (fun hm => h (List.mem_cons_of_mem _ hm))]
    simp

theorem splitLast_none (pat t : Bytes) (c : Nat) (hp : ∃ r, pat = c :: r) (h : c ∉ t) : splitLast pat t = none := by
  obtain ⟨r, rfl⟩ := hp
  induction t with
  | nil => rfl
  | cons x xs ih =>
    have hx : x ≠ c := fun he => h (by rw [he]; exact List.mem_cons_self)
    simp [splitLast, ih (fun hm => h (List.mem_cons_of_mem _ hm)), List.isPrefixOf]
    intro he; exact absurd he.symm hx

theorem splitLast_marker (l d : Bytes) (hd : 38 ∉ d) : splitLast sMarker (l ++ sMarker ++ d) = some (l, d) := by
  induction l with
  | nil =>
    have h0 : splitLast sMarker ([98, 121, 116, 101, 115, 61] ++ d) = none :=
      splitLast_none sMarker _ 38 ⟨_, rfl⟩ (by
        intro hm
        rcases List.mem_append.mp hm with h | h
        · revert h; decide
        · exact hd h)
    have hp : sMarker.isPrefixOf (sMarker ++ d) = true := prefix_self_append _ _
    show splitLast sMarker (38 :: ([98, 121, 116, 101, 115, 61] ++ d)) = some ([], d)
    unfold splitLast
    rw [h0]
    have : (38 :: ([98, 121, 116, 101, 115, 61] ++ d)) = sMarker ++ d := rfl
    rw [this, hp]
    simp [sMarker]
  | cons x xs ih =>
    simp only [List.cons_append]
    unfold splitLast
    simp only [List.append_assoc] at ih ⊢
    rw [ih]

theorem digits_no_amp (d : Bytes) (h : ∀ b ∈ d, isDigit b = true) : 38 ∉ d := by
  intro hm; have := h 38 hm; simp [isDigit] at this

theorem markerOf_wire (l : Bytes) (n : Nat) : markerOf (l ++ sMarker ++ natText n) = some (l, n) := by
  unfold markerOf
  rw [splitLast_marker l _ (digits_no_amp _ (natText_digits n))]
  have : (natText n).isEmpty = false := by
    cases hx : natText n with
    | nil => exact absurd hx (natText_ne_nil n)
    | cons c r => rfl
  simp [this, digitsVal_natText]

/-- payload bytes are collected until `need` are there -/
theorem feed_payload (msg got p : Bytes) (need : Nat) (hp : p ≠ []) (hn : got.length + p.length = need) :
    feed { buf := [], mode := .payload msg need got } p = ({}, [(msg, got ++ p)]) := by
  induction p generalizing got with
  | nil => exact absurd rfl hp
  | cons x xs ih =>
    cases xs with
    | nil =>
      have : (got ++ [x]).length = need := by simp at hn ⊢; omega
      simp [feed, stepByte, this]
    | cons y ys =>
      have : (got ++ [x]).length ≠ need := by simp at hn ⊢; omega
      rw [feed_cons]
      simp only [stepByte, this, if_false]
      rw [ih (got ++ [x]) (by simp) (by simp at hn ⊢; omega)]
      simp

/-- a line without marker is delivered as is -/
def NoMarker (l : Bytes) : Prop := markerOf l = none

theorem feed_wire (f : Frame) (h10 : 10 ∉ f.1) (hm : f.2 = [] → NoMarker f.1) :
    feed {} (wire f) = ({}, [f]) := by
  obtain ⟨l, p⟩ := f
  unfold wire
  cases p with
  | nil =>
    simp only [List.isEmpty_nil, if_true]
    rw [feed_append]
    have := feed_line_bytes [] l h10
    simp only [List.nil_append] at this
    show (( feed (feed { buf := [], mode := .line } l).1 [10]).1, _) = _
    rw [this]
    have hm' : markerOf l = none := hm rfl
    simp [feed, stepByte, hm']
  | cons x xs =>
    simp only [List.isEmpty_cons, Bool.false_eq_true, if_false]
    have e : l ++ sMarker ++ natText (x :: xs).length ++ 10 :: (x :: xs)
        = (l ++ sMarker ++ natText (x :: xs).length) ++ ([10] ++ (x :: xs)) := by simp
    rw [e, feed_append]
    have h10' : 10 ∉ l ++ sMarker ++ natText (x :: xs).length := by
      intro hmem
      rcases List.mem_append.mp hmem with h | h
      · rcases List.mem_append.mp h with h | h
        · exact h10 h
        · revert h; decide
      · have := natText_digits _ 10 h; simp [isDigit] at this
    have := feed_line_bytes [] _ h10'
    simp only [List.nil_append] at this
    show ((feed (feed { buf := [], mode := .line } _).1 _).1, _) = _
    rw [this, feed_append]
    have hne : (x :: xs).length ≠ 0 := by simp
    have h1 : feed { buf := l ++ sMarker ++ natText (x :: xs).length, mode := .line } [10]
        = ({ buf := [], mode := .payload l (x :: xs).length [] }, []) := by
      rw [feed_cons]
      simp only [stepByte, if_true, markerOf_wire, hne, if_false, feed]
      simp
    rw [h1, feed_payload l [] (x :: xs) _ (by simp) (by simp)]
    simp

end MpfVerif.Bcp
