import MpfVerif.Lemmas.Light
import MpfVerif.Lemmas.BatchLight
/-! C09 (extension): hardware-fading channels, RGBW channel mapping, brightness/correction, batch grouping. -/
namespace MpfVerif.Light

theorem crun_maxFade (ops : List COp) : ∀ c : Chan, (crun c ops).maxFade = c.maxFade := by
  induction ops with
  | nil => intro c; rfl
  | cons o r ih =>
    intro c
    show (crun (cstep c o) r).maxFade = c.maxFade
    rw [ih]
    cases o with
    | set now m =>
      show (c.setFade now m).1.maxFade = c.maxFade
      unfold Chan.setFade
      cases m.tt with
      | none => rfl
      | some T => simp only; split <;> rfl
    | tick now iv =>
      show (match c.stepTask now iv with | some r => r.1 | none => c).maxFade = c.maxFade
      cases hr : c.stepTask now iv with
      | none => rfl
      | some r =>
        simp only
        unfold Chan.stepTask at hr
        split at hr
        · simp at hr
        · split at hr
          · simp only [Option.some.injEq] at hr; subst hr; rfl
          · simp only [Option.some.injEq] at hr; subst hr; rfl

/-- what one resumption of the stepping task hands to the hardware, for a channel satisfying the invariant -/
theorem stepTask_line (c : Chan) (now iv : Nat) (r : Chan × Nat × Nat × Bool) (h : ChanOK c)
    (hr : c.stepTask now iv = some r) :
    ∃ m T, c.cmd = some m ∧ m.tt = some T ∧ r.1.lastF ≤ 1000000 * c.maxFade ∧ r.1.lastB = (r.2.1, r.2.2.1) ∧
      (r.2.2.2 = false → now + c.maxFade < T ∧ r.1.lastF = 1000000 * c.maxFade ∧ r.2.2.1 = 255 * (T - m.st) ∧
        r.2.1 = lineNum m.sb m.st m.tb T (now + c.maxFade)) ∧
      (r.2.2.2 = true → T ≤ now + c.maxFade ∧ r.1.lastF = 1000000 * (T - now) ∧ (r.2.1, r.2.2.1) = (m.tb, 255) ∧
        r.1.tasks = []) := by
  obtain ⟨_, h⟩ := h
  unfold Chan.stepTask at hr
  split at hr
  · simp at hr
  · rename_i t hfd
    have hmem := firstDue_mem _ _ _ hfd
    rcases h with h | ⟨t0, ht0, hc, hcmd⟩
    · rw [h] at hmem; simp at hmem
    · rw [ht0] at hmem
      simp only [List.mem_singleton] at hmem
      subst hmem
      refine ⟨_, t.tt, hcmd, rfl, ?_⟩
      split at hr
      · rename_i hlt
        simp only [Option.some.injEq] at hr
        subst hr
        exact ⟨Nat.le_refl _, rfl, fun _ => ⟨hlt, rfl, rfl, rfl⟩, fun hh => by simp at hh⟩
      · rename_i hge
        simp only [Option.some.injEq] at hr
        subst hr
        refine ⟨by simp only; omega, rfl, fun hh => by simp at hh, fun _ => ⟨by omega, rfl, rfl, ?_⟩⟩
        simp [ht0]

theorem clampI_le (x : Int) (hi : Nat) : clampI x hi ≤ hi := by
  unfold clampI
  split
  · omega
  · split <;> omega

/-! ### RGBW, brightness -/

theorem gammaC_le (q : Nat) (hq : q ≤ 4) (c : RGB) :
    (gammaC q c).1 ≤ c.1 ∧ (gammaC q c).2.1 ≤ c.2.1 ∧ (gammaC q c).2.2 ≤ c.2.2 := by
  unfold gammaC
  split
  · exact ⟨Nat.le_refl _, Nat.le_refl _, Nat.le_refl _⟩
  · have key : ∀ x : Nat, x * q / 4 ≤ x := fun x =>
      Nat.le_trans (Nat.div_le_div_right (Nat.mul_le_mul_left x hq)) (by omega)
    exact ⟨key _, key _, key _⟩

theorem gammaC_mono (q : Nat) (x y : RGB) :
    (x.1 ≤ y.1 → (gammaC q x).1 ≤ (gammaC q y).1) ∧ (x.2.1 ≤ y.2.1 → (gammaC q x).2.1 ≤ (gammaC q y).2.1) ∧
    (x.2.2 ≤ y.2.2 → (gammaC q x).2.2 ≤ (gammaC q y).2.2) := by
  unfold gammaC
  split
  · exact ⟨id, id, id⟩
  · refine ⟨fun h => ?_, fun h => ?_, fun h => ?_⟩ <;> simp only <;>
      exact Nat.div_le_div_right (Nat.mul_le_mul_right _ h)

end MpfVerif.Light

namespace MpfVerif.Batch

/-- reversed list of successive channel numbers (newest first) -/
def SeqRev : List (Nat × Nat) → Prop
  | [] => True
  | [_] => True
  | a :: b :: r => a.1 = b.1 + 1 ∧ SeqRev (b :: r)

theorem group_flatten (mb tol : Nat) : ∀ (xs cur : List (Nat × Nat)) (c : Nat),
    (group mb tol xs cur c).flatten = cur.reverse ++ xs := by
  intro xs
  induction xs with
  | nil =>
    intro cur c
    cases cur with
    | nil => simp [group]
    | cons y cur => simp [group]
  | cons x r ih =>
    intro cur c
    cases cur with
    | nil => rw [group, ih]; simp
    | cons y cur =>
      rw [group]
      split
      · rw [ih]; simp
      · rw [List.flatten_cons, ih]; simp

theorem group_bounds (mb tol : Nat) : ∀ (xs cur : List (Nat × Nat)) (c : Nat),
    SeqRev cur → cur.length ≤ max mb 1 →
    ∀ g ∈ group mb tol xs cur c, g ≠ [] ∧ g.length ≤ max mb 1 ∧ SeqRev g.reverse := by
  intro xs
  induction xs with
  | nil =>
    intro cur c hs hl g hg
    cases cur with
    | nil => simp [group] at hg
    | cons y cur =>
      simp only [group, List.mem_singleton] at hg
      subst hg
      refine ⟨by simp, by simpa using hl, by rw [List.reverse_reverse]; exact hs⟩
  | cons x r ih =>
    intro cur c hs hl g hg
    cases cur with
    | nil =>
      rw [group] at hg
      exact ih [x] x.2 trivial (by simp; omega) g hg
    | cons y cur =>
      rw [group] at hg
      split at hg
      · rename_i hc
        refine ih (x :: y :: cur) c ⟨hc.1, hs⟩ ?_ g hg
        have := hc.2.2
        simp only [List.length_cons] at this ⊢
        omega
      · rcases List.mem_cons.mp hg with hg | hg
        · subst hg
          refine ⟨by simp, by simpa using hl, by rw [List.reverse_reverse]; exact hs⟩
        · exact ih [x] x.2 trivial (by simp; omega) g hg

theorem fadeAt_le (f : Fade) (now m : Nat) : fadeAt f now m ≤ m := by
  unfold fadeAt
  split
  · split <;> omega
  · omega

end MpfVerif.Batch

namespace MpfVerif.Batch

/-- bookkeeping of one round of the sender: what was handed to the callback (plus the open list) is, in order, exactly
the lights queued in this round; these are the lights of the taken dirty set processed so far that were not skipped; the
taken set has no duplicates (it is strictly ascending) -/
def R (s : BSt) : Prop :=
  (s.roundSent.flatten ++ s.acc).map (·.1) = s.roundComp.map (·.1) ∧
  s.roundDone.map (·.1) ++ s.pending = s.taken ∧
  s.roundComp.map (·.1) = (s.roundDone.filter (fun x => !x.2)).map (·.1) ∧
  s.dirty.Pairwise (· < ·) ∧ s.taken.Pairwise (· < ·)

theorem insertSet_sorted (l : Nat) (d : List Nat) (h : d.Pairwise (· < ·)) : (insertSet l d).Pairwise (· < ·) := by
  induction d with
  | nil => simp [insertSet]
  | cons x r ih =>
    rw [List.pairwise_cons] at h
    unfold insertSet
    split
    · exact List.pairwise_cons.mpr h
    · split
      · rename_i _ hlt
        refine List.pairwise_cons.mpr ⟨?_, List.pairwise_cons.mpr h⟩
        intro y hy
        rcases List.mem_cons.mp hy with rfl | hy
        · exact hlt
        · exact Nat.lt_trans hlt (h.1 y hy)
      · rename_i hne hnlt
        refine List.pairwise_cons.mpr ⟨?_, ih h.2⟩
        intro y hy
        rcases (mem_insertSet _ _ _).mp hy with rfl | hy
        · omega
        · exact h.1 y hy

theorem foldl_insert_sorted (es : List (Nat × Nat)) : ∀ d0 : List Nat, d0.Pairwise (· < ·) →
    (es.foldl (fun d e => insertSet e.2 d) d0).Pairwise (· < ·) := by
  induction es with
  | nil => intro d0 h; exact h
  | cons e r ih => intro d0 h; exact ih _ (insertSet_sorted _ _ h)

theorem take_R (s : BSt) (h : R s) : R (take s) := by
  unfold take
  split
  · rename_i hc
    obtain ⟨_, _, _, h4, _⟩ := h
    refine ⟨by simp [hc.2.1], by simp, by simp, List.Pairwise.nil, h4⟩
  · exact h

theorem compute_R (s0 : BSt) (l0 : Nat) (r : BSt × CRes) (h0 : R s0) (hr : compute s0 l0 = some r) : R r.1 := by
  unfold compute at hr
  split at hr
  · simp at hr
  · have h := take_R s0 h0
    generalize take s0 = s at hr h
    obtain ⟨h1, h2, h3, h4, h5⟩ := h
    simp only at hr
    split at hr
    · simp at hr
    · rename_i x rest hp
      split at hr
      · simp at hr
      · rename_i hx
        have hx' : x = l0 := by simpa using hx
        subst hx'
        rw [hp] at h2
        have q1 : ∀ b : B, ((s.roundSent.flatten ++ (s.acc ++ [(x, b)])).map (·.1)) =
            (s.roundComp ++ [(x, fdOf s x)]).map (·.1) := by
          intro b
          rw [← List.append_assoc, List.map_append, h1, List.map_append]
          rfl
        have q2 : ∀ f : Bool, (s.roundDone ++ [(x, f)]).map (·.1) ++ rest = s.taken := by
          intro f
          rw [← h2]; simp
        have q3 : (s.roundComp ++ [(x, fdOf s x)]).map (·.1) =
            ((s.roundDone ++ [(x, false)]).filter (fun y => !y.2)).map (·.1) := by
          rw [List.filter_append, List.map_append, List.map_append, h3]; rfl
        have q3s : s.roundComp.map (·.1) = ((s.roundDone ++ [(x, true)]).filter (fun y => !y.2)).map (·.1) := by
          rw [List.filter_append, h3]; simp
        split at hr
        · split at hr
          · split at hr
            · simp only [Option.some.injEq] at hr; subst hr
              exact ⟨h1, q2 true, q3s, h4, h5⟩
            · simp only [Option.some.injEq] at hr; subst hr
              exact ⟨q1 _, q2 false, q3, h4, h5⟩
          · simp only [Option.some.injEq] at hr; subst hr
            exact ⟨q1 _, q2 false, q3, h4, h5⟩
        · simp only [Option.some.injEq] at hr; subst hr
          exact ⟨q1 _, q2 false, q3, h4, h5⟩

theorem step_R (s : BSt) (o : Op) (h : R s) : R (step s o) := by
  cases o with
  | adv t => exact h
  | mark l f => exact ⟨h.1, h.2.1, h.2.2.1, insertSet_sorted _ _ h.2.2.2.1, h.2.2.2.2⟩
  | schedfire => exact ⟨h.1, h.2.1, h.2.2.1, foldl_insert_sorted _ _ h.2.2.2.1, h.2.2.2.2⟩
  | compute l =>
    show R (match compute s l with | some r => r.1 | none => s)
    cases hr : compute s l with
    | none => exact h
    | some r => exact compute_R s l r h hr
  | flush =>
    show R ((flush s).getD s)
    cases hf : flush s with
    | none => exact h
    | some s' =>
      unfold flush at hf
      split at hf
      · simp at hf
      · simp only [Option.some.injEq] at hf; subst hf
        refine ⟨?_, h.2.1, h.2.2.1, h.2.2.2.1, h.2.2.2.2⟩
        simp only [Option.getD_some, List.flatten_append, List.flatten_cons, List.flatten_nil, List.append_nil]
        exact h.1
  | flushKeep =>
    show R ((flushKeep s).getD s)
    cases hf : flushKeep s with
    | none => exact h
    | some s' =>
      unfold flushKeep at hf
      split at hf
      · simp at hf
      · split at hf
        · rename_i x y r hrev
          simp only [Option.some.injEq] at hf; subst hf
          have hacc : s.acc = (y :: r).reverse ++ [x] := by
            have := congrArg List.reverse hrev
            rw [List.reverse_reverse] at this
            rw [this, List.reverse_cons]
          refine ⟨?_, h.2.1, h.2.2.1, h.2.2.2.1, h.2.2.2.2⟩
          simp only [Option.getD_some, List.flatten_append, List.flatten_cons, List.flatten_nil, List.append_nil]
          rw [List.append_assoc, ← hacc]
          exact h.1
        · simp at hf
  | delivered =>
    show R ((delivered s).getD s)
    cases hf : delivered s with
    | none => exact h
    | some s' =>
      unfold delivered at hf
      split at hf
      · simp only [Option.some.injEq] at hf; subst hf; exact h
      · simp at hf

theorem run_R (ops : List Op) : ∀ s, R s → R (run s ops) := by
  induction ops with
  | nil => intro s h; exact h
  | cons o r ih => intro s h; exact ih _ (step_R s o h)

theorem init_R : R ({} : BSt) := ⟨rfl, rfl, rfl, List.Pairwise.nil, List.Pairwise.nil⟩

end MpfVerif.Batch
