import MpfVerif.Lemmas.ShowKeyEvents
/-! C17: `replace_or_advance_show` — the keep / advance / replace decision for a repeated play (`KOp.playc`). -/
namespace MpfVerif.ShowKey
open MpfVerif.Show

/-- a deferred or immediate stop of a list of instances only names instances of that list -/
theorem stopFrom_below : ∀ (l : List Inst), Below l.length (stopFrom l).2 := by
  intro l
  induction l with
  | nil => intro x hx; simp [stopFrom] at hx
  | cons x rest ih =>
    unfold stopFrom
    split
    · intro y hy; simp at hy
    · split
      · exact below_append _ _ _ (below_mono _ _ (by simp) _ ih) (below_tag _ _ (by simp) _)
      · exact below_tag _ _ (by simp) _

/-- what the head instance itself emits when the list is stopped from it: its clean-up and its `stopped` event -/
theorem stopFrom_head_obs (x : Inst) (rest : List Inst) :
    ∀ o ∈ (stopFrom (x :: rest)).2, o.1 = rest.length → o.2 = Obs.clr ∨ o.2 = Obs.ev .stopped := by
  intro o ho hk
  unfold stopFrom at ho
  have hown : ∀ o ∈ tag rest.length (Show.stop x.rs).2, o.2 = Obs.clr ∨ o.2 = Obs.ev .stopped := by
    intro o ho
    simp only [tag, List.mem_map] at ho
    obtain ⟨b, hb, rfl⟩ := ho
    unfold Show.stop at hb
    split at hb
    · simp at hb
    · simp only [List.mem_append, List.mem_singleton] at hb
      rcases hb with hb | hb
      · split at hb
        · simp only [List.mem_singleton] at hb; exact Or.inl hb
        · simp at hb
      · exact Or.inr hb
  split at ho
  · simp at ho
  · split at ho
    · rcases List.mem_append.mp ho with h1 | h1
      · have := stopFrom_below rest o h1; omega
      · exact hown o h1
    · exact hown o ho

/-- a fresh instance played with `sync_ms` emits nothing at the play request -/
theorem fresh_sync_silent (durs : List Nat) (num den : Nat) (loops : Option Nat) (start : Int) (running manual : Bool)
    (sync t : Nat) (hs : sync ≠ 0) :
    (Show.step {} (.play durs num den loops start running manual sync t)).2 = [] := by
  simp only [Show.step]
  have hstop : stop (setNow ({} : RS) t) = (setNow {} t, []) := by unfold stop; simp [setNow]
  rw [hstop]
  simp [startPlay, hs]

theorem decision_pending (x : Inst) (cid num den : Nat) (loops : Option Nat) (manual : Bool) (sync : Nat) (start : Int)
    (hp : x.rs.pending = true) : decision x cid num den loops manual sync start = .replace := by
  unfold decision curIdx
  split
  · rfl
  · split
    · rfl
    · simp

/-- the decision is `keep` / `advance` only for a running instance with the very same config which has played a step -/
theorem decision_not_replace (x : Inst) (cid num den : Nat) (loops : Option Nat) (manual : Bool) (sync : Nat) (start : Int)
    (h : decision x cid num den loops manual sync start ≠ .replace) :
    x.rs.stopped = false ∧ x.rs.pending = false ∧ sameCfg x cid num den loops manual sync = true ∧
    ((decision x cid num den loops manual sync start = .keep ∧ x.rs.nextIdx = start) ∨
     (decision x cid num den loops manual sync start = .advance ∧ x.rs.nextIdx + 1 = start)) := by
  unfold decision curIdx at h ⊢
  cases hs : x.rs.stopped <;> cases hc : sameCfg x cid num den loops manual sync <;> cases hp : x.rs.pending <;>
    simp only [hs, hc, hp, Bool.false_eq_true, if_false, if_true, Bool.not_true, Bool.not_false, ne_eq, not_true_eq_false] at h ⊢
  by_cases h1 : x.rs.nextIdx - 1 + 1 = start
  · simp only [h1, if_true]
    exact ⟨trivial, trivial, trivial, Or.inl ⟨trivial, by omega⟩⟩
  · by_cases h2 : x.rs.nextIdx - 1 + 2 = start
    · simp only [h1, h2, if_true, if_false]
      exact ⟨trivial, trivial, trivial, Or.inr ⟨trivial, by omega⟩⟩
    · rw [if_neg h1, if_neg h2] at h; exact absurd rfl h

/-- `step` reads nothing of the key's state but its instances -/
theorem step_insts_congr (s s' : KS) (o : KOp) (h : s.insts = s'.insts) :
    (step s o).1.insts = (step s' o).1.insts ∧ (step s o).2 = (step s' o).2 := by
  obtain ⟨i, n⟩ := s
  obtain ⟨i', n'⟩ := s'
  simp only at h
  subst h
  cases o with
  | play durs num den loops start running manual sync t =>
    simp only [step, playNew]
    repeat' split
    all_goals exact ⟨rfl, rfl⟩
  | req op =>
    simp only [step, reqStep]
    split <;> exact ⟨rfl, rfl⟩
  | fire i t => exact ⟨rfl, rfl⟩
  | playc cid durs num den loops start running manual sync t =>
    simp only [step, playNew, reqStep]
    repeat' split
    all_goals exact ⟨rfl, rfl⟩

theorem run_insts_congr (ops : List KOp) : ∀ (s s' : KS), s.insts = s'.insts →
    (run s ops).1.insts = (run s' ops).1.insts ∧ (run s ops).2 = (run s' ops).2 := by
  induction ops with
  | nil => intro s s' h; exact ⟨h, rfl⟩
  | cons o r ih =>
    intro s s' h
    have h1 := step_insts_congr s s' o h
    have h2 := ih _ _ h1.1
    simp only [run]
    exact ⟨h2.1, by rw [h1.2, h2.2]⟩

end MpfVerif.ShowKey
