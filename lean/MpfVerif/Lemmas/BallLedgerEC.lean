import MpfVerif.Model.BallLedger
/-! Invariant of the entrance-switch counter model (`EC`, `ecStep`) - helper lemmas for `Props/C04.lean`. -/
namespace MpfVerif.BallLedger

/-- the static part of the counter never changes -/
theorem ecStep_static (e e' : EC) (op : ECOp) (h : ecStep e op = some e') :
    e'.cap = e.cap ∧ e'.fullTo = e.fullTo ∧ e'.node = e.node := by
  cases op with
  | hit ig => cases ig <;> simp only [ecStep] at h <;> (repeat' split at h) <;> cases h <;> exact ⟨rfl, rfl, rfl⟩
  | full => simp only [ecStep] at h; split at h <;> cases h <;> exact ⟨rfl, rfl, rfl⟩
  | left => simp only [ecStep] at h; split at h <;> first | (cases h; exact ⟨rfl, rfl, rfl⟩) | simp at h
  | release => simp only [ecStep] at h; split at h <;> cases h <;> exact ⟨rfl, rfl, rfl⟩

/-- induction invariant of the counter: the count is the balls counted in minus the balls counted out, it never exceeds the
capacity, and a hit that waits for the full time-out / the switch opening still fits -/
def ECInv (e : EC) : Prop :=
  e.last + e.ejects = e.entries ∧ e.last ≤ e.cap ∧ (e.pending = true → e.last + 1 ≤ e.cap ∧ e.fullTo = true)

theorem ecStep_inv (e e' : EC) (op : ECOp) (h : ecStep e op = some e') (hi : ECInv e) : ECInv e' := by
  obtain ⟨h1, h2, h3⟩ := hi
  cases op with
  | hit ig =>
    cases ig
    · simp only [ecStep] at h
      split at h
      · cases h; exact ⟨h1, h2, h3⟩
      · split at h
        · rename_i hnf hg
          simp only [Bool.and_eq_true, beq_iff_eq] at hg
          cases h
          exact ⟨h1, h2, fun _ => ⟨by simp only []; omega, hg.1⟩⟩
        · rename_i hnf hg
          cases h
          refine ⟨by simp only []; omega, by simp only []; omega, ?_⟩
          intro hp
          have := h3 hp
          simp only [Bool.and_eq_true, beq_iff_eq, not_and] at hg
          have hne := hg this.2
          exact ⟨by simp only []; omega, this.2⟩
    · simp only [ecStep] at h; cases h; exact ⟨h1, h2, h3⟩
  | full =>
    simp only [ecStep] at h
    split at h
    · cases h; exact ⟨by simp only []; omega, by simp only []; omega, by simp⟩
    · cases h; exact ⟨h1, h2, by simp⟩
  | left =>
    simp only [ecStep] at h
    split at h
    · cases h
      refine ⟨by simp only []; omega, by simp only []; omega, ?_⟩
      intro hp
      have := h3 hp
      exact ⟨by simp only []; omega, this.2⟩
    · simp at h
  | release =>
    simp only [ecStep] at h
    split at h
    · cases h; exact ⟨h1, h2, by simp⟩
    · cases h; exact ⟨h1, h2, h3⟩

theorem ecRun_inv (ops : List ECOp) (e e' : EC) (h : ecRun e ops = some e') (hi : ECInv e) : ECInv e' := by
  induction ops generalizing e with
  | nil => simp [ecRun] at h; subst h; exact hi
  | cons op rest ih =>
    simp only [ecRun] at h
    cases hs : ecStep e op with
    | none => simp [hs] at h
    | some e1 => simp only [hs] at h; exact ih e1 h (ecStep_inv e e1 op hs hi)

theorem ecRun_cap (ops : List ECOp) (e0 e1 : EC) (h : ecRun e0 ops = some e1) : e1.cap = e0.cap := by
  induction ops generalizing e0 with
  | nil => simp [ecRun] at h; subst h; rfl
  | cons op rest ih =>
    simp only [ecRun] at h
    cases hs : ecStep e0 op with
    | none => simp [hs] at h
    | some e2 => simp only [hs] at h; rw [ih e2 h, (ecStep_static e0 e2 op hs).1]

end MpfVerif.BallLedger
