import MpfVerif.Lemmas.DriverCmds
/-! Lemmas about the two software timers of `Model/Driver.lean` (`timed_disable`, `enable_limit_reached`). -/
namespace MpfVerif.C08
open MpfVerif.Py MpfVerif.Driver

/-- what `doOp` establishes and `fireDue` needs: a software-timed pulse that is on has its timer registered -/
def Pre (s : Driver.St) : Prop := s.softOn = true → s.timedDisable.isSome = true

/-- after a harness step: the switch-off timer of a software-timed pulse is pending, strictly in the future -/
def TimerInv (s : Driver.St) : Prop := s.softOn = true → ∃ d, s.timedDisable = some d ∧ s.now < d

theorem TimerInv.pre {s : Driver.St} (h : TimerInv s) : Pre s := by
  intro hs; obtain ⟨d, hd, _⟩ := h hs; simp [hd]

theorem fireDue_inv (s : Driver.St) (h : Pre s) : TimerInv (fireDue s).1 ∧ (fireDue s).1.now = s.now := by
  unfold fireDue TimerInv
  cases htd : s.timedDisable with
  | none =>
    have hso : s.softOn = false := by
      cases hs : s.softOn with
      | false => rfl
      | true => have := h hs; simp [htd] at this
    cases hl : s.limitDue with
    | none => simp [htd, hl, hso]
    | some l =>
      by_cases hc : l ≤ s.now <;> simp [htd, hl, hc, doDisable, hso]
  | some d =>
    by_cases hd : d ≤ s.now
    · simp only [htd, hd, if_true, doDisable]
      simp
    · cases hl : s.limitDue with
      | none =>
        simp only [htd, hd, if_false, hl]
        exact ⟨fun _ => ⟨d, by simp [htd], by omega⟩, trivial⟩
      | some l =>
        by_cases hc : l ≤ s.now
        · simp [htd, hd, hl, hc, doDisable]
        · simp only [htd, hd, if_false, hl, hc]
          exact ⟨fun _ => ⟨d, by simp [htd], by omega⟩, trivial⟩

theorem doTimedEnable_state (c : Ctx) (s s' : Driver.St) (te hp ms pw : PyVal) (cmds : List Cmd)
    (h : doTimedEnable c s te hp ms pw = .ok (s', cmds)) : s' = s := by
  simp only [doTimedEnable, bind, Except.bind] at h
  cases h1 : vPulseMs c ms with
  | error e => simp [h1] at h
  | ok a1 =>
    cases h2 : vPulsePower c pw with
    | error e => simp [h1, h2] at h
    | ok a2 =>
      cases h3 : vTimedMs c te with
      | error e => simp [h1, h2, h3] at h
      | ok a3 =>
        cases h4 : vHoldPower c hp with
        | error e => simp [h1, h2, h3, h4] at h
        | ok a4 =>
          simp only [h1, h2, h3, h4, pure, Except.pure, Except.ok.injEq, Prod.mk.injEq] at h
          exact h.1.symm

theorem pulseNow_pre (c : Ctx) (s s' : Driver.St) (pm pp : PyVal) (cmds : List Cmd) (hs : Pre s)
    (h : pulseNow c s pm pp = .ok (s', cmds)) : Pre s' ∧ s'.now = s.now := by
  unfold pulseNow at h
  split at h
  · rw [doTimedEnable_state c s s' _ _ _ _ cmds h]; exact ⟨hs, rfl⟩
  · simp only [bind, Except.bind] at h
    cases h1 : pyCmp "<" (.int 0) pm with
    | error e => simp [h1] at h
    | ok a =>
      cases h2 : pyCmp "<=" pm (c.env "max_pulse") with
      | error e => simp [h1, h2] at h
      | ok b =>
        simp only [h1, h2] at h
        split at h <;> simp only [pure, Except.pure, Except.ok.injEq, Prod.mk.injEq] at h
        · rw [← h.1]; exact ⟨hs, rfl⟩
        · rw [← h.1]; exact ⟨fun _ => rfl, rfl⟩

theorem doOp_pre (c : Ctx) (s s' : Driver.St) (op : Op) (cmds : List Cmd) (hs : Pre s)
    (h : doOp c s op = .ok (s', cmds)) : Pre s' ∧ s'.now = s.now := by
  cases op with
  | pulse ms pw =>
    simp only [doOp, bind, Except.bind] at h
    cases h1 : vPulseMs c ms with
    | error e => simp [h1] at h
    | ok pm =>
      cases h2 : vPulsePower c pw with
      | error e => simp [h1, h2] at h
      | ok pp =>
        simp only [h1, h2] at h
        exact pulseNow_pre c s s' _ _ cmds hs h
  | enable ms pw hp =>
    simp only [doOp, bind, Except.bind] at h
    cases h1 : vPulseMs c ms with
    | error e => simp [h1] at h
    | ok pm =>
      cases h2 : vPulsePower c pw with
      | error e => simp [h1, h2] at h
      | ok pp =>
        cases h3 : vHoldPower c hp with
        | error e => simp [h1, h2, h3] at h
        | ok hh =>
          cases h4 : pyCmp "==" hh (.flt 0) with
          | error e => simp [h1, h2, h3, h4] at h
          | ok z =>
            cases z with
            | true => simp [h1, h2, h3, h4, throw, throwThe, MonadExceptOf.throw] at h
            | false =>
              simp only [h1, h2, h3, h4, Bool.false_eq_true, if_false, pure, Except.pure, Except.ok.injEq,
                Prod.mk.injEq] at h
              rw [← h.1]
              split <;> exact ⟨fun hc => by simp at hc, rfl⟩
  | timedEnable te hp ms pw => rw [doTimedEnable_state c s s' _ _ _ _ cmds h]; exact ⟨hs, rfl⟩
  | disable =>
    simp only [doOp, doDisable, pure, Except.pure, Except.ok.injEq, Prod.mk.injEq] at h
    rw [← h.1]; exact ⟨fun hc => by simp at hc, rfl⟩
  | advance dt =>
    simp only [doOp, pure, Except.pure, Except.ok.injEq, Prod.mk.injEq] at h
    rw [← h.1]; exact ⟨hs, rfl⟩

end MpfVerif.C08

namespace MpfVerif.C08
open MpfVerif.Py MpfVerif.Driver

/-- number of registered software timers -/
def pending (s : Driver.St) : Nat := (if s.timedDisable.isSome then 1 else 0) + (if s.limitDue.isSome then 1 else 0)

theorem doDisable_fields (s : Driver.St) :
    (doDisable s).1.timedDisable = s.timedDisable ∧ (doDisable s).1.limitDue = none ∧ (doDisable s).1.now = s.now ∧
      (doDisable s).1.softOn = false := by simp [doDisable]

/-- firing at a time at which the earliest timer is due removes at least one timer and keeps `Pre` -/
theorem fireDue_pending (s : Driver.St) (d : Nat) (hn : nextDue s = some d) (hd : d ≤ s.now) :
    pending (fireDue s).1 < pending s := by
  unfold fireDue pending nextDue at *
  cases htd : s.timedDisable with
  | none =>
    cases hl : s.limitDue with
    | none => simp [htd, hl] at hn
    | some l =>
      simp only [htd, hl, Option.some.injEq] at hn
      subst hn
      simp [htd, hl, hd, doDisable]
  | some a =>
    cases hl : s.limitDue with
    | none =>
      simp only [htd, hl, Option.some.injEq] at hn
      subst hn
      simp [htd, hl, hd, doDisable]
    | some l =>
      simp only [htd, hl, Option.some.injEq] at hn
      by_cases ha : a ≤ s.now
      · simp [htd, hl, ha, doDisable]
      · have hl' : l ≤ s.now := by omega
        simp [htd, hl, ha, hl', doDisable]

theorem fireDue_pre (s : Driver.St) (h : Pre s) : Pre (fireDue s).1 := (fireDue_inv s h).1.pre

/-- running the clock to `target` with enough fuel re-establishes the invariant at `target` -/
theorem advanceTo_inv (fuel : Nat) (s : Driver.St) (target : Nat) (h : Pre s) (hf : pending s < fuel)
    (ht : s.now ≤ target) : TimerInv (advanceTo fuel s target).1 := by
  induction fuel generalizing s with
  | zero => omega
  | succ f ih =>
    unfold advanceTo
    cases hn : nextDue s with
    | none =>
      simp only []
      intro hs
      have := h hs
      unfold nextDue at hn
      cases htd : s.timedDisable <;> cases hl : s.limitDue <;> simp_all
    | some d =>
      simp only []
      by_cases hd : d ≤ target
      · simp only [hd, if_true]
        have hpre : Pre { s with now := max d s.now } := h
        have hlt := fireDue_pending { s with now := max d s.now } d (by simpa [nextDue] using hn) (by simp; omega)
        have hnow := (fireDue_inv { s with now := max d s.now } hpre).2
        have : pending { s with now := max d s.now } = pending s := rfl
        exact ih _ (fireDue_pre _ hpre) (by omega) (by rw [hnow]; simp; omega)
      · simp only [hd, if_false]
        intro hs
        have hsome := h hs
        unfold nextDue at hn
        cases htd : s.timedDisable with
        | none => simp [htd] at hsome
        | some a =>
          refine ⟨a, by simp [htd], ?_⟩
          cases hl : s.limitDue <;> simp [htd, hl] at hn <;> simp <;> omega

theorem pending_le_two (s : Driver.St) : pending s ≤ 2 := by unfold pending; split <;> split <;> omega

end MpfVerif.C08
