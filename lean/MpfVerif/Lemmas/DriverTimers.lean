import MpfVerif.Lemmas.DriverCmds
/-! Lemmas about the two software timers of `Model/Driver.lean` (`timed_disable`, `enable_limit_reached`). -/
namespace MpfVerif.C08
open MpfVerif.Py MpfVerif.Driver

/-- what `doOp` establishes and `fireDue` needs: a software-timed pulse that is on has its timer registered -/
def Pre (s : Driver.St) : Prop := s.softOn = true → s.timedDisable.isSome = true

/-- after a harness step: the switch-off timer of a software-timed pulse is pending, strictly in the future -/
def TimerInv (s : Driver.St) : Prop := s.softOn = true → ∃ d, s.timedDisable = some d ∧ s.now < d

theorem TimerInv.pre {s : Driver.St} (h : TimerInv s) : Pre s := by
  intro hs; obtain ⟨d, hd, _⟩ := h hs; simp [hd]

theorem fireDue_inv (s : Driver.St) (h : Pre s) : TimerInv (fireDue s).1 ∧ (fireDue s).1.now = s.now := by
  unfold fireDue TimerInv
  cases htd : s.timedDisable with
  | none =>
    have hso : s.softOn = false := by
      cases hs : s.softOn with
      | false => rfl
      | true => have := h hs; simp [htd] at this
    cases hl : s.limitDue with
    | none => simp [htd, hl, hso]
    | some l =>
      by_cases hc : l ≤ s.now <;> simp [htd, hl, hc, doDisable, hso]
  | some d =>
    by_cases hd : d ≤ s.now
    · simp only [htd, hd, if_true, doDisable]
      simp
    · cases hl : s.limitDue with
      | none =>
        simp only [htd, hd, if_false, hl]
        exact ⟨fun _ => ⟨d, by simp [htd], by omega⟩, trivial⟩
      | some l =>
        by_cases hc : l ≤ s.now
        · simp [htd, hd, hl, hc, doDisable]
        · simp only [htd, hd, if_false, hl, hc]
          exact ⟨fun _ => ⟨d, by simp [htd], by omega⟩, trivial⟩

theorem doTimedEnable_state (c : Ctx) (s s' : Driver.St) (te hp ms pw : PyVal) (cmds : List Cmd)
    (h : doTimedEnable c s te hp ms pw = .ok (s', cmds)) : s' = s := by
  simp only [doTimedEnable, bind, Except.bind] at h
  cases h1 : vPulseMs c ms with
  | error e => simp [h1] at h
  | ok a1 =>
    cases h2 : vPulsePower c pw with
    | error e => simp [h1, h2] at h
    | ok a2 =>
      cases h3 : vTimedMs c te with
      | error e => simp [h1, h2, h3] at h
      | ok a3 =>
        cases h4 : vHoldPower c hp with
        | error e => simp [h1, h2, h3, h4] at h
        | ok a4 =>
          simp only [h1, h2, h3, h4, pure, Except.pure, Except.ok.injEq, Prod.mk.injEq] at h
          exact h.1.symm

theorem pulseNow_pre (c : Ctx) (s s' : Driver.St) (pm pp : PyVal) (cmds : List Cmd) (hs : Pre s)
    (h : pulseNow c s pm pp = .ok (s', cmds)) : Pre s' ∧ s'.now = s.now := by
  unfold pulseNow at h
  split at h
  · rw [doTimedEnable_state c s s' _ _ _ _ cmds h]; exact ⟨hs, rfl⟩
  · simp only [bind, Except.bind] at h
    cases h1 : pyCmp "<" (.int 0) pm with
    | error e => simp [h1] at h
    | ok a =>
      cases h2 : pyCmp "<=" pm (c.env "max_pulse") with
      | error e => simp [h1, h2] at h
      | ok b =>
        simp only [h1, h2] at h
        split at h <;> simp only [pure, Except.pure, Except.ok.injEq, Prod.mk.injEq] at h
        · rw [← h.1]; exact ⟨hs, rfl⟩
        · rw [← h.1]; exact ⟨fun _ => rfl, rfl⟩

theorem doOp_pre (c : Ctx) (s s' : Driver.St) (op : Op) (cmds : List Cmd) (hs : Pre s)
    (h : doOp c s op = .ok (s', cmds)) : Pre s' ∧ s'.now = s.now := by
  cases op with
  | pulse ms pw =>
    simp only [doOp, bind, Except.bind] at h
    cases h1 : vPulseMs c ms with
    | error e => simp [h1] at h
    | ok pm =>
      cases h2 : vPulsePower c pw with
      | error e => simp [h1, h2] at h
      | ok pp =>
        simp only [h1, h2] at h
        exact pulseNow_pre c s s' _ _ cmds hs h
  | enable ms pw hp =>
    simp only [doOp, bind, Except.bind] at h
    cases h1 : vPulseMs c ms with
    | error e => simp [h1] at h
    | ok pm =>
      cases h2 : vPulsePower c pw with
      | error e => simp [h1, h2] at h
      | ok pp =>
        cases h3 : vHoldPower c hp with
        | error e => simp [h1, h2, h3] at h
        | ok hh =>
          cases h4 : pyCmp "==" hh (.flt 0) with
          | error e => simp [h1, h2, h3, h4] at h
          | ok z =>
            cases z with
            | true => simp [h1, h2, h3, h4, throw, throwThe, MonadExceptOf.throw] at h
            | false =>
              simp only [h1, h2, h3, h4, Bool.false_eq_true, if_false, pure, Except.pure, Except.ok.injEq,
                Prod.mk.injEq] at h
              rw [← h.1]
              split <;> exact ⟨fun hc => by simp at hc, rfl⟩
  | timedEnable te hp ms pw => rw [doTimedEnable_state c s s' _ _ _ _ cmds h]; exact ⟨hs, rfl⟩
  | disable =>
    simp only [doOp, doDisable, pure, Except.pure, Except.ok.injEq, Prod.mk.injEq] at h
    rw [← h.1]; exact ⟨fun hc => by simp at hc, rfl⟩
  | advance dt =>
    simp only [doOp, pure, Except.pure, Except.ok.injEq, Prod.mk.injEq] at h
    rw [← h.1]; exact ⟨hs, rfl⟩

end MpfVerif.C08
