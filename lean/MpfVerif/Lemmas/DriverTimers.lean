import MpfVerif.Lemmas.DriverCmds
/-! Lemmas about the timers of `Model/Driver.lean`: `timed_disable`, `enable_limit_reached` and the PSU-delayed calls. -/
namespace MpfVerif.C08
open MpfVerif.Py MpfVerif.Driver

/-- a software-timed pulse that is on has its timer registered -/
def Pre (s : Driver.St) : Prop := s.softOn = true → s.timedDisable.isSome = true

/-- a coil held on by `_enable_now` since `t` on a coil with `max_hold_duration` has its watchdog registered for
`t + max_hold_duration` -/
def LimitInv (c : Ctx) (s : Driver.St) : Prop :=
  (c.cfg "max_hold_duration").truthy = true →
    ∀ t, s.holdSince = some t → s.limitDue = some (t + secsToMs (c.cfg "max_hold_duration"))

/-- the watchdog only runs while the coil is held -/
def LimHold (s : Driver.St) : Prop := s.limitDue.isSome = true → s.holdSince.isSome = true

/-- the part of the invariant that does not mention the clock -/
def SInv (c : Ctx) (s : Driver.St) : Prop := Pre s ∧ LimitInv c s ∧ LimHold s

/-- no registered timer has been missed: every deadline is now or later -/
def NoOverdue (s : Driver.St) : Prop := ∀ d ∈ dues s, s.now ≤ d

/-- `s'` is `s` at the same instant with some timers removed and some added that are not in the past -/
def Grows (s s' : Driver.St) : Prop := s'.now = s.now ∧ ∀ d ∈ dues s', d ∈ dues s ∨ s.now ≤ d

/-- after a harness step: the switch-off timer of a software-timed pulse is pending and has not been missed -/
def TimerInv (s : Driver.St) : Prop := s.softOn = true → ∃ d, s.timedDisable = some d ∧ s.now ≤ d

theorem mem_dues (s : Driver.St) (d : Nat) :
    d ∈ dues s ↔ s.timedDisable = some d ∨ s.limitDue = some d ∨ ∃ p ∈ s.pend, p.due = d := by
  unfold dues
  simp only [List.mem_append, Option.mem_toList, List.mem_map, or_assoc]

theorem Grows.refl (s : Driver.St) : Grows s s := ⟨rfl, fun _ h => Or.inl h⟩

theorem Grows.trans {a b d : Driver.St} (h1 : Grows a b) (h2 : Grows b d) : Grows a d := by
  refine ⟨h2.1.trans h1.1, ?_⟩
  intro x hx
  rcases h2.2 x hx with h | h
  · exact h1.2 x h
  · right; rw [← h1.1]; exact h

theorem Grows.noOverdue {s s' : Driver.St} (h : Grows s s') (hs : NoOverdue s) : NoOverdue s' := by
  intro d hd
  rw [h.1]
  rcases h.2 d hd with h | h
  · exact hs d h
  · exact h

theorem timerInv_of (s : Driver.St) (h1 : Pre s) (h2 : NoOverdue s) : TimerInv s := by
  intro hs
  have := h1 hs
  cases htd : s.timedDisable with
  | none => simp [htd] at this
  | some d => exact ⟨d, rfl, h2 d ((mem_dues s d).2 (Or.inl htd))⟩

/-! ### the primitives -/

theorem doDisable_sinv (c : Ctx) (s : Driver.St) : SInv c (doDisable s).1 := by
  refine ⟨?_, ?_, ?_⟩ <;> simp [doDisable, Pre, LimitInv, LimHold]

theorem doDisable_grows (s : Driver.St) : Grows s (doDisable s).1 := by
  refine ⟨rfl, ?_⟩
  intro d hd
  left
  rw [mem_dues] at hd ⊢
  simp only [doDisable] at hd
  rcases hd with h | h | h
  · exact Or.inl h
  · simp at h
  · exact Or.inr (Or.inr h)

theorem dropTd_grows (s : Driver.St) : Grows s { s with timedDisable := none } := by
  refine ⟨rfl, ?_⟩
  intro d hd
  left
  rw [mem_dues] at hd ⊢
  rcases hd with h | h | h
  · simp at h
  · exact Or.inr (Or.inl h)
  · exact Or.inr (Or.inr h)

theorem dropLim_grows (s : Driver.St) : Grows s { s with limitDue := none } := by
  refine ⟨rfl, ?_⟩
  intro d hd
  left
  rw [mem_dues] at hd ⊢
  rcases hd with h | h | h
  · exact Or.inl h
  · simp at h
  · exact Or.inr (Or.inr h)

theorem dropPend_grows (s : Driver.St) (i : Nat) : Grows s { s with pend := s.pend.eraseIdx i } := by
  refine ⟨rfl, ?_⟩
  intro d hd
  left
  rw [mem_dues] at hd ⊢
  rcases hd with h | h | ⟨p, hp, h⟩
  · exact Or.inl h
  · exact Or.inr (Or.inl h)
  · exact Or.inr (Or.inr ⟨p, mem_eraseIdx hp, h⟩)

theorem addPend_grows (s : Driver.St) (p : Pend) (hp : s.now ≤ p.due) : Grows s { s with pend := s.pend ++ [p] } := by
  refine ⟨rfl, ?_⟩
  intro d hd
  rw [mem_dues] at hd
  rcases hd with h | h | ⟨q, hq, h⟩
  · exact Or.inl ((mem_dues s d).2 (Or.inl h))
  · exact Or.inl ((mem_dues s d).2 (Or.inr (Or.inl h)))
  · rcases mem_append_single hq with hq | rfl
    · exact Or.inl ((mem_dues s d).2 (Or.inr (Or.inr ⟨q, hq, h⟩)))
    · right; rw [← h]; exact hp

/-- `SInv` only reads the two named timers and the two ghosts -/
theorem SInv.congr {c : Ctx} {s s' : Driver.St} (h : SInv c s) (h1 : s'.softOn = s.softOn)
    (h2 : s'.timedDisable = s.timedDisable) (h3 : s'.limitDue = s.limitDue) (h4 : s'.holdSince = s.holdSince) :
    SInv c s' := by
  obtain ⟨a, b, d⟩ := h
  refine ⟨?_, ?_, ?_⟩
  · unfold Pre; rw [h1, h2]; exact a
  · unfold LimitInv; rw [h3, h4]; exact b
  · unfold LimHold; rw [h3, h4]; exact d

theorem doTimedEnable_state (c : Ctx) (s s' : Driver.St) (te hp ms pw : PyVal) (cmds : List Cmd)
    (h : doTimedEnable c s te hp ms pw = .ok (s', cmds)) : s' = s := by
  simp only [doTimedEnable, bind, Except.bind] at h
  cases h1 : vPulseMs c ms with
  | error e => simp [h1] at h
  | ok a1 =>
    cases h2 : vPulsePower c pw with
    | error e => simp [h1, h2] at h
    | ok a2 =>
      cases h3 : vTimedMs c te with
      | error e => simp [h1, h2, h3] at h
      | ok a3 =>
        cases h4 : vHoldPower c hp with
        | error e => simp [h1, h2, h3, h4] at h
        | ok a4 =>
          simp only [h1, h2, h3, h4, pure, Except.pure, Except.ok.injEq, Prod.mk.injEq] at h
          exact h.1.symm

/-- `_pulse_now` leaves the state alone or arms `timed_disable` (not in the past) and marks the software pulse -/
theorem pulseNow_state (c : Ctx) (s s' : Driver.St) (pm pp : PyVal) (cmds : List Cmd)
    (h : pulseNow c s pm pp = .ok (s', cmds)) :
    s' = s ∨ s' = { s with timedDisable := some (s.now + msOf pm), softOn := true } := by
  unfold pulseNow at h
  split at h
  · exact Or.inl (doTimedEnable_state c s s' _ _ _ _ cmds h)
  · simp only [bind, Except.bind] at h
    cases h1 : pyCmp "<" (.int 0) pm with
    | error e => simp [h1] at h
    | ok a =>
      cases h2 : pyCmp "<=" pm (c.env "max_pulse") with
      | error e => simp [h1, h2] at h
      | ok b =>
        simp only [h1, h2] at h
        split at h <;> simp only [pure, Except.pure, Except.ok.injEq, Prod.mk.injEq] at h
        · exact Or.inl h.1.symm
        · exact Or.inr h.1.symm

theorem armTd_grows (s : Driver.St) (k : Nat) : Grows s { s with timedDisable := some (s.now + k), softOn := true } := by
  refine ⟨rfl, ?_⟩
  intro d hd
  rw [mem_dues] at hd
  rcases hd with h | h | h
  · right; simp at h; omega
  · exact Or.inl ((mem_dues s d).2 (Or.inr (Or.inl h)))
  · exact Or.inl ((mem_dues s d).2 (Or.inr (Or.inr h)))

theorem armTd_sinv (c : Ctx) (s : Driver.St) (k : Nat) (h : SInv c s) :
    SInv c { s with timedDisable := some (s.now + k), softOn := true } :=
  ⟨fun _ => rfl, h.2.1, h.2.2⟩

theorem pulseNow_inv (c : Ctx) (s s' : Driver.St) (pm pp : PyVal) (cmds : List Cmd) (hs : SInv c s)
    (h : pulseNow c s pm pp = .ok (s', cmds)) : SInv c s' ∧ Grows s s' := by
  rcases pulseNow_state c s s' pm pp cmds h with rfl | rfl
  · exact ⟨hs, Grows.refl _⟩
  · exact ⟨armTd_sinv c s _ hs, armTd_grows s _⟩

theorem enableNow_inv (c : Ctx) (s : Driver.St) (pm pp h : PyVal) (hs : SInv c s) :
    SInv c (enableNow c s pm pp h).1 ∧ Grows s (enableNow c s pm pp h).1 := by
  obtain ⟨_, hl, hh⟩ := hs
  unfold enableNow
  by_cases hmd : (c.cfg "max_hold_duration").truthy = true
  · cases hlim : s.limitDue with
    | none =>
      have hhold : s.holdSince = none := by
        cases hx : s.holdSince with
        | none => rfl
        | some t => have := hl hmd t hx; simp [hlim] at this
      simp only [hmd, hlim, Option.isNone_none, Bool.and_self, if_true, hhold, Option.getD_none]
      refine ⟨⟨by simp [Pre], ?_, by simp [LimHold]⟩, rfl, ?_⟩
      · intro _ t ht; simp at ht; subst ht; rfl
      · intro d hd
        rw [mem_dues] at hd
        rcases hd with h | h | h
        · exact Or.inl ((mem_dues s d).2 (Or.inl h))
        · right; simp at h; omega
        · exact Or.inl ((mem_dues s d).2 (Or.inr (Or.inr h)))
    | some x =>
      simp only [hmd, hlim, Option.isNone_some, Bool.and_false, Bool.false_eq_true, if_false]
      have hsome : s.holdSince.isSome = true := hh (by simp [hlim])
      cases hx : s.holdSince with
      | none => simp [hx] at hsome
      | some t =>
        refine ⟨⟨by simp [Pre], ?_, by simp [LimHold]⟩, rfl, ?_⟩
        · intro _ t' ht'; simp at ht'; subst ht'; simpa [hlim] using hl hmd t hx
        · intro d hd
          left
          rw [mem_dues] at hd ⊢
          simpa [hlim] using hd
  · simp only [hmd, Bool.false_eq_true, Bool.false_and, if_false]
    refine ⟨⟨by simp [Pre], fun h => absurd h hmd, ?_⟩, rfl, ?_⟩
    · intro _; simp
    · intro d hd
      left
      rw [mem_dues] at hd ⊢
      exact hd

theorem fireTd_inv (c : Ctx) (s : Driver.St) (h : SInv c s) : SInv c (fireTd s).1 ∧ Grows s (fireTd s).1 := by
  unfold fireTd
  split
  · split
    · exact ⟨doDisable_sinv c _, (dropTd_grows s).trans (doDisable_grows _)⟩
    · exact ⟨h, Grows.refl _⟩
  · exact ⟨h, Grows.refl _⟩

theorem fireLim_inv (c : Ctx) (s : Driver.St) (h : SInv c s) : SInv c (fireLim s).1 ∧ Grows s (fireLim s).1 := by
  unfold fireLim
  split
  · split
    · exact ⟨doDisable_sinv c _, (dropLim_grows s).trans (doDisable_grows _)⟩
    · exact ⟨h, Grows.refl _⟩
  · exact ⟨h, Grows.refl _⟩

theorem fireDue_inv (c : Ctx) (s : Driver.St) (h : SInv c s) : SInv c (fireDue s).1 ∧ Grows s (fireDue s).1 := by
  unfold fireDue
  have h1 := fireTd_inv c s h
  have h2 := fireLim_inv c (fireTd s).1 h1.1
  exact ⟨h2.1, h1.2.trans h2.2⟩

theorem delay_ge (s : Driver.St) (v : PyVal) : s.now ≤ s.now + delayMs v := by omega

/-- a request keeps the invariant and only adds timers that are not in the past -/
theorem doOp_inv (c : Ctx) (s s' : Driver.St) (op : Op) (cmds : List Cmd) (hs : SInv c s)
    (h : doOp c s op = .ok (s', cmds)) : SInv c s' ∧ Grows s s' := by
  cases op with
  | pulse ms pw =>
    simp only [doOp, bind, Except.bind] at h
    cases h1 : vPulseMs c ms with
    | error e => simp [h1] at h
    | ok pm =>
      cases h2 : vPulsePower c pw with
      | error e => simp [h1, h2] at h
      | ok pp =>
        simp only [h1, h2] at h
        exact pulseNow_inv c s s' _ _ cmds hs h
  | pulseW ms pw mw w =>
    simp only [doOp, bind, Except.bind] at h
    cases h1 : vPulseMs c ms with
    | error e => simp [h1] at h
    | ok pm =>
      cases h2 : vPulsePower c pw with
      | error e => simp [h1, h2] at h
      | ok pp =>
        cases h3 : pyCmp ">" (waitOf mw w) (.int 0) with
        | error e => simp [h1, h2, h3] at h
        | ok b =>
          cases b with
          | true =>
            simp only [h1, h2, h3, if_true, pure, Except.pure, Except.ok.injEq, Prod.mk.injEq] at h
            obtain ⟨rfl, rfl⟩ := h
            exact ⟨hs.congr rfl rfl rfl rfl, addPend_grows s _ (delay_ge s _)⟩
          | false =>
            simp only [h1, h2, h3, Bool.false_eq_true, if_false] at h
            exact pulseNow_inv c s s' _ _ cmds hs h
  | enable ms pw hp =>
    simp only [doOp, bind, Except.bind] at h
    cases h1 : vPulseMs c ms with
    | error e => simp [h1] at h
    | ok pm =>
      cases h2 : vPulsePower c pw with
      | error e => simp [h1, h2] at h
      | ok pp =>
        cases h3 : vHoldPower c hp with
        | error e => simp [h1, h2, h3] at h
        | ok hh =>
          cases h4 : pyCmp "==" hh (.flt 0) with
          | error e => simp [h1, h2, h3, h4] at h
          | ok z =>
            cases z with
            | true => simp [h1, h2, h3, h4, throw, throwThe, MonadExceptOf.throw] at h
            | false =>
              simp only [h1, h2, h3, h4, Bool.false_eq_true, if_false, pure, Except.pure, Except.ok.injEq] at h
              have key := enableNow_inv c s pm pp hh hs
              rw [h] at key
              exact key
  | enableW ms pw hp mw w =>
    simp only [doOp, bind, Except.bind] at h
    cases h1 : vPulseMs c ms with
    | error e => simp [h1] at h
    | ok pm =>
      cases h2 : vPulsePower c pw with
      | error e => simp [h1, h2] at h
      | ok pp =>
        cases h3 : vHoldPower c hp with
        | error e => simp [h1, h2, h3] at h
        | ok hh =>
          cases h4 : pyCmp "==" hh (.flt 0) with
          | error e => simp [h1, h2, h3, h4] at h
          | ok z =>
            cases z with
            | true => simp [h1, h2, h3, h4, throw, throwThe, MonadExceptOf.throw] at h
            | false =>
              cases h5 : pyCmp ">" (waitOf mw w) (.int 0) with
              | error e => simp [h1, h2, h3, h4, h5] at h
              | ok b =>
                cases b with
                | true =>
                  simp only [h1, h2, h3, h4, h5, if_true, pure, Except.pure, Except.ok.injEq, Prod.mk.injEq,
                    Bool.false_eq_true, if_false] at h
                  obtain ⟨rfl, rfl⟩ := h
                  exact ⟨hs.congr rfl rfl rfl rfl, addPend_grows s _ (delay_ge s _)⟩
                | false =>
                  simp only [h1, h2, h3, h4, h5, Bool.false_eq_true, if_false, pure, Except.pure, Except.ok.injEq] at h
                  have key := enableNow_inv c s pm pp hh hs
                  rw [h] at key
                  exact key
  | timedEnable te hp ms pw => rw [doTimedEnable_state c s s' _ _ _ _ cmds h]; exact ⟨hs, Grows.refl _⟩
  | timedEnableW te hp ms pw mw => rw [doTimedEnable_state c s s' _ _ _ _ cmds h]; exact ⟨hs, Grows.refl _⟩
  | disable =>
    simp only [doOp, pure, Except.pure, Except.ok.injEq] at h
    have : s' = (doDisable s).1 := by rw [h]
    rw [this]
    exact ⟨doDisable_sinv c s, doDisable_grows s⟩
  | advance dt =>
    simp only [doOp, pure, Except.pure, Except.ok.injEq, Prod.mk.injEq] at h
    rw [← h.1]; exact ⟨hs, Grows.refl _⟩
  | fire w =>
    simp only [doOp, pure, Except.pure, Except.ok.injEq, Prod.mk.injEq] at h
    rw [← h.1]; exact ⟨hs, Grows.refl _⟩

theorem runPend_inv (c : Ctx) (s : Driver.St) (p : Pend) (hs : SInv c s) :
    SInv c (runPend c s p).1 ∧ Grows s (runPend c s p).1 := by
  cases p with
  | pulseNow d pm pp =>
    simp only [runPend]
    cases h : pulseNow c s pm pp with
    | error e => exact ⟨hs, Grows.refl _⟩
    | ok r => obtain ⟨s', cmds⟩ := r; exact pulseNow_inv c s s' pm pp cmds hs h
  | enableNow d pm pp h => exact enableNow_inv c s pm pp h hs

/-- running one timer keeps the invariant and only adds timers that are not in the past -/
theorem runTimer_inv (c : Ctx) (s : Driver.St) (w : Which) (hs : SInv c s) :
    SInv c (runTimer c s w).1 ∧ Grows s (runTimer c s w).1 := by
  cases w with
  | td => exact ⟨doDisable_sinv c _, (dropTd_grows s).trans (doDisable_grows _)⟩
  | lim => exact ⟨doDisable_sinv c _, (dropLim_grows s).trans (doDisable_grows _)⟩
  | pend i =>
    simp only [runTimer]
    cases hp : s.pend[i]? with
    | none => exact ⟨hs, Grows.refl _⟩
    | some p =>
      have h := runPend_inv c { s with pend := s.pend.eraseIdx i } p (hs.congr rfl rfl rfl rfl)
      exact ⟨h.1, (dropPend_grows s i).trans h.2⟩

/-! ### the clock -/

theorem listMin_le : ∀ (l : List Nat) (d : Nat), listMin l = some d → ∀ x ∈ l, d ≤ x
  | [], d, h => by simp [listMin] at h
  | a :: r, d, h => by
    intro x hx
    simp only [listMin] at h
    cases hr : listMin r with
    | none =>
      simp only [hr, Option.some.injEq] at h
      have : r = [] := by
        cases r with
        | nil => rfl
        | cons b t => simp only [listMin] at hr; split at hr <;> simp at hr
      subst this
      simp at hx; omega
    | some b =>
      simp only [hr, Option.some.injEq] at h
      rcases List.mem_cons.1 hx with rfl | hx
      · omega
      · have := listMin_le r b hr x hx; omega

theorem listMin_none : ∀ (l : List Nat), listMin l = none → l = []
  | [], _ => rfl
  | a :: r, h => by simp only [listMin] at h; split at h <;> simp at h

/-- moving the clock to the earliest deadline (or not at all) misses nothing -/
theorem jump_noOverdue (s : Driver.St) (d : Nat) (hn : nextDue s = some d) (hs : NoOverdue s) :
    NoOverdue { s with now := max d s.now } := by
  intro x hx
  have h1 : d ≤ x := listMin_le _ d hn x hx
  have h2 : s.now ≤ x := hs x hx
  simp only [Nat.max_le]; exact ⟨h1, h2⟩

/-- moving the clock to a target before the earliest deadline misses nothing -/
theorem rest_noOverdue (s : Driver.St) (target : Nat) (hs : NoOverdue s)
    (hn : nextDue s = none ∨ ∃ d, nextDue s = some d ∧ ¬ d ≤ target) :
    NoOverdue { s with now := max target s.now } := by
  intro x hx
  have h2 : s.now ≤ x := hs x hx
  rcases hn with hn | ⟨d, hn, hd⟩
  · have : dues s = [] := listMin_none _ hn
    have hx' : x ∈ dues s := hx
    rw [this] at hx'; simp at hx'
  · have h1 : d ≤ x := listMin_le _ d hn x hx
    simp only [Nat.max_le]; exact ⟨by omega, h2⟩

/-- running the clock keeps the invariant and never passes a timer without running it — with any amount of fuel -/
theorem advanceTo_inv (c : Ctx) (fuel : Nat) (s : Driver.St) (target : Nat) (hs : SInv c s) (hn : NoOverdue s) :
    SInv c (advanceTo c fuel s target).1 ∧ NoOverdue (advanceTo c fuel s target).1 := by
  induction fuel generalizing s with
  | zero => exact ⟨hs, hn⟩
  | succ f ih =>
    unfold advanceTo
    cases hd : nextDue s with
    | none => exact ⟨hs.congr rfl rfl rfl rfl, rest_noOverdue s target hn (Or.inl hd)⟩
    | some d =>
      simp only []
      by_cases hle : d ≤ target
      · simp only [hle, if_true]
        have h0 : NoOverdue { s with now := max d s.now } := jump_noOverdue s d hd hn
        have h1 := runTimer_inv c { s with now := max d s.now } (firstAt s d) (hs.congr rfl rfl rfl rfl)
        exact ih _ h1.1 (h1.2.noOverdue h0)
      · simp only [hle, if_false]
        exact ⟨hs.congr rfl rfl rfl rfl, rest_noOverdue s target hn (Or.inr ⟨d, hd, hle⟩)⟩

/-- an explicit `fire` keeps the invariant and misses nothing -/
theorem fire_inv (c : Ctx) (s s' : Driver.St) (w : Which) (o : List Cmd) (hs : SInv c s) (hn : NoOverdue s)
    (h : fire c s w = some (s', o)) : SInv c s' ∧ NoOverdue s' := by
  unfold fire at h
  cases hd : dueOf s w with
  | none => simp [hd] at h
  | some d =>
    simp only [hd] at h
    split at h
    · rename_i hmin
      simp only [Option.some.injEq] at h
      have h0 : NoOverdue { s with now := max d s.now } := jump_noOverdue s d hmin hn
      have h1 := runTimer_inv c { s with now := max d s.now } w (hs.congr rfl rfl rfl rfl)
      rw [h] at h1
      exact ⟨h1.1, h1.2.noOverdue h0⟩
    · simp at h

/-- one harness step keeps the invariant and misses no timer -/
theorem step_inv (c : Ctx) (s : Driver.St) (op : Op) (hs : SInv c s) (hn : NoOverdue s) :
    SInv c (step c s op).1 ∧ NoOverdue (step c s op).1 := by
  rcases step_cases c s op with ⟨dt, _, h⟩ | ⟨w, _, h⟩ | h
  · rw [h]; exact advanceTo_inv c _ s _ hs hn
  · rw [h]
    cases hf : fire c s w with
    | none => exact ⟨hs, hn⟩
    | some r => obtain ⟨s', o⟩ := r; exact fire_inv c s s' w o hs hn hf
  · rw [h]
    unfold reqStep
    cases hop : doOp c s op with
    | error e =>
      have h1 := fireDue_inv c s hs
      exact ⟨h1.1, h1.2.noOverdue hn⟩
    | ok r =>
      obtain ⟨s1, o1⟩ := r
      have h0 := doOp_inv c s s1 op o1 hs hop
      have h1 := fireDue_inv c s1 h0.1
      exact ⟨h1.1, h1.2.noOverdue (h0.2.noOverdue hn)⟩

end MpfVerif.C08
