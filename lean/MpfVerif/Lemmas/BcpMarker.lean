import MpfVerif.Lemmas.BcpReader
/-! An encoded scalar message never looks like it carries a payload marker (unless a parameter is named `bytes`). -/
namespace MpfVerif.Bcp

theorem splitLast_eq (pat l h t : Bytes) (hs : splitLast pat l = some (h, t)) : l = h ++ pat ++ t := by
  induction l generalizing h with
  | nil => simp [splitLast] at hs
  | cons b rest ih =>
    unfold splitLast at hs
    cases hr : splitLast pat rest with
    | some p =>
      obtain ⟨h', t'⟩ := p
      simp only [hr, Option.some.injEq, Prod.mk.injEq] at hs
      obtain ⟨rfl, rfl⟩ := hs
      rw [ih h' hr]; simp
    | none =>
      simp only [hr] at hs
      split at hs
      · rename_i hp
        simp only [Option.some.injEq, Prod.mk.injEq] at hs
        obtain ⟨rfl, rfl⟩ := hs
        obtain ⟨t, ht⟩ := List.isPrefixOf_iff_prefix.mp hp
        rw [← ht]; simp
      · cases hs

theorem splitAll_ne_nil (sep : Nat) (l : Bytes) : splitAll sep l ≠ [] := by
  induction l with
  | nil => simp [splitAll]
  | cons b r ih =>
    unfold splitAll
    split
    · simp
    · cases h : splitAll sep r with
      | nil => exact absurd h ih
      | cons x xs => simp

theorem splitAll_cons_ne (sep x : Nat) (l : Bytes) (hx : x ≠ sep) :
    splitAll sep (x :: l) = match splitAll sep l with
      | [] => [[x]]
      | h :: t => (x :: h) :: t := by
  rw [splitAll]; simp only [hx, if_false]; rfl

theorem splitAll_length_cons (sep x : Nat) (l : Bytes) (hx : x ≠ sep) :
    (splitAll sep (x :: l)).length = (splitAll sep l).length := by
  rw [splitAll_cons_ne sep x l hx]
  cases h : splitAll sep l with
  | nil => exact absurd h (splitAll_ne_nil _ _)
  | cons y ys => simp

theorem splitAll_two (sep : Nat) (a b : Bytes) : 2 ≤ (splitAll sep (a ++ sep :: b)).length := by
  induction a with
  | nil =>
    simp only [List.nil_append, splitAll, if_true, List.length_cons]
    have := splitAll_ne_nil sep b
    cases h : splitAll sep b with
    | nil => exact absurd h this
    | cons y ys => simp
  | cons x xs ih =>
    simp only [List.cons_append]
    by_cases hx : x = sep
    · subst hx
      simp only [splitAll, if_true, List.length_cons]
      omega
    · rw [splitAll_length_cons sep x _ hx]; exact ih

/-- the segment after the last separator -/
theorem splitAll_last (sep : Nat) (a b : Bytes) (hb : sep ∉ b) :
    (splitAll sep (a ++ sep :: b)).getLast? = some b := by
  induction a with
  | nil =>
    simp only [List.nil_append, splitAll, if_true, splitAll_single sep b hb]
    simp
  | cons x xs ih =>
    simp only [List.cons_append]
    have h2 := splitAll_two sep xs b
    by_cases hx : x = sep
    · subst hx
      rw [splitAll]; simp only [if_true]
      rw [List.getLast?_cons_of_ne_nil (splitAll_ne_nil _ _)]; exact ih
    · rw [splitAll_cons_ne sep x _ hx]
      cases h : splitAll sep (xs ++ sep :: b) with
      | nil => exact absurd h (splitAll_ne_nil _ _)
      | cons y ys =>
        rw [h] at ih h2
        cases ys with
        | nil => simp at h2
        | cons z zs => simpa using ih

/-- the segments of an encoded line: the first carries the command, the others are the encoded pairs -/
theorem splitAll_prefix (sep : Nat) (a l : Bytes) (ha : sep ∉ a) :
    splitAll sep (a ++ l) = match splitAll sep l with
      | [] => [a]
      | y :: ys => (a ++ y) :: ys := by
  induction a with
  | nil => cases h : splitAll sep l <;> simp [h]; exact absurd h (splitAll_ne_nil _ _)
  | cons x xs ih =>
    have hx : x ≠ sep := fun he => ha (by rw [he]; exact List.mem_cons_self)
    simp only [List.cons_append]
    rw [splitAll_cons_ne sep x _ hx, ih (fun hm => ha (List.mem_cons_of_mem _ hm))]
    cases h : splitAll sep l with
    | nil => exact absurd h (splitAll_ne_nil _ _)
    | cons y ys => simp

def sBytes : Bytes := [98, 121, 116, 101, 115]   -- "bytes"

theorem digitsVal_some_digits (a : Nat) (t : Bytes) (n : Nat) (h : digitsVal a t = some n) : ∀ b ∈ t, isDigit b = true := by
  induction t generalizing a with
  | nil => simp
  | cons x xs ih =>
    unfold digitsVal at h
    split at h
    · rename_i hx
      intro b hb
      rcases List.mem_cons.mp hb with rfl | hb
      · exact hx
      · exact ih _ h b hb
    · cases h

/-- the last `&`-separated segment of an encoded line with parameters is the last encoded pair,
or (one parameter) the command, `?` and that pair -/
theorem last_segment (cmd : Bytes) (kv : Bytes × Val) (r : List (Bytes × Val)) (hc : ∀ c ∈ cmd, c ≠ 38 ∧ c ≠ 63)
    (hwf : KwWF (kv :: r)) :
    (splitAll 38 (cmd ++ 63 :: joinAmp ((kv :: r).map encodePair))).getLast? =
      some (if r = [] then cmd ++ 63 :: encodePair kv else encodePair ((kv :: r).getLast (by simp))) := by
  have hps : ∀ p ∈ (kv :: r).map encodePair, 38 ∉ p := by
    intro p hp
    obtain ⟨x, hx, rfl⟩ := List.mem_map.mp hp
    exact encodePair_no_amp x (hwf.1 x hx).1 (hwf.1 x hx).2
  have e : cmd ++ 63 :: joinAmp ((kv :: r).map encodePair) = (cmd ++ [63]) ++ joinAmp ((kv :: r).map encodePair) := by simp
  rw [e, splitAll_prefix 38 (cmd ++ [63]) _ (by
    intro hm
    rcases List.mem_append.mp hm with h | h
    · exact (hc 38 h).1 rfl
    · simp at h), splitAll_joinAmp _ (by simp) hps]
  simp only [List.map_cons]
  cases r with
  | nil => simp
  | cons y ys =>
    simp only [List.map_cons, reduceCtorEq, if_false]
    rw [List.getLast?_cons_cons]
    have : (encodePair y :: List.map encodePair ys) = (y :: ys).map encodePair := by simp
    rw [this, List.getLast?_map, List.getLast?_eq_getLast (l := y :: ys) (by simp)]
    simp

/-- **no accidental payload marker**: an encoded scalar message whose parameters are not named `bytes` is never taken
for a line with an attached payload -/
theorem encoded_no_marker (cmd : Bytes) (kw : List (Bytes × Val)) (hc : ∀ c ∈ cmd, c ≠ 38 ∧ c ≠ 63) (hwf : KwWF kw)
    (hb : ∀ kv ∈ kw, kv.1 ≠ sBytes) : markerOf (encodeFlat cmd kw) = none := by
  unfold markerOf
  cases hs : splitLast sMarker (encodeFlat cmd kw) with
  | none => rfl
  | some p =>
    obtain ⟨h, t⟩ := p
    simp only []
    by_cases hte : t.isEmpty = true
    · simp [hte]
    · simp only [hte, if_false, Bool.false_eq_true]
      cases hd : digitsVal 0 t with
      | none => rfl
      | some n =>
        exfalso
        have hL := splitLast_eq _ _ _ _ hs
        have hdig := digitsVal_some_digits 0 t n hd
        have h38 : (38 : Nat) ∉ [98, 121, 116, 101, 115, 61] ++ t := by
          intro hm
          rcases List.mem_append.mp hm with hm | hm
          · revert hm; decide
          · have := hdig 38 hm; simp [isDigit] at this
        have hlast : (splitAll 38 (encodeFlat cmd kw)).getLast? = some ([98, 121, 116, 101, 115, 61] ++ t) := by
          rw [hL]
          have : h ++ sMarker ++ t = h ++ 38 :: ([98, 121, 116, 101, 115, 61] ++ t) := by simp [sMarker]
          rw [this]
          exact splitAll_last 38 h _ h38
        unfold encodeFlat at hlast hL
        cases kw with
        | nil =>
          simp only [List.isEmpty_nil, if_true] at hL
          have : (38 : Nat) ∈ cmd := by rw [hL]; simp [sMarker]
          exact (hc 38 this).1 rfl
        | cons kv r =>
          simp only [List.isEmpty_cons, Bool.false_eq_true, if_false] at hlast
          rw [last_segment cmd kv r hc hwf] at hlast
          simp only [Option.some.injEq] at hlast
          split at hlast
          · -- one parameter: the segment contains `?`
            have : (63 : Nat) ∈ [98, 121, 116, 101, 115, 61] ++ t := by rw [← hlast]; simp
            rcases List.mem_append.mp this with hm | hm
            · revert hm; decide
            · have := hdig 63 hm; simp [isDigit] at this
          · -- several: the last pair would be `bytes=<digits>`
            have hmem : (kv :: r).getLast (by simp) ∈ kv :: r := List.getLast_mem _
            generalize (kv :: r).getLast (by simp) = last at hlast hmem
            obtain ⟨k, v⟩ := last
            have hk : ∀ b ∈ k, b < 256 := (hwf.1 (k, v) hmem).1
            have h61 : 61 ∉ quote k := fun hq => (QChar_ne (quote_chars k hk 61 hq)).2.2.2.1 rfl
            have e1 : splitFirst 61 (encodePair (k, v)) = (quote k, some (encodeValue v)) := by
              unfold encodePair; exact splitFirst_append 61 _ _ h61
            have e2 : splitFirst 61 ([98, 121, 116, 101, 115, 61] ++ t) = (sBytes, some t) :=
              splitFirst_append 61 sBytes t (by decide)
            rw [hlast, e2] at e1
            have hq : quote k = sBytes := (Prod.mk.inj e1).1.symm
            have hu := unquote_quote k hk
            rw [hq] at hu
            have hu2 : unquote sBytes = sBytes := by decide
            exact hb (k, v) hmem (by rw [← hu]; exact hu2)

end MpfVerif.Bcp
