import MpfVerif.Lemmas.RulesCoils
/-!
# C10: the rows of the platform table as written (`effTable`): the owner of a row is unique, so its sampled power setting is found
-/
namespace MpfVerif.Rules

/-- with pairwise distinct rule keys the enabled owner of a row is unique, so `ownerFactor` finds its sampled setting -/
theorem ownerFactor_eq {c : Cfg} (hw : WF c) (s : St) (i : Nat) (hi : i < c.n) (hen : (s.devs i).enabled = true)
    (e : Entry) (he : e ∈ entriesOf (c.dev i)) :
    ∀ m, i < m → m ≤ c.n → ownerFactor c s e m = (s.devs i).factor := by
  intro m
  induction m with
  | zero => intro h; omega
  | succ j ih =>
    intro him hm
    simp only [ownerFactor]
    split
    · rename_i hc
      simp only [Bool.and_eq_true, List.contains_iff_mem] at hc
      by_cases hji : j = i
      · subst hji; rfl
      · exact absurd rfl (hw.apart j i (by omega) hi hji e hc.2 e he)
    · rename_i hc
      have hne : i ≠ j := by
        intro h; subst h
        apply hc
        simp [hen, he]
      exact ih (by omega) (by omega)

theorem mem_effTable {c : Cfg} {s : St} (r : Entry) :
    r ∈ effTable c s ↔ ∃ e ∈ s.table, r = scaleEntry (ownerFactor c s e c.n) e := by
  simp only [effTable, List.mem_map]
  constructor
  · rintro ⟨e, he, rfl⟩; exact ⟨e, he, rfl⟩
  · rintro ⟨e, he, rfl⟩; exact ⟨e, he, rfl⟩

end MpfVerif.Rules

